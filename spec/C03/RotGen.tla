------------------------------- MODULE RotGen -------------------------------
(* GEN + MC form of C03.  One run, four modes (initial states):                                       *)
(*   "case"  : the abstract case space of Compute - key-set shapes x orders x used index x encodings  *)
(*             x tool paths (a structure sweep with the canonical encoding of each path, an encoding  *)
(*             sweep with uniform and mixed encoding vectors, plus the sampled cases the harness      *)
(*             passes in EXTRA_CASES); the lemmas below are checked on every case, and every case is  *)
(*             emitted TOGETHER WITH ITS TERM (the spec, not the harness, says what is expected)      *)
(*   "cb21"  : histories Build21 ; {Export21, Parse21, SetUserData, SetConstraints}*                  *)
(*   "cb1"   : histories Build1  ; {Export1, Parse1, SetImageLength}*                                 *)
(*   "files" : key files are written, read by path, REWRITTEN, read by path again (one process)       *)
(*   "dev"   : the device sweep - EVERY (family, revision) of the device table, the name "latest"      *)
(*             included, through every entry point that is given a device (ComputeFor); the RoT type  *)
(*             of the case is the one the table gives for that revision                               *)
(*   "tab"   : CONSTRUCTION HISTORIES of one table object - per scenario (builder flavour, how the      *)
(*             object came to exist, n target keys, which slot is written twice and with what first)   *)
(*             EVERY order of the writes: all orders of filling 1..4 slots by index, every single      *)
(*             replacement at every position, append / replace / clear-and-refill for the list-like    *)
(*             builders; the value expected at the end (and wherever the contents are a key list on    *)
(*             the way, "peek") is the documented construction over what the slots hold then           *)
(*             CHANGE histories (scen.chg > 0): a table that is complete AND WAS READ is changed in      *)
(*             place - an entry replaced (by index / in the record list), the key of a record replaced,  *)
(*             the CA flag of one / of all records changed - EVERY sequence of scen.chg such changes,    *)
(*             and the value is read after EVERY step (every table kind, every way the object came to    *)
(*             exist, the table held by the front end Rot(family, keys) included)                        *)
EXTENDS Rot, Json, IOUtils
VARIABLES mode, scen, hist, done, nchg          \* nchg: in-place changes made so far (change histories of mode "tab")
gvars == <<mode, scen, hist, done, nchg>>
Depth == atoi(IOEnv.GEN_DEPTH)
Full  == IOEnv.MENU = "full"
Want(m) == IOEnv.GEN_MODE = "all" \/ IOEnv.GEN_MODE = m
Extra == IF IOEnv.EXTRA_CASES = "none" THEN <<>> ELSE ndJsonDeserialize(IOEnv.EXTRA_CASES)

\* ---------------------------------------------------------------- menus
ClsOf(rot) == CASE rot = "cert_block_1" -> RsaClasses [] rot = "cert_block_21" -> {"p256", "p384"}
                [] rot = "srk_table_ahab_v2" -> EccClasses [] OTHER -> Classes
NOf(rot)   == IF rot \in {"srk_table_ahab", "srk_table_ahab_v2"} THEN {4} ELSE 1..4
\* pool positions: ECC 1 = r0, 2 = lzx (X has a leading zero byte), 3 = lzy, 4 = r1;  RSA 1..4 = r0..r3
Sel(n)     == {s \in [1..n -> 1..4] : \A i, j \in 1..n : i # j => s[i] # s[j]}
FewSel(n)  == {s \in Sel(n) : \/ s = [i \in 1..n |-> i] \/ s = [i \in 1..n |-> n + 1 - i]
                              \/ s = [i \in 1..n |-> (i % 4) + 1] \/ s = [i \in 1..n |-> 5 - i]}
Sels(n)    == IF Full THEN Sel(n) ELSE FewSel(n)
Mixed1     == {<<Key("rsa2048", 1), Key("rsa4096", 1)>>, <<Key("rsa4096", 2), Key("rsa3072", 1), Key("rsa2048", 2)>>,
               <<Key("rsa3072", 2), Key("rsa2048", 3), Key("rsa4096", 3), Key("rsa2048", 4)>>, <<Key("rsa4096", 4), Key("rsa2048", 1)>>}
Lists(rot) == (UNION {{[i \in 1..n |-> Key(c, s[i])] : s \in Sels(n)} : c \in ClsOf(rot), n \in NOf(rot)})
              \cup (IF rot = "cert_block_1" THEN Mixed1 ELSE {})
DefaultEnc(rot, path) ==
  IF rot = "srk_table_hab" THEN (CASE path = "rot" -> Enc("path", "ca.der") [] path = "cli" -> Enc("path", "ca.pem") [] path = "rot_table" -> Enc("bytes", "ca.pem")
                                      [] OTHER -> Enc("obj", "ca"))
  ELSE CASE path \in {"rkht", "rkht_parse", "rot", "pfr", "srk", "srk_parse", "rot_table", "keyhash"} -> Enc("obj", "pub")
         [] path \in {"cli", "dc", "dc_parse", "srk_cfg"} -> Enc("path", "pub.pem")
         [] path \in {"certblock", "certblock_parse", "certblock_fuses"} -> IF rot = "cert_block_1" THEN Enc("obj", "crt") ELSE Enc("obj", "pub")
         [] path = "certblock_cfg" -> IF rot = "cert_block_1" THEN Enc("path", "crt.der") ELSE Enc("path", "pub.pem")
UsedMenu(path, n) == IF UsesUsed(path) THEN 1..n ELSE {0}
Case(rot, ks, encs, path, used) == [rot |-> rot, keys |-> ks, encs |-> encs, path |-> path, used |-> used]
\* (A) structure sweep: every shape, order, path, used index - canonical encoding
SweepA == UNION {UNION {UNION {{Case(rot, ks, [i \in 1..Len(ks) |-> DefaultEnc(rot, path)], path, used) : used \in UsedMenu(path, Len(ks))}
                               : path \in Paths(rot)} : ks \in Lists(rot)} : rot \in RotTypes}
\* (B) encoding sweep: every encoding a path takes, uniform and mixed over the positions
EncSeq == <<Enc("obj", "pub"), Enc("obj", "priv"), Enc("obj", "crt"), Enc("obj", "ca"),
            Enc("bytes", "pub.pem"), Enc("bytes", "pub.der"), Enc("bytes", "pub.raw"), Enc("bytes", "priv.pem"), Enc("bytes", "priv.der"),
            Enc("bytes", "priv.enc.pem"), Enc("bytes", "priv.trad.pem"), Enc("bytes", "crt.pem"), Enc("bytes", "crt.der"),
            Enc("bytes", "ca.pem"), Enc("bytes", "ca.der"),
            Enc("path", "pub.pem"), Enc("path", "pub.der"), Enc("path", "pub.raw"), Enc("path", "priv.pem"), Enc("path", "priv.der"),
            Enc("path", "priv.enc.pem"), Enc("path", "priv.trad.pem"), Enc("path", "crt.pem"), Enc("path", "crt.der"),
            Enc("path", "ca.pem"), Enc("path", "ca.der")>>
Filt(rot, path) == SelectSeq(EncSeq, LAMBDA e : e \in EncsFor(rot, path, FALSE))
Vectors(rot, path, n) == LET F == Filt(rot, path) IN
   {[i \in 1..n |-> F[j]] : j \in 1..Len(F)} \cup
   (IF n = 1 THEN {} ELSE {[i \in 1..n |-> F[((j + 5 * (i - 1)) % Len(F)) + 1]] : j \in 0..(Len(F) - 1)})
NB(rot) == IF Full THEN NOf(rot) ELSE NOf(rot) \cap {1, 4}
FirstKeys(c, n) == [i \in 1..n |-> Key(c, i)]
ClsB(rot) == IF Full THEN ClsOf(rot) ELSE ClsOf(rot) \cap {"rsa2048", "p256", "p384", "p521"}
SweepB == UNION {UNION {UNION {UNION {{Case(rot, FirstKeys(c, n), v, path, IF UsesUsed(path) THEN ((n + 1) \div 2) ELSE 0) : v \in Vectors(rot, path, n)}
                                      : path \in Paths(rot)} : n \in NB(rot)} : c \in ClsB(rot)} : rot \in RotTypes}
\* quick tier: the tool paths that open an RSA PRIVATE key (signature provider) run with RSA-2048 only (loading is 0.1 - 0.4 s per key)
Cheap(c) == Full \/ c.path \notin {"dc", "dc_parse", "certblock_cfg"} \/ \A i \in 1..Len(c.keys) : c.keys[i].cls \notin {"rsa3072", "rsa4096"}
Cases == {c \in SweepA \cup SweepB : Legal(c) /\ Cheap(c)}

\* (C) device sweep: device i of the table, revision name number j of it (0 = "latest"), every device entry point.  The key class, the
\* number of keys and their order vary with (i, j) so that neighbouring revisions do not get the same list; thorough: every class
DevCls(rot, i) == IF Full THEN ClsOf(rot)
                  ELSE CASE rot = "cert_block_1" -> {"rsa2048"} [] rot = "cert_block_21" -> {<<"p256", "p384">>[(i % 2) + 1]}
                         [] OTHER -> {<<"p256", "p384", "p521">>[(i % 3) + 1]}
DevKeys(rot, cls, i, j) == LET n == IF rot \in {"srk_table_ahab", "srk_table_ahab_v2"} THEN 4 ELSE 1 + ((i + j) % 4) IN
                           [m \in 1..n |-> Key(cls, 1 + ((i + j + m) % 4))]
DevRevName(d, j) == IF j = 0 THEN "latest" ELSE d.revs[j]
DevCases == UNION {UNION {UNION {
               {[fam |-> Devices[i].fam, rev |-> DevRevName(Devices[i], j),
                 c |-> LET rot == RotOfDev(Devices[i], DevRevName(Devices[i], j))  ks == DevKeys(rot, cls, i, j) IN
                       Case(rot, ks, [m \in 1..Len(ks) |-> DefaultEnc(rot, path)], path, IF UsesUsed(path) THEN 1 + (i % Len(ks)) ELSE 0)]
                : cls \in (IF RotOfDev(Devices[i], DevRevName(Devices[i], j)) \in RotTypes THEN DevCls(RotOfDev(Devices[i], DevRevName(Devices[i], j)), i) ELSE {})}
               : path \in DevPaths(Devices[i])} : j \in 0..Len(Devices[i].revs)} : i \in 1..Len(Devices)}
DevInit == /\ mode = "dev" /\ Want("dev") /\ scen = 0 /\ done = FALSE /\ nchg = 0 /\ Init
           /\ \E x \in DevCases : /\ Legal(x.c)                                     \* cert_block_x, v2 + debug credential ...: not asserted
                                   /\ Assert(LegalFor(x.fam, x.rev, x.c), <<"device case outside the domain", x.fam, x.rev>>)
                                   /\ hist = <<[a |-> "ComputeFor", fam |-> x.fam, rev |-> x.rev, c |-> x.c, term |-> DocCase(x.c)]>>
\* ---------------------------------------------------------------- initial states
CaseInit == /\ mode = "case" /\ scen = 0 /\ done = FALSE /\ nchg = 0 /\ Init
            /\ \/ Want("case") /\ \E c \in Cases : hist = <<[a |-> "Compute", c |-> c, term |-> DocCase(c)]>>
               \/ /\ Want("case") \/ IOEnv.GEN_MODE = "extra"
                  /\ \E i \in 1..Len(Extra) : /\ Assert(Legal(Extra[i]), <<"illegal extra case", i>>)
                                               /\ hist = <<[a |-> "Compute", c |-> Extra[i], term |-> DocCase(Extra[i])]>>
HistInit == /\ mode \in {"cb21", "cb1"} /\ Want(mode) /\ scen = 0 /\ done = FALSE /\ nchg = 0 /\ hist = <<>> /\ Init
\* file scenarios: n files hold the first n keys of a class; one tool path reads them; files are rewritten with other keys
FileScen == {s \in [rot : RotTypes, cls : Classes, n : 1..4, path : {"rkht", "rot", "cli", "pfr", "certblock_cfg", "dc", "srk_cfg", "rot_table"}, used : 0..4] :
               /\ s.path \in Paths(s.rot) /\ s.cls \in ClsOf(s.rot) /\ s.n \in NOf(s.rot) /\ s.n \in {1, 2, 4}
               /\ s.used = (IF UsesUsed(s.path) THEN 1 ELSE 0)
               /\ (Full \/ s.cls \in {"rsa2048", "p256", "p384"})
               /\ (s.path = "dc" => s.cls # "rsa3072")}
FileEnc(rot, path, alt) ==
  IF rot = "srk_table_hab" THEN (IF alt THEN Enc("path", "ca.pem") ELSE Enc("path", "ca.der"))
  ELSE IF rot = "cert_block_1" /\ path = "certblock_cfg" THEN (IF alt THEN Enc("path", "crt.pem") ELSE Enc("path", "crt.der"))
  ELSE IF rot \in {"srk_table_ahab", "srk_table_ahab_v2"} THEN (IF alt THEN Enc("path", "pub.der") ELSE Enc("path", "pub.pem"))
  ELSE (IF alt THEN Enc("path", "crt.der") ELSE Enc("path", "pub.pem"))
FilesInit == /\ Want("files") /\ mode = "files" /\ done = FALSE /\ nchg = 0 /\ obj = NoObj /\ out = NoObj /\ tab = NoTab
             /\ \E s \in FileScen :
                  /\ scen = s
                  /\ fs = [f \in Files |-> IF f <= s.n THEN [has |-> TRUE, k |-> Key(s.cls, f), enc |-> FileEnc(s.rot, s.path, FALSE)] ELSE NoFile]
                  /\ hist = [f \in 1..s.n |-> [a |-> "WriteFile", f |-> f, k |-> Key(s.cls, f), enc |-> FileEnc(s.rot, s.path, FALSE)]]
                  /\ act = [a |-> "WriteFile"]

\* ---------------------------------------------------------------- construction histories of one table object (mode "tab")
\* scenario: fl builder, origin / m: how the object comes to exist and how many slots it holds then, cls / n / sel: the TARGET contents
\* (slot i shall hold Key(cls, sel[i]) in the end), repl: the slot that is written TWICE (0: none), old: what its first write puts there
\* ("O" another key, "same" the target itself, "other" the target of the NEXT slot - a duplicate for a while), form: how keys are handed
\* over, cert / used: when the root certificate of a v1 block is added and of which slot, clear: AHAB - fill with the reversed list,
\* compute, clear(), fill again; peek: the value is also read on the way, whenever the contents are a key list
OtherCls(c) == CASE c = "rsa2048" -> "rsa3072" [] c = "rsa3072" -> "rsa4096" [] c = "rsa4096" -> "rsa2048" [] OTHER -> c
OldKey(c)   == IF IsRsa(c) THEN Key(OtherCls(c), 1) ELSE Key(c, 5)          \* the RSA pool has four keys per size: the old key has another size
TargetK(sc, i) == Key(sc.cls, sc.sel[i])
FirstK(sc, i)  == IF i \notin {sc.repl, sc.repl2} THEN TargetK(sc, i)
                  ELSE CASE sc.old = "O" -> OldKey(sc.cls) [] sc.old = "same" -> TargetK(sc, i) [] sc.old = "other" -> TargetK(sc, (i % sc.n) + 1)
\* CA flag of the record in slot i (SRK flavours): none, all, every second one (HAB only; an AHAB table has one flag)
FormOf(sc, i) == CASE sc.fl = "rkht1" -> "hash"
                   [] sc.fl = "cb1"   -> <<"crt", "ca", "hash">>[((i + sc.n + sc.repl) % 3) + 1]
                   [] sc.fl = "hab"   -> (IF sc.ca = "all" \/ (sc.ca = "alt" /\ i % 2 = 0) THEN "ca" ELSE "crt")
                   [] OTHER           -> (IF sc.ca = "all" THEN "pubca" ELSE "pub")
RevK(sc, i) == TargetK(sc, sc.n + 1 - i)                   \* the reversed list (what an AHAB table holds before it is cleared)
\* the key lists a PFR page is handed (pool positions)
PfrIds(id)   == CASE id = 1 -> <<1, 2, 3>> [] id = 2 -> <<3, 1>> [] id = 3 -> <<2>> [] id = 4 -> <<4, 3, 2, 1>>
PfrList(c, id) == [i \in 1..Len(PfrIds(id)) |-> Key(c, PfrIds(id)[i])]
InitSlots(sc) == IF Whole(sc.fl) THEN [i \in 1..sc.m |-> Slot(Key(sc.hcls, PfrIds(sc.lh)[i]), FALSE)]     \* the list whose value the page HELD
                 ELSE [i \in 1..sc.m |-> Slot(IF sc.clear THEN RevK(sc, i) ELSE FirstK(sc, i), CaOf(sc.fl, FormOf(sc, i)))]
TabSels(n) == IF Full THEN FewSel(n) \cup {[i \in 1..n |-> i]} ELSE {s \in Sel(n) : s = [i \in 1..n |-> i] \/ s = [i \in 1..n |-> 5 - i]}
TabCls(fl) == IF Full THEN ClsOf(RotOfFl(fl))
              ELSE CASE Indexed(fl) -> {"rsa2048"} [] fl = "hab" -> {"rsa2048", "p521"} [] fl = "ahab" -> {"p256", "rsa2048"} [] OTHER -> {"p384"}
ScenBase == [fl |-> "none", origin |-> "new", m |-> 0, cls |-> "none", n |-> 0, sel |-> <<>>, repl |-> 0, repl2 |-> 0, old |-> "O", ca |-> "none",
             cert |-> "none", used |-> 0, clear |-> FALSE, peek |-> FALSE, la |-> 0, lb |-> 0, fam |-> "", hcls |-> "none", lh |-> 0, chg |-> 0]
IdSel(n) == [i \in 1..n |-> i]
\* indexed builders (RKHTv1, CertBlockV1): the order of the writes is FREE.  ro = <<slot written twice, what its first write puts, a SECOND slot
\* that is written twice (thorough)>>
IdxGen(fl, c, n, s, OG, RO, CU, PK) ==
   {[ScenBase EXCEPT !.fl = fl, !.origin = og[1], !.m = og[2], !.cls = c, !.n = n, !.sel = s, !.repl = ro[1], !.old = ro[2], !.repl2 = ro[3],
                     !.cert = cu[1], !.used = cu[2], !.peek = pk] : og \in OG, ro \in RO, cu \in CU, pk \in PK}
IdxScens == UNION {UNION {
   LET OG == {<<"new", 0>>} \cup {<<o, m>> : o \in Origins(fl) \ {"new"}, m \in 1..n}
       RO == {<<0, "O", 0>>} \cup {<<j, o, 0>> : j \in 1..n, o \in (IF Full \/ n < 4 THEN {"O", "same", "other"} ELSE {"O"})}
             \cup (IF Full THEN {<<j, "O", j2>> : j \in 1..n, j2 \in 1..n} ELSE {})
       CU == IF fl = "cb1" THEN {<<w, u>> : w \in {"first", "last"}, u \in 1..n} ELSE {<<"none", 0>>}
   IN  \* the main lines (RSA-2048, key i in slot i): everything
       IdxGen(fl, "rsa2048", n, IdSel(n), OG, RO, CU, BOOLEAN)
       \* the other key assignments: for the plain orders
       \cup UNION {IdxGen(fl, "rsa2048", n, s, {<<"new", 0>>}, {<<0, "O", 0>>}, CU, BOOLEAN) : s \in TabSels(n) \ {IdSel(n)}}
       \* thorough: the other RSA sizes (the size of a key does not interact with the order of the calls): plain orders and one replacement
       \cup UNION {IdxGen(fl, c, n, IdSel(n), {<<"new", 0>>}, {<<0, "O", 0>>} \cup {<<j, "O", 0>> : j \in 1..n}, CU, {FALSE}) : c \in TabCls(fl) \ {"rsa2048"}}
   : n \in 1..4} : fl \in {"rkht1", "cb1"}}
QuickCert(sc) == <<sc.cert, sc.used>> \in {<<"first", sc.n>>, <<"last", 1>>}
IdxScenOK(sc) == /\ (sc.old = "other" => sc.n >= 2)
                 /\ (sc.repl2 > 0 => sc.repl2 > sc.repl /\ sc.fl = "rkht1" /\ sc.origin = "new" /\ ~sc.peek)   \* two replacements: on the bare table
                 /\ (sc.peek => sc.old = "O" /\ (Full \/ sc.n <= 3))                      \* reading on the way: once per order is enough
                 /\ (sc.origin # "new" => (Full \/ sc.n \in {2, 3}) /\ sc.old = "O" /\ ~sc.peek)
                 \* a parsed block has its certificate: of a key it holds, and not of the one that is about to be replaced
                 /\ (sc.origin = "parsed" /\ sc.fl = "cb1" => /\ sc.cert = "first" /\ sc.used <= sc.m /\ sc.used # sc.repl
                                                             /\ (Full \/ sc.used = (IF sc.repl = 1 THEN 2 ELSE 1)))
                 /\ (~Full /\ sc.fl = "cb1" /\ sc.origin # "parsed" => QuickCert(sc))
                 /\ (sc.sel # IdSel(sc.n) => sc.origin = "new" /\ sc.repl = 0)               \* the other key assignments: for the plain orders
                 /\ (~Full /\ sc.fl = "cb1" /\ sc.n = 4 /\ sc.repl > 0 => sc.cert = "last")
                 /\ (~Full /\ sc.fl = "cb1" /\ sc.n >= 3 => sc.old = "O")          \* quick: what the first write puts there is varied on the bare table
                 \* thorough: the other RSA sizes on the main lines (the size of a key does not interact with the order of the calls)
                 /\ (sc.cls # "rsa2048" => sc.origin = "new" /\ ~sc.peek /\ sc.repl2 = 0 /\ sc.old = "O" /\ (sc.fl = "cb1" => QuickCert(sc)))
\* list-like builders (HAB SrkTable, AHAB SRKTable / SRKTableV2): append in order, replace an entry (HAB), clear and refill (AHAB)
LstScens == UNION {UNION {UNION {UNION {
   {[ScenBase EXCEPT !.fl = fl, !.origin = og[1], !.m = og[2], !.cls = c, !.n = n, !.sel = s, !.repl = ro[1], !.old = ro[2],
                     !.ca = ca, !.clear = cl, !.peek = pk] :
        og \in {<<"new", 0>>} \cup {<<o, m>> : o \in Origins(fl) \ {"new", "rot"}, m \in 1..n},
        ro \in {<<0, "O">>} \cup (IF fl = "hab" THEN {<<j, o>> : j \in 1..n, o \in {"O", "other"}} ELSE {}),
        ca \in (IF fl = "hab" THEN {"none", "all", "alt"} ELSE {"none", "all"}),
        cl \in (IF fl = "hab" THEN {FALSE} ELSE BOOLEAN), pk \in (IF fl = "hab" THEN BOOLEAN ELSE {FALSE})}
   : s \in TabSels(n)} : n \in NOf(RotOfFl(fl))} : c \in TabCls(fl)} : fl \in {"hab", "ahab", "ahab2"}}
LstScenOK(sc) == /\ (sc.old = "other" => sc.n >= 2)
                 /\ (sc.origin = "parsed" => sc.fl = "hab" \/ sc.m = 4)                    \* an exported AHAB table has four records
                 /\ (sc.origin = "parsed" /\ sc.m = sc.n /\ sc.repl = 0 => sc.clear)       \* ... something must still happen to the object
                 /\ (sc.peek => sc.repl = 0 /\ sc.origin = "new")
                 /\ (sc.sel = IdSel(sc.n) \/ (sc.origin = "new" /\ sc.repl = 0))
                 /\ (Full \/ sc.ca # "alt" \/ (sc.origin = "new" /\ sc.n >= 2))
                 /\ (Full \/ sc.origin # "parsed" \/ sc.fl # "hab" \/ (sc.ca = "none" /\ sc.cls = "rsa2048" /\ sc.old = "O"))
                 /\ (IsRsa(sc.cls) /\ sc.fl = "ahab2" => FALSE)
\* a PFR page object is exported with list A, with list B, with list A again (the ROTKH field is each time that of the list handed over)
PfrScens == {[ScenBase EXCEPT !.fl = fc[1], !.cls = fc[2], !.la = a, !.lb = b] :
                fc \in {<<"pfr1", c>> : c \in (IF Full THEN RsaClasses ELSE {"rsa2048"})} \cup {<<"pfr21", "p256">>, <<"pfr21", "p384">>},
                a \in 1..4, b \in 1..4}
\* ... and a page object that HELD the value of another key list before - it was loaded from a configuration that carries a ROTKH or parsed a
\* binary that does - is exported with list A (class cls), with list B (of the class of the held list), with A again: EVERY family of the device
\* table that has a ROTKH field x every key type the field takes x every key type of the held list (the other hash width where the family has
\* two) x both ways of coming to hold it.  What the field held before never shows: the value is that of the list handed over, zero padded.
\* <<la, lh>>: the list the page is exported with, the list whose value it held (3 keys over 1, 1 over 4, 4 over 2, 2 over 3)
HeldCombos == <<<<1, 3>>, <<3, 4>>, <<4, 2>>, <<2, 1>>>>
PfrCls(fl) == IF fl = "pfr21" THEN {"p256", "p384"} ELSE (IF Full THEN RsaClasses ELSE {"rsa2048"})
ClsIdx(c)  == CASE c \in {"p384", "rsa3072"} -> 1 [] c = "rsa4096" -> 2 [] OTHER -> 0
PfrDevs(fl) == {i \in 1..Len(Devices) : Devices[i].pfr /\ RotOfDev(Devices[i], "latest") = RotOfFl(fl)}
HeldPick(i, og, c, hc) == IF Full THEN 1..4 ELSE {((i + ClsIdx(c) + 2 * ClsIdx(hc) + (IF og = "cfg" THEN 0 ELSE 1)) % 4) + 1}
HeldScens == UNION {UNION {UNION {
    {[ScenBase EXCEPT !.fl = fl, !.fam = Devices[i].fam, !.origin = q[1], !.cls = q[2], !.hcls = q[3], !.m = Len(PfrIds(HeldCombos[x][2])),
                      !.la = HeldCombos[x][1], !.lh = HeldCombos[x][2], !.lb = (HeldCombos[x][1] % 4) + 1] : x \in HeldPick(i, q[1], q[2], q[3])}
    : q \in {"cfg", "parsed"} \X PfrCls(fl) \X PfrCls(fl)} : i \in PfrDevs(fl)} : fl \in {"pfr1", "pfr21"}}
HeldScenOK(sc) == /\ (sc.cls = sc.hcls => sc.la # sc.lh)
                  /\ \A c \in {sc.cls, sc.hcls} : HashLen(HashOf(c)) <= Dev(sc.fam).rotkh         \* the field takes the value (bytes)
BCls(sc) == IF sc.hcls = "none" THEN sc.cls ELSE sc.hcls
\* CHANGE histories: the table comes to hold n keys (built by calls / from a key list / parsed / inside the front end Rot), is READ, and is then
\* changed in place chg times - which change at which record is NOT part of the scenario: every sequence is a history (DoChg.. below) - with a
\* read after every step.  quick: every (builder, origin, key type, flag, n) with one change, the main lines with two; thorough: two everywhere
\* on the quick key types, three on the main lines
ChgN(fl)     == IF Full THEN NOf(RotOfFl(fl)) ELSE NOf(RotOfFl(fl)) \cap {2, 4}
QuickCls(fl) == CASE Indexed(fl) -> {"rsa2048"} [] fl = "hab" -> {"rsa2048", "p521"} [] fl = "ahab" -> {"p256", "rsa2048"} [] OTHER -> {"p384"}
MainCls(fl)  == CASE Indexed(fl) -> "rsa2048" [] fl = "hab" -> "rsa2048" [] fl = "ahab" -> "p256" [] OTHER -> "p384"
ChgScens == UNION {UNION {UNION {
   {[ScenBase EXCEPT !.fl = fl, !.origin = og, !.m = IF og = "new" THEN 0 ELSE n, !.cls = c, !.n = n, !.sel = IdSel(n), !.ca = ca, !.peek = TRUE, !.chg = d,
                     !.cert = IF fl = "cb1" THEN "first" ELSE "none", !.used = u] :
        og \in Origins(fl), ca \in (IF Indexed(fl) THEN {"none"} ELSE {"none", "all"}), d \in 1..3, u \in (IF fl = "cb1" THEN {1, n} ELSE {0})}
   : n \in ChgN(fl)} : c \in TabCls(fl)} : fl \in {"rkht1", "cb1", "hab", "ahab", "ahab2"}}
ChgMain(sc) == sc.origin = "new" /\ sc.ca = "none" /\ sc.cls = MainCls(sc.fl)
ChgScenOK(sc) == /\ (sc.chg = 2 => ChgMain(sc) \/ (Full /\ sc.cls \in QuickCls(sc.fl) /\ (sc.fl = "hab" => sc.origin = "new" /\ sc.n \in {2, 4})))
                 /\ (sc.chg = 3 => Full /\ ChgMain(sc) /\ (sc.fl = "hab" => sc.n = 2))
                 /\ (sc.origin = "rot" => sc.ca = "none")                                  \* the front end is handed public keys
                 /\ ~(IsRsa(sc.cls) /\ sc.fl = "ahab2")
TabScens == {sc \in IdxScens : IdxScenOK(sc)} \cup {sc \in LstScens : LstScenOK(sc)} \cup {sc \in PfrScens : sc.la # sc.lb}
            \cup {sc \in HeldScens : HeldScenOK(sc)} \cup {sc \in ChgScens : ChgScenOK(sc)}
TabInit == /\ mode = "tab" /\ Want("tab") /\ done = FALSE /\ nchg = 0 /\ hist = <<>> /\ Init /\ scen \in TabScens
GInit == CaseInit \/ HistInit \/ FilesInit \/ DevInit \/ TabInit
NSet(i)   == Cardinality({x \in 1..Len(hist) : hist[x].a = "SetSlot" /\ hist[x].i = i})
NApp      == Cardinality({x \in 1..Len(hist) : hist[x].a = "AppendSlot"})
NClear    == Cardinality({x \in 1..Len(hist) : hist[x].a = "ClearT"})
Writes(i) == NSet(i) + (IF i <= scen.m THEN 1 ELSE 0)                                  \* what the object held at the start counts as a write
Needed(i) == IF i \in {scen.repl, scen.repl2} THEN 2 ELSE 1
AllWritten == \A i \in 1..scen.n : Writes(i) = Needed(i)
LastIs(a) == Len(hist) > 0 /\ hist[Len(hist)].a = a
Started == hist # <<>>
DoStartT == ~Started /\ StartT(scen.fl, scen.origin, InitSlots(scen),
                               IF scen.fl = "cb1" /\ scen.origin = "parsed" THEN FirstK(scen, scen.used) ELSE NoKey)
\* peek: as soon as the contents are a key list and were not read yet, they are read (deterministic: no subsets of reading points)
\* (a change history also reads an object that came to exist complete - before anything is changed)
MustPeek == scen.peek /\ Started /\ TabLegal(tab) /\ ~LastIs("ComputeT") /\ (IF scen.chg > 0 THEN TRUE ELSE ~LastIs("StartT"))
CertNow(when) == scen.fl = "cb1" /\ scen.origin # "parsed" /\ scen.cert = when /\ tab.cert = NoKey
DoAddCertificate == /\ Started /\ ~MustPeek
                    /\ \/ CertNow("first") /\ LastIs("StartT")
                       \/ CertNow("last") /\ AllWritten
                    /\ AddCertificate(TargetK(scen, scen.used))
IdxReady == Started /\ Indexed(scen.fl) /\ ~MustPeek /\ ~(CertNow("first") /\ LastIs("StartT"))
DoSetSlot == /\ IdxReady
             /\ \E i \in 1..scen.n : /\ Writes(i) < Needed(i)
                                     /\ (scen.chg > 0 => \A j \in 1..(i - 1) : Writes(j) >= Needed(j))   \* change histories fill in order
                                     /\ SetSlot(i, IF Writes(i) = 0 THEN FirstK(scen, i) ELSE TargetK(scen, i), FormOf(scen, i))
\* list-like: phase 1 (only with clear) fill with the reversed list, compute, clear; phase 2 append slot by slot, the replaced entry
\* (HAB) first gets its old content and is overwritten at ANY later point
Phase2 == ~scen.clear \/ NClear = 1
LstReady == Started /\ ~Indexed(scen.fl) /\ ~Whole(scen.fl) /\ ~MustPeek
NAll == Cardinality({x \in 1..Len(hist) : hist[x].a = "SetAll"})
DoSetAll == /\ Started /\ Whole(scen.fl) /\ NAll < 3 /\ (LastIs("StartT") \/ LastIs("ComputeT"))
            /\ SetAll(IF NAll = 1 THEN PfrList(BCls(scen), scen.lb) ELSE PfrList(scen.cls, scen.la))
DoFillRev == /\ LstReady /\ ~Phase2 /\ Len(tab.slots) < scen.n /\ ~LastIs("ComputeT")
             /\ AppendSlot(RevK(scen, Len(tab.slots) + 1), FormOf(scen, 1))
DoClearT == LstReady /\ ~Phase2 /\ LastIs("ComputeT") /\ ClearT
NextIdx == Len(tab.slots) + 1
DoAppendSlot == /\ LstReady /\ Phase2 /\ NextIdx <= scen.n
                /\ AppendSlot(FirstK(scen, NextIdx), FormOf(scen, NextIdx))
DoReplace == /\ LstReady /\ Phase2 /\ scen.repl > 0 /\ scen.repl <= Len(tab.slots) /\ NSet(scen.repl) = 0
             /\ SetSlot(scen.repl, TargetK(scen, scen.repl), FormOf(scen, scen.repl))
LstWritten == Phase2 /\ Len(tab.slots) = scen.n /\ (scen.repl > 0 => NSet(scen.repl) = 1)
\* the contents the scenario names are in place (once the in-place changes have begun they were)
\* (IF, not \/: TLC splits an action at a disjunction in its guard and would emit the history once per true disjunct)
BaseWritten == IF nchg > 0 THEN TRUE ELSE IF Indexed(scen.fl) THEN AllWritten /\ ~CertNow("last") ELSE LstWritten
TabWritten == IF Whole(scen.fl) THEN NAll = 3 ELSE BaseWritten /\ nchg = scen.chg
\* in-place changes of a table that is complete and WAS READ.  The new key: a key of the pool the table does not hold; if it holds the whole
\* pool of its type (RSA: four keys per size) the key of the next slot - a duplicate from then on.  A replaced entry keeps the flag it had.
CurIds    == {tab.slots[j].k.id : j \in 1..Len(tab.slots)}
FreeIds   == (1..(IF IsRsa(scen.cls) THEN 4 ELSE 6)) \ CurIds
ChgKey(i) == IF FreeIds # {} THEN Key(scen.cls, CHOOSE x \in FreeIds : \A y \in FreeIds : x <= y) ELSE tab.slots[(i % scen.n) + 1].k
CurForm(i) == CASE Indexed(scen.fl) -> FormOf(scen, i) [] scen.fl = "hab" -> (IF tab.slots[i].ca THEN "ca" ELSE "crt")
                [] OTHER -> (IF tab.slots[i].ca THEN "pubca" ELSE "pub")
ChgReady   == Started /\ scen.chg > 0 /\ nchg < scen.chg /\ ~Whole(scen.fl) /\ BaseWritten /\ LastIs("ComputeT")
DoChgSet   == ChgReady /\ \E i \in 1..scen.n : ChgKey(i) # tab.slots[i].k /\ SetSlot(i, ChgKey(i), CurForm(i))
DoChgRekey == ChgReady /\ ~Indexed(scen.fl) /\ \E i \in 1..scen.n : ChgKey(i) # tab.slots[i].k /\ Rekey(i, ChgKey(i))
DoChgCa    == /\ ChgReady /\ ~Indexed(scen.fl)
              /\ \/ SetCa(0, ~tab.slots[1].ca)
                 \/ scen.fl = "hab" /\ scen.n > 1 /\ \E i \in 1..scen.n : SetCa(i, ~tab.slots[i].ca)
ChgNext    == DoChgSet \/ DoChgRekey \/ DoChgCa
DoComputeT == /\ Started /\ ~LastIs("ComputeT")
              /\ \/ MustPeek
                 \/ TabWritten
                 \/ Whole(scen.fl) /\ LastIs("SetAll")                                     \* every export is looked at
                 \/ ~Indexed(scen.fl) /\ ~Whole(scen.fl) /\ ~Phase2 /\ Len(tab.slots) = scen.n   \* before the clear
              /\ ComputeT
TabNext == DoStartT \/ DoAddCertificate \/ DoSetSlot \/ DoFillRev \/ DoClearT \/ DoAppendSlot \/ DoReplace \/ DoSetAll \/ DoComputeT
TabComplete == Started /\ TabWritten /\ LastIs("ComputeT")
\* ---------------------------------------------------------------- histories
NU == IF Full THEN {<<1, 1>>, <<2, 1>>, <<2, 2>>, <<3, 1>>, <<3, 2>>, <<3, 3>>, <<4, 1>>, <<4, 2>>, <<4, 3>>, <<4, 4>>}
      ELSE {<<1, 1>>, <<2, 2>>, <<4, 3>>}
IskMenu == IF Full THEN {<<0, 0>>, <<4, 5>>, <<96, 0>>, <<32, 70000>>} ELSE {<<0, 0>>, <<4, 5>>, <<96, 0>>}
DoBuild21 == /\ obj.kind = "none" /\ hist = <<>>
             /\ \E c \in {"p256", "p384"} : \E nu \in NU :
                  \/ Build21(FirstKeys(c, nu[1]), nu[2], FALSE, NoKey, 0, 0)
                  \/ \E ic \in {"p256", "p384"} : \E uc \in IskMenu : Build21(FirstKeys(c, nu[1]), nu[2], TRUE, Key(ic, 7), uc[1], uc[2])
\* "user data of every allowed length": all multiples of the alignment (4) up to the limit (96), short history
DoBuild21Ud == /\ Full /\ obj.kind = "none" /\ hist = <<>>
               /\ \E c \in {"p256", "p384"} : \E n \in {1, 4} : \E ic \in {"p256", "p384"} : \E u \in 0..24 : Build21(FirstKeys(c, n), n, TRUE, Key(ic, 7), 4 * u, 1)
DoSetUserData == \E len \in (IF Full THEN {0, 8, 96} ELSE {8}) : len # obj.ud.len /\ SetUserData(len)
DoSetConstraints == \E c \in (IF Full THEN {0, 7} ELSE {7}) : SetConstraints(c)
Cb21Next == mode = "cb21" /\ (DoBuild21 \/ DoBuild21Ud \/ (obj.kind = "cb21" /\ (Export21 \/ Parse21 \/ DoSetUserData \/ DoSetConstraints)))
\* "certificate blocks survive export/parse unchanged" ranges over EVERY header field the block can be given: <<version, flags word (bytes
\* as they stand in the header), build number>> - default / other than default, each pair of fields in all four combinations; thorough: a
\* single low bit, bit 31, another major version
FlagsA  == <<90, 90, 165, 165>>
HdrMenu == {<<DefVer, DefFlags, 0>>, <<DefVer, FlagsA, 3>>, <<<<1, 1>>, DefFlags, 3>>, <<<<1, 1>>, FlagsA, 0>>}
           \cup (IF Full THEN {<<DefVer, <<0, 0, 0, 128>>, 3>>, <<<<2, 7>>, <<1, 0, 0, 0>>, 0>>} ELSE {})
DoBuild1 == /\ obj.kind = "none" /\ hist = <<>>
            /\ \E c \in RsaClasses : \E nu \in NU : \E img \in {0, 4660} : \E h \in HdrMenu : Build1(FirstKeys(c, nu[1]), nu[2], img, h[3], h[1], h[2])
DoSetImageLength == \E n \in {2048} : SetImageLength(n)
Cb1Next == mode = "cb1" /\ (DoBuild1 \/ (obj.kind = "cb1" /\ (Export1 \/ Parse1 \/ DoSetImageLength)))
\* files: strictly alternate  Read ; Rewrite ; Read ; Rewrite ; Read ...   (the population is already in hist)
LastA == hist[Len(hist)].a
DoRead == /\ LastA = "WriteFile"
          /\ ReadByPath(scen.rot, [i \in 1..scen.n |-> i], scen.path, scen.used)
DoRewrite == /\ LastA = "ReadByPath"
             /\ \E f \in {1, scen.n} : \E id \in {5, 6} : \E alt \in BOOLEAN :
                   WriteFile(f, Key(scen.cls, IF IsRsa(scen.cls) THEN id - 2 ELSE id), FileEnc(scen.rot, scen.path, alt))
FilesNext == mode = "files" /\ (DoRead \/ DoRewrite)
Steps == IF mode = "files" THEN Len(hist) - scen.n ELSE Len(hist)
Limit == IF mode \in {"case", "dev"} THEN 1 ELSE IF mode = "cb21" /\ Len(hist) > 0 /\ hist[1].cons = 1 /\ hist[1].isk THEN 3 ELSE Depth + (IF mode = "files" THEN 0 ELSE 1)
GNext == \/ /\ mode # "tab" /\ Steps < Limit /\ (Cb21Next \/ Cb1Next \/ FilesNext)
            /\ hist' = Append(hist, act') /\ UNCHANGED <<mode, scen, done, nchg>>
         \/ /\ mode = "tab" /\ ~done /\ ~TabComplete
            /\ \/ TabNext /\ nchg' = nchg
               \/ ChgNext /\ nchg' = nchg + 1
            /\ hist' = Append(hist, act') /\ UNCHANGED <<mode, scen, done>>
         \/ /\ mode = "tab" /\ ~done /\ TabComplete /\ done' = TRUE
            /\ PrintT(ToJson([mode |-> mode, scen |-> scen, hist |-> hist]))
            /\ UNCHANGED <<vars, mode, scen, hist, nchg>>
         \/ /\ mode # "tab" /\ Steps = Limit /\ ~done /\ done' = TRUE
            /\ PrintT(ToJson([mode |-> mode, hist |-> hist]))
            /\ UNCHANGED <<vars, mode, scen, hist, nchg>>

\* ---------------------------------------------------------------- lemmas over the case space (term algebra)
C0 == hist[1].c
T0 == hist[1].term
IsCase == mode \in {"case", "dev"}
IsValue == IsCase /\ C0.path \in ValuePaths(C0.rot)
\* the length of the value is that of the documented hash
TermLen == IsValue => T0.len = (CASE C0.rot = "srk_table_ahab_v2" -> 64 [] C0.rot = "cert_block_21" -> HashLen(HashOf(C0.keys[1].cls)) [] OTHER -> 32)
\* PURE FUNCTION OF THE ORDERED KEY LIST: neither the used index, nor the tool path, nor the way a key is supplied enters
\* the term (for SRK tables: as long as the documented CA flag of the record is the same)
AltEncs == IF Full THEN AllEncs ELSE {Enc("obj", "pub"), Enc("path", "priv.der"), Enc("bytes", "crt.pem"), Enc("path", "ca.der")}
Independent == IsValue =>
  /\ \A u \in 0..4 : DocCase([C0 EXCEPT !.used = u]) = T0
  /\ \A p \in ValuePaths(C0.rot) : DocCase([C0 EXCEPT !.path = p]) = T0
  /\ \A i \in 1..Len(C0.keys) : \A e \in AltEncs :
        (IsSrk(C0.rot) => IsCa(e) = IsCa(C0.encs[i])) => DocCase([C0 EXCEPT !.encs[i] = e]) = T0
\* ... and it does depend on the order and on every key
Swap(s, i, j) == [s EXCEPT ![i] = s[j], ![j] = s[i]]
\* the value is the hash of the table that `rot export` writes (cert block v2.1 with one key: of the key itself)
HashOfTable == IsValue /\ ~(C0.rot = "cert_block_21" /\ Len(C0.keys) = 1) /\ C0.rot # "srk_table_hab" =>
                 T0.op = "hash" /\ T0.arg = DocTable(C0.rot, C0.keys, Cas(C0))
OrderMatters == IsCase /\ ~(C0.path = "rot_table" /\ C0.rot = "cert_block_21" /\ Len(C0.keys) = 1) => \A i, j \in 1..Len(C0.keys) : C0.keys[i] # C0.keys[j] => DocCase([C0 EXCEPT !.keys = Swap(@, i, j)]) # T0
KeyMatters == IsCase /\ ~(C0.path = "rot_table" /\ C0.rot = "cert_block_21" /\ Len(C0.keys) = 1) => \A i \in 1..Len(C0.keys) : DocCase([C0 EXCEPT !.keys[i] = Key(@.cls, 9)]) # T0
\* one key in a v2.1 block: the value is the hash of the key itself, not the hash of a one-entry table
SingleKeyV21 == IsValue /\ C0.rot = "cert_block_21" /\ Len(C0.keys) = 1 => T0 = H(HashOf(C0.keys[1].cls), Cat(<<KeyA(C0.keys[1]), KeyB(C0.keys[1])>>))
\* a v1 table always has four slots of 32 bytes; a v2.1 table n slots (none for one key); SRK tables: header + records
TableLen == IsCase => DocTable(C0.rot, C0.keys, Cas(C0)).len =
   (LET n == Len(C0.keys)  c == C0.keys[1].cls IN
    CASE C0.rot = "cert_block_1" -> 128
      [] C0.rot = "cert_block_21" -> IF n = 1 THEN 0 ELSE n * HashLen(HashOf(c))
      [] C0.rot = "srk_table_ahab" -> 4 + 4 * (12 + ALen(c) + AhabBLen(c))
      [] C0.rot = "srk_table_ahab_v2" -> 4 + 4 * 76
      [] C0.rot = "srk_table_hab" -> 4 + n * (12 + ALen(c) + BLen(c)))
\* the device sweep: the case carries the RoT type of the REQUESTED revision; a revision of the same family that has ANOTHER type would
\* give another value for the same keys (so an entry point that looks at the wrong revision cannot pass), one with the same type the same
IsDev == mode = "dev"
RevisionDecidesGen == IsDev => LET e == hist[1] IN
   /\ e.c.rot = RotOf(e.fam, e.rev) /\ e.term = DocCase(e.c)
   /\ \A r2 \in RevNames(Dev(e.fam)) :
         LET c2 == [e.c EXCEPT !.rot = RotOf(e.fam, r2)] IN
         Legal(c2) => ((DocCase(c2) = e.term) <=> (RotOf(e.fam, r2) = e.c.rot))
\* ---------------------------------------------------------------- lemmas of the construction histories
IsTabC == mode = "tab" /\ act.a = "ComputeT"
\* LAST WRITE WINS, computed from the HISTORY alone (not from the state the actions kept): the key list the value is made of holds, in
\* slot i, what the last write to slot i put there (indexed builders; what the object held at the start if the slot was never written)
LastSet(i) == LET W == {x \in 1..Len(hist) : hist[x].a = "SetSlot" /\ hist[x].i = i} IN
              IF W = {} THEN (IF i <= scen.m THEN FirstK(scen, i) ELSE NoKey) ELSE hist[CHOOSE x \in W : \A y \in W : y <= x].k
LastWriteWins == IsTabC /\ Indexed(scen.fl) =>
                   /\ \A i \in 1..Len(act.keys) : act.keys[i] = LastSet(i)
                   /\ \A i \in (Len(act.keys) + 1)..4 : LastSet(i) = NoKey
\* ORDER FREE: whatever the order of the writes, once everything is written the value is the documented construction over the TARGET
\* of the scenario - the same term for every history of the scenario
TargetReached == IsTabC /\ TabWritten /\ ~Whole(scen.fl) /\ scen.chg = 0 =>
                   LET ks == [i \in 1..scen.n |-> TargetK(scen, i)]
                       cas == [i \in 1..scen.n |-> CaOf(scen.fl, FormOf(scen, i))] IN
                   act.keys = ks /\ act.term = Doc(RotOfFl(scen.fl), ks, cas) /\ act.table = DocTable(RotOfFl(scen.fl), ks, cas)
\* a page that is exported with list A, then B, then A again hands out for A what it handed out the first time, and something else for B
PfrBack == IsTabC /\ Whole(scen.fl) /\ TabWritten =>
             /\ act.keys = PfrList(scen.cls, scen.la) /\ act.term = hist[3].term /\ hist[5].keys = PfrList(BCls(scen), scen.lb) /\ hist[5].term # act.term
\* the certificate of a v1 block points at the slot that holds its key at the end, wherever it was added
CertPoints == IsTabC /\ BaseWritten /\ nchg = 0 /\ scen.fl = "cb1" => act.index = scen.used
\* A CHANGE SHOWS: the value (and the table) read after an in-place change is not the one read before it - every change of a change history
\* changes the contents, so an object that answers the second read with what it computed for the first cannot conform
Changes == {"SetSlot", "Rekey", "SetCa"}
ChangeShows == IsTabC /\ nchg > 0 /\ Len(hist) >= 3 /\ hist[Len(hist) - 1].a \in Changes /\ hist[Len(hist) - 2].a = "ComputeT" =>
                 /\ act.term # hist[Len(hist) - 2].term /\ act.table # hist[Len(hist) - 2].table
\* ... and a change history reads after EVERY step from the first complete table on: no two writes without a read between them
ReadEveryStep == mode = "tab" /\ scen.chg > 0 /\ nchg > 0 /\ Len(hist) >= 2 =>
                   ~(hist[Len(hist)].a \in Changes /\ hist[Len(hist) - 1].a \in Changes)
\* ---------------------------------------------------------------- invariants of the histories
BlockLen == mode = "cb21" /\ act.a = "Export21" =>
   act.term.len = (LET o == out  c == o.keys[1].cls  n == Len(o.keys) IN
                   12 + 4 + (IF n = 1 THEN 0 ELSE n * HashLen(HashOf(c))) + 2 * ALen(c)
                   + (IF o.isk THEN 12 + 2 * ALen(o.iskKey.cls) + o.ud.len + 2 * ALen(c) ELSE 0))
\* the signature-offset word of the ISK header is the documented sum of the parts that are THERE (header, ISK key on ITS curve, user data),
\* whatever the curve of the root keys: it is where the signature field starts in the exported ISK certificate
SigOffset == mode = "cb21" /\ act.a = "Export21" /\ out.isk =>
   LET hdr == IskHdr(out) IN
   SubSeq(hdr.bytes, 1, 4) = U32le(hdr.len + Raw(out.iskKey).len + UD(out).len)
=============================================================================
