------------------------------- MODULE RotMC -------------------------------
(* MC form of C03: the state machine of Rot with small constants.  Every action fires; the invariants  *)
(* of the R-spec hold (RotMC.cfg, SigCache = FALSE).  RotMC_asbuilt.cfg runs the SAME machine with the  *)
(* ISK signature cached as the code does ("if self.signature and not force: return"): TLC finds the     *)
(* shortest history that exports a stale signature - a PREDICTION that the harness then replays on the  *)
(* real object (only the R-spec's rejection of the real observation is a finding).                      *)
(* RotMC_tab.cfg: the construction-history lane on its own - FREE exploration of StartT / SetSlot /      *)
(* AppendSlot / ClearT / AddCertificate / Rekey / SetCa / ComputeT (any builder, origin, slot, key, form, order and      *)
(* repetition to depth 6) with HistoryFree, SameAsFresh (the value of an object = the value of a fresh   *)
(* object built from its key list in one go) and WriteIsLocal (a write replaces, it does not shift).     *)
EXTENDS Rot
VARIABLE lane       \* the four parts of the machine do not interact: one lane per behaviour keeps the state graph small
K(c, i) == Key(c, i)
Menu21 == {<<K("p256", 1)>>, <<K("p256", 1), K("p256", 2)>>, <<K("p384", 2), K("p384", 1), K("p384", 3)>>}
Menu1  == {<<K("rsa2048", 1)>>, <<K("rsa2048", 2), K("rsa4096", 1)>>}
SmallCases == {[rot |-> "cert_block_21", keys |-> ks, encs |-> [i \in 1..Len(ks) |-> e], path |-> p, used |-> IF UsesUsed(p) THEN 1 ELSE 0] :
                 ks \in Menu21, e \in {Enc("obj", "pub"), Enc("path", "ca.der"), Enc("bytes", "priv.enc.pem")}, p \in {"rkht", "cli", "certblock", "dc"}}
              \cup {[rot |-> "srk_table_hab", keys |-> ks, encs |-> [i \in 1..Len(ks) |-> e], path |-> "rot", used |-> 0] :
                 ks \in Menu1 \cup {<<K("p521", 1), K("p521", 2)>>}, e \in {Enc("path", "ca.der"), Enc("obj", "crt")}}
DoCompute == \E c \in SmallCases : Legal(c) /\ Compute(c)
\* a small world of devices: one family whose RoT type CHANGED with a silicon revision ("latest" = the newer one), one with a single
\* type, one whose "latest" is not the last revision listed (RotMC_devices.ndjson, named by C03_DEVICES for the MC runs)
DoComputeFor == \E i \in 1..Len(Devices) : \E rev \in RevNames(Devices[i]) : \E c \in SmallCases :
                   \E p \in {"rot", "cli", "dc", "rot_table"} : ComputeFor(Devices[i].fam, rev, [c EXCEPT !.path = p, !.used = IF UsesUsed(p) THEN 1 ELSE 0])
DoWriteFile == \E f \in {1, 2} : \E k \in {K("p256", 1), K("p256", 5)} : \E e \in {Enc("path", "pub.pem"), Enc("path", "ca.der")} : WriteFile(f, k, e)
DoReadByPath == \E rot \in {"cert_block_21", "srk_table_hab"} : \E files \in {<<1>>, <<1, 2>>, <<2, 1>>} : \E p \in {"rkht", "cli", "dc", "rot"} :
                   \E u \in {0, 1} : ReadByPath(rot, files, p, u)
DoBuild21 == \E ks \in Menu21 : \E used \in 1..Len(ks) :
                \/ Build21(ks, used, FALSE, NoKey, 0, 0)
                \/ \E ic \in {"p256", "p384"} : \E ud \in {0, 4} : Build21(ks, used, TRUE, K(ic, 7), ud, 0)
DoSetUserData == \E len \in {0, 8} : len # obj.ud.len /\ SetUserData(len)
DoSetConstraints == \E c \in {0, 1} : SetConstraints(c)
DoBuild1 == \E ks \in Menu1 : \E used \in 1..Len(ks) : \E img \in {0, 4660} : \E h \in {<<DefVer, DefFlags>>, <<<<1, 1>>, <<1, 0, 0, 128>>>>} : Build1(ks, used, img, 3, h[1], h[2])
DoSetImageLength == \E n \in {2048} : SetImageLength(n)
\* construction histories: FREE exploration (any builder, any origin, any slot, any of two keys, any form, any order, any repetition)
\* (a PFR page of a v2.1 family: keys of BOTH hash widths - what the page held before may be the value of a list of the other width)
KeysOfFl(fl) == IF Indexed(fl) \/ fl \in {"hab", "pfr1"} THEN {K("rsa2048", 1), K("rsa2048", 2)}
                ELSE {K("p256", 1), K("p256", 2)} \cup (IF fl = "pfr21" THEN {K("p384", 1)} ELSE {})
TInits(fl) == {<<>>} \cup {<<Slot(a, FALSE)>> : a \in KeysOfFl(fl)} \cup {<<Slot(a, FALSE), Slot(b, FALSE)>> : a, b \in KeysOfFl(fl)}
              \cup (IF Indexed(fl) THEN {} ELSE {<<Slot(a, TRUE), Slot(b, TRUE)>> : a, b \in KeysOfFl(fl)})
              \cup (IF fl \in {"ahab", "ahab2"} THEN {[i \in 1..4 |-> Slot(K("p256", i), FALSE)]} ELSE {})
DoStartT == \E fl \in Flavours : \E og \in Origins(fl) : \E init \in TInits(fl) : \E cert \in {NoKey} \cup KeysOfFl(fl) : StartT(fl, og, init, cert)
DoSetSlot == \E i \in 1..4 : \E k \in KeysOfFl(tab.fl) : \E form \in Forms(tab.fl) : SetSlot(i, k, form)
DoAppendSlot == \E k \in KeysOfFl(tab.fl) : \E form \in Forms(tab.fl) : AppendSlot(k, form)
DoRekey == \E i \in 1..4 : \E k \in KeysOfFl(tab.fl) : Rekey(i, k)
DoSetCa == \E i \in 0..4 : \E ca \in BOOLEAN : SetCa(i, ca)
DoAddCertificate == \E k \in KeysOfFl(tab.fl) : AddCertificate(k)
DoSetAll == \E a, b \in KeysOfFl(tab.fl) : \E ks \in {<<a>>, <<a, b>>} : SetAll(ks)
LStartT == lane = "tab" /\ tab.fl = "none" /\ DoStartT /\ UNCHANGED lane
LSetSlot == lane = "tab" /\ DoSetSlot /\ UNCHANGED lane
LAppendSlot == lane = "tab" /\ DoAppendSlot /\ UNCHANGED lane
LClearT == lane = "tab" /\ ClearT /\ UNCHANGED lane
LAddCertificate == lane = "tab" /\ DoAddCertificate /\ UNCHANGED lane
LRekey == lane = "tab" /\ DoRekey /\ UNCHANGED lane
LSetCa == lane = "tab" /\ DoSetCa /\ UNCHANGED lane
LSetAll == lane = "tab" /\ DoSetAll /\ UNCHANGED lane
LComputeT == lane = "tab" /\ ComputeT /\ UNCHANGED lane
LCompute == lane = "compute" /\ DoCompute /\ UNCHANGED lane
LComputeFor == lane = "compute" /\ DoComputeFor /\ UNCHANGED lane
LWriteFile == lane = "files" /\ DoWriteFile /\ UNCHANGED lane
LReadByPath == lane = "files" /\ DoReadByPath /\ UNCHANGED lane
LBuild21 == lane = "cb21" /\ DoBuild21 /\ UNCHANGED lane
LExport21 == lane = "cb21" /\ Export21 /\ UNCHANGED lane
LParse21 == lane = "cb21" /\ Parse21 /\ UNCHANGED lane
LSetUserData == lane = "cb21" /\ DoSetUserData /\ UNCHANGED lane
LSetConstraints == lane = "cb21" /\ DoSetConstraints /\ UNCHANGED lane
LBuild1 == lane = "cb1" /\ DoBuild1 /\ UNCHANGED lane
LExport1 == lane = "cb1" /\ Export1 /\ UNCHANGED lane
LParse1 == lane = "cb1" /\ Parse1 /\ UNCHANGED lane
LSetImageLength == lane = "cb1" /\ DoSetImageLength /\ UNCHANGED lane
Next == \/ LCompute \/ LComputeFor \/ LWriteFile \/ LReadByPath \/ LBuild21 \/ LExport21 \/ LParse21 \/ LSetUserData \/ LSetConstraints
        \/ LBuild1 \/ LExport1 \/ LParse1 \/ LSetImageLength
        \/ LStartT \/ LSetSlot \/ LAppendSlot \/ LClearT \/ LAddCertificate \/ LSetAll \/ LRekey \/ LSetCa \/ LComputeT
MCInit == Init /\ lane \in {"compute", "files", "cb21", "cb1"}
Spec == MCInit /\ [][Next]_<<vars, lane>>
\* the construction-history lane is checked by a run of its own (RotMC_tab.cfg), beside the others
MCInitTab == Init /\ lane = "tab"
SpecTab == MCInitTab /\ [][Next]_<<vars, lane>>
Bounded == obj.ud.v <= 2 /\ TLCGet("level") <= (CASE lane = "files" -> 4 [] lane = "compute" -> 2 [] OTHER -> 6)
\* the value a block reports never changes along a history (only Build chooses keys)
RkthStable == [][obj.kind = obj'.kind /\ obj.kind # "none" /\ act'.a \notin {"Build21", "Build1"} => obj'.keys = obj.keys]_<<vars, lane>>
\* a write touches the slot it names and no other (a later write REPLACES, it does not shift); appending and clearing are what they say
WriteIsLocal == [][/\ (act'.a = "SetSlot" => /\ Len(tab'.slots) = Len(tab.slots) /\ tab'.slots[act'.i].k = act'.k
                                              /\ \A j \in 1..Len(tab.slots) : j # act'.i => tab'.slots[j] = tab.slots[j])
                   /\ (act'.a = "AppendSlot" => SubSeq(tab'.slots, 1, Len(tab.slots)) = tab.slots /\ Len(tab'.slots) = Len(tab.slots) + 1)
                   /\ (act'.a = "Rekey" => /\ Len(tab'.slots) = Len(tab.slots) /\ tab'.slots[act'.i] = Slot(act'.k, tab.slots[act'.i].ca)
                                            /\ \A j \in 1..Len(tab.slots) : j # act'.i => tab'.slots[j] = tab.slots[j])
                   /\ (act'.a = "SetCa" => /\ Len(tab'.slots) = Len(tab.slots)
                                            /\ \A j \in 1..Len(tab.slots) : /\ tab'.slots[j].k = tab.slots[j].k
                                                                             /\ tab'.slots[j].ca = (IF act'.i \in {0, j} THEN act'.ca ELSE tab.slots[j].ca))
                   /\ (act'.a = "SetAll" => FinalKeys(tab'.slots) = act'.keys)
                   /\ (act'.a \in {"ComputeT", "AddCertificate"} => tab'.slots = tab.slots)]_<<vars, lane>>
\* two objects that hold the same key list hand out the same value, whatever happened to them before (the value is a function of the
\* contents): checked as "the value of the object = the value of a FRESH object built from its key list in one go"
SameAsFresh == act.a = "ComputeT" =>
   LET pre   == [i \in 1..Count(tab.slots) |-> tab.slots[i]]
       fresh == [fl |-> tab.fl, slots |-> IF Indexed(tab.fl) THEN Pad4(pre) ELSE pre, cert |-> NoKey] IN
   TabLegal(fresh) /\ act.term = TabTerm(fresh) /\ act.table = TabTable(fresh)
\* the value FOLLOWS the contents: two legal tables of the same builder hand out the same value only if they hold the same key list with
\* the same flags - so a read after a change that changed the contents can never be answered with what was read before the change
\* (checked between every state and its successor: the value before and after a write)
ValueFollows == [][TabLegal(tab) /\ TabLegal(tab') /\ tab'.fl = tab.fl /\ ~Whole(tab.fl) =>
                     ((TabTerm(tab') = TabTerm(tab)) <=> (FinalKeys(tab'.slots) = FinalKeys(tab.slots)
                                                          /\ (Indexed(tab.fl) \/ FinalCas(tab'.slots) = FinalCas(tab.slots))))]_<<vars, lane>>
\* the revision is not decoration: in this world the two revisions of famA yield DIFFERENT values for the same key list, and the name
\* "latest" yields the value of the revision it stands for
RevisionMatters == act.a = "ComputeFor" =>
   \A r2 \in RevNames(Dev(act.fam)) :
      LET c2 == [act.c EXCEPT !.rot = RotOf(act.fam, r2)] IN
      Legal(c2) => ((DocCase(c2) = act.term) <=> (RotOf(act.fam, r2) = RotOf(act.fam, act.rev)))
=============================================================================
