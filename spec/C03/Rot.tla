-------------------------------- MODULE Rot --------------------------------
(* R-spec of C03: the DOCUMENTED constructions of the root-of-trust value as symbolic terms, the    *)
(* documented layout of the two certificate blocks, and a small state machine of the operations the  *)
(* property talks about:                                                                             *)
(*   Compute(rot, keys, encs, path, used)        one tool path computes the RoT value                *)
(*   ComputeFor(fam, rev, case)                  an entry point that is given a DEVICE (family and    *)
(*                                               silicon revision) computes the value of the RoT type *)
(*                                               that device has (Devices: rot type per revision)     *)
(*   WriteFile / ReadByPath                      key files are (re)written, tools read them by path  *)
(*   Build21 / Export21 / Parse21 / SetUserData / SetConstraints     certificate block v2.1          *)
(*   Build1  / Export1  / Parse1  / SetImageLength                   certificate block v1            *)
(*   StartT / SetSlot / AppendSlot / ClearT / AddCertificate / SetAll / ComputeT   the CONSTRUCTION HISTORY of one *)
(*   Rekey / SetCa                               ... and the IN-PLACE changes of a table that was already read: an  *)
(*                                               entry replaced in the list, the key of a record replaced, the CA   *)
(*                                               flag of the records changed - the value READ AFTER ANY STEP is the *)
(*                                               documented construction over what the table holds THEN             *)
(*                                               table object (RKHTv1.set_rkh, CertBlockV1.set_root_key_hash *)
(*                                               / add_certificate, HAB SrkTable.append / t[i] = item, AHAB  *)
(*                                               SRKTable.add_record / clear): the value after ANY history   *)
(*                                               is the documented construction over the FINAL contents      *)
(* Nothing here is SPSDK's to change: the constructions are what the ROM / the fuses expect.         *)
(*   key material:  a = modulus n (fixed width = key size) or X,  b = exponent e (65537 -> 3 bytes,  *)
(*                  minimal) or Y; coordinates have the fixed width of the curve (leading zeros kept) *)
(*   cert_block_1 : RKH = SHA-256(n || e);  RKTH = SHA-256(RKH1 || .. || RKH4), empty slots = 32 x 00 *)
(*   cert_block_21: RKH = H(X || Y), H = SHA-256 (P-256) / SHA-384 (P-384);                          *)
(*                  RKTH = RKH1 if there is ONE key, else H(RKH1 || .. || RKHn)                      *)
(*   srk_table_hab: fuses = SHA-256(SHA-256(entry1) || .. || SHA-256(entryn)); entry = HAB4 SRK      *)
(*                  public-key record (tag E1, big endian; flag 80 = CA certificate)                 *)
(*   srk_table_ahab: SHA-256 over the SRK table (tag D7, version 42) of exactly four SRK records      *)
(*   srk_table_ahab_v2: SHA-512 over the SRK table (version 43) whose records carry the hash         *)
(*                  (by curve, zero padded to 64 bytes) of the SRK data block of that key             *)
EXTENDS Sym, FiniteSets, TLC, Json, IOUtils
CONSTANT SigCache      \* FALSE = the property (a signature always covers what is exported).  TRUE = I-spec of the code
                       \* as built ("sign only if there is no signature yet"), used by RotMC_asbuilt.cfg to PREDICT.
\* the silicon: sequence of [fam, revs, rots, latest, pfr, dc] - the revisions of a family (revs[j]) and the RoT type each of them HAS
\* (rots[j]; frozen table anchors/C03/rot_types_rev.json), the revision the name "latest" stands for, and whether the family has a CMPA
\* page / a debug-credential path.  GEN and TV read the table of the run, MC the small world RotMC_devices.ndjson.  (A definition, not
\* a CONSTANT: TLC evaluates a definition once, a substituted constant at every use.)
Devices == ndJsonDeserialize(IOEnv.C03_DEVICES)
VARIABLES fs,          \* key files: slot -> [has, k, enc]
          obj,         \* the certificate-block object under test
          out,         \* the last exported block (snapshot of obj at export time)
          act,         \* the last action with its arguments and what the spec expects of it (binding point)
          tab          \* ONE root-of-trust table object that is built by calls (construction history): [fl, slots, cert]
vars == <<fs, obj, out, act, tab>>

\* ------------------------------------------------------------------ keys
RsaClasses == {"rsa2048", "rsa3072", "rsa4096"}
EccClasses == {"p256", "p384", "p521"}
Classes    == RsaClasses \cup EccClasses
IsRsa(c)   == c \in RsaClasses
KeyBits(c) == CASE c = "rsa2048" -> 2048 [] c = "rsa3072" -> 3072 [] c = "rsa4096" -> 4096
                [] c = "p256" -> 256 [] c = "p384" -> 384 [] c = "p521" -> 521
ALen(c)    == (KeyBits(c) + 7) \div 8
BLen(c)    == IF IsRsa(c) THEN 3 ELSE ALen(c)              \* e = 65537 (quantifier of the property)
Key(c, i)  == [cls |-> c, id |-> i]                         \* i = position in the key pool of class c
KeyA(k)    == Blob([cls |-> k.cls, id |-> k.id, part |-> "a"], ALen(k.cls))
KeyB(k)    == Blob([cls |-> k.cls, id |-> k.id, part |-> "b"], BLen(k.cls))
Raw(k)     == Cat(<<KeyA(k), KeyB(k)>>)                     \* n || e   resp.   X || Y
HashOf(c)  == CASE c = "p384" -> "sha384" [] c = "p521" -> "sha512" [] OTHER -> "sha256"
N(ks)      == Len(ks)
Map(ks, F(_, _)) == [i \in 1..Len(ks) |-> F(ks[i], i)]

\* ------------------------------------------------------------------ the documented constructions
Rkh(alg, k) == H(alg, Raw(k))
TableV1(ks) == Cat([i \in 1..4 |-> IF i <= N(ks) THEN Rkh("sha256", ks[i]) ELSE Zero(32)])
RkthV1(ks)  == H("sha256", TableV1(ks))
AlgV21(ks)  == HashOf(ks[1].cls)
TableV21(ks) == IF N(ks) = 1 THEN Cat(<<>>) ELSE Cat([i \in 1..N(ks) |-> Rkh(AlgV21(ks), ks[i])])
RkthV21(ks) == IF N(ks) = 1 THEN Rkh(AlgV21(ks), ks[1]) ELSE H(AlgV21(ks), TableV21(ks))
CaByte(ca)  == IF ca THEN 128 ELSE 0
HabCurve(c) == CASE c = "p256" -> 75 [] c = "p384" -> 77 [] c = "p521" -> 78
HabEntry(k, ca) ==
  LET c == k.cls  l == 12 + ALen(c) + BLen(c) IN
  IF IsRsa(c) THEN Cat(<<Lit(<<225>> \o U16be(l) \o <<33, 0, 0, 0, CaByte(ca)>> \o U16be(ALen(c)) \o U16be(BLen(c))), KeyA(k), KeyB(k)>>)
  ELSE Cat(<<Lit(<<225>> \o U16be(l) \o <<39, 0, 0, 0, CaByte(ca), HabCurve(c), 0>> \o U16be(KeyBits(c))), KeyA(k), KeyB(k)>>)
HabFuses(ks, cas) == H("sha256", Cat([i \in 1..N(ks) |-> H("sha256", HabEntry(ks[i], cas[i]))]))
\* AHAB: the exponent field of an RSA record is 4 bytes wide (big endian, left padded)
AhabB(k)     == IF IsRsa(k.cls) THEN Cat(<<Zero(1), KeyB(k)>>) ELSE KeyB(k)
AhabBLen(c)  == IF IsRsa(c) THEN 4 ELSE ALen(c)
AhabAlg(c)   == IF IsRsa(c) THEN 34 ELSE 39                                       \* RSA-PSS 0x22, ECDSA 0x27
AhabHashId(c) == CASE c = "p384" -> 1 [] c = "p521" -> 2 [] OTHER -> 0
AhabSize(c)  == CASE c = "p256" -> 1 [] c = "p384" -> 2 [] c = "p521" -> 3 [] c = "rsa2048" -> 5 [] c = "rsa3072" -> 6 [] c = "rsa4096" -> 7
AhabRecHdr(c, l, ca) == Lit(<<225>> \o U16le(l) \o <<AhabAlg(c), AhabHashId(c), AhabSize(c), 0, CaByte(ca)>> \o U16le(ALen(c)) \o U16le(AhabBLen(c)))
AhabRec(k, ca) == Cat(<<AhabRecHdr(k.cls, 12 + ALen(k.cls) + AhabBLen(k.cls), ca), KeyA(k), AhabB(k)>>)
AhabTable(ks, cas) == LET recs == [i \in 1..N(ks) |-> AhabRec(ks[i], cas[i])] IN
                      Cat(<<Lit(<<215>> \o U16le(4 + SumLen(recs)) \o <<66>>)>> \o recs)
AhabHash(ks, cas) == H("sha256", AhabTable(ks, cas))
Ahab2Data(k, i) == Cat(<<Lit(<<0>> \o U16le(8 + ALen(k.cls) + AhabBLen(k.cls)) \o <<93, i - 1, 0, 0, 0>>), KeyA(k), AhabB(k)>>)
Ahab2Rec(k, i, ca) == Cat(<<AhabRecHdr(k.cls, 76, ca), H(HashOf(k.cls), Ahab2Data(k, i)), Zero(64 - HashLen(HashOf(k.cls)))>>)
Ahab2Table(ks, cas) == LET recs == [i \in 1..N(ks) |-> Ahab2Rec(ks[i], i, cas[i])] IN
                       Cat(<<Lit(<<215>> \o U16le(4 + SumLen(recs)) \o <<67>>)>> \o recs)
Ahab2Hash(ks, cas) == H("sha512", Ahab2Table(ks, cas))

RotTypes == {"cert_block_1", "cert_block_21", "srk_table_ahab", "srk_table_ahab_v2", "srk_table_hab"}
IsSrk(rot) == rot \in {"srk_table_ahab", "srk_table_ahab_v2", "srk_table_hab"}
\* THE function of the property: the value depends on the ordered key list (for SRK tables: and on the CA flag each
\* SRK record documents) - and on nothing else.
Doc(rot, ks, cas) == CASE rot = "cert_block_1"      -> RkthV1(ks)
                       [] rot = "cert_block_21"     -> RkthV21(ks)
                       [] rot = "srk_table_hab"     -> HabFuses(ks, cas)
                       [] rot = "srk_table_ahab"    -> AhabHash(ks, cas)
                       [] rot = "srk_table_ahab_v2" -> Ahab2Hash(ks, cas)
\* the exported table (nxpcrypto rot export / Rot.export): v1 128 bytes, v2.1 n x hash (empty for one key), SRK tables
DocTable(rot, ks, cas) == CASE rot = "cert_block_1"      -> TableV1(ks)
                            [] rot = "cert_block_21"     -> TableV21(ks)
                            [] rot = "srk_table_ahab"    -> AhabTable(ks, cas)
                            [] rot = "srk_table_ahab_v2" -> Ahab2Table(ks, cas)
                            [] rot = "srk_table_hab"     -> Cat(<<Lit(<<215>> \o U16be(4 + SumLen([i \in 1..N(ks) |-> HabEntry(ks[i], cas[i])])) \o <<64>>)>>
                                                                \o [i \in 1..N(ks) |-> HabEntry(ks[i], cas[i])])

\* ------------------------------------------------------------------ how keys are supplied, which tool path computes
Enc(form, fmt) == [form |-> form, fmt |-> fmt]
ObjFmts   == {"pub", "priv", "crt", "ca"}
FileFmts  == {"pub.pem", "pub.der", "pub.raw", "priv.pem", "priv.der", "priv.enc.pem", "priv.trad.pem", "crt.pem", "crt.der", "ca.pem", "ca.der"}
CaFmts    == {"ca", "ca.pem", "ca.der"}
CertFmts  == {"crt", "crt.pem", "crt.der"} \cup CaFmts
PlainPriv == {"priv", "priv.pem", "priv.der", "priv.trad.pem"}
ObjEncs   == {Enc("obj", f) : f \in ObjFmts}
BytesEncs == {Enc("bytes", f) : f \in FileFmts}
PathEncs  == {Enc("path", f) : f \in FileFmts}
AllEncs   == ObjEncs \cup BytesEncs \cup PathEncs
IsCa(e)   == e.fmt \in CaFmts
NoPw(S)   == {e \in S : e.fmt # "priv.enc.pem"}             \* tool paths that have no password parameter
Certs(S)  == {e \in S : e.fmt \in CertFmts}
\* tool paths.  All of them return THE value, except  rot_table (Rot.export / `nxpcrypto rot export`: the table the value is the
\* hash of)  and  keyhash (pfr.calc_pub_key_hash: the hash of one key)
Paths(rot) == CASE rot = "cert_block_1"  -> {"rkht", "rkht_parse", "rot", "cli", "pfr", "certblock", "certblock_parse", "certblock_cfg", "certblock_fuses",
                                             "dc", "dc_parse", "rot_table", "keyhash"}
                [] rot = "cert_block_21" -> {"rkht", "rkht_parse", "rot", "cli", "pfr", "certblock", "certblock_parse", "certblock_cfg",
                                             "dc", "dc_parse", "rot_table", "keyhash"}
                [] rot = "srk_table_ahab"    -> {"rot", "cli", "srk", "srk_parse", "srk_cfg", "dc", "dc_parse", "rot_table"}
                [] rot = "srk_table_ahab_v2" -> {"rot", "cli", "srk", "srk_parse", "srk_cfg", "rot_table"}
                [] rot = "srk_table_hab"     -> {"rot", "cli", "srk", "srk_parse", "srk_fuses", "rot_table"}
ValuePaths(rot) == Paths(rot) \ {"rot_table", "keyhash"}
UsesUsed(path) == path \in {"certblock", "certblock_parse", "certblock_cfg", "certblock_fuses", "dc", "dc_parse"}
\* encodings a tool path takes for key number i (isUsed: the key that signs)
EncsFor(rot, path, isUsed) ==
  IF rot = "srk_table_hab" THEN                                                     \* HAB takes certificates only
       CASE path \in {"rot", "rot_table"} -> Certs(AllEncs) [] path = "cli" -> Certs(PathEncs) [] OTHER -> Certs(ObjEncs)
  ELSE CASE path \in {"rkht", "rkht_parse", "rot", "rot_table"} -> AllEncs
         [] path = "cli" -> PathEncs
         [] path \in {"dc", "dc_parse", "srk_cfg"} -> NoPw(PathEncs)
         [] path = "pfr" -> {Enc("obj", "pub")} \cup PathEncs
         [] path \in {"srk", "srk_parse", "keyhash"} -> {Enc("obj", "pub")}
         [] path \in {"certblock", "certblock_parse", "certblock_fuses"} ->
              IF rot = "cert_block_1" THEN (IF isUsed THEN {Enc("obj", "crt")} ELSE {Enc("obj", "crt"), Enc("obj", "ca")})
              ELSE {Enc("obj", "pub")} \cup NoPw(BytesEncs)
         [] path = "certblock_cfg" ->
              IF rot = "cert_block_1" THEN (IF isUsed THEN {Enc("path", "crt.pem"), Enc("path", "crt.der")} ELSE Certs(PathEncs))
              ELSE NoPw(PathEncs)
ShapeOK(rot, ks) ==
  /\ N(ks) \in 1..4
  /\ \A i \in 1..N(ks) : ks[i].cls \in Classes
  /\ CASE rot = "cert_block_1"  -> \A i \in 1..N(ks) : IsRsa(ks[i].cls)                                  \* sizes may be mixed
       [] rot = "cert_block_21" -> \A i \in 1..N(ks) : ks[i].cls = ks[1].cls /\ ks[1].cls \in {"p256", "p384"}
       [] rot = "srk_table_hab" -> \A i \in 1..N(ks) : ks[i].cls = ks[1].cls
       [] rot = "srk_table_ahab" -> N(ks) = 4 /\ \A i \in 1..4 : ks[i].cls = ks[1].cls
       [] rot = "srk_table_ahab_v2" -> N(ks) = 4 /\ \A i \in 1..4 : ks[i].cls = ks[1].cls /\ ~IsRsa(ks[1].cls)
PasswordOK(encs) == ~(\E i, j \in 1..Len(encs) : encs[i].fmt = "priv.enc.pem" /\ encs[j].fmt \in PlainPriv \ {"priv"})
\* the asserted domain of one computation
Legal(c) ==
  /\ c.rot \in RotTypes /\ ShapeOK(c.rot, c.keys) /\ c.path \in Paths(c.rot)
  /\ Len(c.encs) = N(c.keys)
  /\ (IF UsesUsed(c.path) THEN c.used \in 1..N(c.keys) ELSE c.used = 0)
  /\ \A i \in 1..N(c.keys) : c.encs[i] \in EncsFor(c.rot, c.path, i = c.used)
  /\ PasswordOK(c.encs)
  /\ (c.rot \in {"srk_table_ahab", "srk_table_ahab_v2"} => \A i \in 1..4 : IsCa(c.encs[i]) = IsCa(c.encs[1]))   \* one flag for the table
  /\ (c.path = "rkht_parse" /\ c.rot = "cert_block_21" => N(c.keys) >= 2)             \* a one-key table is empty: nothing to parse
  /\ (c.path \in {"dc", "dc_parse"} => \A i \in 1..N(c.keys) : c.keys[i].cls # "rsa3072")   \* DAT protocol versions: RSA-2048 / RSA-4096 only
  /\ (c.path = "keyhash" => N(c.keys) = 1)
Cas(c) == [i \in 1..N(c.keys) |-> IsCa(c.encs[i])]
DocCase(c) == CASE c.path = "rot_table" -> DocTable(c.rot, c.keys, Cas(c))
                [] c.path = "keyhash"   -> Rkh(HashOf(c.keys[1].cls), c.keys[1])
                [] OTHER                -> Doc(c.rot, c.keys, Cas(c))
\* an observed value conforms: it IS the evaluated term (PFR: the ROTKH field = the value, zero padded to the field)
ValueOK(c, got, want, fieldLen) ==
  /\ Len(want) = DocCase(c).len
  /\ IF c.path = "pfr" THEN /\ fieldLen >= Len(want) /\ Len(got) = fieldLen
                            /\ SubSeq(got, 1, Len(want)) = want
                            /\ \A i \in (Len(want) + 1)..fieldLen : got[i] = 0
     ELSE got = want

\* ------------------------------------------------------------------ devices: the RoT type is a property of the SILICON REVISION
\* "for all RoT types in the database": the database gives one RoT type per (family, revision); an entry point that takes a family
\* and a revision must compute the value of THAT revision's type ("latest" = the most recent revision, also the default)
Seq2Set(s)        == {s[j] : j \in 1..Len(s)}
HasFam(fam)       == \E i \in 1..Len(Devices) : Devices[i].fam = fam
Dev(fam)          == Devices[CHOOSE i \in 1..Len(Devices) : Devices[i].fam = fam]
RevNames(d)       == Seq2Set(d.revs) \cup {"latest"}
HasDev(fam, rev)  == HasFam(fam) /\ rev \in RevNames(Dev(fam)) /\ Dev(fam).latest \in Seq2Set(Dev(fam).revs)
RotOfDev(d, rev)  == d.rots[CHOOSE j \in 1..Len(d.revs) : d.revs[j] = (IF rev = "latest" THEN d.latest ELSE rev)]
RotOf(fam, rev)   == RotOfDev(Dev(fam), rev)
\* the entry points that are given a device: Rot(family, revision) (value and table), `nxpcrypto rot -f -r`, CMPA(family, revision),
\* the debug credential configuration (family, revision)
DevPaths(d)       == {"rot", "rot_table", "cli"} \cup (IF d.pfr THEN {"pfr"} ELSE {}) \cup (IF d.dc THEN {"dc"} ELSE {})
LegalFor(fam, rev, c) == /\ HasDev(fam, rev) /\ c.rot = RotOf(fam, rev)
                         /\ Legal(c) /\ c.path \in DevPaths(Dev(fam))

\* ------------------------------------------------------------------ certificate block v2.1 (documented layout)
CurveId(c) == IF c = "p256" THEN 1 ELSE 2
Rec21(ks, used, ca) == Cat(<<Named("rkr.flags", Lit(<<N(ks) * 16 + CurveId(ks[1].cls), used - 1, 0, CaByte(ca)>>)),
                             Named("rkr.table", TableV21(ks)),
                             Named("rkr.root_public_key", Raw(ks[used]))>>)
UD(o) == Blob([ud |-> o.ud.v], o.ud.len)
IskHdr(o) == Lit(U32le(12 + 2 * ALen(o.iskKey.cls) + o.ud.len) \o U32le(o.cons)
                 \o <<CurveId(o.iskKey.cls), 0, 0, CaByte(o.ud.len > 0)>>)
Signed21(o) == Cat(<<Rec21(o.keys, o.used, FALSE), IskHdr(o), Raw(o.iskKey), UD(o)>>)     \* EXACTLY what the root key signs
SigScheme(c) == [name |-> "ecdsa-raw", hash |-> HashOf(c), len |-> 2 * ALen(c)]
Isk21(o) == <<Named("isk.header", IskHdr(o)), Named("isk.public_key", Raw(o.iskKey)), Named("isk.user_data", UD(o)),
              Named("isk.signature", Sig(o.keys[o.used], SigScheme(o.keys[o.used].cls), Signed21(o)))>>
Body21(o) == IF o.isk THEN <<Rec21(o.keys, o.used, FALSE)>> \o Isk21(o) ELSE <<Rec21(o.keys, o.used, TRUE)>>
Block21(o) == Cat(<<Named("header", Lit(<<99, 104, 100, 114, 1, 0, 2, 0>> \o U32le(12 + SumLen(Body21(o)))))>> \o Body21(o))

\* ------------------------------------------------------------------ certificate block v1 (documented layout, as relations
\* over the numbers an executor reads from the bytes; certificates are DER blobs whose length the executor reports)
Header1OK(o, f) ==        \* f: the facts logged for an exported v1 block
  /\ f.magic_ok /\ f.major = o.ver[1] /\ f.minor = o.ver[2] /\ f.hdr_len = 32             \* EVERY header field is the one the block was given
  /\ f.flags = o.flags /\ f.build = o.build /\ f.image_length = o.img
  /\ f.cert_count = 1 /\ Len(f.entries) = 1
  /\ \A i \in 1..Len(f.entries) : /\ f.entries[i].der_ok                                   \* the certificate of the used root key, bit exact
                                  /\ f.entries[i].len >= f.entries[i].der_len /\ f.entries[i].len < f.entries[i].der_len + 4
                                  /\ f.entries[i].pad_zero
  /\ f.table_len = (LET E == f.entries IN LET S[i \in 0..Len(E)] == IF i = 0 THEN 0 ELSE S[i - 1] + 4 + E[i].len IN S[Len(E)])
  /\ f.rkht_at = 32 + f.table_len
  /\ f.total = Align(32 + f.table_len + 128, 16) /\ f.tail_zero
  /\ f.used_matches                                                                       \* RKH[used] = SHA-256(n || e) of the certificate's key

\* ------------------------------------------------------------------ the state machine
NoKey  == Key("none", 0)
NoSig  == [ok |-> FALSE, v |-> 0, len |-> 0, cons |-> 0]
NoObj  == [kind |-> "none", keys |-> <<>>, used |-> 0, isk |-> FALSE, iskKey |-> NoKey, ud |-> [v |-> 0, len |-> 0], cons |-> 0,
           signer |-> FALSE, signed |-> NoSig, img |-> 0, build |-> 0, ver |-> <<1, 0>>, flags |-> <<0, 0, 0, 0>>]
\* header of a v1 block: version major.minor (two 16-bit fields; 1.0 unless the caller says otherwise), the flags word (four bytes as
\* they stand in the header, little endian; 0 unless the caller says otherwise), the build number
DefVer   == <<1, 0>>
DefFlags == <<0, 0, 0, 0>>
HdrOK(ver, flags) == /\ Len(ver) = 2 /\ \A i \in 1..2 : ver[i] \in 0..65535
                     /\ Len(flags) = 4 /\ \A i \in 1..4 : flags[i] \in 0..255
NoFile == [has |-> FALSE, k |-> NoKey, enc |-> Enc("none", "none")]
Files  == 1..4
NoTab  == [fl |-> "none", slots |-> <<>>, cert |-> NoKey]
Init == /\ fs = [f \in Files |-> NoFile] /\ obj = NoObj /\ out = NoObj /\ act = [a |-> "Init"] /\ tab = NoTab

Compute(c) == /\ Legal(c)
              /\ act' = [a |-> "Compute", c |-> c, term |-> DocCase(c)]
              /\ UNCHANGED <<fs, obj, out, tab>>
\* the same computation through an entry point that is told the device: the RoT type is not the caller's choice, it is the one
\* the requested revision has; the expected value is the documented construction of THAT type over the key list
ComputeFor(fam, rev, c) == /\ LegalFor(fam, rev, c)
                           /\ act' = [a |-> "ComputeFor", fam |-> fam, rev |-> rev, c |-> c, term |-> DocCase(c)]
                           /\ UNCHANGED <<fs, obj, out, tab>>
WriteFile(f, k, e) == /\ e \in PathEncs
                      /\ fs' = [fs EXCEPT ![f] = [has |-> TRUE, k |-> k, enc |-> e]]
                      /\ act' = [a |-> "WriteFile", f |-> f, k |-> k, enc |-> e]
                      /\ UNCHANGED <<obj, out, tab>>
\* a tool path reads the key list from files BY PATH: what counts is what the files hold NOW
FileCase(rot, files, path, used) == [rot |-> rot, keys |-> [i \in 1..Len(files) |-> fs[files[i]].k],
                                     encs |-> [i \in 1..Len(files) |-> fs[files[i]].enc], path |-> path, used |-> used]
ReadByPath(rot, files, path, used) ==
  /\ \A i \in 1..Len(files) : fs[files[i]].has
  /\ Legal(FileCase(rot, files, path, used))
  /\ act' = [a |-> "ReadByPath", rot |-> rot, files |-> files, path |-> path, used |-> used,
             c |-> FileCase(rot, files, path, used), term |-> DocCase(FileCase(rot, files, path, used))]
  /\ UNCHANGED <<fs, obj, out, tab>>

Build21(ks, used, isk, iskKey, udLen, cons) ==
  /\ ShapeOK("cert_block_21", ks) /\ used \in 1..N(ks)
  \* the ISK is on ITS OWN curve: every (root curve, ISK curve) pair is a block (the header word, the curve byte and the key field follow
  \* the ISK key, the signature field the root key that signs)
  /\ (isk => iskKey.cls \in {"p256", "p384"}) /\ (~isk => iskKey = NoKey /\ udLen = 0 /\ cons = 0)
  /\ obj' = [NoObj EXCEPT !.kind = "cb21", !.keys = ks, !.used = used, !.isk = isk, !.iskKey = iskKey,
                          !.ud = [v |-> 0, len |-> udLen], !.cons = cons, !.signer = TRUE]
  /\ out' = NoObj
  /\ act' = [a |-> "Build21", keys |-> ks, used |-> used, isk |-> isk, iskKey |-> iskKey, udLen |-> udLen, cons |-> cons,
             term |-> RkthV21(ks)]
  /\ UNCHANGED <<fs, tab>>
Current(o) == [ok |-> TRUE, v |-> o.ud.v, len |-> o.ud.len, cons |-> o.cons]
Export21 ==
  /\ obj.kind = "cb21"
  /\ LET signed == IF ~obj.isk THEN NoSig
                   ELSE IF ~obj.signer THEN obj.signed                               \* a parsed block keeps the signature it came with
                   ELSE IF SigCache /\ obj.signed.ok THEN obj.signed                 \* as built: "if self.signature and not force: return"
                   ELSE Current(obj)
     IN /\ obj' = [obj EXCEPT !.signed = signed]
        /\ out' = [obj EXCEPT !.signed = signed]
  /\ act' = [a |-> "Export21", term |-> Block21(obj), rkth |-> RkthV21(obj.keys)]
  /\ UNCHANGED <<fs, tab>>
Parse21 ==
  /\ out.kind = "cb21"
  /\ obj' = [out EXCEPT !.signer = FALSE]
  /\ act' = [a |-> "Parse21", n |-> N(out.keys), used |-> out.used, ca |-> ~out.isk, isk |-> out.isk, udLen |-> out.ud.len,
             cons |-> out.cons, term |-> RkthV21(out.keys), block |-> Block21(out)]
  /\ UNCHANGED <<fs, out, tab>>
SetUserData(len) ==
  /\ obj.kind = "cb21" /\ obj.isk /\ obj.signer            \* re-signing needs the private key: not defined for a parsed block
  /\ obj' = [obj EXCEPT !.ud = [v |-> @.v + 1, len |-> len]]
  /\ act' = [a |-> "SetUserData", len |-> len, v |-> obj.ud.v + 1]
  /\ UNCHANGED <<fs, out, tab>>
SetConstraints(c) ==
  /\ obj.kind = "cb21" /\ obj.isk /\ obj.signer /\ c # obj.cons
  /\ obj' = [obj EXCEPT !.cons = c]
  /\ act' = [a |-> "SetConstraints", cons |-> c]
  /\ UNCHANGED <<fs, out, tab>>

Build1(ks, used, img, build, ver, flags) ==
  /\ ShapeOK("cert_block_1", ks) /\ used \in 1..N(ks) /\ HdrOK(ver, flags)
  /\ obj' = [NoObj EXCEPT !.kind = "cb1", !.keys = ks, !.used = used, !.img = img, !.build = build, !.ver = ver, !.flags = flags, !.signer = TRUE]
  /\ out' = NoObj
  /\ act' = [a |-> "Build1", keys |-> ks, used |-> used, img |-> img, build |-> build, ver |-> ver, flags |-> flags, term |-> RkthV1(ks)]
  /\ UNCHANGED <<fs, tab>>
Export1 ==
  /\ obj.kind = "cb1"
  /\ out' = obj
  /\ act' = [a |-> "Export1", rkth |-> RkthV1(obj.keys), table |-> TableV1(obj.keys)]
  /\ UNCHANGED <<fs, obj, tab>>
Parse1 ==
  /\ out.kind = "cb1"
  /\ obj' = [out EXCEPT !.signer = FALSE]
  /\ act' = [a |-> "Parse1", img |-> out.img, build |-> out.build, ver |-> out.ver, flags |-> out.flags, used |-> out.used, term |-> RkthV1(out.keys)]
  /\ UNCHANGED <<fs, out, tab>>
SetImageLength(n) ==
  /\ obj.kind = "cb1" /\ n > 0 /\ n # obj.img
  /\ obj' = [obj EXCEPT !.img = n]
  /\ act' = [a |-> "SetImageLength", img |-> n]
  /\ UNCHANGED <<fs, out, tab>>

\* ------------------------------------------------------------------ construction histories: ONE table object is built by calls
\* "The RoT value depends only on the ordered list of root public keys" - hence not on the order, the repetition or the grouping of
\* the calls that put the keys into the table.  The builders (flavours) and their public incremental API:
\*   rkht1  RKHTv1                 set_rkh(index, hash)                         four slots, written by index in ANY order, any slot
\*   cb1    CertBlockV1            set_root_key_hash(index, certificate | hash)  any number of times (a later write REPLACES the slot);
\*                                 add_certificate(cert)                         empty slots are 32 x 00
\*   hab    image.secret.SrkTable  append(item),  table[i] = item               a list: append at the end, replace an existing entry
\*   ahab   ahab_srk.SRKTable      add_record(public key, flags),  clear()      a list: append at the end, empty it;
\*                                 srk_records[i] = record                       replace an existing entry of the (public) record list
\*   ahab2  ahab_srk.SRKTableV2    (the same methods, inherited)
\*   pfr1 / pfr21  pfr.CMPA of a cert_block_1 / cert_block_21 family:  export(keys = the WHOLE list)  the same page object is exported
\*                                 again and again, each time with the key list of the moment
\* The records of the three SRK tables are objects with public fields: the key material of a record can be replaced in place
\* (Rekey: HAB SrkItem.modulus / x_coordinate .., AHAB SRKRecord.crypto_params / src_key / srk_data - the record keeps its type) and so can
\* its CA flag (SetCa: HAB SrkItem.flag, AHAB SRKRecord.srk_flags).  The table object hands out the value of what it holds - and exports - NOW.
\* (RKHTv21 / CertBlockV21 / the RoT meta of debug credentials have no incremental builder: the constructor takes the whole list.)
\* The object comes to exist empty ("new"), from a key list (constructor / from_keys: "keys") or by parsing an exported table ("parsed");
\* a PFR page also by loading a configuration that carries a ROTKH ("cfg").
Flavours    == {"rkht1", "cb1", "hab", "ahab", "ahab2", "pfr1", "pfr21"}
RotOfFl(fl) == CASE fl \in {"rkht1", "cb1", "pfr1"} -> "cert_block_1" [] fl = "pfr21" -> "cert_block_21" [] fl = "hab" -> "srk_table_hab"
                 [] fl = "ahab" -> "srk_table_ahab" [] fl = "ahab2" -> "srk_table_ahab_v2"
Indexed(fl) == fl \in {"rkht1", "cb1"}
Whole(fl)   == fl \in {"pfr1", "pfr21"}                     \* the object is handed the whole key list in one call
Origins(fl) == CASE fl = "rkht1" -> {"new", "keys", "parsed"} [] fl = "cb1" -> {"new", "parsed"} [] fl = "hab" -> {"new", "parsed"}
                 [] Whole(fl) -> {"new", "cfg", "parsed"} [] OTHER -> {"new", "keys", "parsed", "rot"}     \* "rot": the table the front end Rot(family, keys) built and holds
\* a PFR page object that is not new HELD A VALUE before: the ROTKH of another key list (`init`) - possibly of another hash width than the
\* one it is exported with next - that came with the configuration it was loaded from ("cfg") or with the binary it parsed ("parsed")
Held(origin) == origin \in {"cfg", "parsed"}
\* how one key is handed to the builder: a certificate object (plain / CA), the 32-byte key hash, a public key object (AHAB: with the
\* flags argument 0 or 0x80 = CA).  For the SRK flavours the CA flag is part of the record the value is made of; for the indexed ones it is not.
Forms(fl)   == CASE fl = "rkht1" -> {"hash"} [] fl = "cb1" -> {"crt", "ca", "hash"} [] fl = "hab" -> {"crt", "ca"} [] OTHER -> {"pub", "pubca"}
CaOf(fl, form) == ~Indexed(fl) /\ form \in {"ca", "pubca"}
Slot(k, ca) == [k |-> k, ca |-> ca]
EmptySlot   == Slot(NoKey, FALSE)
Filled(s)   == s.k # NoKey
Count(sl)   == Cardinality({i \in 1..Len(sl) : Filled(sl[i])})
Contig(sl)  == \A i \in 1..Len(sl) : Filled(sl[i]) => \A j \in 1..i : Filled(sl[j])          \* no hole before a filled slot
FinalKeys(sl) == [i \in 1..Count(sl) |-> sl[i].k]                                            \* THE ordered key list of the table
FinalCas(sl)  == [i \in 1..Count(sl) |-> sl[i].ca]
Pad4(sl)    == [i \in 1..4 |-> IF i <= Len(sl) THEN sl[i] ELSE EmptySlot]
\* the asserted domain of a computation on the object: its contents ARE a key list of the property (1..4 keys without a hole - the
\* configuration front end refuses holes, a table with a hole is not asserted -, the shape the RoT type takes, one CA flag per AHAB table)
TabLegal(t) == /\ t.fl \in Flavours /\ Len(t.slots) <= 4 /\ Contig(t.slots) /\ Count(t.slots) >= 1
               /\ ShapeOK(RotOfFl(t.fl), FinalKeys(t.slots))
               /\ (t.fl \in {"ahab", "ahab2"} => \A i \in 1..4 : t.slots[i].ca = t.slots[1].ca)
TabKeys(t)  == FinalKeys(t.slots)
TabTerm(t)  == Doc(RotOfFl(t.fl), FinalKeys(t.slots), FinalCas(t.slots))
TabTable(t) == DocTable(RotOfFl(t.fl), FinalKeys(t.slots), FinalCas(t.slots))
\* certificate block v1: the slot whose key is the key of the root certificate (0 = none: such a block cannot be exported)
CertIndex(t) == IF t.cert = NoKey \/ ~(\E i \in 1..Len(t.slots) : t.slots[i].k = t.cert) THEN 0
                ELSE CHOOSE i \in 1..Len(t.slots) : t.slots[i].k = t.cert /\ \A j \in 1..(i - 1) : t.slots[j].k # t.cert
InitOK(fl, origin, init, cert) ==
  /\ fl \in Flavours /\ origin \in Origins(fl) /\ Len(init) <= 4 /\ \A i \in 1..Len(init) : Filled(init[i]) /\ (init[i].ca => ~Indexed(fl))
  /\ (origin = "new" => init = <<>>)
  /\ (Held(origin) => TabLegal([fl |-> fl, slots |-> init, cert |-> NoKey]))                  \* what was parsed / loaded is an exported, legal table
  /\ (origin = "keys" => Len(init) >= 1 /\ \A i \in 1..Len(init) : init[i].k.cls \in Classes)
  /\ (origin = "rot" => /\ TabLegal([fl |-> fl, slots |-> init, cert |-> NoKey])                 \* the front end takes a whole, legal key list
                         /\ \A i \in 1..Len(init) : ~init[i].ca)                                 \* ... of public keys
  /\ (IF fl = "cb1" /\ origin = "parsed" THEN \E i \in 1..Len(init) : init[i].k = cert ELSE cert = NoKey)   \* a parsed block has its certificate
\* the bytes a "parsed" object is parsed from: the documented table over the key list it holds (for a v1 block: the table inside the block)
\* (a PFR page: the VALUE over the key list, which the ROTKH field held - zero padded to the width of the field)
StartImage(fl, origin, init) == IF ~Held(origin) THEN Cat(<<>>)
                                ELSE IF Whole(fl) THEN Doc(RotOfFl(fl), FinalKeys(init), FinalCas(init))
                                ELSE DocTable(RotOfFl(fl), FinalKeys(init), FinalCas(init))
StartT(fl, origin, init, cert) ==
  /\ InitOK(fl, origin, init, cert)
  /\ tab' = [fl |-> fl, slots |-> IF Indexed(fl) THEN Pad4(init) ELSE init, cert |-> cert]
  /\ act' = [a |-> "StartT", fl |-> fl, origin |-> origin, init |-> init, cert |-> cert, image |-> StartImage(fl, origin, init)]
  /\ UNCHANGED <<fs, obj, out>>
\* write slot i (1-based; the API counts from 0): whatever the slot held before is REPLACED, no other slot changes
SetSlotOK(i, k, form) ==
  /\ tab.fl # "none" /\ form \in Forms(tab.fl) /\ k.cls \in Classes
  /\ (IF Indexed(tab.fl) THEN i \in 1..4 ELSE tab.fl \in {"hab", "ahab", "ahab2"} /\ i \in 1..Len(tab.slots))   \* table[i] = item: an existing entry only
SetSlot(i, k, form) ==
  /\ SetSlotOK(i, k, form)
  /\ tab' = [tab EXCEPT !.slots[i] = Slot(k, CaOf(tab.fl, form))]
  /\ act' = [a |-> "SetSlot", i |-> i, k |-> k, form |-> form]
  /\ UNCHANGED <<fs, obj, out>>
AppendOK(k, form) == tab.fl \in {"hab", "ahab", "ahab2"} /\ form \in Forms(tab.fl) /\ k.cls \in Classes /\ Len(tab.slots) < 4
AppendSlot(k, form) ==
  /\ AppendOK(k, form)
  /\ tab' = [tab EXCEPT !.slots = Append(@, Slot(k, CaOf(tab.fl, form)))]
  /\ act' = [a |-> "AppendSlot", k |-> k, form |-> form]
  /\ UNCHANGED <<fs, obj, out>>
ClearOK == tab.fl \in {"ahab", "ahab2"}
ClearT ==
  /\ ClearOK
  /\ tab' = [tab EXCEPT !.slots = <<>>]
  /\ act' = [a |-> "ClearT"]
  /\ UNCHANGED <<fs, obj, out>>
SetAllOK(ks) == Whole(tab.fl) /\ Len(ks) \in 1..4 /\ \A i \in 1..Len(ks) : ks[i].cls \in Classes
SetAll(ks) ==                                               \* the next export is given THIS list: nothing of an earlier list remains
  /\ SetAllOK(ks)
  /\ tab' = [tab EXCEPT !.slots = [i \in 1..Len(ks) |-> Slot(ks[i], FALSE)]]
  /\ act' = [a |-> "SetAll", keys |-> ks]
  /\ UNCHANGED <<fs, obj, out>>
\* in-place changes of a record of an SRK table: its key (the record keeps its type - algorithm and size - and its flag) ...
IsList(fl) == fl \in {"hab", "ahab", "ahab2"}
RekeyOK(i, k) == IsList(tab.fl) /\ i \in 1..Len(tab.slots) /\ k.cls \in Classes /\ k.cls = tab.slots[i].k.cls
Rekey(i, k) ==
  /\ RekeyOK(i, k)
  /\ tab' = [tab EXCEPT !.slots[i] = Slot(k, @.ca)]
  /\ act' = [a |-> "Rekey", i |-> i, k |-> k]
  /\ UNCHANGED <<fs, obj, out>>
\* ... its CA flag: of record i, or (i = 0) of every record of the table (an AHAB table has ONE flag)
SetCaOK(i, ca) == IsList(tab.fl) /\ ca \in BOOLEAN /\ (i = 0 \/ (tab.fl = "hab" /\ i \in 1..Len(tab.slots)))
SetCa(i, ca) ==
  /\ SetCaOK(i, ca)
  /\ tab' = [tab EXCEPT !.slots = [j \in 1..Len(@) |-> IF i = 0 \/ j = i THEN Slot(@[j].k, ca) ELSE @[j]]]
  /\ act' = [a |-> "SetCa", i |-> i, ca |-> ca]
  /\ UNCHANGED <<fs, obj, out>>
AddCertOK(k) == tab.fl = "cb1" /\ tab.cert = NoKey /\ IsRsa(k.cls)
AddCertificate(k) ==                                        \* the (single, self-signed) root certificate of a v1 block; chains are C02's
  /\ AddCertOK(k)
  /\ tab' = [tab EXCEPT !.cert = k]
  /\ act' = [a |-> "AddCertificate", k |-> k]
  /\ UNCHANGED <<fs, obj, out>>
\* every way the object hands out the value / the table: the value itself, the fuse words, the table bytes, the exported and
\* re-parsed object - all of them are the documented construction over what the slots hold NOW, however they came to hold it
ComputeT ==
  /\ TabLegal(tab)
  /\ act' = [a |-> "ComputeT", fl |-> tab.fl, keys |-> TabKeys(tab), term |-> TabTerm(tab), table |-> TabTable(tab), index |-> CertIndex(tab)]
  /\ UNCHANGED <<fs, obj, out, tab>>

\* ------------------------------------------------------------------ what must always hold
\* the exported ISK signature covers exactly the fields the block carries NOW (also after a field was changed)
FreshSignature == out.kind = "cb21" /\ out.isk => out.signed = Current(out)
\* a parsed block is the exported block
ParsedIsBuilt == act.a \in {"Parse21", "Parse1"} =>
                   /\ obj.keys = out.keys /\ obj.used = out.used /\ obj.ud = out.ud /\ obj.cons = out.cons
                   /\ obj.img = out.img /\ obj.build = out.build /\ obj.isk = out.isk
                   /\ obj.ver = out.ver /\ obj.flags = out.flags
\* reading by path sees the file content of the moment
ReadIsCurrent == act.a = "ReadByPath" => act.term = DocCase(FileCase(act.rot, act.files, act.path, act.used))
\* a device computation yields the construction of the RoT type of the REQUESTED revision (not of another revision of the family)
RevisionDecides == act.a = "ComputeFor" => /\ act.c.rot = RotOf(act.fam, act.rev)
                                           /\ act.term = DocCase([act.c EXCEPT !.rot = RotOf(act.fam, act.rev)])
\* the value an object hands out does not remember how the object was built
HistoryFree == act.a = "ComputeT" => /\ act.term = Doc(RotOfFl(tab.fl), FinalKeys(tab.slots), FinalCas(tab.slots))
                                     /\ act.table = DocTable(RotOfFl(tab.fl), FinalKeys(tab.slots), FinalCas(tab.slots))
                                     /\ act.keys = FinalKeys(tab.slots)
=============================================================================
