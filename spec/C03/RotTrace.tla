------------------------------ MODULE RotTrace ------------------------------
(* TV form of C03: batch validation of what the real code did against the R-spec Rot.                *)
(* One trace = one behaviour replayed in ONE process; one logged event per spec action.  Every event  *)
(* carries the arguments of the action, the TERM the value was evaluated from (recomputed here - the  *)
(* spec, not the harness, defines what is expected), the independent evaluation `want` (hashlib over  *)
(* numbers taken from `cryptography` key objects) and what the real code returned (`got`).            *)
(* Why_X names the first clause an event violates ("ok" if none): the action is enabled iff "ok"; the *)
(* name is kept in a TLC register for the report.                                                     *)
(* Construction histories (StartT .. ComputeT): the calls that build ONE table object are replayed on *)
(* the spec's `tab`; every ComputeT event carries what the object hands out at that point (value,      *)
(* table, fuse words, exported and re-parsed object) and is decided against the documented            *)
(* construction over what `tab` holds then - the history itself is not consulted.  The in-place       *)
(* changes of an SRK table (an entry replaced in the list, Rekey, SetCa) are writes like the others:  *)
(* a value read after one of them is decided against the contents AFTER it.                           *)
EXTENDS Rot, Json, IOUtils
Traces == ndJsonDeserialize(IOEnv.TRACE_FILE)
NT == Len(Traces)
VARIABLES tid, l, lastSha
tvars == <<vars, tid, l, lastSha>>
T == Traces[tid].ev
E == T[l]
Is(e) == l <= Len(T) /\ E.a = e
Adv == l' = l + 1 /\ UNCHANGED tid
Keep == UNCHANGED lastSha
Val(g, want) == g.k = "val" /\ g.v = want

WhyCompute == IF ~Legal(E.c) THEN "legal"
              ELSE IF E.term # DocCase(E.c) THEN "term"
              ELSE IF E.got.k # "val" THEN "returned"
              ELSE IF ~ValueOK(E.c, E.got.v, E.want, E.fieldLen) THEN "value" ELSE "ok"
TCompute == Is("Compute") /\ WhyCompute = "ok" /\ Compute(E.c) /\ Keep /\ Adv
\* an entry point that was given a device: the case must carry the RoT type THE TABLE gives for the requested revision ("device": the
\* harness chose another type - never a finding), the value must be the documented construction of that type
WhyComputeFor == IF ~HasDev(E.fam, E.rev) THEN "legal"
                 ELSE IF E.c.rot # RotOf(E.fam, E.rev) THEN "device"
                 ELSE IF ~LegalFor(E.fam, E.rev, E.c) THEN "legal"
                 ELSE IF E.term # DocCase(E.c) THEN "term"
                 ELSE IF E.got.k # "val" THEN "returned"
                 ELSE IF ~ValueOK(E.c, E.got.v, E.want, E.fieldLen) THEN "value" ELSE "ok"
TComputeFor == Is("ComputeFor") /\ WhyComputeFor = "ok" /\ ComputeFor(E.fam, E.rev, E.c) /\ Keep /\ Adv
TWriteFile == Is("WriteFile") /\ WriteFile(E.f, E.k, E.enc) /\ Keep /\ Adv
FC == FileCase(E.rot, E.files, E.path, E.used)
WhyRead == IF ~(\A i \in 1..Len(E.files) : E.files[i] \in Files /\ fs[E.files[i]].has) THEN "legal"
           ELSE IF ~Legal(FC) THEN "legal"
           ELSE IF E.term # DocCase(FC) THEN "term"
           ELSE IF E.got.k # "val" THEN "returned"
           ELSE IF ~ValueOK(FC, E.got.v, E.want, E.fieldLen) THEN "value" ELSE "ok"
TRead == Is("ReadByPath") /\ WhyRead = "ok" /\ ReadByPath(E.rot, E.files, E.path, E.used) /\ Keep /\ Adv

WhyBuild21 == IF ~(ShapeOK("cert_block_21", E.keys) /\ E.used \in 1..Len(E.keys)) THEN "legal"
              ELSE IF E.term # RkthV21(E.keys) \/ Len(E.want) # E.term.len THEN "term"
              ELSE IF ~Val(E.got, E.want) THEN "rkth" ELSE "ok"
TBuild21 == Is("Build21") /\ WhyBuild21 = "ok" /\ Build21(E.keys, E.used, E.isk, E.iskKey, E.udLen, E.cons) /\ Keep /\ Adv
\* the exported bytes ARE the documented block: every field (match = name of the first field that differs, "ok" if none),
\* the ISK signature verifies under the selected root key over exactly Signed21, the rkth property is still the value
WhyExport21 == IF obj.kind # "cb21" THEN "legal"
               ELSE IF E.term # Block21(obj) \/ E.rkth_term # RkthV21(obj.keys) THEN "term"
               ELSE IF E.got.k # "val" THEN "returned"
               ELSE IF E.len # E.term.len THEN "length"
               ELSE IF E.match # "ok" THEN E.match
               ELSE IF ~Val(E.rkth_got, E.rkth_want) \/ Len(E.rkth_want) # E.rkth_term.len THEN "rkth" ELSE "ok"
TExport21 == Is("Export21") /\ WhyExport21 = "ok" /\ Export21 /\ lastSha' = E.sha /\ Adv
WhyParse21 == IF out.kind # "cb21" THEN "legal"
              ELSE IF E.term # RkthV21(out.keys) \/ Len(E.want) # E.term.len THEN "term"
              ELSE IF E.got.k # "val" THEN "returned"
              ELSE IF E.got.v # E.want THEN "rkth"
              ELSE IF E.n # Len(out.keys) THEN "key_count"
              ELSE IF E.used # out.used THEN "used_root"
              ELSE IF E.ca # ~out.isk THEN "ca_flag"
              ELSE IF E.isk # out.isk THEN "isk_present"
              ELSE IF E.udLen # out.ud.len \/ ~E.ud_ok THEN "user_data"
              ELSE IF E.cons # out.cons THEN "constraints"
              ELSE IF ~E.isk_key_ok THEN "isk_public_key"
              ELSE IF E.reexport_sha # lastSha THEN "reexport" ELSE "ok"
TParse21 == Is("Parse21") /\ WhyParse21 = "ok" /\ Parse21 /\ Keep /\ Adv
TSetUserData == Is("SetUserData") /\ E.v = obj.ud.v + 1 /\ SetUserData(E.len) /\ Keep /\ Adv
TSetConstraints == Is("SetConstraints") /\ SetConstraints(E.cons) /\ Keep /\ Adv

WhyBuild1 == IF ~(ShapeOK("cert_block_1", E.keys) /\ E.used \in 1..Len(E.keys) /\ HdrOK(E.ver, E.flags)) THEN "legal"
             ELSE IF E.term # RkthV1(E.keys) \/ Len(E.want) # 32 THEN "term"
             ELSE IF ~Val(E.got, E.want) THEN "rkth" ELSE "ok"
TBuild1 == Is("Build1") /\ WhyBuild1 = "ok" /\ Build1(E.keys, E.used, E.img, E.build, E.ver, E.flags) /\ Keep /\ Adv
WhyExport1 == IF obj.kind # "cb1" THEN "legal"
              ELSE IF E.rkth_term # RkthV1(obj.keys) \/ E.table_term # TableV1(obj.keys) THEN "term"
              ELSE IF E.got.k # "val" THEN "returned"
              ELSE IF ~Header1OK(obj, E.f) THEN "layout"
              ELSE IF E.f.table # E.table_want \/ Len(E.table_want) # 128 THEN "rkh_table"
              ELSE IF ~Val(E.rkth_got, E.rkth_want) \/ Len(E.rkth_want) # 32 THEN "rkth"
              ELSE IF E.f.rkh_index # obj.used - 1 THEN "rkh_index" ELSE "ok"
TExport1 == Is("Export1") /\ WhyExport1 = "ok" /\ Export1 /\ lastSha' = E.sha /\ Adv
WhyParse1 == IF out.kind # "cb1" THEN "legal"
             ELSE IF E.term # RkthV1(out.keys) \/ Len(E.want) # 32 THEN "term"
             ELSE IF E.got.k # "val" THEN "returned"
             ELSE IF E.got.v # E.want THEN "rkth"
             ELSE IF E.img # out.img THEN "image_length"
             ELSE IF E.build # out.build THEN "build_number"
             ELSE IF E.ver # out.ver THEN "header_version"
             ELSE IF E.flags # out.flags THEN "header_flags"
             ELSE IF E.rkh_index # out.used - 1 THEN "rkh_index"
             ELSE IF E.cert_count # 1 \/ ~E.cert_ok THEN "certificates"
             ELSE IF E.reexport_sha # lastSha THEN "reexport" ELSE "ok"
TParse1 == Is("Parse1") /\ WhyParse1 = "ok" /\ Parse1 /\ Keep /\ Adv
TSetImageLength == Is("SetImageLength") /\ SetImageLength(E.img) /\ Keep /\ Adv

\* ---- construction histories of one table object.  The writes carry no observation (they return nothing); a write the real object
\* REFUSES is logged as the event it was, with crash set - no action matches it.  ComputeT carries everything the object hands out:
\*   got     the value (rkth / export_fuses / compute_srk_hash)            tbl    the table bytes the object holds / exports
\*   fuses   the fuse words as the object lists them (v1 block, HAB)       parsed the value of parse(export()) of the object
\*   f       the walk over the exported v1 block (layout, table inside the block, which slot the certificate points at)
\* each of them must be the documented construction over what the slots hold NOW (tab), however they came to hold it
Obs(o, want) == o.k = "val" /\ o.v = want
HasFuses(fl) == fl \in {"cb1", "hab"}
CanExport    == ~Whole(tab.fl) /\ (tab.fl # "cb1" \/ CertIndex(tab) > 0)   \* a v1 block is exported with the certificate of one of its keys
\* a PFR page hands out the ROTKH FIELD: the value, zero padded to the width of the field
TabValueOK   == IF Whole(tab.fl) THEN /\ E.fieldLen >= Len(E.want) /\ Len(E.got.v) = E.fieldLen /\ SubSeq(E.got.v, 1, Len(E.want)) = E.want
                                      /\ \A i \in (Len(E.want) + 1)..E.fieldLen : E.got.v[i] = 0
                ELSE E.got.v = E.want
WhyStartT == IF ~InitOK(E.fl, E.origin, E.init, E.cert) THEN "legal"
             ELSE IF E.image # StartImage(E.fl, E.origin, E.init) THEN "term"
             ELSE IF "crash" \in DOMAIN E THEN "refused" ELSE "ok"
TStartT == Is("StartT") /\ WhyStartT = "ok" /\ StartT(E.fl, E.origin, E.init, E.cert) /\ Keep /\ Adv
WhyWrite == IF tab.fl = "none" THEN "legal"
            ELSE IF "crash" \in DOMAIN E THEN "refused"              \* the builder refused (or lost) a write the API documents
            ELSE "ok"
TSetSlot == Is("SetSlot") /\ WhyWrite = "ok" /\ SetSlot(E.i, E.k, E.form) /\ Keep /\ Adv
TAppendSlot == Is("AppendSlot") /\ WhyWrite = "ok" /\ AppendSlot(E.k, E.form) /\ Keep /\ Adv
TClearT == Is("ClearT") /\ WhyWrite = "ok" /\ ClearT /\ Keep /\ Adv
TAddCertificate == Is("AddCertificate") /\ WhyWrite = "ok" /\ AddCertificate(E.k) /\ Keep /\ Adv
TSetAll == Is("SetAll") /\ WhyWrite = "ok" /\ SetAll(E.keys) /\ Keep /\ Adv
TRekey == Is("Rekey") /\ WhyWrite = "ok" /\ Rekey(E.i, E.k) /\ Keep /\ Adv
TSetCa == Is("SetCa") /\ WhyWrite = "ok" /\ SetCa(E.i, E.ca) /\ Keep /\ Adv
WhyArgs == CASE E.a = "SetSlot" -> IF SetSlotOK(E.i, E.k, E.form) THEN "ok" ELSE "args"
             [] E.a = "AppendSlot" -> IF AppendOK(E.k, E.form) THEN "ok" ELSE "args"
             [] E.a = "ClearT" -> IF ClearOK THEN "ok" ELSE "args"
             [] E.a = "AddCertificate" -> IF AddCertOK(E.k) THEN "ok" ELSE "args"
             [] E.a = "SetAll" -> IF SetAllOK(E.keys) THEN "ok" ELSE "args"
             [] E.a = "Rekey" -> IF RekeyOK(E.i, E.k) THEN "ok" ELSE "args"
             [] E.a = "SetCa" -> IF SetCaOK(E.i, E.ca) THEN "ok" ELSE "args"
WhyComputeT == IF ~TabLegal(tab) \/ E.fl # tab.fl THEN "legal"
               ELSE IF E.keys # TabKeys(tab) \/ E.term # TabTerm(tab) \/ E.table_term # TabTable(tab) \/ E.index # CertIndex(tab) THEN "term"
               ELSE IF Len(E.want) # E.term.len \/ Len(E.table_want) # E.table_term.len THEN "term"
               ELSE IF E.got.k # "val" THEN "returned"
               ELSE IF ~TabValueOK THEN "value"
               ELSE IF ~Whole(tab.fl) /\ ~Obs(E.tbl, E.table_want) THEN "table"
               ELSE IF HasFuses(tab.fl) /\ ~Obs(E.fuses, E.want) THEN "fuses"
               ELSE IF CanExport /\ ~Obs(E.parsed, E.want) THEN "parsed"
               ELSE IF tab.fl = "cb1" /\ CanExport /\ ~Header1OK([build |-> 0, img |-> 0, ver |-> DefVer, flags |-> DefFlags], E.f) THEN "layout"
               ELSE IF tab.fl = "cb1" /\ CanExport /\ E.f.table # E.table_want THEN "export_table"
               ELSE IF tab.fl = "cb1" /\ CanExport /\ E.f.rkh_index # CertIndex(tab) - 1 THEN "rkh_index" ELSE "ok"
TComputeT == Is("ComputeT") /\ WhyComputeT = "ok" /\ ComputeT /\ Keep /\ Adv

Why == IF l > Len(T) THEN "end"
       ELSE CASE E.a = "Compute" -> WhyCompute [] E.a = "ComputeFor" -> WhyComputeFor [] E.a = "ReadByPath" -> WhyRead
              [] E.a = "Build21" -> WhyBuild21 [] E.a = "Export21" -> WhyExport21 [] E.a = "Parse21" -> WhyParse21
              [] E.a = "Build1" -> WhyBuild1 [] E.a = "Export1" -> WhyExport1 [] E.a = "Parse1" -> WhyParse1
              [] E.a \in {"WriteFile", "SetUserData", "SetConstraints", "SetImageLength"} -> "args"
              [] E.a = "StartT" -> WhyStartT [] E.a = "ComputeT" -> WhyComputeT
              [] E.a \in {"SetSlot", "AppendSlot", "ClearT", "AddCertificate", "SetAll", "Rekey", "SetCa"} -> (IF WhyWrite # "ok" THEN WhyWrite ELSE WhyArgs)
              [] OTHER -> "no-such-action"
TInit == /\ tid \in 1..NT /\ l = 1 /\ lastSha = "" /\ Init /\ TLCSet(tid, 1) /\ TLCSet(NT + tid, "start")
TNext == \/ TCompute \/ TComputeFor \/ TWriteFile \/ TRead
         \/ TBuild21 \/ TExport21 \/ TParse21 \/ TSetUserData \/ TSetConstraints
         \/ TBuild1 \/ TExport1 \/ TParse1 \/ TSetImageLength
         \/ TStartT \/ TSetSlot \/ TAppendSlot \/ TClearT \/ TAddCertificate \/ TSetAll \/ TRekey \/ TSetCa \/ TComputeT
Constr == (IF TLCGet(tid) <= l THEN TLCSet(tid, l) /\ TLCSet(NT + tid, Why) ELSE TRUE)
Post == \A i \in 1..NT :
          \/ TLCGet(i) - 1 = Len(Traces[i].ev)
          \/ PrintT(<<"REJ", Traces[i].id, TLCGet(i) - 1, Len(Traces[i].ev),
                      Traces[i].ev[IF TLCGet(i) <= Len(Traces[i].ev) THEN TLCGet(i) ELSE Len(Traces[i].ev)].a, TLCGet(NT + i)>>)
=============================================================================
