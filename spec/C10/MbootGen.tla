------------------------------ MODULE MbootGen ------------------------------
(* GEN form of Mboot.tla: every finished behaviour with exactly one fault prints its fault class             *)
(* (operation shape, data length in packets, fault kind, position in the device-to-host frame stream).      *)
EXTENDS Mboot, Json
VARIABLE printed
GInit == Init /\ printed = FALSE
GNext == \/ Next /\ UNCHANGED printed
         \/ /\ result.kind # "none" /\ ~printed /\ Len(fhist) = 1 /\ printed' = TRUE
            /\ PrintT(ToJson([shape |-> api.shape, n |-> api.n, kind |-> fhist[1].kind, at |-> fhist[1].at]))
            /\ UNCHANGED vars
=============================================================================
