CONSTANTS Shapes = {"cmd","in","out"}
 MaxChunks = 3
 MaxFaults = 1
 Repaired = FALSE
SPECIFICATION Spec
INVARIANT NoFalseSuccess
INVARIANT PartialIsFlagged
INVARIANT Documented
INVARIANT MirrorNoFault

CHECK_DEADLOCK FALSE
