CONSTANTS MaxLen = 3
 Ns = {0, 2}
INIT Init
NEXT Next
CHECK_DEADLOCK FALSE
