CONSTANTS Shapes = {"cmd","in","out"}
 MaxChunks = 3
 MaxFaults = 1
 Repaired = TRUE
SPECIFICATION Spec
INVARIANT NoFalseSuccess
INVARIANT PartialIsFlagged
INVARIANT Documented
INVARIANT MirrorNoFault
INVARIANT Drained
PROPERTY Terminates
CHECK_DEADLOCK FALSE
