CONSTANTS Shapes = {"cmd","in","out"}
 MaxChunks = 3
 MaxFaults = 1
 Repaired = TRUE
SPECIFICATION Spec
INVARIANT NoFalseSuccess
INVARIANT PartialIsFlagged
INVARIANT Documented
INVARIANT MirrorNoFault
PROPERTY Terminates
CHECK_DEADLOCK FALSE
