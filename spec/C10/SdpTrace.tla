----------------------------- MODULE SdpTrace -----------------------------
(* R-spec of C10 for SDP (i.MX ROM serial download protocol) in trace form, serial and USB-HID.      *)
(* Reference device: a 16-byte command; then by command                                                *)
(*   READ_REGISTER : HAB status, count bytes of data                                                   *)
(*   WRITE_REGISTER: HAB status, completion status                                                     *)
(*   WRITE_FILE / WRITE_DCD / WRITE_CSF : count bytes from the host, HAB status, completion status     *)
(*   ERROR_STATUS  : HAB status, error code        JUMP_ADDRESS / SKIP_DCD: HAB status (+ status)      *)
(* The byte stream may arrive in several bursts (a read may return fewer bytes than asked for): that  *)
(* is ordinary behaviour of a serial line, not a fault.  Faults: the stream ends early (trunc), one bit *)
(* of a status word is flipped (flip; SDP has no CRC, an undefined status value is all there is), the    *)
(* device reports a failure status (err).                                                              *)
EXTENDS Naturals, Sequences, FiniteSets, TLC, Json, IOUtils
Traces == ndJsonDeserialize(IOEnv.TRACE_FILE)
VARIABLES tid, l, call, dev, devLeft, hostLeft, faulted, devStatusOk, viol
vars == <<tid, l, call, dev, devLeft, hostLeft, faulted, devStatusOk, viol>>
T == Traces[tid].ev
E == T[l]
Is(e) == l <= Len(T) /\ E.ev = e
Adv == l' = l + 1 /\ UNCHANGED tid
ReadTag == 257  WriteRegTag == 514  WriteFileTag == 1028  ErrStatTag == 1285  WriteCsfTag == 1542  WriteDcdTag == 2570  SkipDcdTag == 3084  JumpTag == 2827
DataOutTags == {WriteFileTag, WriteCsfTag, WriteDcdTag}
\* ---- command layer: the 16-byte command (address, access format, count, value; all big-endian on the wire) an operation stands for.
\* A 32-bit word is a pair <<hi16, lo16>>; c.args are the API arguments in API order, c.dl the length of the data argument.
Z == <<0, 0>>
Pkt(addr, fmt, cnt, val) == [addr |-> addr, fmt |-> fmt, cnt |-> cnt, val |-> val, rsv |-> 0]
SdpPkt(c) ==
  CASE c.op = "read"        -> Pkt(c.args[1], c.args[3][2], c.args[2], Z)             \* read(address, length, format)
    [] c.op = "write"       -> Pkt(c.args[1], c.args[4][2], c.args[3], c.args[2])     \* write(address, value, count, format)
    [] c.op \in {"write_file", "write_dcd", "write_csf"} -> Pkt(c.args[1], 0, c.dl, Z)
    [] c.op = "jump"        -> Pkt(c.args[1], 0, Z, Z)
    [] c.op \in {"read_status", "skip_dcd"} -> Pkt(Z, 0, Z, Z)
Init == /\ tid \in 1..Len(Traces) /\ l = 1 /\ call = [op |-> "none"] /\ dev = "idle" /\ devLeft = 0 /\ hostLeft = 0
        /\ faulted = FALSE /\ devStatusOk = TRUE /\ viol = FALSE /\ TLCSet(tid, 1)
Call == Is("call") /\ call.op = "none" /\ dev = "idle" /\ call' = E /\ UNCHANGED <<dev, devLeft, hostLeft, faulted, devStatusOk, viol>> /\ Adv
HostCmd == /\ Is("h2d") /\ E.kind = "cmd" /\ dev = "idle" /\ E.tag = call.tag
           /\ (call.tag = ReadTag \/ call.tag \in DataOutTags => E.count = call.len)          \* the command announces exactly the length of the call
           /\ E.pkt = SdpPkt(call)                                                            \* AsRequested: address, format, count and value as given
           /\ dev' = (IF E.tag \in DataOutTags /\ E.count > 0 THEN "dataout" ELSE "hab")
           /\ hostLeft' = (IF E.tag \in DataOutTags THEN E.count ELSE 0) /\ devLeft' = (IF E.tag = ReadTag THEN E.count ELSE 0)
           /\ UNCHANGED <<call, faulted, devStatusOk, viol>> /\ Adv
HostData == /\ Is("h2d") /\ E.kind = "data"
            /\ viol' = (viol \/ dev # "dataout" \/ E.n > hostLeft)                             \* nothing but the announced bytes reaches the device
            /\ hostLeft' = (IF E.n > hostLeft THEN 0 ELSE hostLeft - E.n)
            /\ dev' = (IF dev = "dataout" /\ E.n >= hostLeft THEN "hab" ELSE dev)
            /\ UNCHANGED <<call, devLeft, faulted, devStatusOk>> /\ Adv
Hit == E.fault # "none"
DevHab == /\ Is("d2h") /\ E.kind = "hab" /\ dev = "hab"
          /\ faulted' = (faulted \/ Hit)
          /\ dev' = (IF E.fault = "trunc" THEN "dead"
                     ELSE IF call.tag = ReadTag THEN (IF devLeft = 0 THEN "idle" ELSE "datain")
                     ELSE IF call.tag = JumpTag THEN "idle" ELSE "status")
          /\ devStatusOk' = (devStatusOk /\ E.fault # "flip")       \* a HAB status word that is none of its defined values: the acknowledgement is damaged
          /\ UNCHANGED <<call, devLeft, hostLeft, viol>> /\ Adv
DevData == /\ Is("d2h") /\ E.kind = "data" /\ dev = "datain" /\ (E.n >= 1 \/ E.fault = "trunc") /\ E.n <= devLeft
           /\ faulted' = (faulted \/ Hit) /\ devLeft' = devLeft - E.n
           /\ dev' = (IF E.fault = "trunc" THEN "dead" ELSE IF devLeft - E.n = 0 THEN "idle" ELSE "datain")
           /\ UNCHANGED <<call, hostLeft, devStatusOk, viol>> /\ Adv
DevStatus == /\ Is("d2h") /\ E.kind = "status" /\ dev = "status"
             /\ faulted' = (faulted \/ Hit \/ ~E.okValue) /\ devStatusOk' = E.okValue
             /\ dev' = (IF E.fault = "trunc" THEN "dead" ELSE "idle")
             /\ UNCHANGED <<call, devLeft, hostLeft, viol>> /\ Adv
MaxReads == 3000
Result ==
  /\ Is("result") /\ call.op # "none"
  /\ E.kind # "unbounded" /\ E.reads <= MaxReads                                              \* Bounded
  /\ (E.kind = "exc" => E.documented)                                                         \* Documented (SdpError family)
  /\ ~viol
  /\ (~faulted => E.ok /\ dev = "idle")                                                       \* Mirror: fault-free link, success
  /\ (E.ok => /\ dev = "idle" /\ devStatusOk                                                  \* NoFalseSuccess
              /\ (call.tag = ReadTag => E.dataExact /\ E.dataLen = call.len)
              /\ (call.tag \in DataOutTags => E.devGotExact /\ E.devBytes = call.len)
              /\ (call.tag = ErrStatTag => E.valueExact))
  /\ call' = [op |-> "none"] /\ dev' = (IF dev = "dead" THEN "dead" ELSE dev)
  /\ UNCHANGED <<devLeft, hostLeft, faulted, devStatusOk, viol>> /\ Adv
Next == Call \/ HostCmd \/ HostData \/ DevHab \/ DevData \/ DevStatus \/ Result
Constr == IF TLCGet(tid) < l THEN TLCSet(tid, l) ELSE TRUE
Post == \A i \in 1..Len(Traces) : \/ TLCGet(i) - 1 = Len(Traces[i].ev)
          \/ PrintT(<<"REJ", Traces[i].id, TLCGet(i) - 1, Len(Traces[i].ev), Traces[i].ev[IF TLCGet(i) <= Len(Traces[i].ev) THEN TLCGet(i) ELSE Len(Traces[i].ev)].ev>>)
=============================================================================
