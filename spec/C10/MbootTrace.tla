---------------------------- MODULE MbootTrace ----------------------------
(* R-spec of C10 (mboot) in trace form: the reference bootloader device, the faulty device-to-host  *)
(* link and the API contract.  A trace is a history of API calls on ONE McuBoot object; every call    *)
(* is:  call, the frames/reports in wire order as the device saw and emitted them (h2d / d2h, a d2h    *)
(* event is annotated with the link fault that hit it), result.                                       *)
(* The device part is what the executable twin in harness/c10.py must do (a twin that departs from it  *)
(* is rejected: the spec, not the Python, is normative); the contract part is the property.            *)
(* Transports: "serial" (CRC-framed, ACK per frame) and "hid" (reports, no ACK, no integrity check).   *)
EXTENDS MbootCli, FiniteSets, TLC, Json, IOUtils
Traces == ndJsonDeserialize(IOEnv.TRACE_FILE)
VARIABLES tid, l,
          call,      \* the API call in flight (record of the "call" event) or [op |-> "none"]
          dev,       \* device phase: idle | ack_cmd | resp0 | datain | final | dataout | ack_data | dead
          cur,       \* the command exchange in progress on the device: [tag, shape, len, chunks]
          faulted,   \* a link fault hit a frame of this call
          sentB,     \* bytes of host data the device accepted in this exchange
          sentP,     \* data packets the device accepted in this exchange
          gotC,      \* data frames the device emitted in this exchange
          viol,      \* the host violated the protocol (command inside a data phase, oversized packet, surplus data)
          done,      \* command exchanges the device completed cleanly during this call (sequence of tags)
          cmds,      \* the command packets that reached the device during this call: [tag, flags, params] (read-only queries in front of a data phase left out)
          strict     \* a fault hit this call after which the protocol leaves no way to a successful end (NAK, abort, truncated or missing frame)
vars == <<tid, l, call, dev, cur, faulted, sentB, sentP, gotC, viol, done, cmds, strict>>
T == Traces[tid].ev
E == T[l]
Serial == Traces[tid].transport = "serial"
Is(e) == l <= Len(T) /\ E.ev = e
Adv == l' = l + 1 /\ UNCHANGED tid
NoCur == [tag |-> 0, shape |-> "none", len |-> 0, chunks |-> 0]
Init == /\ tid \in 1..Len(Traces) /\ l = 1 /\ call = [op |-> "none"] /\ dev = "idle" /\ cur = NoCur
        /\ faulted = FALSE /\ sentB = 0 /\ sentP = 0 /\ gotC = 0 /\ viol = FALSE /\ done = <<>> /\ cmds = <<>> /\ strict = FALSE /\ TLCSet(tid, 1)

\* shape of a command as the bootloader defines it: what follows the command packet
\*   cmd: one generic response | value: one response carrying values | in: response, data frames, final response
\*   out: response, data packets from the host, final response
InTags == {3, 16, 23}                     \* ReadMemory, FlashReadResource, FuseRead
OutTags == {4, 8, 20}                     \* WriteMemory, ReceiveSbFile, FuseProgram
ValueTags == {7, 15}                      \* GetProperty, FlashReadOnce
\* KeyProvisioning (21) and GenerateKeyBlob (19) have a data phase exactly when the command carries the data-phase flag (out)
\* or, for the read operations, the device announces a length (in): the event carries the shape the device derived.
Call == /\ Is("call") /\ call.op = "none" /\ dev \in {"idle", "dead"}
        /\ call' = E /\ faulted' = FALSE /\ viol' = FALSE /\ done' = <<>> /\ cur' = NoCur /\ sentB' = 0 /\ sentP' = 0 /\ gotC' = 0
        /\ cmds' = <<>> /\ strict' = FALSE /\ UNCHANGED dev /\ Adv
\* ---------------------------------------------------------------- host frames as the device sees them
HostCmd == /\ Is("h2d") /\ E.kind = "cmd" /\ call.op # "none"
           /\ dev \in {"idle", "dataout", "dead"}
           /\ E.tag \in InTags => E.shape = "in"
           /\ E.tag \in OutTags => E.shape = "out"
           /\ E.tag \in ValueTags => E.shape = "value"
           /\ E.shape \in {"cmd", "value", "in", "out"}
           /\ E.chunks = (IF E.shape \in {"in", "out"} THEN (E.len + call.mps - 1) \div call.mps ELSE 0)
           /\ IF dev = "dataout" THEN viol' = TRUE ELSE UNCHANGED viol           \* a command in the middle of a data phase
           /\ cur' = [tag |-> E.tag, shape |-> E.shape, len |-> E.len, chunks |-> E.chunks]
           /\ sentB' = 0 /\ sentP' = 0 /\ gotC' = 0
           /\ dev' = (IF dev = "dead" THEN "dead" ELSE IF Serial THEN "ack_cmd" ELSE "resp0")
           /\ E.rsv = 0                                                                   \* reserved byte of the command header
           /\ cmds' = (IF IsQuery(E) /\ call.op # "get_property" THEN cmds ELSE Append(cmds, P(E.tag, E.flags, E.params)))
           /\ UNCHANGED <<call, faulted, done, strict>> /\ Adv
HostData == /\ Is("h2d") /\ E.kind = "data" /\ call.op # "none"
            /\ dev \in {"dataout", "dead", "idle"}
            /\ viol' = (viol \/ E.n > call.mps \/ ~E.crcOk \/ dev = "idle" \/ (dev = "dataout" /\ sentB + E.n > cur.len))
            /\ sentB' = sentB + E.n /\ sentP' = sentP + 1
            /\ dev' = (IF dev # "dataout" THEN dev
                       ELSE IF Serial THEN "ack_data"
                       ELSE IF sentB + E.n >= cur.len THEN "final" ELSE "dataout")
            /\ UNCHANGED <<call, cur, faulted, gotC, done, cmds, strict>> /\ Adv
\* load-image style data without a command: the device takes it as it comes (no exchange, no response)
HostRaw == /\ Is("h2d") /\ E.kind = "raw" /\ call.op = "load_image" /\ dev = "idle"
           /\ viol' = (viol \/ E.n > call.mps \/ ~E.crcOk) /\ sentB' = sentB + E.n /\ sentP' = sentP + 1
           /\ dev' = (IF Serial THEN "ack_raw" ELSE "idle") /\ UNCHANGED <<call, cur, faulted, gotC, done, cmds, strict>> /\ Adv
HostAck == Is("h2d") /\ E.kind = "ack" /\ Serial /\ UNCHANGED <<call, dev, cur, faulted, sentB, sentP, gotC, viol, done, cmds, strict>> /\ Adv
\* ---------------------------------------------------------------- device emissions (reference behaviour)
Hit == E.fault \notin {"none", "notready"}                     \* "err" (the device itself reports an error status) counts: the call must not succeed
Kills(f) == f \in {"trunc", "abort"}                          \* after these the device sends nothing more
After(next) == IF Kills(E.fault) THEN "dead" ELSE next
\* faults the property names as fatal for the call: NAK, abort frame, truncated or missing frame.  One documented exception: the device may restart
\* before the response to Reset is out, so a Reset whose RESPONSE is lost or cut short may still be reported as done.
\* ResetGone: after Reset the device falls silent - the response never arrives (whole), or the device is gone before its ACK is out.  A host cannot tell
\* this from a device that restarted at once: the restarted device is idle again and the command counts as carried out (an explicit NAK is no silence).
ResetGone == /\ call.op = "reset" /\ cur.tag = 11
             /\ \/ E.kind = "resp" /\ E.fault \in {"drop", "trunc"}
                \/ E.kind = "ack" /\ E.fault = "trunc"
\* A fault inside a read-only query the host puts in front of a data phase (negotiated packet size) need not end the call: the host may go on with the default.
InAuxQuery == cur.tag = 7 /\ call.op # "get_property"
MustFail == E.fault \in {"nak", "abort", "trunc", "drop"} /\ ~ResetGone /\ ~InAuxQuery
Strict == strict' = (strict \/ MustFail)
DevAck == /\ Is("d2h") /\ E.kind = "ack" /\ Serial /\ dev \in {"ack_cmd", "ack_data", "ack_raw"}
          /\ faulted' = (faulted \/ Hit)
          /\ dev' = IF ResetGone THEN "idle"
                    ELSE After(IF dev = "ack_cmd" THEN "resp0" ELSE IF dev = "ack_raw" THEN "idle"
                               ELSE IF sentB >= cur.len THEN "final" ELSE "dataout")
          /\ done' = (IF ResetGone THEN Append(done, cur.tag) ELSE done)
          /\ Strict /\ UNCHANGED <<call, cur, sentB, sentP, gotC, viol, cmds>> /\ Adv
\* first (or only) response of an exchange
DevResp0 == /\ Is("d2h") /\ E.kind = "resp" /\ dev = "resp0"
            /\ E.final = (cur.shape \in {"cmd", "value"})
            /\ (Hit \/ E.status = E.devStatus)                      \* an unfaulted response carries the device's status
            /\ faulted' = (faulted \/ Hit)
            /\ LET ok == E.devStatus = 0 IN
               /\ dev' = IF ResetGone THEN "idle"
                         ELSE After(IF cur.shape \in {"cmd", "value"} \/ ~ok THEN "idle"
                                    ELSE IF cur.shape = "in" THEN (IF cur.chunks = 0 THEN "final" ELSE "datain")
                                    ELSE (IF cur.len = 0 THEN "final" ELSE "dataout"))
               /\ done' = (IF cur.shape \in {"cmd", "value"} /\ ok /\ ((~Kills(E.fault) /\ E.fault # "drop") \/ ResetGone) THEN Append(done, cur.tag) ELSE done)
            /\ Strict /\ UNCHANGED <<call, cur, sentB, sentP, gotC, viol, cmds>> /\ Adv
DevData == /\ Is("d2h") /\ E.kind = "data" /\ dev = "datain" /\ E.chunk = gotC + 1 /\ E.n <= call.mps
           /\ E.n = (IF gotC + 1 = cur.chunks THEN cur.len - call.mps * (cur.chunks - 1) ELSE call.mps)
           /\ gotC' = gotC + 1 /\ faulted' = (faulted \/ Hit)
           /\ dev' = After(IF gotC + 1 = cur.chunks THEN "final" ELSE "datain")
           /\ Strict /\ UNCHANGED <<call, cur, sentB, sentP, viol, done, cmds>> /\ Adv
\* the DEVICE aborts its own data phase: a data packet of length zero (the host acknowledges it on the serial link like every frame), then the final
\* response that carries the reason.  Not a fault of the link: the call cannot succeed, but it must end regularly and report the device's status.
DevAbort == /\ Is("d2h") /\ E.kind = "abort" /\ dev = "datain"
            /\ faulted' = TRUE /\ dev' = After("final")
            /\ Strict /\ UNCHANGED <<call, cur, sentB, sentP, gotC, viol, done, cmds>> /\ Adv
DevFinal == /\ Is("d2h") /\ E.kind = "resp" /\ dev = "final" /\ E.final
            /\ (Hit \/ E.status = E.devStatus)
            /\ faulted' = (faulted \/ Hit) /\ dev' = After("idle")
            /\ done' = (IF E.devStatus = 0 /\ ~Kills(E.fault) THEN Append(done, cur.tag) ELSE done)
            /\ Strict /\ UNCHANGED <<call, cur, sentB, sentP, gotC, viol, cmds>> /\ Adv
\* ---------------------------------------------------------------- device-initiated abort, seen from the result
Since == CHOOSE i \in 1..l : T[i].ev = "call" /\ \A j \in (i + 1)..l : T[j].ev # "call"
DevAborted == \E i \in Since..l : T[i].ev = "d2h" /\ T[i].kind = "abort"
LinkIntact == \A i \in Since..l : T[i].ev = "d2h" => T[i].fault \in {"none", "err"}
\* ---------------------------------------------------------------- the device-to-host stream is consumed by the call it belongs to
\* Every exchange ends with a response of the device (cmd / value: the only one; in / out: the FINAL one, also when the data phase has length zero -
\* response announcing 0 bytes, no data packet, final response).  A call that returns while frames of its exchange are still in the link hands them to the
\* NEXT call as that call's answer.  On a link that did nothing to the frames (device error statuses and not-ready bytes included) the call therefore
\* returns with nothing left in the link (E.left: bytes / reports the device emitted and the host has not read), and on the serial link it has
\* acknowledged every frame of the device (recomputed here from the events of the call: one ACK of the host per response / data / abort frame).
Benign(s) == \A i \in s..l : T[i].ev = "d2h" => T[i].fault \in {"none", "err", "notready"}
DevFrames(s) == Cardinality({i \in s..l : T[i].ev = "d2h" /\ T[i].kind \in {"resp", "data", "abort"}})
HostAcks(s) == Cardinality({i \in s..l : T[i].ev = "h2d" /\ T[i].kind = "ack"})
Drained(s) == (Benign(s) /\ dev # "dead") => /\ E.left = 0
                                              /\ (Serial => HostAcks(s) = DevFrames(s))
\* ---------------------------------------------------------------- composite calls: a report put together from several indexed get-property exchanges
\* GetProperty(property, index): for the region properties the second word is the region number (internal flash / RAM) or the memory id (external
\* memories); the device answers for THAT index.  A call that reports "word w of region i" must have it from the device: in this call the device
\* received GetProperty with exactly <<property, i>> and its unfaulted answer carried w at the position reported (position 0: the status it answered with).
Answered(s, r) == \E j \in s..l :
                 /\ T[j].ev = "d2h" /\ T[j].kind = "resp" /\ T[j].fault = "none"
                 /\ IF r.pos = 0 THEN T[j].devStatus = Val(r.val)
                    ELSE T[j].devStatus = 0 /\ Len(T[j].values) >= r.pos /\ T[j].values[r.pos] = r.val
                 /\ \E i \in s..(j - 1) :                                              \* the command this response answers: the last one before it
                      /\ T[i].ev = "h2d" /\ T[i].kind = "cmd" /\ T[i].tag = 7 /\ T[i].flags = 0 /\ T[i].params = <<Wd(r.prop), r.idx>>
                      /\ \A k \in (i + 1)..(j - 1) : ~(T[k].ev = "h2d" /\ T[k].kind = "cmd")
MirrorPerIndex == LET s == Since IN \A n \in 1..Len(E.regions) : Answered(s, E.regions[n])
Succ == E.kind = "ret" /\ E.val \in {"ok", "data", "values"} /\ E.status = 0
MaxReads == 3000
Result ==
  /\ Is("result") /\ call.op # "none"
  /\ E.kind # "unbounded" /\ E.reads <= MaxReads                                    \* Bounded: a call ends within a bounded number of device reads
  /\ (E.kind = "exc" => E.documented)                                               \* Documented: only SPSDK errors / time-outs are raised
  /\ ~viol                                                                          \* the host itself keeps to the protocol
  /\ (~faulted /\ dev # "dead" => Succ /\ dev = "idle")                              \* Mirror: on a fault-free link the call succeeds ...
  /\ (~faulted /\ Succ /\ call.shape = "value" => E.valuesExact)                    \*         ... and reports the device's values
  /\ (Succ /\ call.shape # "raw" =>
              /\ dev = "idle" /\ Len(done) >= 1 /\ done[Len(done)] = call.tag        \* NoFalseSuccess: the device completed this very command,
              /\ (call.shape = "in"  => E.dataExact /\ E.dataLen = call.len)         \*   data read are exact and complete,
              /\ (call.shape = "out" => E.devGotExact /\ E.devBytes = call.len)      \*   data written reached the device once, in order,
              /\ (call.shape = "outin" => /\ E.devGotExact /\ E.devBytes = call.len  \*   both for an operation of two exchanges (key out, blob in)
                                          /\ E.dataExact /\ E.dataLen = call.len2 /\ Len(done) >= 2 /\ done[Len(done) - 1] = call.tag)
              /\ (call.shape = "value" => E.valuesExact))                            \*   values are the device's
  /\ (E.kind = "ret" /\ call.shape \in {"in", "outin"} /\ E.val = "data" /\ ~(E.dataExact /\ E.dataLen = (IF call.shape = "outin" THEN call.len2 ELSE call.len)) => E.status # 0)   \* partial data only with a failure status
  /\ (call.op = "load_image" /\ E.kind = "ret" /\ E.val = "ok" => E.devGotExact /\ E.devBytes = call.len)
  /\ (DevAborted /\ LinkIntact => /\ dev = "idle" /\ E.kind = "ret" /\ ~Succ               \* AbortReported: the exchange is completed (every frame acknowledged,
                                  /\ \E i \in Since..l : T[i].ev = "d2h" /\ T[i].kind = "resp" /\ T[i].final /\ E.status = T[i].devStatus)   \* the final response read) and the device's reason is the status of the call
  /\ (call.op = "get_memory_list" /\ E.kind = "ret" /\ E.val = "values" =>
              /\ MirrorPerIndex                                                      \* MirrorPerIndex: every word reported for a region is the device's answer for that index
              /\ (~faulted /\ dev # "dead" => E.nreg = call.nreg))                   \*   and on a fault-free link no region of the device is missing, none invented
  /\ (strict => ~Succ)                                                              \* StrictFaults: NAK / abort / truncated / missing frame end the call in failure
  /\ Drained(Since)                                                                 \* Drained: nothing of this call's exchange is left for the next call
  /\ LET exp == IF call.via = "cli" THEN CliCmds(call.cli) ELSE Cmds(call.op, call.args, call.dl, call.db) IN   \* a blhost command line means its operation (MbootCli)                        \* AsRequested: the device saw exactly the commands the operation stands for,
     IF faulted \/ dev = "dead" THEN IsPrefix(cmds, exp) ELSE cmds = exp             \*   with the parameters given (under a fault: no other command than those)
  /\ call' = [op |-> "none"] /\ UNCHANGED <<dev, cur, faulted, sentB, sentP, gotC, viol, done, cmds, strict>> /\ Adv
Next == Call \/ HostCmd \/ HostData \/ HostRaw \/ HostAck \/ DevAck \/ DevResp0 \/ DevData \/ DevAbort \/ DevFinal \/ Result
Constr == IF TLCGet(tid) < l THEN TLCSet(tid, l) ELSE TRUE
Post == \A i \in 1..Len(Traces) : \/ TLCGet(i) - 1 = Len(Traces[i].ev)
          \/ PrintT(<<"REJ", Traces[i].id, TLCGet(i) - 1, Len(Traces[i].ev), Traces[i].ev[IF TLCGet(i) <= Len(Traces[i].ev) THEN TLCGet(i) ELSE Len(Traces[i].ev)].ev>>)
=============================================================================
