CONSTANTS MaxLen = 4
 Ns = {0, 1, 3}
INIT Init
NEXT Next
CHECK_DEADLOCK FALSE
