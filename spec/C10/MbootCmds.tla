----------------------------- MODULE MbootCmds -----------------------------
(* R-spec of C10, command layer: the command packets (tag, flags, parameter words) the MCU bootloader         *)
(* protocol defines for each host operation.  Written from the bootloader's command set (MCU Bootloader        *)
(* Reference Manual, blhost User's Guide): tag numbers, parameter order, which commands announce a data phase. *)
(* A 32-bit word is a pair <<hi16, lo16>> (TLC integers are 32-bit).                                            *)
(* An operation is described by: op (name), a (argument words in API order), dl (length of the data argument   *)
(* as a word), db (the bytes of a short data argument that travels inside the command packet).                 *)
EXTENDS Naturals, Sequences

Wd(n) == <<n \div 65536, n % 65536>>                       \* small constants
Val(w) == w[1] * 65536 + w[2]                                \* only where hi < 32768
P(tag, flags, params) == [tag |-> tag, flags |-> flags, params |-> params]
HasData == 1                                                 \* flag: a data phase follows the command

\* memory ids 1..255 name mapped external memories: they are addressed through the memory map and travel as 0
Mem(m) == IF m[1] = 0 /\ m[2] >= 1 /\ m[2] <= 255 THEN Wd(0) ELSE m
\* fuse index without the option flags of bits 24..31
Low24(w) == <<w[1] % 256, w[2]>>
\* bytes -> words
LE(b, k) == <<b[4 * k + 4] * 256 + b[4 * k + 3], b[4 * k + 2] * 256 + b[4 * k + 1]>>      \* little-endian word k of a byte string
BE(b, k) == <<b[4 * k + 1] * 256 + b[4 * k + 2], b[4 * k + 3] * 256 + b[4 * k + 4]>>      \* big-endian word k
Words(b) == [k \in 1..(Len(b) \div 4) |-> LE(b, k - 1)]

KpEnroll == 0  KpSetUserKey == 1  KpSetIntrinsicKey == 2  KpWriteNonVolatile == 3  KpReadNonVolatile == 4  KpWriteKeyStore == 5  KpReadKeyStore == 6

\* the command packets an operation sends, in order (read-only GetProperty queries the host may add are not part of it)
Cmds(op, a, dl, db) ==
  CASE op = "flash_erase_all"          -> << P(1, 0, <<a[1]>>) >>                                  \* memory id
    [] op = "flash_erase_region"       -> << P(2, 0, <<a[1], a[2], Mem(a[3])>>) >>                 \* start, byte count, memory id
    [] op = "read_memory"              -> << P(3, 0, <<a[1], a[2], Mem(a[3])>>) >>
    [] op = "write_memory"             -> << P(4, HasData, <<a[1], dl, Mem(a[2])>>) >>
    [] op = "fill_memory"              -> << P(5, 0, <<a[1], a[2], a[3]>>) >>                      \* start, byte count, pattern word
    [] op = "flash_security_disable"   -> << P(6, 0, <<BE(db, 0), BE(db, 1)>>) >>                  \* backdoor key, each half most significant byte first
    [] op = "get_property"             -> << P(7, 0, <<a[1], a[2]>>) >>                            \* property tag, memory id / index
    [] op = "receive_sb_file"          -> << P(8, HasData, <<dl>>) >>
    [] op = "execute"                  -> << P(9, 0, <<a[1], a[2], a[3]>>) >>                      \* jump address, argument, stack pointer
    [] op = "call"                     -> << P(10, 0, <<a[1], a[2]>>) >>
    [] op = "reset"                    -> << P(11, 0, <<>>) >>
    [] op = "set_property"             -> << P(12, 0, <<a[1], a[2]>>) >>
    [] op = "flash_erase_all_unsecure" -> << P(13, 0, <<>>) >>
    [] op = "flash_program_once"       -> << P(14, 0, <<a[1], dl>> \o Words(db)) >>                \* index, byte count, data words
    [] op = "flash_read_once"          -> << P(15, 0, <<a[1], a[2]>>) >>                           \* index, byte count
    [] op = "efuse_read_once"          -> << P(15, 0, <<a[1], Wd(4)>>) >>
    [] op = "efuse_program_once"       -> << P(14, 0, <<a[1], Wd(4), a[2]>>) >>                    \* index WITH its option flags, 4, value
    [] op = "efuse_program_once_verify" -> << P(14, 0, <<a[1], Wd(4), a[2]>>), P(15, 0, <<Low24(a[1]), Wd(4)>>) >>
    [] op = "flash_read_resource"      -> << P(16, 0, <<a[1], a[2], a[3]>>) >>                     \* start, byte count, option
    [] op = "configure_memory"         -> << P(17, 0, <<a[2], a[1]>>) >>                           \* wire order: memory id, address of the configuration block
    [] op = "reliable_update"          -> << P(18, 0, <<a[1]>>) >>
    [] op = "generate_key_blob"        -> << P(19, HasData, <<a[1], dl, Wd(0)>>), P(19, 0, <<a[1], a[2], Wd(1)>>) >>   \* key selector, key length, phase 0; key selector, blob size, phase 1
    [] op = "fuse_program"             -> << P(20, HasData, <<a[1], dl, Mem(a[2])>>) >>
    [] op = "kp_enroll"                -> << P(21, 0, <<Wd(KpEnroll)>>) >>
    [] op = "kp_set_user_key"          -> << P(21, HasData, <<Wd(KpSetUserKey), a[1], dl>>) >>     \* key type, byte count
    [] op = "kp_set_intrinsic_key"     -> << P(21, 0, <<Wd(KpSetIntrinsicKey), a[1], a[2]>>) >>    \* key type, key size
    [] op = "kp_write_nonvolatile"     -> << P(21, 0, <<Wd(KpWriteNonVolatile), a[1]>>) >>         \* memory id
    [] op = "kp_read_nonvolatile"      -> << P(21, 0, <<Wd(KpReadNonVolatile), a[1]>>) >>
    [] op = "kp_write_key_store"       -> << P(21, HasData, <<Wd(KpWriteKeyStore), Wd(0), dl>>) >>
    [] op = "kp_read_key_store"        -> << P(21, 0, <<Wd(KpReadKeyStore)>>) >>
    [] op = "fuse_read"                -> << P(23, 0, <<a[1], a[2], Mem(a[3])>>) >>
    [] op = "update_life_cycle"        -> << P(24, 0, <<a[1]>>) >>
    [] op = "load_image"               -> << >>                                                     \* data packets only
    [] op \in {"get_property_list", "get_property_list_after_family_parse", "get_memory_list"} -> << >>   \* read-only queries only
\* a read-only query the host may put in front of a data phase (negotiated packet size): it changes nothing on the device
IsQuery(c) == c.tag = 7
IsPrefix(s, t) == Len(s) <= Len(t) /\ \A i \in 1..Len(s) : s[i] = t[i]
=============================================================================
