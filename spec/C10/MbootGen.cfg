CONSTANTS Shapes = {"cmd","in","out"}
 MaxChunks = 3
 MaxFaults = 1
 Repaired = TRUE
INIT GInit
NEXT GNext
CHECK_DEADLOCK FALSE
