----------------------------- MODULE SdpsTrace -----------------------------
(* R-spec of C10 for SDPS - the stream variant of the serial download protocol of the i.MX ROMs (USB-HID only) - in trace form.     *)
(* Reference device (i.MX reference manuals, "Serial Downloader", and the MXS boot-loader transfer-control protocol):              *)
(*   ROMs that take a command:  one command report (id 1) holding a 31-byte command block wrapper                                   *)
(*        signature "BLTC" | tag | transfer length | direction flags (0 = host to device) | 2 reserved |                            *)
(*        command block: command 2 (firmware download), length MOST significant byte first, 11 reserved                             *)
(*   then data reports (id 2) whose payload is at most the report size of the ROM (`pack`); the device consumes the payloads in    *)
(*   the order of arrival; the last report is padded with zeros.                                                                    *)
(*   ROMs of the "no command" kind start with the data reports (they learn the length from the image itself).                      *)
(* A 32-bit word is a pair <<hi16, lo16>>.  There is no device-to-host traffic in this protocol: the one fault of the link is a    *)
(* report it does not take (the write fails); the call must then end in the documented exception - never in success.              *)
(* A trace is a HISTORY of calls made in one process (the report sizes are process-wide state of the host library).                *)
EXTENDS Naturals, Sequences, TLC, Json, IOUtils
Traces == ndJsonDeserialize(IOEnv.TRACE_FILE)
VARIABLES tid, l, call, dev, got, nrep, faulted, viol
vars == <<tid, l, call, dev, got, nrep, faulted, viol>>
T == Traces[tid].ev
E == T[l]
Is(e) == l <= Len(T) /\ E.ev = e
Adv == l' = l + 1 /\ UNCHANGED tid
W(n) == <<n \div 65536, n % 65536>>
Bltc == <<17236, 19522>>                       \* "BLTC" read as a little-endian word: 0x43544C42
FwDownload == 2
Init == /\ tid \in 1..Len(Traces) /\ l = 1 /\ call = [op |-> "none"] /\ dev = "idle" /\ got = 0 /\ nrep = 0 /\ faulted = FALSE /\ viol = FALSE /\ TLCSet(tid, 1)
Call == /\ Is("call") /\ call.op = "none" /\ E.pack >= 1 /\ E.len >= 0
        /\ call' = E /\ dev' = (IF E.noCmd THEN "data" ELSE "cmd") /\ got' = 0 /\ nrep' = 0 /\ faulted' = FALSE /\ viol' = FALSE /\ Adv
\* the command report: AsRequested - every field of the wrapper follows from the call
CbwOk(c) == /\ c.sig = Bltc /\ c.xfer = W(call.len) /\ c.flags = 0 /\ c.rsvZero
            /\ c.cmd = FwDownload /\ c.cdbLen = W(call.len) /\ c.padZero
HostCmd == /\ Is("h2d") /\ E.rid = 1 /\ call.op # "none"
           /\ nrep' = nrep + 1
           /\ IF E.fault = "lost" THEN faulted' = TRUE /\ dev' = "dead" /\ UNCHANGED viol
              ELSE /\ faulted' = faulted
                   /\ viol' = (viol \/ dev # "cmd" \/ E.size > call.pack \/ E.size < 31 \/ ~CbwOk(E.cbw))
                   /\ dev' = (IF dev = "cmd" THEN "data" ELSE dev)
           /\ UNCHANGED <<call, got>> /\ Adv
\* a data report: in order, no larger than the report size, nothing behind the announced length but padding of the last report
HostData == /\ Is("h2d") /\ E.rid = 2 /\ call.op # "none"
            /\ nrep' = nrep + 1
            /\ IF E.fault = "lost" THEN faulted' = TRUE /\ dev' = "dead" /\ UNCHANGED <<viol, got>>
               ELSE /\ faulted' = faulted /\ UNCHANGED dev
                    /\ viol' = (viol \/ dev # "data" \/ E.size > call.pack \/ E.size < 1 \/ ~E.inOrder \/ got >= call.len)
                    /\ got' = (IF got + E.size > call.len THEN call.len ELSE got + E.size)
            /\ UNCHANGED call /\ Adv
Reports == (call.len + call.pack - 1) \div call.pack + (IF call.noCmd THEN 0 ELSE 1)
Result ==
  /\ Is("result") /\ call.op # "none"
  /\ E.kind # "unbounded" /\ nrep <= Reports                                                   \* Bounded: no report is sent twice
  /\ (E.kind = "exc" => E.documented)                                                          \* Documented (SdpConnectionError)
  /\ ~viol
  /\ (~faulted => E.ok /\ got = call.len /\ nrep = Reports /\ dev = "data")                    \* Mirror: fault-free link, success, everything delivered
  /\ (E.ok => ~faulted /\ got = call.len /\ dev = "data")                                      \* NoFalseSuccess
  /\ call' = [op |-> "none"] /\ dev' = "idle" /\ UNCHANGED <<got, nrep, faulted, viol>> /\ Adv
Next == Call \/ HostCmd \/ HostData \/ Result
Spec == Init /\ [][Next]_vars
Constr == IF TLCGet(tid) < l THEN TLCSet(tid, l) ELSE TRUE
Post == \A i \in 1..Len(Traces) : \/ TLCGet(i) - 1 = Len(Traces[i].ev)
          \/ PrintT(<<"REJ", Traces[i].id, TLCGet(i) - 1, Len(Traces[i].ev), Traces[i].ev[IF TLCGet(i) <= Len(Traces[i].ev) THEN TLCGet(i) ELSE Len(Traces[i].ev)].ev>>)
=============================================================================
