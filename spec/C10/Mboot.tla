------------------------------ MODULE Mboot ------------------------------
(* MC form of C10 (mboot, serial transport, frame granularity).                                *)
(* R-spec: reference device + faulty device-to-host link + API contract.                      *)
(* I-spec: the serial host as built (McuBoot._process_cmd/_read_data/_send_data over          *)
(*         MbootSerialProtocol).  Frame granularity; host-to-device delivery is synchronous,  *)
(*         so an empty d2h queue at a host read is a genuine timeout.                          *)
EXTENDS Naturals, Sequences, FiniteSets, TLC
CONSTANTS Shapes,        \* subset of {"cmd", "in", "out"}
          MaxChunks,     \* data phase length in packets, 0..MaxChunks
          MaxFaults
OK == 0  ERR == 1  NORESP == 2           \* abstract status codes: success, device error, SPSDK's NO_RESPONSE
VARIABLES emitted, \* frames the device has emitted so far (gives a fault its position in the stream)
          api,     \* [shape, n]                      the call in flight
          hpc,     \* host program counter
          hloc,    \* host locals: [sent, got (seq of chunk ids), status, second]
          d2h,     \* queue of frames device -> host
          dev,     \* [phase, expect, rx (seq of chunk ids), finalSent, alive]
          faults,  \* faults injected so far
          hurt,    \* TRUE once a fault hit a frame that mattered
          result,  \* "none" or [kind |-> "ret"/"exc", val, data, status]
          fhist    \* the faults injected: sequence of [kind, at (index in the device-to-host frame stream)]
vars == <<emitted, api, hpc, hloc, d2h, dev, faults, hurt, result, fhist>>
CONSTANT Repaired   \* TRUE: the host as repaired (incomplete data phase => failure status); FALSE: as it was on the tree

Ack == [k |-> "ack", ok |-> TRUE, st |-> OK, fin |-> FALSE, c |-> 0]
Resp(st, fin) == [k |-> "resp", ok |-> TRUE, st |-> st, fin |-> fin, c |-> 0]
Data(c) == [k |-> "data", ok |-> TRUE, st |-> OK, fin |-> FALSE, c |-> c]
Chunks(n) == [i \in 1..n |-> i]

Init == /\ api \in [shape : Shapes, n : 0..MaxChunks]
        /\ (api.shape = "cmd" => api.n = 0) /\ (api.shape = "out" => api.n >= 1)
        /\ hpc = "SendCmd" /\ hloc = [sent |-> 0, got |-> <<>>, status |-> OK, second |-> FALSE]
        /\ d2h = <<>> /\ dev = [phase |-> "idle", expect |-> 0, rx |-> <<>>, finalSent |-> FALSE, alive |-> TRUE]
        /\ faults = 0 /\ hurt = FALSE /\ result = [kind |-> "none", val |-> "none", data |-> <<>>, status |-> OK]
        /\ fhist = <<>> /\ emitted = 0

---------------------------------------------------------------------------------------------
(* Device reactions (deterministic reference behaviour), as operators returning <<dev', out>> *)
DevOnCmd ==
  IF ~dev.alive THEN <<dev, <<>>>> ELSE
  CASE api.shape = "cmd" -> <<[dev EXCEPT !.finalSent = TRUE], <<Ack, Resp(OK, TRUE)>>>>
    [] api.shape = "in"  -> <<[dev EXCEPT !.finalSent = TRUE],
                              <<Ack, Resp(OK, FALSE)>> \o [i \in 1..api.n |-> Data(i)] \o <<Resp(OK, TRUE)>>>>
    [] api.shape = "out" -> <<[dev EXCEPT !.phase = "dataout", !.expect = api.n,
                                          !.finalSent = FALSE], <<Ack, Resp(OK, FALSE)>> >>
DevOnData(c) ==
  IF ~dev.alive \/ dev.phase # "dataout" THEN <<dev, <<>>>> ELSE
  LET rx2 == Append(dev.rx, c) IN
  IF Len(rx2) = dev.expect
  THEN <<[dev EXCEPT !.rx = rx2, !.phase = "idle", !.finalSent = TRUE], <<Ack, Resp(OK, TRUE)>>>>
  ELSE <<[dev EXCEPT !.rx = rx2], <<Ack>>>>

---------------------------------------------------------------------------------------------
(* Faults on frames still in flight                                                           *)
Pos(i) == emitted - Len(d2h) + i - 1                                              \* index of d2h[i] in the whole device-to-host stream
Fault ==
  /\ faults < MaxFaults /\ result.kind = "none" /\ d2h # <<>>
  /\ \E i \in 1..Len(d2h) :
       \/ d2h' = [d2h EXCEPT ![i].ok = FALSE] /\ fhist' = Append(fhist, [kind |-> "flip", at |-> Pos(i)]) /\ dev' = dev      \* flipped bit: bad CRC / bad header
       \/ d2h' = SubSeq(d2h, 1, i-1) /\ fhist' = Append(fhist, [kind |-> "trunc", at |-> Pos(i)]) /\ dev' = [dev EXCEPT !.alive = FALSE]   \* stream ends here
       \/ d2h' = SubSeq(d2h, 1, i-1) \o SubSeq(d2h, i+1, Len(d2h)) /\ fhist' = Append(fhist, [kind |-> "drop", at |-> Pos(i)]) /\ dev' = dev  \* one frame lost, the stream goes on
       \/ d2h[i].k = "ack"  /\ d2h' = [d2h EXCEPT ![i].k = "nak"] /\ fhist' = Append(fhist, [kind |-> "nak", at |-> Pos(i)]) /\ dev' = dev
       \/ d2h[i].k = "data" /\ d2h' = SubSeq(d2h, 1, i-1) \o <<[d2h[i] EXCEPT !.k = "abort"], Resp(ERR, TRUE)>>
                            /\ fhist' = Append(fhist, [kind |-> "abort", at |-> Pos(i)]) /\ dev' = dev
       \/ d2h[i].k = "resp" /\ d2h' = [d2h EXCEPT ![i].st = ERR] /\ fhist' = Append(fhist, [kind |-> "err", at |-> Pos(i)]) /\ dev' = dev    \* device reports an error status
  /\ faults' = faults + 1 /\ hurt' = TRUE
  /\ UNCHANGED <<api, hpc, hloc, result, emitted>>

---------------------------------------------------------------------------------------------
(* Host, as built.  Each protocol-level read is one action.                                   *)
Finish(kind, val) == result' = [kind |-> kind, val |-> val, data |-> hloc.got, status |-> hloc.status]
FinishS(kind, val, st) == result' = [kind |-> kind, val |-> val, data |-> hloc.got, status |-> st]
Pop == d2h' = Tail(d2h)
Hd == Head(d2h)

\* _send_frame(wait_for_ack): outcome of waiting for the ACK
AckOutcome == IF d2h = <<>> THEN "timeout"
              ELSE IF Hd.k = "ack" /\ Hd.ok THEN "ack"
              ELSE IF Hd.k = "abort" /\ Hd.ok THEN "abort" ELSE "connerr"
\* read(): outcome of reading one frame
ReadOutcome == IF d2h = <<>> THEN "timeout"
               ELSE IF ~Hd.ok THEN "connerr"                 \* bad header or bad CRC
               ELSE IF Hd.k = "abort" THEN "abort"
               ELSE IF Hd.k \in {"ack", "nak"} THEN "connerr" \* desynchronised
               ELSE Hd.k                                      \* "resp" | "data"

SendCmd ==
  /\ hpc = "SendCmd" /\ result.kind = "none"
  /\ LET r == DevOnCmd IN dev' = r[1] /\ d2h' = d2h \o r[2] /\ emitted' = emitted + Len(r[2])
  /\ hpc' = "CmdAck" /\ UNCHANGED <<api, hloc, faults, hurt, result, fhist>>
CmdAck ==
  /\ hpc = "CmdAck" /\ result.kind = "none"
  /\ CASE AckOutcome = "ack"     -> Pop /\ hpc' = "CmdResp" /\ UNCHANGED <<hloc, result>>
       [] AckOutcome = "timeout" -> /\ UNCHANGED d2h /\ hpc' = "Done" /\ UNCHANGED hloc       \* _process_cmd: NoResponse
                                    /\ FinishS("ret", "fail", NORESP)
       [] OTHER                  -> (IF d2h = <<>> THEN UNCHANGED d2h ELSE Pop) /\ hpc' = "Done" /\ UNCHANGED hloc /\ Finish("exc", AckOutcome)
  /\ UNCHANGED <<api, dev, faults, hurt, fhist, emitted>>
CmdResp ==
  /\ hpc = "CmdResp" /\ result.kind = "none"
  /\ CASE ReadOutcome = "resp" ->
            /\ Pop
            /\ IF Hd.st # OK THEN /\ hpc' = "Done" /\ UNCHANGED hloc /\ FinishS("ret", "fail", Hd.st)
               ELSE IF api.shape = "cmd" THEN /\ hpc' = "Done" /\ UNCHANGED hloc /\ FinishS("ret", "ok", OK)
               ELSE IF api.shape = "in"  THEN /\ hpc' = "ReadData" /\ UNCHANGED <<hloc, result>>
               ELSE /\ hpc' = "SendData" /\ UNCHANGED <<hloc, result>>
       [] ReadOutcome = "timeout" -> UNCHANGED d2h /\ hpc' = "Done" /\ UNCHANGED hloc /\ FinishS("ret", "fail", NORESP)
       [] ReadOutcome = "data" -> Pop /\ hpc' = "Done" /\ UNCHANGED hloc /\ Finish("exc", IF Repaired THEN "connerr" ELSE "assert")   \* bytes where a response is expected (was: assert)
       [] OTHER -> Pop /\ hpc' = "Done" /\ UNCHANGED hloc /\ Finish("exc", ReadOutcome)
  /\ UNCHANGED <<api, dev, faults, hurt, fhist, emitted>>
\* _read_data loop
ReadData ==
  /\ hpc = "ReadData" /\ result.kind = "none"
  /\ LET after(st) == IF Len(hloc.got) < api.n \/ st # OK THEN "partial" ELSE "ok" IN
     CASE ReadOutcome = "data" -> Pop /\ hloc' = [hloc EXCEPT !.got = Append(@, Hd.c), !.second = FALSE] /\ UNCHANGED <<hpc, result>>
       [] ReadOutcome = "resp" -> /\ Pop /\ hloc' = [hloc EXCEPT !.status = Hd.st]
                                  /\ IF Hd.fin THEN hpc' = "Done" /\ FinishS("ret", after(Hd.st), IF Repaired /\ after(Hd.st) = "partial" /\ Hd.st = OK THEN ERR ELSE Hd.st)
                                     ELSE UNCHANGED <<hpc, result>>
       [] ReadOutcome = "timeout" ->
              IF hloc.second THEN UNCHANGED <<d2h, hloc>> /\ hpc' = "Done" /\ Finish("exc", "timeout")   \* raised by the retry read
              ELSE UNCHANGED <<d2h, hloc>> /\ hpc' = "Done" /\ FinishS("ret", "partial", NORESP)
       [] ReadOutcome = "abort" ->
              IF hloc.second THEN Pop /\ UNCHANGED hloc /\ hpc' = "Done" /\ Finish("exc", "abort")
              ELSE Pop /\ hloc' = [hloc EXCEPT !.second = TRUE] /\ UNCHANGED <<hpc, result>>                 \* "read once more"
       [] OTHER -> Pop /\ UNCHANGED hloc /\ hpc' = "Done" /\ Finish("exc", ReadOutcome)
  /\ UNCHANGED <<api, dev, faults, hurt, fhist, emitted>>
\* _send_data
SendData ==
  /\ hpc = "SendData" /\ result.kind = "none"
  /\ IF hloc.sent < api.n
     THEN LET r == DevOnData(hloc.sent + 1) IN
          /\ dev' = r[1] /\ d2h' = d2h \o r[2] /\ emitted' = emitted + Len(r[2]) /\ hloc' = [hloc EXCEPT !.sent = @ + 1] /\ hpc' = "DataAck" /\ UNCHANGED result
     ELSE /\ hpc' = "FinalResp" /\ UNCHANGED <<dev, d2h, hloc, result, emitted>>
  /\ UNCHANGED <<api, faults, hurt, fhist>>
DataAck ==
  /\ hpc = "DataAck" /\ result.kind = "none"
  /\ CASE AckOutcome = "ack"     -> Pop /\ hpc' = "SendData" /\ UNCHANGED <<hloc, result>>
       [] AckOutcome = "timeout" -> UNCHANGED d2h /\ hpc' = "Done" /\ UNCHANGED hloc /\ FinishS("exc", "connerr", NORESP)  \* "No Response from Device"
       [] OTHER                  -> Pop /\ hpc' = "FinalResp" /\ UNCHANGED <<hloc, result>>                                 \* except SPSDKError: read the response anyway
  /\ UNCHANGED <<api, dev, faults, hurt, fhist, emitted>>
FinalResp ==
  /\ hpc = "FinalResp" /\ result.kind = "none"
  /\ CASE ReadOutcome = "resp" -> /\ Pop /\ hpc' = "Done" /\ hloc' = [hloc EXCEPT !.status = Hd.st]
                                  /\ FinishS("ret", IF Hd.st = OK /\ hloc.sent = api.n THEN "ok" ELSE "fail", Hd.st)
       [] ReadOutcome = "timeout" -> UNCHANGED <<d2h, hloc>> /\ hpc' = "Done" /\ FinishS("exc", "connerr", NORESP)
       [] OTHER -> Pop /\ UNCHANGED hloc /\ hpc' = "Done" /\ Finish("exc", ReadOutcome)
  /\ UNCHANGED <<api, dev, faults, hurt, fhist, emitted>>

Next == Fault \/ SendCmd \/ CmdAck \/ CmdResp \/ ReadData \/ SendData \/ DataAck \/ FinalResp
Spec == Init /\ [][Next]_vars /\ WF_vars(SendCmd \/ CmdAck \/ CmdResp \/ ReadData \/ SendData \/ DataAck \/ FinalResp)
---------------------------------------------------------------------------------------------
(* API contract (the monitor)                                                                  *)
Succ == result.kind # "none" /\ result.kind = "ret" /\ result.val = "ok" /\ result.status = OK
NoFalseSuccess ==
  Succ => /\ dev.finalSent
          /\ api.shape = "out" => dev.rx = Chunks(api.n)                  \* exactly once, in order
          /\ api.shape = "in"  => result.data = Chunks(api.n)             \* exact and complete
PartialIsFlagged ==                                                        \* data handed back although incomplete => status is not success
  (result.kind # "none" /\ result.kind = "ret" /\ api.shape = "in" /\ result.data # Chunks(api.n)) => result.status # OK
Documented == (result.kind # "none" /\ result.kind = "exc") => result.val \in {"connerr", "abort", "timeout"}
MirrorNoFault == (result.kind # "none" /\ faults = 0) => Succ
\* on a link without faults the call has read every frame the device emitted for it (also the final response of a data phase of ZERO packets):
\* nothing is left over that the next call on the same object would take for its own answer
Drained == (result.kind # "none" /\ faults = 0) => d2h = <<>>
Terminates == <>(result.kind # "none")
=============================================================================
