------------------------------ MODULE MbootCli ------------------------------
(* R-spec of C10, tool layer: what a blhost command line MEANS in terms of the host operations of MbootCmds.  *)
(* Written from the blhost User's Guide: argument order of every sub-command, defaults of optional arguments,   *)
(* the `lock` keyword of efuse-program-once (option flag bit 24 of the index), byte order of flash-program-once  *)
(* data (LSB default / MSB).  A command line is  c = [cmd, n (numeric arguments in command-line order, words as   *)
(* <<hi16, lo16>>), kw (keyword arguments, lower case), db (bytes of a short data argument), dl (length of the    *)
(* data argument)].  CliOp(c) = [op, a, db]: the operation and its arguments in API order.                       *)
EXTENDS MbootCmds
Z0 == Wd(0)
Kw(c, k) == \E i \in DOMAIN c.kw : c.kw[i] = k                   \* keyword given on the command line (c.kw is a sequence)
Arg(c, i, dflt) == IF i <= Len(c.n) THEN c.n[i] ELSE dflt          \* optional trailing numeric argument
Or24(w) == <<(w[1] % 256) + 256 * ((w[1] \div 512) * 2 + 1), w[2]>>  \* set bit 24 (= bit 8 of the high half)
RevBytes(b) == [i \in 1..Len(b) |-> b[Len(b) + 1 - i]]
Op(op, a, db) == [op |-> op, a |-> a, db |-> db]
CliOp(c) ==
  CASE c.cmd = "call"                     -> Op("call", <<c.n[1], c.n[2]>>, <<>>)
    [] c.cmd = "configure-memory"         -> Op("configure_memory", <<c.n[2], c.n[1]>>, <<>>)          \* command line: memory id first, then the address
    [] c.cmd = "efuse-program-once"       -> Op(IF Kw(c, "verify") THEN "efuse_program_once_verify" ELSE "efuse_program_once",
                                                <<IF Kw(c, "lock") THEN Or24(c.n[1]) ELSE c.n[1], c.n[2]>>, <<>>)
    [] c.cmd = "efuse-read-once"          -> Op("efuse_read_once", <<c.n[1]>>, <<>>)
    [] c.cmd = "execute"                  -> Op("execute", <<c.n[1], c.n[2], c.n[3]>>, <<>>)
    [] c.cmd = "flash-erase-region"       -> Op("flash_erase_region", <<c.n[1], c.n[2], Arg(c, 3, Z0)>>, <<>>)
    [] c.cmd = "flash-erase-all"          -> Op("flash_erase_all", <<Arg(c, 1, Z0)>>, <<>>)
    [] c.cmd = "flash-erase-all-unsecure" -> Op("flash_erase_all_unsecure", <<>>, <<>>)
    [] c.cmd = "flash-program-once"       -> Op("flash_program_once", <<c.n[1]>>, IF Kw(c, "msb") THEN RevBytes(c.db) ELSE c.db)   \* c.db: the value, least significant byte first
    [] c.cmd = "flash-read-once"          -> Op("flash_read_once", <<c.n[1], c.n[2]>>, <<>>)
    [] c.cmd = "flash-security-disable"   -> Op("flash_security_disable", <<>>, c.db)
    [] c.cmd = "fill-memory"              -> Op("fill_memory", <<c.n[1], c.n[2], c.n[3]>>, <<>>)         \* pattern format `word` (the default)
    [] c.cmd = "get-property"             -> Op("get_property", <<c.n[1], Arg(c, 2, Z0)>>, <<>>)
    [] c.cmd = "set-property"             -> Op("set_property", <<c.n[1], c.n[2]>>, <<>>)
    [] c.cmd = "read-memory"              -> Op("read_memory", <<c.n[1], c.n[2], Arg(c, 3, Z0)>>, <<>>)
    [] c.cmd = "write-memory"             -> Op("write_memory", <<c.n[1], Arg(c, 2, Z0)>>, <<>>)
    [] c.cmd = "fuse-read"                -> Op("fuse_read", <<c.n[1], c.n[2], Arg(c, 3, Z0)>>, <<>>)
    [] c.cmd = "fuse-program"             -> Op("fuse_program", <<c.n[1], Arg(c, 2, Z0)>>, <<>>)
    [] c.cmd = "flash-read-resource"      -> Op("flash_read_resource", <<c.n[1], c.n[2], c.n[3]>>, <<>>)
    [] c.cmd = "reliable-update"          -> Op("reliable_update", <<c.n[1]>>, <<>>)
    [] c.cmd = "reset"                    -> Op("reset", <<>>, <<>>)
    [] c.cmd = "receive-sb-file"          -> Op("receive_sb_file", <<>>, <<>>)
    [] c.cmd = "load-image"               -> Op("load_image", <<>>, <<>>)
CliCmds(c) == LET o == CliOp(c) IN Cmds(o.op, o.a, c.dl, o.db)
=============================================================================
