---------------------------- MODULE MbootHistGen ----------------------------
(* GEN form of C10 for HISTORIES of calls on one McuBoot object (fault-free link).                           *)
(* The contract of a history: every call consumes the device-to-host stream of its own exchange(s), so that   *)
(* the next call reads the device's answer to ITS command (MbootTrace: Drained, Mirror, NoFalseSuccess).      *)
(* The case space: sequences of abstract calls [shape, n] - n = length of the data phase in packets; for the  *)
(* two-exchange shape "outin" n is the length of the SECOND (device-to-host) data phase - that contain a       *)
(* device-to-host data phase of ZERO packets (response announcing 0 bytes, no data packet, final response):    *)
(* the one exchange whose final response no data packet precedes.  Every such history up to MaxLen calls is    *)
(* printed once; the harness expands a class to concrete operations, lengths, packet sizes and transports.     *)
EXTENDS Naturals, Sequences, TLC, Json
CONSTANTS MaxLen,      \* calls per history
          Ns           \* data-phase lengths in packets for the shapes "in" and "out" (0 must be among them)
VARIABLES h, printed
Calls == [shape : {"cmd", "value"}, n : {0}] \cup [shape : {"in", "out"}, n : Ns] \cup [shape : {"outin"}, n : {0, 1}] \cup [shape : {"raw"}, n : {1}]
ZeroIn(c) == c.shape \in {"in", "outin"} /\ c.n = 0
Wanted == \E i \in 1..Len(h) : ZeroIn(h[i])
Init == h = <<>> /\ printed = FALSE
Extend == /\ Len(h) < MaxLen /\ ~printed
          /\ \E c \in Calls : h' = Append(h, c)
          /\ UNCHANGED printed
Emit == /\ Wanted /\ ~printed /\ printed' = TRUE
         /\ PrintT(ToJson([calls |-> h]))
         /\ UNCHANGED h
Next == Extend \/ Emit
=============================================================================
