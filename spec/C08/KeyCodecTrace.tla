--------------------------- MODULE KeyCodecTrace ---------------------------
(* TV form of the pure codec clauses: every observation recorded from the real code (one case =   *)
(* one behaviour of length 1) is decided by the clauses of KeyCodec; the failed clauses of each   *)
(* rejected observation are listed, nothing stops at the first one.                               *)
EXTENDS KeyCodec, Json, IOUtils
Obs == ndJsonDeserialize(IOEnv.TRACE_FILE)
VARIABLE i
Init == i \in 1..Len(Obs)
Next == UNCHANGED i
O == Obs[i]
K == CurveByName(O.a.curve)
P == [lr |-> O.a.lr, tr |-> O.a.tr, ls |-> O.a.ls, ts |-> O.a.ts]
InDomain == O.a.curve \in {k.name : k \in Curves} /\ P \in SigProfiles(K)
Clauses == IF O.kind = "sigcodec" THEN SigCodecClauses(K, P, O.o) ELSE SigProfClauses(K, P, O.o)
Check == IF ~InDomain THEN PrintT(<<"REJ", O.id, 0, 1, O.kind, {"domain"}>>)
         ELSE Failed(Clauses) = {} \/ PrintT(<<"REJ", O.id, 0, 1, O.kind, Failed(Clauses)>>)
Post == TLCGet("distinct") = Len(Obs) \/ PrintT(<<"INCOMPLETE", TLCGet("distinct"), Len(Obs)>>)
=============================================================================
