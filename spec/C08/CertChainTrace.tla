---------------------------- MODULE CertChainTrace ----------------------------
(* TV form of CertChain: every observation recorded from the real code (one case = one behaviour  *)
(* of length 1) is decided by CertClauses; the failed clauses of a rejected observation are listed. *)
EXTENDS CertChain, Json, IOUtils
Obs == ndJsonDeserialize(IOEnv.TRACE_FILE)
VARIABLE i
Init == i \in 1..Len(Obs)
Next == UNCHANGED i
O == Obs[i]
C == [k |-> [kt |-> O.a.kt, size |-> O.a.size], ih |-> O.a.ih, sh |-> O.a.sh, tamper |-> O.a.tamper, entry |-> O.a.entry]
Check == IF C \notin CertCases THEN PrintT(<<"REJ", O.id, 0, 1, "cert", {"domain"}>>)
         ELSE Failed(CertClauses(C, O.o)) = {} \/ PrintT(<<"REJ", O.id, 0, 1, "cert", Failed(CertClauses(C, O.o))>>)
Post == TLCGet("distinct") = Len(Obs) \/ PrintT(<<"INCOMPLETE", TLCGet("distinct"), Len(Obs)>>)
=============================================================================
