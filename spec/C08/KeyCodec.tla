------------------------------ MODULE KeyCodec ------------------------------
(* C08, R-spec part 1: the LENGTH ALGEBRA of key and signature encodings.                         *)
(* No elliptic curve and no RSA arithmetic appears.  A key is (type, size, leading-byte profile of *)
(* its public numbers), an ECDSA signature is the profile (byte length and top bit of r and of s). *)
(* Everything a serialisation can get wrong without touching the mathematics - widths, padding    *)
(* bytes, which container a byte string is, which curve a signature belongs to - is arithmetic on  *)
(* these profiles.  The requirement clauses (what any correct codec must do) are the operators     *)
(* *Clauses; the section "as built" is an I-spec of SPSDK's length-based sniffing and only serves  *)
(* to predict and classify (never to decide).                                                     *)
EXTENDS Naturals, Sequences, FiniteSets, TLC

Curves == {[name |-> "secp256r1", c |-> 32, bits |-> 256],
           [name |-> "secp384r1", c |-> 48, bits |-> 384],
           [name |-> "secp521r1", c |-> 66, bits |-> 521]}
CurveByName(nm) == CHOOSE k \in Curves : k.name = nm
CurveByBits(b) == CHOOSE k \in Curves : k.bits = b
RsaSizes == {2048, 3072, 4096}
EccSizes == {k.bits : k \in Curves}
KeyTypes == {[kt |-> "rsa", size |-> s] : s \in RsaSizes} \cup {[kt |-> "ecc", size |-> s] : s \in EccSizes}
Hashes == {"sha256", "sha384", "sha512"}
HashLen(h) == CASE h = "sha256" -> 32 [] h = "sha384" -> 48 [] h = "sha512" -> 64
\* the hash SPSDK documents as default per key (KeyEccCommon / PrivateKeyRsa.default_hash_algorithm); used for drift only
DefaultHash(kt, size) == IF kt = "rsa" THEN "sha256" ELSE CASE size = 256 -> "sha256" [] size = 384 -> "sha384" [] size = 521 -> "sha512"

\* ------------------------------------------------------------------ ASN.1 DER
LenOfLen(n) == IF n < 128 THEN 1 ELSE IF n < 256 THEN 2 ELSE 3
Tlv(n) == 1 + LenOfLen(n) + n                          \* tag, length octets, content
DerInt(len, top) == Tlv(len + top)                     \* magnitude of `len` bytes; a 0x00 pad iff its top bit is set
DerSigLen(lr, tr, ls, ts) == Tlv(DerInt(lr, tr) + DerInt(ls, ts))      \* SEQUENCE { INTEGER r, INTEGER s }
RawSigLen(c) == 2 * c                                  \* r || s, each left-padded to the coordinate length

\* every length profile of an in-range (r, s); P-521: the top byte of a 66-byte value holds one bit only
SigProfiles(k) == {p \in [lr : 1..k.c, tr : {0, 1}, ls : 1..k.c, ts : {0, 1}] :
                     k.c = 66 => ~(p.lr = 66 /\ p.tr = 1) /\ ~(p.ls = 66 /\ p.ts = 1)}
PDer(p) == DerSigLen(p.lr, p.tr, p.ls, p.ts)
\* the logged integers really have the profile the case asks for: byte length and first byte of the minimal big-endian form
ProfBinds(p, o) == o.rl = p.lr /\ o.sl = p.ls /\ (o.r0 >= 128) = (p.tr = 1) /\ (o.s0 >= 128) = (p.ts = 1) /\ o.r0 > 0 /\ o.s0 > 0

\* ------------------------------------------------------------------ public-key containers
CoordLen(bits) == (bits + 7) \div 8
RsaNxpLen(bits, expLen) == bits \div 8 + expLen        \* modulus || exponent (documented: exponent 3 or 4 bytes)
EccNxpLen(bits) == 2 * CoordLen(bits)                  \* X || Y, fixed width
NxpLen(kt, size, expLen) == IF kt = "rsa" THEN RsaNxpLen(size, expLen) ELSE EccNxpLen(size)
\* standard DER containers (RFC 5480 SubjectPublicKeyInfo with an uncompressed point, RFC 8017 RSAPublicKey, exponent 65537)
OidCurve(bits) == IF bits = 256 THEN Tlv(8) ELSE Tlv(5)
EccSpkiLen(bits) == Tlv(Tlv(Tlv(7) + OidCurve(bits)) + Tlv(1 + 1 + 2 * CoordLen(bits)))
RsaPkcs1Len(bits) == Tlv(DerInt(bits \div 8, 1) + DerInt(3, 0))
RsaSpkiLen(bits) == Tlv(Tlv(Tlv(9) + 2) + Tlv(1 + RsaPkcs1Len(bits)))
StdPubDerLens(kt, size) == IF kt = "rsa" THEN {RsaPkcs1Len(size), RsaSpkiLen(size)} ELSE {EccSpkiLen(size)}
B64Len(n) == 4 * ((n + 2) \div 3)
PemLen(labelLen, n) == (11 + labelLen + 6) + B64Len(n) + (B64Len(n) + 63) \div 64 + (9 + labelLen + 6)
NxpLens == {RsaNxpLen(b, e) : b \in RsaSizes, e \in {3, 4}} \cup {EccNxpLen(b) : b \in EccSizes}

\* leading-byte classes of a fixed-width coordinate / of the modulus (first two bytes are logged)
ByteClass(b) == IF b[1] = 0 THEN (IF b[2] = 0 THEN "z2" ELSE "z1")
                ELSE IF b[1] = 4 THEN "04" ELSE IF b[1] = 48 THEN "30" ELSE IF b[1] >= 128 THEN "hi" ELSE "lo"
KeyProfiles(kt, size) ==
  IF kt = "rsa" THEN {"a", "b"}
  ELSE IF size = 521 THEN {"x-lo", "x-z1", "x-z2", "y-z1", "y-z2", "xy-z1", "d-small", "d-one"}
  ELSE {"x-hi", "x-lo", "x-04", "x-30", "x-z1", "x-z2", "y-z1", "y-z2", "xy-z1", "d-small", "d-one"}
\* the concrete key really has the profile its name promises (xl / yl: first two bytes of X / Y resp. of the modulus / zeros)
KeyProfBinds(kt, prof, xl, yl) ==
  IF kt = "rsa" THEN xl[1] >= 128                       \* an RSA modulus of `size` bits has its top bit set: DER pads it with 0x00
  ELSE CASE prof = "x-hi" -> ByteClass(xl) = "hi" [] prof = "x-lo" -> ByteClass(xl) = "lo"
         [] prof = "x-04" -> ByteClass(xl) = "04" [] prof = "x-30" -> ByteClass(xl) = "30"
         [] prof = "x-z1" -> ByteClass(xl) = "z1" [] prof = "x-z2" -> ByteClass(xl) = "z2"
         [] prof = "y-z1" -> ByteClass(yl) = "z1" [] prof = "y-z2" -> ByteClass(yl) = "z2"
         [] prof = "xy-z1" -> ByteClass(xl) \in {"z1", "z2"} /\ ByteClass(yl) \in {"z1", "z2"}
         [] OTHER -> TRUE

\* ------------------------------------------------------------------ the sign / verify parameter matrix
\* What a signature commits to is (hash, padding scheme).  Pre-hashing (the caller supplies the digest) and the
\* ECDSA encoding (raw r||s or DER) are presentations of the same signature and do not change the verdict.
Pads(kt) == IF kt = "rsa" THEN {"v15", "pss"} ELSE {"ecdsa"}
Encs(kt) == IF kt = "rsa" THEN {"na"} ELSE {"raw", "der"}
SignParams(kt) == [hash : Hashes \cup {"default"}, pad : Pads(kt), pre : BOOLEAN, enc : Encs(kt)]
VerParams(kt) == [hash : Hashes \cup {"default"}, pad : Pads(kt), pre : BOOLEAN]
Eff(h, dflt) == IF h = "default" THEN dflt ELSE h
VerifyExpected(sHash, sPad, intact, Q, dflt) == intact /\ sHash = Eff(Q.hash, dflt) /\ sPad = Q.pad
\* every parameter set of the matrix is signable with every supported key (RFC 8017 9.1.1 / 9.2; FIPS 186-4 6.4 truncates)
PssFits(bits, h) == (bits - 1 + 7) \div 8 >= 2 * HashLen(h) + 2            \* salt length = digest length
V15Fits(bits, h) == bits \div 8 >= (19 + HashLen(h)) + 11
\* length of a signature made with the given presentation (rl.. describe the produced r, s)
SigLenExpected(kt, size, enc, rl, tr, sl, ts) ==
  IF kt = "rsa" THEN size \div 8 ELSE IF enc = "raw" THEN RawSigLen(CoordLen(size)) ELSE DerSigLen(rl, tr, sl, ts)

\* ------------------------------------------------------------------ requirement clauses of the pure codec (kind "sigcodec")
\* o: what the real code produced for one (curve, profile); every clause must hold for EVERY profile
SigCodecClauses(k, p, o) ==
  [prof     |-> ProfBinds(p, o),
   rawLen   |-> o.rawLen = RawSigLen(k.c),              \* export(NXP) has the fixed width ...
   rawOk    |-> o.rawOk,                                \* ... and an independent split reads (r, s) from it
   derLen   |-> o.derLen = PDer(p),                     \* export(DER) has the length the algebra computes ...
   derOk    |-> o.derOk,                                \* ... and is the canonical DER of (r, s)
   pRaw     |-> o.pRaw = "same",                        \* parse(raw)  = (r, s, curve)
   pDer     |-> o.pDer = "same",                        \* parse(DER)  = (r, s, curve)
   d2r      |-> o.d2r = "same",                         \* DER -> raw with the curve known (serialize_signature)
   r2d      |-> o.r2d = "same",                         \* parse(raw).export(DER) = canonical DER
   cd2r     |-> o.cd2r = "same",                        \* parse(DER).export(NXP) = raw
   spRaw    |-> o.spRaw = "same",                       \* SignatureProvider.get_signature: raw stays raw
   spDer    |-> o.spDer = "same",                       \*   DER is normalised to raw (documented default)
   spRawDer |-> o.spRawDer = "same",                    \*   raw -> DER on request
   spDerDer |-> o.spDerDer = "same"]                    \*   DER stays DER on request
\* kind "sigprof": a VALID signature with the given profile (the key is constructed for it) must verify in both encodings
SigProfClauses(k, p, o) ==
  [prof      |-> ProfBinds(p, o),
   valid     |-> o.valid,                               \* sanity of the construction (confirmed by the independent verifiers)
   derLen    |-> o.derLen = PDer(p),
   vRaw      |-> o.vRaw = "true",
   vDer      |-> o.vDer = "true",
   vRawFlip  |-> o.vRawFlip # "true",
   vDerFlip  |-> o.vDerFlip # "true",
   vOtherMsg |-> o.vOtherMsg # "true"]
Failed(rec) == {n \in DOMAIN rec : ~rec[n]}

\* ------------------------------------------------------------------ as built (I-spec): SPSDK sniffs by LENGTH
\* ECDSASignature.get_encoding: len // 2 in {32, 48, 66} means raw, else try DER; get_ecc_curve: first curve with
\* len = 2c or len in 2c+3 .. 2c+8.  Used to predict which profiles go wrong and to name the known finding exactly.
AsBuiltEncoding(L) == IF (L \div 2) \in {k.c : k \in Curves} THEN "raw" ELSE "der"
AsBuiltCurve(L) == LET m == {k \in Curves : L = 2 * k.c \/ (L >= 2 * k.c + 3 /\ L <= 2 * k.c + 8)}
                   IN IF m = {} THEN "none" ELSE (CHOOSE k \in m : \A j \in m : k.c <= j.c).name
AsBuiltParseDer(k, L) == IF AsBuiltCurve(L) = "none" THEN "refused"
                         ELSE IF AsBuiltEncoding(L) = "raw" THEN "as-raw"
                         ELSE IF AsBuiltCurve(L) = k.name THEN "same" ELSE "other-curve"
AsBuiltParseRaw(k) == IF AsBuiltEncoding(2 * k.c) = "raw" /\ AsBuiltCurve(2 * k.c) = k.name THEN "same" ELSE "wrong"
\* PublicKeyEcc.verify_signature: len = 2c means raw, anything else is handed over as DER
AsBuiltVerifyDer(k, L) == IF L = 2 * k.c THEN "as-raw" ELSE "same"
InOwnWindow(k, L) == L >= 2 * k.c + 3 /\ L <= 2 * k.c + 8

\* ------------------------------------------------------------------ lemmas (checked by TLC, KeyCodecMC)
\* raw -> curve is determined by the length alone
RawUnambiguous == \A a, b \in Curves : a # b => RawSigLen(a.c) # RawSigLen(b.c)
\* NXP public keys of different (type, size) never share a length, and no standard DER public key has an NXP length:
\* an auto-detecting parser CAN be right for every supported key - which is why the round trip is demanded of it
NxpUnambiguous == \A a, b \in KeyTypes : \A e, f \in {3, 4} : a # b => NxpLen(a.kt, a.size, e) # NxpLen(b.kt, b.size, f)
PubDerNeverNxp == \A a \in KeyTypes : StdPubDerLens(a.kt, a.size) \cap NxpLens = {}
KnownContainerLens == /\ EccSpkiLen(256) = 91 /\ EccSpkiLen(384) = 120 /\ EccSpkiLen(521) = 158
                      /\ RsaPkcs1Len(2048) = 270 /\ RsaPkcs1Len(3072) = 398 /\ RsaPkcs1Len(4096) = 526
                      /\ RsaSpkiLen(2048) = 294 /\ PemLen(10, 91) = 178
EveryParamSignable == \A b \in RsaSizes : \A h \in Hashes : PssFits(b, h) /\ V15Fits(b, h)
\* "true on the diagonal only": a verdict TRUE implies same scheme and nothing tampered; the presentation never matters
DiagonalOnly == \A kt \in {"rsa", "ecc"} : \A P \in SignParams(kt) : \A Q \in VerParams(kt) : \A d \in Hashes : \A intact \in BOOLEAN :
                  VerifyExpected(Eff(P.hash, d), P.pad, intact, Q, d) <=> (intact /\ Eff(P.hash, d) = Eff(Q.hash, d) /\ P.pad = Q.pad)
=============================================================================
