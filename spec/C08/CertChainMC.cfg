INIT Init
NEXT Next
INVARIANT Emit
CHECK_DEADLOCK FALSE
