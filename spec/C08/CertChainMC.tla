----------------------------- MODULE CertChainMC -----------------------------
(* MC / GEN form: the case space of CertChain is the set of initial states; every case is emitted *)
(* for replay on the real code.                                                                   *)
EXTENDS CertChain, Json
VARIABLE c
Init == c \in CertCases
Next == UNCHANGED c
ASSUME IssuerHashIsNoParameter
\* the space is not hollow: mixed chains (issuer hash # subject hash) exist for every key type, genuine and tampered
Mixed == \A k \in KeyTypes, e \in CertEntries, t \in CertTampers : \E d \in CertCases : d.k = k /\ d.entry = e /\ d.tamper = t /\ d.ih # d.sh
ASSUME Mixed
Emit == PrintT(ToJson([kt |-> c.k.kt, size |-> c.k.size, ih |-> c.ih, sh |-> c.sh, tamper |-> c.tamper, entry |-> c.entry,
                       expected |-> CertExpected(c)]))
=============================================================================
