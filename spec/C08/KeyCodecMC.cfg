INIT Init
NEXT Next
INVARIANT DerLenBounds
INVARIANT Monotone
INVARIANT FullLengthInWindow
INVARIANT AsBuiltRightInWindow
INVARIANT AsBuiltRawRight
INVARIANT Emit
CHECK_DEADLOCK FALSE
