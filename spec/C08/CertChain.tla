------------------------------ MODULE CertChain ------------------------------
(* C08, R-spec part 3: the signature INSIDE a certificate is a signature like any other.          *)
(*                                                                                                *)
(* A certificate carries a signature made by the issuer's private key over the to-be-signed part  *)
(* (TBS) with the hash the certificate itself names (PKCS#1 v1.5 for RSA, ECDSA in DER for ECC).  *)
(* "Verifies under the matching public key with the same parameters and not for a different       *)
(* message, key or a modified signature" therefore reads: a chain  root (self-signed, hash ih)    *)
(* -> subject (signed by the root key, hash sh)  is accepted through every verification entry     *)
(* point exactly while nothing was tampered with - one bit of the TBS part (another message), one *)
(* bit of the signature, an issuer certificate with another key.  The hash of the ISSUER's own    *)
(* signature (ih) is no parameter of the subject's signature: the verdict does not depend on it.  *)
(* The chains are made by the independent base (`cryptography` called directly), never by SPSDK.  *)
EXTENDS KeyCodec
CertTampers == {"none", "tbsbit", "sigbit", "key"}
\* subject.validate(issuer) | issuer.validate_subject(subject) | validate_certificate_chain([subject, issuer])
CertEntries == {"validate", "validate_subject", "chain"}
CertCases == [k : KeyTypes, ih : Hashes, sh : Hashes, tamper : CertTampers, entry : CertEntries]
CertExpected(c) == c.tamper = "none"
\* the verdict is a function of `tamper` alone: neither the issuer's own hash nor the entry point nor the key type is a parameter
IssuerHashIsNoParameter == \A c, d \in CertCases : c.tamper = d.tamper => CertExpected(c) = CertExpected(d)
\* o: what was recorded.  ih / sh: the hash names read back from the two certificates by the independent base; indep: the
\* independent verification of (issuer public key, subject signature, subject TBS bytes, subject hash); res: the library's answer
CertClauses(c, o) ==
  [made    |-> o.ih = c.ih /\ o.sh = c.sh /\ o.indep = CertExpected(c),       \* the harness built the case it claims
   verdict |-> (o.res = "true") = CertExpected(c)]
=============================================================================
