------------------------------- MODULE KeyFlow -------------------------------
(* C08, R-spec part 2: what may happen to a key and to a signature, as a state machine.           *)
(*                                                                                                *)
(*  key flow : a key object is exported (format, password, exporting party) to bytes and parsed   *)
(*             back (entry point, password given, parsing party); any number of times, through    *)
(*             any mixture of formats, entry points and parties.  The key never changes; an       *)
(*             encrypted container opens with its password only.                                  *)
(*  sig flow : a signature is made (parameter set, signing party), re-encoded raw <-> DER         *)
(*             (ECDSA; conversion is lossless), possibly tampered with (one bit of the signature, *)
(*             one bit of the message, another message, another key) and verified (parameter set, *)
(*             verifying party).  The verdict is TRUE exactly on the diagonal of the parameter    *)
(*             matrix and only while nothing was tampered with.                                   *)
(*                                                                                                *)
(* Parties: "spsdk" (the library under test, key objects), "sp" (the library's signature provider *)
(* on a private-key FILE: get_signature_provider -> InteractivePlainFileSP / PlainFileSP ->        *)
(* SignatureProvider.get_signature), "cli" (the same through `nxpcrypto key convert / signature    *)
(* create / signature verify`),                                                                    *)
(* "indep" (`cryptography` called directly with the standard parameters), "pure" (pure-Python     *)
(* verification on integers, hashlib).  The spec does not distinguish them: that every party      *)
(* gives the same answer IS the requirement.  The command line has no option for pre-hashed data, *)
(* no password on `key convert` and raw output for ECC public keys only: guards, not verdicts.    *)
EXTENDS KeyCodec
VARIABLES obj,      \* the abstract artefact in flight
          act       \* the last action with its arguments and required outcome (binding point for traces)
vars == <<obj, act>>

Flows == {"key", "sig"}
Fmts(kk) == IF kk = "priv" THEN {"PEM", "DER"} ELSE {"PEM", "DER", "NXP"}        \* NXP raw exists for public keys only
\* ---- passwords ("all encodings x passwords").  A password is any non-empty text; the container is encrypted with exactly
\* that text (UTF-8) and opens with exactly that text - nothing is trimmed, folded, normalised or cut on either side.  The
\* classes are the shapes of text that a one-sided "clean-up" treats differently: white space in front / at the end
\* (blank, tab, CR, LF, CR LF, no-break space), white space inside, letter case, a composed / decomposed accent, a long text
\* and its prefix, a single character, a single blank.  Each class except the centre of its family is a NEAR MISS of that
\* centre (equal after such a clean-up); a near miss is a different password and is refused like any other.
PwBase == {"lead-sp", "trail-sp", "both-sp", "lead-tab", "trail-tab", "trail-cr", "trail-lf", "trail-crlf", "lead-lf",
           "trail-nbsp", "inner-sp", "upper"}                                        \* near misses of "plain"
PwClasses == {"plain"} \cup PwBase \cup {"non-ascii", "non-ascii-nfd", "long", "long-cut", "single", "single-sp", "blank"}
Centre(p) == IF p \in PwBase THEN "plain" ELSE IF p = "non-ascii-nfd" THEN "non-ascii" ELSE IF p = "long-cut" THEN "long"
             ELSE IF p = "single-sp" THEN "single" ELSE p
Near(p) == IF Centre(p) = p THEN {q \in PwClasses : q # p /\ Centre(q) = p} ELSE {Centre(p)}
Pwds(kk) == IF kk = "priv" THEN {"none"} \cup PwClasses ELSE {"none"}
\* what may be offered to a container: nothing, its password, a near miss of it, an unrelated text
Givens(pwd) == IF pwd = "none" THEN {"none"} ELSE {"none", "wrong", pwd} \cup Near(pwd)
\* the concrete text really has the shape its class promises.  w: number of code points, first / last / last but one code
\* point, white space strictly inside, code points >= 128 that are not white space, combining marks, lower-case ASCII letters
IsWs(c) == c \in {9, 10, 11, 12, 13, 28, 29, 30, 31, 32, 133, 160}
Tight(w) == ~IsWs(w.first) /\ ~IsWs(w.last)
PwBinds(pc, w) ==
  /\ w.n >= 1
  /\ CASE pc = "plain"         -> Tight(w) /\ w.inner = 0 /\ w.hi = 0 /\ w.lower >= 1 /\ w.n >= 8 /\ w.n < 50
       [] pc = "lead-sp"       -> w.first = 32 /\ ~IsWs(w.last) /\ w.inner = 0 /\ w.n >= 9
       [] pc = "trail-sp"      -> w.last = 32 /\ ~IsWs(w.first) /\ w.inner = 0 /\ w.n >= 9
       [] pc = "both-sp"       -> w.first = 32 /\ w.last = 32 /\ w.inner = 0 /\ w.n >= 10
       [] pc = "lead-tab"      -> w.first = 9 /\ ~IsWs(w.last) /\ w.inner = 0 /\ w.n >= 9
       [] pc = "trail-tab"     -> w.last = 9 /\ ~IsWs(w.first) /\ w.inner = 0 /\ w.n >= 9
       [] pc = "trail-cr"      -> w.last = 13 /\ ~IsWs(w.first) /\ w.inner = 0 /\ w.n >= 9
       [] pc = "trail-lf"      -> w.last = 10 /\ ~IsWs(w.first) /\ w.inner = 0 /\ w.n >= 9
       [] pc = "trail-crlf"    -> w.last = 10 /\ w.prev = 13 /\ ~IsWs(w.first) /\ w.inner = 1 /\ w.n >= 10
       [] pc = "lead-lf"       -> w.first = 10 /\ ~IsWs(w.last) /\ w.inner = 0 /\ w.n >= 9
       [] pc = "trail-nbsp"    -> w.last = 160 /\ ~IsWs(w.first) /\ w.inner = 0 /\ w.n >= 9
       [] pc = "inner-sp"      -> Tight(w) /\ w.inner >= 1 /\ w.hi = 0 /\ w.n >= 8
       [] pc = "upper"         -> Tight(w) /\ w.inner = 0 /\ w.hi = 0 /\ w.lower = 0 /\ w.n >= 8
       [] pc = "non-ascii"     -> Tight(w) /\ w.hi >= 1 /\ w.comb = 0
       [] pc = "non-ascii-nfd" -> Tight(w) /\ w.hi >= 1 /\ w.comb >= 1
       [] pc = "long"          -> Tight(w) /\ w.n >= 100 /\ w.n <= 1000
       [] pc = "long-cut"      -> Tight(w) /\ w.n >= 50 /\ w.n < 100
       [] pc = "single"        -> w.n = 1 /\ Tight(w)
       [] pc = "single-sp"     -> w.n = 2 /\ ~IsWs(w.first) /\ w.last = 32
       [] pc = "blank"         -> w.n = 1 /\ w.first = 32
       [] OTHER                -> FALSE
ExpLens(kt, fmt) == IF kt = "rsa" /\ fmt = "NXP" THEN {3, 4} ELSE {0}             \* width of the RSA exponent in NXP form
Entries == {"typed", "auto", "any", "file", "cli"}    \* PublicKeyEcc.parse | PublicKey.parse | extract_public_key_from_data | save + load | nxpcrypto key convert
Exporters == {"spsdk", "indep", "cli"}
Parsers == {"spsdk", "indep"}
Signers == {"spsdk", "sp", "indep", "cli"}
\* ---- how the key reaches the signer ("private keys with or without a password").  A party that signs from a private-key FILE
\* ("sp", "cli") finds the file open (no password needed) or encrypted; the password of an encrypted file is handed over up front -
\* as an argument (password= / --password) or inside the provider configuration string (type=file;file_path=..;password=..) - or
\* it is TYPED at the interactive prompt after the signer found the file encrypted (one prompt, then the key is loaded again).
\* The source of the password is NOT a signing parameter: the signature made is the one that was asked for, whichever way the key
\* was opened (SourceIsNoParameter).  Parties that sign with a key object they hold have nothing to open: "obj".
FileSigners == {"sp", "cli"}
FileSources == {"open", "arg", "cfg", "prompt"}
PwSources == {"obj"} \cup FileSources
SrcOf(by) == IF by \in FileSigners THEN FileSources ELSE {"obj"}
NeedsPassword(src) == src \in {"arg", "cfg", "prompt"}
Verifiers == {"spsdk", "indep", "pure", "cli"}
Tampers == {"sigbit", "msgbit", "msg", "key"}
Vias == {"sigclass", "serialize", "provider", "indep"}   \* ECDSASignature parse+export | KeyEccCommon.serialize_signature | SignatureProvider.get_signature | pure Python

Start(flow, kt, size, dflt, kk0) ==
  [flow |-> flow, kt |-> kt, size |-> size, dflt |-> dflt, kk0 |-> kk0,      \* kk0: what the behaviour starts from
   form |-> IF flow = "key" THEN "object" ELSE "none",          \* key: object | bytes ;  sig: none | sig
   kk |-> kk0, fmt |-> "-", pwd |-> "none",                     \* key flow
   hash |-> "-", pad |-> "-", enc |-> "-", intact |-> TRUE, sigmod |-> FALSE]     \* sig flow

Init == \E k \in KeyTypes : \E flow \in Flows : \E kk0 \in {"priv", "pub"} :
          /\ (flow = "sig" => kk0 = "priv")
          /\ obj = Start(flow, k.kt, k.size, DefaultHash(k.kt, k.size), kk0)
          /\ act = [a |-> "Init"]

\* ------------------------------------------------------------------ key flow
Export(fmt, pwd, el, by) ==
  /\ obj.flow = "key" /\ obj.form = "object"
  /\ fmt \in Fmts(obj.kk) /\ pwd \in Pwds(obj.kk) /\ el \in ExpLens(obj.kt, fmt) /\ by \in Exporters
  /\ (by = "cli" => pwd = "none" /\ (fmt = "NXP" => obj.kt = "ecc"))
  /\ obj' = [obj EXCEPT !.form = "bytes", !.fmt = fmt, !.pwd = pwd]
  /\ act' = [a |-> "Export", fmt |-> fmt, pwd |-> pwd, el |-> el, by |-> by,
             len |-> IF fmt = "NXP" THEN NxpLen(obj.kt, obj.size, el) ELSE 0, encrypted |-> pwd # "none"]
\* Parsing with the right password (or none for an open container) yields THE key; an encrypted container refuses
\* every other attempt - no password, an unrelated one, a near miss.  A password offered for an open container is outside the
\* stated domain (no action).
Parse(entry, given, by) ==
  /\ obj.flow = "key" /\ obj.form = "bytes"
  /\ entry \in Entries /\ by \in Parsers /\ (by = "indep" => entry = "typed") /\ (entry = "cli" => obj.pwd = "none")
  /\ given \in Givens(obj.pwd)
  /\ IF given = obj.pwd
     THEN /\ obj' = [obj EXCEPT !.form = "object", !.fmt = "-", !.pwd = "none",
                                !.kk = IF entry = "any" THEN "pub" ELSE @]        \* extract_public_key_from_data returns the public half
          /\ act' = [a |-> "Parse", entry |-> entry, given |-> given, by |-> by, res |-> "same"]
     ELSE /\ obj' = obj
          /\ act' = [a |-> "Parse", entry |-> entry, given |-> given, by |-> by, res |-> "refused"]
ToPublic == /\ obj.flow = "key" /\ obj.form = "object" /\ obj.kk = "priv"
            /\ obj' = [obj EXCEPT !.kk = "pub"] /\ act' = [a |-> "ToPublic"]

\* ------------------------------------------------------------------ signature flow
Sign(P, by, src) ==
  /\ obj.flow = "sig" /\ obj.form = "none"
  /\ P \in SignParams(obj.kt) /\ by \in Signers /\ (by = "indep" => P.hash # "default") /\ (by \in FileSigners => ~P.pre)
  /\ src \in SrcOf(by)
  /\ obj' = [obj EXCEPT !.form = "sig", !.hash = Eff(P.hash, obj.dflt), !.pad = P.pad, !.enc = P.enc]
  /\ act' = [a |-> "Sign", P |-> P, by |-> by, src |-> src]
\* raw <-> DER: lossless, so neither the scheme nor `intact` changes.  "serialize" knows DER -> raw only.
Reencode(to, via) ==
  /\ obj.flow = "sig" /\ obj.form = "sig" /\ obj.kt = "ecc" /\ ~obj.sigmod
  /\ to \in {"raw", "der"} /\ via \in Vias /\ (via = "serialize" => obj.enc = "der" /\ to = "raw")
  /\ obj' = [obj EXCEPT !.enc = to]
  /\ act' = [a |-> "Reencode", from |-> obj.enc, to |-> to, via |-> via]
Tamper(what) ==
  /\ obj.flow = "sig" /\ obj.form = "sig" /\ what \in Tampers
  /\ obj' = [obj EXCEPT !.intact = FALSE, !.sigmod = @ \/ what = "sigbit"]
  /\ act' = [a |-> "Tamper", what |-> what]
Verify(Q, by) ==
  /\ obj.flow = "sig" /\ obj.form = "sig"
  /\ Q \in VerParams(obj.kt) /\ by \in Verifiers /\ (by \in {"indep", "pure"} => Q.hash # "default") /\ (by = "cli" => ~Q.pre)
  /\ act' = [a |-> "Verify", Q |-> Q, by |-> by, res |-> VerifyExpected(obj.hash, obj.pad, obj.intact, Q, obj.dflt)]
  /\ UNCHANGED obj

DoExport == \E fmt \in {"PEM", "DER", "NXP"}, pwd \in {"none"} \cup PwClasses, el \in {0, 3, 4}, by \in Exporters : Export(fmt, pwd, el, by)
DoParse == \E entry \in Entries, given \in {"none", "wrong"} \cup PwClasses, by \in Parsers : Parse(entry, given, by)
DoToPublic == ToPublic
DoSign == \E P \in SignParams(obj.kt), by \in Signers, src \in PwSources : Sign(P, by, src)
DoReencode == \E to \in {"raw", "der"}, via \in Vias : Reencode(to, via)
DoTamper == \E what \in Tampers : Tamper(what)
DoVerify == \E Q \in VerParams(obj.kt), by \in Verifiers : Verify(Q, by)
Next == DoExport \/ DoParse \/ DoToPublic \/ DoSign \/ DoReencode \/ DoTamper \/ DoVerify
Spec == Init /\ [][Next]_vars

\* ------------------------------------------------------------------ properties (model-checked, KeyFlowMC.cfg)
TypeOK == /\ obj.flow \in Flows /\ obj.kt \in {"rsa", "ecc"} /\ obj.form \in {"object", "bytes", "none", "sig"}
          /\ obj.kk \in {"priv", "pub"} /\ obj.intact \in BOOLEAN
\* private keys never leave in NXP form, public keys never carry a password, only private containers are encrypted
ContainerSane == obj.form = "bytes" => obj.fmt \in Fmts(obj.kk) /\ obj.pwd \in Pwds(obj.kk)
\* a public key never turns back into a private one
NoResurrection == [][obj.kk = "pub" => obj'.kk = "pub"]_vars
\* parsing succeeds iff the password matches, and then always
ParseTotal == [][act'.a = "Parse" => (act'.res = "same" <=> act'.given = obj.pwd) /\ act'.res \in {"same", "refused"}]_vars
\* a near miss never opens a container, and every password has its own near misses offered (the case space is not hollow)
NearMissRefused == [][act'.a = "Parse" /\ obj.pwd # "none" /\ act'.given \in Near(obj.pwd) => act'.res = "refused" /\ obj' = obj]_vars
NearSane == \A p \in PwClasses : p \notin Near(p) /\ Near(p) \subseteq PwClasses /\ (p # "blank" => Near(p) # {})
            /\ \A q \in Near(p) : p \in Near(q)
ASSUME NearSane
\* once tampered, nothing verifies any more; untampered, exactly the diagonal verifies - whoever verifies, pre-hashed or not,
\* and whatever the encoding of the signature is at that moment
OnlyDiagonalVerifies == [][act'.a = "Verify" =>
                             (act'.res <=> (obj.intact /\ obj.hash = Eff(act'.Q.hash, obj.dflt) /\ obj.pad = act'.Q.pad))]_vars
\* the way the key was opened (no password needed, password given up front, password typed at the prompt) is no parameter of the
\* signature: what has been made commits to exactly the requested hash and padding, in the requested encoding, for EVERY source
SourceIsNoParameter == [][act'.a = "Sign" => /\ act'.src \in SrcOf(act'.by)
                                             /\ obj'.hash = Eff(act'.P.hash, obj.dflt) /\ obj'.pad = act'.P.pad /\ obj'.enc = act'.P.enc
                                             /\ obj' = [obj EXCEPT !.form = "sig", !.hash = obj'.hash, !.pad = obj'.pad, !.enc = obj'.enc]]_vars
SourcesSane == /\ \A by \in Signers : SrcOf(by) # {} /\ SrcOf(by) \subseteq PwSources
               /\ \A by \in FileSigners : \E s \in SrcOf(by) : NeedsPassword(s) /\ \E t \in SrcOf(by) : ~NeedsPassword(t)
               /\ "prompt" \in FileSources /\ ~NeedsPassword("obj")
ASSUME SourcesSane
TamperIsForever == [][~obj.intact => ~obj'.intact]_vars
ReencodeKeepsVerdict == [][act'.a = "Reencode" => obj'.hash = obj.hash /\ obj'.pad = obj.pad /\ obj'.intact = obj.intact]_vars
Bounded == TLCGet("level") <= 5
=============================================================================
