INIT Init
NEXT Next
INVARIANT Check
POSTCONDITION Post
CHECK_DEADLOCK FALSE
