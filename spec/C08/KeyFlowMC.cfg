SPECIFICATION Spec
INVARIANT TypeOK
INVARIANT ContainerSane
PROPERTY NoResurrection
PROPERTY ParseTotal
PROPERTY OnlyDiagonalVerifies
PROPERTY TamperIsForever
PROPERTY ReencodeKeepsVerdict
CHECK_DEADLOCK FALSE
