SPECIFICATION Spec
INVARIANT TypeOK
INVARIANT ContainerSane
PROPERTY NoResurrection
PROPERTY ParseTotal
PROPERTY NearMissRefused
PROPERTY OnlyDiagonalVerifies
PROPERTY SourceIsNoParameter
PROPERTY TamperIsForever
PROPERTY ReencodeKeepsVerdict
CHECK_DEADLOCK FALSE
