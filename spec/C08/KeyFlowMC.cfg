SPECIFICATION Spec
INVARIANT TypeOK
INVARIANT ContainerSane
PROPERTY NoResurrection
PROPERTY ParseTotal
PROPERTY NearMissRefused
PROPERTY OnlyDiagonalVerifies
PROPERTY TamperIsForever
PROPERTY ReencodeKeepsVerdict
CHECK_DEADLOCK FALSE
