----------------------------- MODULE KeyFlowGen -----------------------------
(* GEN form: KeyFlow plus a history variable; behaviours of exactly GEN_DEPTH actions of the flow  *)
(* GEN_FLOW are printed as JSON for replay on the real code (exhaustive, or -simulate for long    *)
(* ones).  GEN_MENU = "mid" keeps only behaviours whose second action is Tamper or Reencode (the  *)
(* sign / disturb / verify shape; Sign-Verify-Verify adds nothing to depth 2).                    *)
EXTENDS KeyFlow, Json, IOUtils
VARIABLES hist, done
Depth == atoi(IOEnv.GEN_DEPTH)
GFlow == IOEnv.GEN_FLOW
Menu == IOEnv.GEN_MENU
\* GEN_MENU = "sweep": Sign (library, explicit hash, message given) - Tamper (one bit of signature or message) - Verify (library,
\* the SAME parameter set): the shape whose bit position the harness then sweeps over every bit
\* GEN_PW: the password classes exports may use ("all", or one class chosen by the harness from its seed).
\* GEN_MENU = "pw": Export (private key, with a password) - Parse: every class x everything that may be offered x every
\* container, exporting party, entry point and parsing party
GenPw == IF IOEnv.GEN_PW = "all" THEN PwClasses ELSE {IOEnv.GEN_PW}
\* GEN_SRC: how the key reaches a signer that works from a key FILE ("all", or one source chosen by the harness from its seed).
\* GEN_MENU = "src": Sign by a file signer (library signature provider, nxpcrypto signature create) - every parameter set x
\* EVERY source of the password (file open, password as argument, in the provider configuration, typed at the prompt)
GenSrc == IF IOEnv.GEN_SRC = "all" THEN PwSources ELSE {"obj", IOEnv.GEN_SRC}
Allowed == /\ act'.a = "Export" => act'.pwd \in {"none"} \cup GenPw
           /\ act'.a = "Sign" => act'.src \in GenSrc
           /\ Menu = "src" /\ Len(hist) = 0 => act'.a = "Sign" /\ act'.by \in FileSigners
           /\ Menu = "pw" => /\ Len(hist) = 0 => act'.a = "Export" /\ act'.pwd # "none"
                             /\ Len(hist) = 1 => act'.a = "Parse"
           /\ Menu = "mid" /\ Len(hist) = 1 => act'.a \in {"Tamper", "Reencode"}
           /\ Menu = "sweep" =>
                /\ Len(hist) = 0 => act'.a = "Sign" /\ act'.by = "spsdk" /\ ~act'.P.pre /\ act'.P.hash # "default"
                /\ Len(hist) = 1 => act'.a = "Tamper" /\ act'.what \in {"sigbit", "msgbit"}
                /\ Len(hist) = 2 => act'.a = "Verify" /\ act'.by = "spsdk" /\ ~act'.Q.pre
                                     /\ act'.Q.hash = hist[1].P.hash /\ act'.Q.pad = hist[1].P.pad
GInit == Init /\ obj.flow = GFlow /\ hist = <<>> /\ done = FALSE
\* the final step exists only to print the finished behaviour exactly once (also in -simulate mode)
GNext == \/ Len(hist) < Depth /\ Next /\ Allowed /\ hist' = Append(hist, act') /\ UNCHANGED done
         \/ Len(hist) = Depth /\ ~done /\ done' = TRUE /\ UNCHANGED <<vars, hist>>
            /\ PrintT(ToJson([flow |-> obj.flow, kt |-> obj.kt, size |-> obj.size, kk0 |-> obj.kk0, hist |-> hist]))
=============================================================================
