----------------------------- MODULE KeyCodecMC -----------------------------
(* MC / GEN form of the length algebra: the case space (every curve x every length profile of    *)
(* (r, s)) is the set of initial states; the lemmas are checked over it; every case is emitted    *)
(* together with the lengths the algebra computes and with what the as-built sniffing (I-spec)    *)
(* would make of its DER form.                                                                    *)
EXTENDS KeyCodec, Json
VARIABLES cv, p
vars == <<cv, p>>
Init == cv \in Curves /\ p \in SigProfiles(cv)
Next == UNCHANGED vars
ASSUME RawUnambiguous
ASSUME NxpUnambiguous
ASSUME PubDerNeverNxp
ASSUME KnownContainerLens
ASSUME EveryParamSignable
ASSUME DiagonalOnly
L == PDer(p)
\* ---- lemmas over the case space
DerLenBounds == L >= 8 /\ L <= 2 * cv.c + 8 /\ (cv.c = 66 => L <= 2 * cv.c + 7)
\* the DER length is strictly monotone in the four profile components
Monotone == /\ p.lr < cv.c => DerSigLen(p.lr + 1, p.tr, p.ls, p.ts) > L
            /\ p.tr = 0 /\ ~(cv.c = 66 /\ p.lr = 66) => DerSigLen(p.lr, 1, p.ls, p.ts) = L + 1 \/ DerSigLen(p.lr, 1, p.ls, p.ts) = L + 2
\* full-length r and s (what a signature looks like with probability > 99 %) always fall into the window SPSDK knows:
\* sampling real signatures practically never leaves it, enumeration does at once
FullLengthInWindow == p.lr = cv.c /\ p.ls = cv.c => InOwnWindow(cv, L)
\* as built: right inside the own window, and never right below it; raw is always right
AsBuiltRightInWindow == InOwnWindow(cv, L) <=> AsBuiltParseDer(cv, L) = "same"
AsBuiltRawRight == AsBuiltParseRaw(cv) = "same"
\* a DER signature can have the raw length of some curve (so no codec may decide by length alone) - witnessed, not universal
CollidesWithRaw == \E k \in Curves : L = RawSigLen(k.c)
Emit == PrintT(ToJson([curve |-> cv.name, c |-> cv.c, lr |-> p.lr, tr |-> p.tr, ls |-> p.ls, ts |-> p.ts,
                       der |-> L, raw |-> RawSigLen(cv.c), inwin |-> InOwnWindow(cv, L), collides |-> CollidesWithRaw,
                       predParse |-> AsBuiltParseDer(cv, L), predVerify |-> AsBuiltVerifyDer(cv, L)]))
=============================================================================
