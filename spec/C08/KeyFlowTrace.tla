---------------------------- MODULE KeyFlowTrace ----------------------------
(* TV form of KeyFlow.  A trace is what really happened to one concrete key (first event "Key":  *)
(* its profile and the leading bytes of its public numbers) while a behaviour was replayed on the *)
(* real code; every step must be the spec action named by the event, with the logged outcome      *)
(* equal to the outcome the spec requires and every logged length equal to the recomputed one.    *)
(* Facts of the form ok / indep / encrypted are established by the independent base (cryptography *)
(* called directly, pure Python), never by spsdk.crypto.                                          *)
EXTENDS KeyFlow, Json, IOUtils
Traces == ndJsonDeserialize(IOEnv.TRACE_FILE)
VARIABLES tid, l
H == Traces[tid]
T == H.ev
E == T[l]
Is(e) == l <= Len(T) /\ E.a = e
Adv == l' = l + 1 /\ UNCHANGED tid
Top(b) == IF b >= 128 THEN 1 ELSE 0
TInit == /\ tid \in 1..Len(Traces) /\ l = 1
         /\ obj = Start(H.flow, H.kt, H.size, H.dflt, H.kk0) /\ act = [a |-> "Init"] /\ TLCSet(tid, 1)
\* the concrete key is a supported one, has the profile it claims, and its default hash was identified independently
TKey == /\ Is("Key") /\ [kt |-> H.kt, size |-> H.size] \in KeyTypes /\ H.flow \in Flows /\ H.kk0 \in {"priv", "pub"}
        /\ E.prof \in KeyProfiles(H.kt, H.size) /\ KeyProfBinds(H.kt, E.prof, E.xl, E.yl)
        /\ H.dflt \in Hashes
        /\ (IF H.dflt = DefaultHash(H.kt, H.size) THEN TRUE ELSE PrintT(<<"DRIFT", H.id, "default-hash", H.dflt>>))
        /\ UNCHANGED vars /\ Adv
TExport == /\ Is("Export") /\ Export(E.fmt, E.pwd, E.el, E.by)
           /\ E.ok /\ E.indep /\ E.encrypted = act'.encrypted
           /\ (E.pwd # "none" => PwBinds(E.pwd, E.pw))               \* the text used really has the shape of its class
           /\ (E.fmt = "NXP" => E.len = act'.len)
           /\ (IF E.fmt = "NXP" \/ obj.kk = "priv" \/ E.derLen \in StdPubDerLens(obj.kt, obj.size) THEN TRUE
               ELSE PrintT(<<"DRIFT", H.id, "public-der-length", E.derLen>>))
           /\ Adv
\* eq: the text offered is, character by character, the text the container was made with (none = none)
TParse == /\ Is("Parse") /\ Parse(E.entry, E.given, E.by) /\ E.res = act'.res
          /\ (E.given \in PwClasses => PwBinds(E.given, E.gpw)) /\ E.eq = (E.given = obj.pwd)
          /\ Adv
TToPublic == Is("ToPublic") /\ ToPublic /\ E.ok /\ Adv
\* src: how the key reached the signer.  encrypted: the key FILE handed to the signer does not open without a password (independent
\* fact); prompts: how often the signer asked for the passphrase (the harness "types" it).  cls: every (hash, padding) of the matrix
\* under which the independent base accepts the signature for the signed message - it must be exactly the requested pair, whichever
\* way the key was opened (a signature asked for as PSS that comes out as PKCS#1 v1.5 after the prompt is NOT the requested one)
SigClass(c) == {[hash |-> c[i].hash, pad |-> c[i].pad] : i \in 1..Len(c)}
TSign == /\ Is("Sign") /\ Sign(E.P, E.by, E.src) /\ E.ok
         /\ E.encrypted = NeedsPassword(E.src)
         /\ (E.src = "prompt" => E.prompts >= 1)
         /\ SigClass(E.cls) = {[hash |-> obj'.hash, pad |-> obj'.pad]}
         /\ E.sigLen = SigLenExpected(obj.kt, obj.size, E.P.enc, E.rl, Top(E.r0), E.sl, Top(E.s0))
         /\ (obj.kt = "ecc" => E.rl >= 1 /\ E.rl <= CoordLen(obj.size) /\ E.sl >= 1 /\ E.sl <= CoordLen(obj.size))
         /\ Adv
TReencode == /\ Is("Reencode") /\ Reencode(E.to, E.via) /\ E.from = obj.enc /\ E.ok
             /\ E.outLen = SigLenExpected(obj.kt, obj.size, E.to, E.rl, Top(E.r0), E.sl, Top(E.s0))
             /\ Adv
TTamper == Is("Tamper") /\ Tamper(E.what) /\ Adv
TVerify == /\ Is("Verify") /\ Verify(E.Q, E.by)
           /\ (act'.res => E.res = "true") /\ (~act'.res => E.res # "true")
           /\ Adv
TNext == TKey \/ TExport \/ TParse \/ TToPublic \/ TSign \/ TReencode \/ TTamper \/ TVerify
Constr == IF TLCGet(tid) < l THEN TLCSet(tid, l) ELSE TRUE
Post == \A i \in 1..Len(Traces) :
          \/ TLCGet(i) - 1 = Len(Traces[i].ev)
          \/ PrintT(<<"REJ", Traces[i].id, TLCGet(i) - 1, Len(Traces[i].ev),
                      Traces[i].ev[IF TLCGet(i) <= Len(Traces[i].ev) THEN TLCGet(i) ELSE Len(Traces[i].ev)].a>>)
=============================================================================
