---------------------------- MODULE BinImageTrees ----------------------------
(* MC + GEN form for static trees: the set of initial states is EVERY tree of the bounded space     *)
(* (1..MaxNodes images, image 1 the root, parent id < own id, offsets / explicit sizes / alignments  *)
(* / binary lengths from the menus).  The lemmas of BinImage are checked on each tree and each tree  *)
(* is emitted once for replay on a real BinaryImage.  Patterns and byte contents are concretised by  *)
(* the replayer (they do not influence Len / Valid / the source map).                               *)
EXTENDS BinImage, Json
Shapes(n) == {p \in [1..n -> 0..(n - 1)] : p[1] = 0 /\ \A k \in 2..n : p[k] >= 1 /\ p[k] < k}
PatOf(k) == IF k % 2 = 1 THEN [kind |-> "ones", b |-> <<>>] ELSE [kind |-> "none", b |-> <<>>]
TreesInit ==
  \E n \in 1..MaxNodes : \E par \in Shapes(n) : \E off \in [1..n -> Offs] : \E size \in [1..n -> Sizes] :
  \E al \in [1..n -> Aligns] : \E bl \in [1..n -> BinLens] :
    /\ off[1] = 0
    /\ \A k \in 1..n : size[k] = 0 \/ Align(size[k], al[k]) >= bl[k]
    /\ forest = [k \in 1..n |-> [NewNode(k, off[k], size[k], al[k], [i \in 1..bl[k] |-> DataByte(k, i - 1)], PatOf(k)) EXCEPT !.par = par[k]]]
    /\ act = [a |-> "Tree", size |-> size]
TreesNext == FALSE /\ UNCHANGED vars
\* one line per tree: for every image  <<parent, offset, explicit size, alignment, binary length>>
Emit == PrintT(ToJson([k \in DOMAIN forest |-> <<forest[k].par, forest[k].off, act.size[k], forest[k].al, Len(forest[k].bin)>>]))
=============================================================================
