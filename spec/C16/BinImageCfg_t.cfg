CONSTANTS MaxNodes = 3
 Offs = {0, 3, 4, 9}
 Sizes = {0, 16}
 Aligns = {1, 4}
 BinLens = {3}
 Pats = {0}
 NegOffs = {}
INIT CInit
NEXT CNext
INVARIANT CfgBytesInPlace
INVARIANT GivenOffsetsKept
INVARIANT ReadingsCoincide
INVARIANT AppendedIsBehind
INVARIANT FrontRegionRefused
INVARIANT ChildBytesInPlace
INVARIANT PaddingOnlyAtEnd
INVARIANT VerdictMonotone
INVARIANT Emit
CHECK_DEADLOCK FALSE
