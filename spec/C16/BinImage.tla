------------------------------ MODULE BinImage ------------------------------
(* C16 - R-spec of spsdk.utils.images.BinaryImage: the property read literally.                      *)
(*                                                                                                   *)
(* A forest F is a sequence of node records                                                          *)
(*    [live, par, off, size0, al, pat, bin, data]                                                    *)
(*  par   = 0 for a root (an image that is not a sub-image), otherwise the id of the parent          *)
(*  off   = offset inside the parent (for a root: its own base offset)                               *)
(*  size0 = explicit size as the image keeps it (already aligned up), 0 = size is derived            *)
(*  al    = alignment of the length,  pat = fill pattern [kind, b]                                   *)
(*  bin   = the own binary as a sequence of SOURCES (so that a joined image still knows where every  *)
(*          byte came from),  data = the concrete bytes the node was created with                    *)
(* A source says where a byte of an exported buffer comes from:                                      *)
(*    [k |-> "bin", n, i]   byte i of the binary node n was created with                             *)
(*    [k |-> "pat", n, i]   fill pattern of node n, phase i counted from the start of node n         *)
(*    [k |-> "zero"]        gap of a node without pattern                                            *)
(*    [k |-> "free"]        not settled by the property (own binary of a node that also has children)*)
(* ILen, Abs, Src/Map, ValidStrict are the literal reading of the property text; the state machine   *)
(* below is the composition history (add_image / append_image / size setter / join_images /         *)
(* update_offsets, and load_from_config: a whole tree described by a merge configuration);          *)
(* len(), validate() and export() are observations of a state.                                      *)
EXTENDS Integers, Sequences, FiniteSets, TLC

Align(n, a) == ((n + a - 1) \div a) * a
Max(S) == IF S = {} THEN 0 ELSE CHOOSE m \in S : \A x \in S : x <= m
Min(S) == CHOOSE m \in S : \A x \in S : m <= x

Ids(F) == {n \in DOMAIN F : F[n].live}
Kids(F, p) == {k \in Ids(F) : F[k].par = p}
Roots(F) == {n \in Ids(F) : F[n].par = 0}

\* TLC: a function written as [i \in 1..n |-> e] is evaluated lazily, e again at every application; Mat makes it an explicit
\* tuple once.  TLC also re-evaluates a LET-bound value at every use but evaluates an operator ARGUMENT once: that is why
\* tabulated values travel as arguments (the ...T operators) instead of LET definitions.  Pure efficiency, no meaning.
Mat(s) == SubSeq(s, 1, Len(s))

\* ---------------------------------------------------------------- length: explicit size wins, else max(own binary, child ends) aligned up
RECURSIVE ILen(_, _)
MaxEnd(F, n) == Max({Len(F[n].bin)} \cup {F[k].off + ILen(F, k) : k \in Kids(F, n)})
ILen(F, n) == IF F[n].size0 # 0 THEN F[n].size0 ELSE Align(MaxEnd(F, n), F[n].al)
End(F, k) == F[k].off + ILen(F, k)
\* the same, tabulated once per forest:  T.len[n] = ILen(F, n),  T.kids[n] = Kids(F, n)
Tab(F) == [len |-> Mat([n \in 1..Len(F) |-> IF F[n].live THEN ILen(F, n) ELSE 0]),
           kids |-> Mat([n \in 1..Len(F) |-> Kids(F, n)])]

RECURSIVE Abs(_, _)
Abs(F, n) == IF F[n].par = 0 THEN F[n].off ELSE Abs(F, F[n].par) + F[n].off
RECURSIVE RootOf(_, _)
RootOf(F, n) == IF F[n].par = 0 THEN n ELSE RootOf(F, F[n].par)
RECURSIVE Desc(_, _)
Desc(F, n) == {n} \cup UNION {Desc(F, k) : k \in Kids(F, n)}

\* ---------------------------------------------------------------- validity: a child sticks out of its parent, or two siblings overlap
\* A child occupies [off, off + len) of its parent, the parent is [0, len(parent)).  A child can stick out on BOTH sides: in front of
\* the start of its parent (a negative offset - the child may lie wholly in front or straddle offset 0) and behind its end.  An offset
\* is a plain integer of the API (the merge configuration says "the offset could be also negative"), so both sides belong to the case space.
SticksFront(F, k) == F[k].off < 0
SticksBehindT(F, T, p, k) == F[k].off + T.len[k] > T.len[p]
SticksT(F, T, p, k) == SticksFront(F, k) \/ SticksBehindT(F, T, p, k)
OverlapT(F, T, j, k) == T.len[j] > 0 /\ T.len[k] > 0 /\ F[j].off < F[k].off + T.len[k] /\ F[k].off < F[j].off + T.len[j]
RECURSIVE ValidT(_, _, _)
ValidT(F, T, n) == /\ \A k \in T.kids[n] : ValidT(F, T, k) /\ ~SticksT(F, T, n, k)
                   /\ \A j, k \in T.kids[n] : j # k => ~OverlapT(F, T, j, k)
ValidStrict(F, n) == ValidT(F, Tab(F), n)
\* a zero-length image strictly inside a sibling has no byte in common with it; whether that "overlaps" is not settled
RECURSIVE DebatableT(_, _, _)
DebatableT(F, T, n) == \/ \E k \in T.kids[n] : DebatableT(F, T, k)
                       \/ \E j, k \in T.kids[n] : j # k /\ T.len[k] = 0 /\ F[j].off < F[k].off /\ F[k].off < F[j].off + T.len[j]
\* what validate() of image n must say:  "ok", "error", or "any" where the property is silent.  The clause speaks about CHILDREN inside
\* their parents: the own offset of the image that is validated (a root, or a sub-image validated on its own) is no part of the tree
\* below it - when it is negative the verdict is not settled (the code refuses such an image).
VerdictT(F, T, n) == IF ~ValidT(F, T, n) THEN "error" ELSE IF DebatableT(F, T, n) \/ F[n].off < 0 THEN "any" ELSE "ok"
Verdict(F, n) == VerdictT(F, Tab(F), n)

\* ---------------------------------------------------------------- the source of byte i (0-based) of the export of node n
Zero == [k |-> "zero", n |-> 0, i |-> 0]
Free == [k |-> "free", n |-> 0, i |-> 0]
RECURSIVE SrcT(_, _, _, _)
SrcT(F, T, n, i) ==
  LET hit == {k \in T.kids[n] : F[k].off <= i /\ i < F[k].off + T.len[k]} IN
  IF hit # {} THEN LET k == CHOOSE k \in hit : TRUE IN SrcT(F, T, k, i - F[k].off)       \* a child's byte at its offset
  ELSE IF i < Len(F[n].bin) THEN (IF T.kids[n] = {} THEN F[n].bin[i + 1] ELSE Free)      \* the own binary starts at 0
  ELSE IF F[n].pat.kind = "none" THEN Zero ELSE [k |-> "pat", n |-> n, i |-> i]            \* everything else: the node's pattern
MapT(F, T, n) == Mat([i \in 1..T.len[n] |-> SrcT(F, T, n, i - 1)])
Src(F, n, i) == SrcT(F, Tab(F), n, i)
Map(F, n) == MapT(F, Tab(F), n)
\* export() content is asserted for valid trees inside the domain (for invalid trees the property defines only the verdict)
InDomain(F) == \A n \in Ids(F) : F[n].size0 = 0 \/ F[n].size0 >= Len(F[n].bin)
ExportAsserted(F, n) == ValidStrict(F, n) /\ InDomain(F)

\* ---------------------------------------------------------------- concrete bytes (-1 = any byte)
PatByte(p, i) == CASE p.kind = "zeros" -> 0
                   [] p.kind = "ones"  -> 255
                   [] p.kind = "inc"   -> i % 256
                   [] p.kind = "bytes" -> p.b[(i % Len(p.b)) + 1]
                   [] p.kind = "none"  -> 0
                   [] OTHER            -> 0 - 1                                          \* "rand"
Val(F, s) == CASE s.k = "bin"  -> F[s.n].data[s.i + 1]
               [] s.k = "pat"  -> PatByte(F[s.n].pat, s.i)
               [] s.k = "zero" -> 0
               [] OTHER        -> 0 - 1
BytesOf(F, M) == Mat([i \in 1..Len(M) |-> Val(F, M[i])])
Bytes(F, n) == BytesOf(F, Map(F, n))
Matches(exp, got) == Len(exp) = Len(got) /\ \A i \in 1..Len(exp) : exp[i] = 0 - 1 \/ exp[i] = got[i]

\* ---------------------------------------------------------------- the composition history as a state machine
CONSTANTS MaxNodes, Offs, Sizes, Aligns, BinLens, Pats
VARIABLES forest,   \* the forest of images created so far
          act       \* the last action (binding point for traces / history)
vars == <<forest, act>>
DataByte(n, i) == 128 + ((n - 1) % 8) * 16 + (i % 16)           \* distinguishable content: node id in the high nibble
BinOf(n, len) == [i \in 1..len |-> [k |-> "bin", n |-> n, i |-> i - 1]]
NewNode(n, off, size, al, data, pat) ==
  [live |-> TRUE, par |-> 0, off |-> off, size0 |-> Align(size, al), al |-> al, pat |-> pat, bin |-> BinOf(n, Len(data)), data |-> data]
Init == forest = <<>> /\ act = [a |-> "Init"]
New(off, size, al, data, pat) ==
  /\ Len(forest) < MaxNodes
  /\ size = 0 \/ Align(size, al) >= Len(data)                    \* own binary longer than the explicit size: outside the domain
  /\ forest' = Append(forest, NewNode(Len(forest) + 1, off, size, al, data, pat))
  /\ act' = [a |-> "New", n |-> Len(forest) + 1, off |-> off, size |-> size, al |-> al, data |-> data, pat |-> pat]
CanAdopt(p, c) == p \in Ids(forest) /\ c \in Roots(forest) /\ c # RootOf(forest, p)
Add(p, c) ==                                                       \* add_image: the child keeps its offset
  /\ CanAdopt(p, c)
  /\ forest' = [forest EXCEPT ![c].par = p]
  /\ act' = [a |-> "Add", p |-> p, c |-> c]
AppendImg(p, c) ==                                                 \* append_image: the child goes to the current end of the parent
  /\ CanAdopt(p, c)
  /\ forest' = [forest EXCEPT ![c].par = p, ![c].off = ILen(forest, p)]
  /\ act' = [a |-> "Append", p |-> p, c |-> c]
SetSize(n, s) ==
  /\ n \in Ids(forest)
  /\ s = 0 \/ Align(s, forest[n].al) >= Len(forest[n].bin)
  /\ forest' = [forest EXCEPT ![n].size0 = Align(s, forest[n].al)]
  /\ act' = [a |-> "SetSize", n |-> n, s |-> s]
Join(n) ==                                                         \* join_images: the export becomes the own binary, children go away
  /\ n \in Ids(forest) /\ ExportAsserted(forest, n)
  /\ forest' = [m \in DOMAIN forest |->
                  IF m = n THEN [forest[m] EXCEPT !.bin = Map(forest, n)]
                  ELSE IF m \in Desc(forest, n) THEN [forest[m] EXCEPT !.live = FALSE] ELSE forest[m]]
  /\ act' = [a |-> "Join", n |-> n]
UpdateOffsets(n) ==                                                \* update_offsets: the first child moves to 0, the node moves up by as much
  /\ n \in Ids(forest) /\ Kids(forest, n) # {}
  /\ LET m == Min({forest[k].off : k \in Kids(forest, n)}) IN
     forest' = [k \in DOMAIN forest |->
                  IF k \in Kids(forest, n) THEN [forest[k] EXCEPT !.off = @ - m]
                  ELSE IF k = n THEN [forest[k] EXCEPT !.off = @ + m] ELSE forest[k]]
  /\ act' = [a |-> "UpdateOffsets", n |-> n]


\* ---------------------------------------------------------------- the merge configuration (BinaryImage.load_from_config, `nxpimage utils binary-image merge`)
\* A second public constructor of the same tree.  What its schema (spsdk/data/jsonschemas/sch_binary.yaml) says, and nothing more:
\*   size       "the overall size of merged image"                               -> explicit size of the merged image (0 / absent: derived)
\*   pattern    "used to fill up gaps between defined regions"                   -> fill pattern of the merged image
\*   alignment  "region alignment that will be used in case that offset is not specified" (it is also the alignment of the merged image)
\*   regions    in LISTING order: binary_block [size, pattern, offset?], binary_file [path, offset?]
\*   offset     "the offset of image to be merge on. The offset could be also negative - for example to 'erase' security bit from address.
\*               In case that offset definition is omitted, the block will be placed after previous one with defined alignment."
\* cfg == [size, al, pat, regions],   region == [kind, hasoff, off, size, pat, segs]
\*   kind = "block": `size` bytes of `pat`;  kind = "file": segs = <<[at, d], ...>> is what the file holds, in address order and apart
\*   (a plain binary file is one segment at 0; HEX / S-record files carry addresses: a byte at address a of the file lands at offset + a).
\* place[k] = where the first byte of region k lands in the merged image.
\*   offset given   : exactly at offset (+ the first address of the file) - whatever its value (0 included, negative included) and wherever
\*                    the region is listed.  A region that lands below 0 is a child that sticks out in front of the merged image: the
\*                    tree is built as described and validate() must refuse it (clause SticksFront).
\*   offset omitted : "after the previous one", aligned up.  For regions listed in address order that is the end of everything listed so
\*                    far.  For a listing out of address order the sentence can be read as the end of the region listed just before or as
\*                    the end of all regions listed before: BOTH readings are allowed here (lemma ReadingsCoincide of BinImageCfg: they are
\*                    the same place for in-order listings).  The first region has nothing in front of it: it starts at 0.
\*                    A file that carries non-zero addresses and has no offset is not settled by the text: outside the domain.
\*                    "After" regions that all end below 0 is not settled either (there is nothing of them inside the image to be
\*                    behind): a reading is only offered when the end it refers to is not negative.
\* The tree: image 1 = the merged image; every region is a sub-image of it, in listing order; a file region is an image (fill pattern of
\* the merge: it has none of its own) that holds one sub-image per segment of the file.
NonePat == [kind |-> "none", b |-> <<>>]
FirstAt(r) == IF r.kind = "file" THEN r.segs[1].at ELSE 0
RLen(r) == IF r.kind = "file" THEN r.segs[Len(r.segs)].at + Len(r.segs[Len(r.segs)].d) - r.segs[1].at ELSE r.size
PrevEnd(rs, pl, k) == IF k = 1 THEN 0 ELSE pl[k - 1] + RLen(rs[k - 1])
AllEnd(rs, pl, k) == Max({pl[j] + RLen(rs[j]) : j \in 1..(k - 1)})
AppendChoices(cfg, pl, k) == {Align(e, cfg.al) : e \in {x \in {PrevEnd(cfg.regions, pl, k), AllEnd(cfg.regions, pl, k)} : x >= 0}}
SegsOK(r) == /\ Len(r.segs) >= 1
             /\ \A i \in 1..Len(r.segs) : Len(r.segs[i].d) >= 1 /\ r.segs[i].at >= 0
             /\ \A i \in 1..(Len(r.segs) - 1) : r.segs[i].at + Len(r.segs[i].d) < r.segs[i + 1].at
CfgOK(cfg) == /\ cfg.size >= 0 /\ cfg.al >= 1
              /\ \A k \in DOMAIN cfg.regions :
                   LET r == cfg.regions[k] IN
                   /\ r.kind \in {"block", "file"} /\ r.hasoff \in BOOLEAN
                   /\ IF r.kind = "file" THEN SegsOK(r) ELSE r.size >= 0 /\ r.pat.kind # "none"
                   /\ r.hasoff \/ FirstAt(r) = 0
PlacesOK(cfg, pl) == /\ Len(pl) = Len(cfg.regions)
                     /\ \A k \in DOMAIN pl :
                          IF cfg.regions[k].hasoff THEN pl[k] = cfg.regions[k].off + FirstAt(cfg.regions[k])   \* (may be below 0)
                          ELSE pl[k] \in AppendChoices(cfg, pl, k)                                             \* (never is)
RECURSIVE CfgNodes(_, _, _, _)
CfgNodes(cfg, pl, k, F) ==
  IF k > Len(cfg.regions) THEN F
  ELSE LET r == cfg.regions[k]
           w == Len(F) + 1 IN
       IF r.kind = "block"
       THEN CfgNodes(cfg, pl, k + 1, Append(F, [NewNode(w, pl[k], r.size, 1, <<>>, r.pat) EXCEPT !.par = 1]))
       ELSE CfgNodes(cfg, pl, k + 1,
                     Append(F, [NewNode(w, pl[k], 0, 1, <<>>, cfg.pat) EXCEPT !.par = 1])
                     \o Mat([i \in 1..Len(r.segs) |->
                               [NewNode(w + i, r.segs[i].at - r.segs[1].at, Len(r.segs[i].d), 1, r.segs[i].d, NonePat) EXCEPT !.par = w]]))
CfgForest(cfg, pl) == CfgNodes(cfg, pl, 1, <<NewNode(1, 0, cfg.size, cfg.al, <<>>, cfg.pat)>>)
\* id of the image of region k (its segments follow it)
RECURSIVE RegionNode(_, _)
RegionNode(cfg, k) == IF k = 1 THEN 2
                      ELSE RegionNode(cfg, k - 1) + 1 + (IF cfg.regions[k - 1].kind = "file" THEN Len(cfg.regions[k - 1].segs) ELSE 0)
Config(cfg, pl) ==                                                 \* load_from_config: the whole tree at once, from nothing
  /\ forest = <<>> /\ CfgOK(cfg) /\ PlacesOK(cfg, pl)
  /\ forest' = CfgForest(cfg, pl)
  /\ act' = [a |-> "Config", cfg |-> cfg, place |-> pl]
\* every place sequence the text allows (one per reading and omitted offset)
RECURSIVE Places(_, _, _)
Places(cfg, pl, k) == IF k > Len(cfg.regions) THEN {pl}
                      ELSE LET r == cfg.regions[k]
                               cs == IF r.hasoff THEN {r.off + FirstAt(r)} ELSE AppendChoices(cfg, pl, k) IN
                           UNION {Places(cfg, Append(pl, c), k + 1) : c \in cs}

DataOf(len) == [i \in 1..len |-> DataByte(Len(forest) + 1, i - 1)]
DoNew == \E off \in Offs : \E size \in Sizes : \E al \in Aligns : \E bl \in BinLens : \E pat \in Pats : New(off, size, al, DataOf(bl), pat)
DoAdd == \E p \in Ids(forest) : \E c \in Roots(forest) : Add(p, c)
DoAppend == \E p \in Ids(forest) : \E c \in Roots(forest) : AppendImg(p, c)
DoSetSize == \E n \in Ids(forest) : \E s \in Sizes : SetSize(n, s)
DoJoin == \E n \in Ids(forest) : Join(n)
DoUpdateOffsets == \E n \in Ids(forest) : UpdateOffsets(n)
Next == DoNew \/ DoAdd \/ DoAppend \/ DoSetSize \/ DoJoin \/ DoUpdateOffsets
Spec == Init /\ [][Next]_vars

\* ---------------------------------------------------------------- lemmas (TLC checks them on the bounded model)
TypeOK == \A n \in Ids(forest) : /\ forest[n].par \in {0} \cup Ids(forest) /\ forest[n].off >= 0 /\ forest[n].size0 % forest[n].al = 0
                                 /\ RootOf(forest, n) \in Roots(forest)
StaysInDomain == InDomain(forest)
\* in a valid tree every byte of every sub-image (at any depth) appears at the sub-image's absolute offset
ChildBytesT(F, T) == \A r \in Roots(F) : ValidT(F, T, r) =>
                       \A d \in Desc(F, r) : \A i \in 0..(T.len[d] - 1) : SrcT(F, T, r, Abs(F, d) - Abs(F, r) + i) = SrcT(F, T, d, i)
ChildBytesInPlace == ChildBytesT(forest, Tab(forest))
\* alignment padding only extends the end: the derived length is the aligned-up maximum, less than one alignment unit longer,
\* and the padding holds the node's own fill
PaddingT(F, T) == \A n \in Ids(F) :
     /\ T.len[n] % F[n].al = 0
     /\ F[n].size0 = 0 => /\ T.len[n] >= MaxEnd(F, n) /\ T.len[n] - MaxEnd(F, n) < F[n].al
                          /\ \A i \in MaxEnd(F, n)..(T.len[n] - 1) : SrcT(F, T, n, i).k \in {"pat", "zero"} /\ SrcT(F, T, n, i).n \in {0, n}
PaddingOnlyAtEnd == PaddingT(forest, Tab(forest))
\* the map has exactly the reported length and a node without children and pattern exports its binary, zero-extended
LeafExport == \A n \in Ids(forest) : Kids(forest, n) = {} =>
                 /\ ILen(forest, n) >= Len(forest[n].bin)
                 /\ \A i \in 1..Len(forest[n].bin) : Map(forest, n)[i] = forest[n].bin[i]
\* the verdict of a tree that contains an invalid sub-tree is "error"
VerdictMonotone == \A n \in Ids(forest) : \A k \in Kids(forest, n) : Verdict(forest, k) = "error" => Verdict(forest, n) = "error"
\* join_images changes no byte of any image
JoinPreserves == [][act'.a = "Join" => \A r \in Roots(forest) : r \in Roots(forest') /\ Map(forest', r) = Map(forest, r)]_vars
\* absolute address -> payload byte
DataMapOf(F, r, M) == {<<F[r].off + i - 1, M[i]>> : i \in {j \in 1..Len(M) : M[j].k = "bin"}}
DataMap(F, r) == DataMapOf(F, r, Map(F, r))
\* update_offsets moves no payload byte to another absolute address (as long as the tree stays valid and the node has no own binary)
UpdateOffsetsPreserves ==
  [][act'.a = "UpdateOffsets" /\ forest[act'.n].bin = <<>> =>
       LET r == RootOf(forest, act'.n) IN
       ValidStrict(forest, r) /\ ValidStrict(forest', r) => DataMap(forest', r) = DataMap(forest, r)]_vars
\* append_image puts the child exactly behind everything the parent had before
AppendAtEnd == [][act'.a = "Append" => /\ forest'[act'.c].off = ILen(forest, act'.p)
                                        /\ (forest[act'.p].size0 # 0 \/ ILen(forest', act'.p) >= End(forest', act'.c))]_vars
=============================================================================
