---------------------------- MODULE BinImageTrace ----------------------------
(* TV form of C16.  A trace is what was done to real BinaryImage objects and what they answered:    *)
(*   Tree(nodes)            a whole tree built with add_image            } post-projection of the   *)
(*   Config(cfg, place)     a whole tree built by load_from_config       }                          *)
(*   New / Add / Append / SetSize / Join / UpdateOffsets                 } real objects: len(), absolute_address of every image *)
(*   Validate(n, res)       validate() of image n: "ok" / "error"                                   *)
(*   Export(n, ex, d)       export() of image n: the bytes                                          *)
(*   File(fmt, n, base, exec, recs)   image n, rebased to `base`, saved as BIN / HEX / S19: the records of the file *)
(*   Load(fmt, res, abs, len, segs, exec, d)   what load_binary_image made of that file             *)
(* Every step must be the spec action named by the event and every logged number must equal what    *)
(* the spec computes from its own state.                                                            *)
EXTENDS BinImage, ImgFiles, Json, IOUtils
Traces == ndJsonDeserialize(IOEnv.TRACE_FILE)
VARIABLES tid, l,
          file      \* the decoded file of the last File event: [ok, mem, start, base, fmt]
T == Traces[tid].ev
E == T[l]
Is(e) == l <= Len(T) /\ E.a = e
Adv == l' = l + 1 /\ UNCHANGED tid
NoFile == [ok |-> FALSE, mem |-> EmptyMem, start |-> NoAddr, base |-> <<0, 0>>, fmt |-> "none", lo |-> 0, hi |-> 0 - 1]
\* the logged projection of the real objects equals the (primed) spec state; the absolute address of an image without a
\* single byte is not asserted (the property speaks about where bytes are), nor is the address of an image below an image without
\* a single byte (an image with bytes inside an empty one: only possible in front of it, at a negative offset - an invalid tree, for
\* which the property defines the verdict of validate() and nothing else)
RECURSIVE Inhabited(_, _, _)
Inhabited(F, TB, n) == TB.len[n] > 0 /\ (F[n].par = 0 \/ Inhabited(F, TB, F[n].par))
PostMatchesT(F, TB) == \A n \in Ids(F) : E.len[n] = TB.len[n] /\ (Inhabited(F, TB, n) => E.abs[n] = Abs(F, n))
PostMatches(F) == Len(E.len) = Len(F) /\ Len(E.abs) = Len(F) /\ PostMatchesT(F, Tab(F))
TInit == tid \in 1..Len(Traces) /\ l = 1 /\ Init /\ file = NoFile /\ TLCSet(tid, 1)
Acyclic(ns) == \A k \in 1..Len(ns) : ns[k].par >= 0 /\ ns[k].par < k
TTree == /\ Is("Tree") /\ forest = <<>> /\ Acyclic(E.nodes)
         /\ forest' = [k \in 1..Len(E.nodes) |->
                         [NewNode(k, E.nodes[k].off, E.nodes[k].size, E.nodes[k].al, E.nodes[k].data, E.nodes[k].pat) EXCEPT !.par = E.nodes[k].par]]
         /\ InDomain(forest') /\ act' = [a |-> "Tree"]
         /\ PostMatches(forest') /\ UNCHANGED file /\ Adv
\* a whole tree built by load_from_config from a merge configuration: E.place = the offsets the real region images have; they must be
\* places the configuration text allows, and the real tree (lengths, absolute addresses of all images) must be the tree of the spec
TConfig == Is("Config") /\ Config(E.cfg, E.place) /\ PostMatches(forest') /\ UNCHANGED file /\ Adv
TNew == Is("New") /\ E.n = Len(forest) + 1 /\ New(E.off, E.size, E.al, E.data, E.pat) /\ PostMatches(forest') /\ UNCHANGED file /\ Adv
TAdd == Is("Add") /\ Add(E.p, E.c) /\ PostMatches(forest') /\ UNCHANGED file /\ Adv
TAppend == Is("Append") /\ AppendImg(E.p, E.c) /\ PostMatches(forest') /\ UNCHANGED file /\ Adv
TSetSize == Is("SetSize") /\ SetSize(E.n, E.s) /\ PostMatches(forest') /\ UNCHANGED file /\ Adv
TJoin == Is("Join") /\ Join(E.n) /\ PostMatches(forest') /\ UNCHANGED file /\ Adv
TUpdateOffsets == Is("UpdateOffsets") /\ UpdateOffsets(E.n) /\ PostMatches(forest') /\ UNCHANGED file /\ Adv
\* observations: the state does not change
VerdictAllows(v, res) == res \in {"ok", "error"} /\ (v = "any" \/ v = res)
TValidate == /\ Is("Validate") /\ E.n \in Ids(forest)
             /\ VerdictAllows(Verdict(forest, E.n), E.res)
             /\ UNCHANGED <<vars, file>> /\ Adv
TExport == /\ Is("Export") /\ E.n \in Ids(forest)
           /\ ExportAsserted(forest, E.n) => E.ex = "ok" /\ Matches(Bytes(forest, E.n), E.d)
           /\ UNCHANGED <<vars, file>> /\ Adv
\* ---- file formats
AddrOK(a) == Len(a) = 2 /\ a[1] \in 0..65535 /\ a[2] \in 0..65535
Stored(s) == s.k \in {"bin", "pat"}                      \* HEX / S19 do not store gaps of images without a pattern
\* (heavy values travel as operator arguments: TLC evaluates an argument once, a LET-bound value at every use)
FileHolds(dec, M, exp, L) ==
     /\ dec.ok
     /\ \A i \in DOMAIN dec.mem : i >= 0 /\ i < L                                       \* nothing outside the image
     /\ \A i \in 0..(L - 1) :
          IF E.fmt = "BIN" \/ Stored(M[i + 1])
          THEN i \in DOMAIN dec.mem /\ (exp[i + 1] = 0 - 1 \/ dec.mem[i] = exp[i + 1])    \* the image's byte at its address
          ELSE TRUE
     /\ (E.fmt # "BIN" /\ E.exec.k = "addr") => dec.start = E.exec                      \* the execution start address is kept
     /\ file' = [ok |-> TRUE, mem |-> dec.mem, start |-> dec.start, base |-> E.base, fmt |-> E.fmt, lo |-> dec.lo, hi |-> dec.hi]
FileHoldsM(dec, M) == FileHolds(dec, M, BytesOf(forest, M), Len(M))
TFile ==
  /\ Is("File") /\ E.n \in Roots(forest) /\ AddrOK(E.base) /\ ExportAsserted(forest, E.n) /\ ILen(forest, E.n) >= 1
  /\ FileHoldsM(Decode(E.fmt, E.recs, E.base), Map(forest, E.n))
  /\ UNCHANGED vars /\ Adv
\* a file written by an independent encoder (no image behind it): only decoded
RawFileHolds(dec) == /\ dec.ok /\ DOMAIN dec.mem # {}
                     /\ file' = [ok |-> TRUE, mem |-> dec.mem, start |-> dec.start, base |-> E.base, fmt |-> E.fmt, lo |-> dec.lo, hi |-> dec.hi]
TRawFile == Is("RawFile") /\ AddrOK(E.base) /\ RawFileHolds(Decode(E.fmt, E.recs, E.base)) /\ UNCHANGED vars /\ Adv
SegMem(s, base) == LET r0 == Rel(s.at, base) IN [i \in r0..(r0 + Len(s.d) - 1) |-> s.d[i - r0 + 1]]
RECURSIVE SegsMem(_, _, _)
SegsMem(segs, i, base) == IF i > Len(segs) THEN EmptyMem ELSE SegMem(segs[i], base) @@ SegsMem(segs, i + 1, base)
LoadHolds(lm, lo, hi) ==
           /\ lm = file.mem                                                            \* same bytes at the same addresses
           /\ SumSeq([i \in 1..Len(E.segs) |-> Len(E.segs[i].d)]) = Cardinality(DOMAIN file.mem)   \* segments do not overlap
           /\ Rel(E.abs, file.base) = lo /\ E.len = hi - lo + 1                        \* the loaded image starts at the first byte
           /\ E.d = [i \in 1..(hi - lo + 1) |-> IF (lo + i - 1) \in DOMAIN file.mem THEN file.mem[lo + i - 1] ELSE 0]
TLoad ==
  /\ Is("Load") /\ file.ok /\ E.fmt = file.fmt /\ file.hi >= file.lo
  /\ \/ E.fmt = "BIN" /\ E.textlike /\ E.res = "ok"           \* a BIN payload that is itself text: format sniffing is inherently ambiguous
     \/ /\ E.res = "ok" /\ AddrOK(E.abs) /\ \A i \in 1..Len(E.segs) : AddrOK(E.segs[i].at) /\ Rel(E.segs[i].at, file.base) # Far
        /\ LoadHolds(SegsMem(E.segs, 1, file.base), file.lo, file.hi)
        /\ file.start.k = "addr" => E.exec = file.start
  /\ UNCHANGED <<vars, file>> /\ Adv
TNext == TTree \/ TConfig \/ TNew \/ TAdd \/ TAppend \/ TSetSize \/ TJoin \/ TUpdateOffsets \/ TValidate \/ TExport \/ TFile \/ TRawFile \/ TLoad
Constr == IF TLCGet(tid) < l THEN TLCSet(tid, l) ELSE TRUE
Post == /\ PrintT(<<"DONE", Len(Traces)>>)
        /\ \A i \in 1..Len(Traces) :
          \/ TLCGet(i) - 1 = Len(Traces[i].ev)
          \/ PrintT(<<"REJ", Traces[i].id, TLCGet(i) - 1, Len(Traces[i].ev),
                      Traces[i].ev[IF TLCGet(i) <= Len(Traces[i].ev) THEN TLCGet(i) ELSE Len(Traces[i].ev)].a>>)
=============================================================================
