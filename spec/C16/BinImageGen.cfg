CONSTANTS MaxNodes = 3
 Offs = {0}
 Sizes = {0}
 Aligns = {1}
 BinLens = {0}
 Pats = {0}
 NegOffs = {}
INIT GInit
NEXT GNext
CHECK_DEADLOCK FALSE
