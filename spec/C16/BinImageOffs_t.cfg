CONSTANTS MaxNodes = 4
 Offs = {0}
 Sizes = {0}
 Aligns = {1, 4}
 BinLens = {0, 2}
 Pats = {0}
 Classes = {"front", "cross", "zero", "inside", "touch", "over", "behind"}
 OddChain4 = 3
 OddOther4 = 1
 Shapes4 = "all"
INIT OffsInit
NEXT OffsNext
INVARIANT ChildBytesInPlace
INVARIANT PaddingOnlyAtEnd
INVARIANT LeafExport
INVARIANT VerdictMonotone
INVARIANT ClassAgrees
INVARIANT ValidIffClean
INVARIANT FrontRefused
INVARIANT FrontLosesBytes
INVARIANT Emit
CHECK_DEADLOCK FALSE
