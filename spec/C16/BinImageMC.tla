----------------------------- MODULE BinImageMC -----------------------------
(* MC form: the composition history on a small menu (images are created first, then composed); all  *)
(* lemmas of BinImage are checked on every reachable forest / step.                                  *)
EXTENDS BinImage, IOUtils
None == [kind |-> "none", b |-> <<>>]
Ones == [kind |-> "ones", b |-> <<>>]
\* per-image menus: image 1 is typically the container, 2 and 3 carry data
Menu(n) == IF n = 1 THEN {[off |-> 0, size |-> s, al |-> a, bl |-> b, pat |-> Ones] : s \in {0, 6}, a \in {1, 4}, b \in {0, 1}}
           ELSE IF n = 2 THEN {[off |-> o, size |-> s, al |-> a, bl |-> 2, pat |-> None] : o \in {0, 1, 3}, s \in {0, 3}, a \in {1, 2}}
           ELSE {[off |-> o, size |-> s, al |-> 1, bl |-> b, pat |-> p] : o \in {0, 2, 4}, s \in {0, 2}, b \in {0, 1}, p \in {None, Ones}}
Level == atoi(IOEnv.MC_LEVEL)
VARIABLE lvl                                 \* number of steps taken (a state variable, so that the bound does not depend on TLC's search order)
G == lvl < Level /\ lvl' = lvl + 1           \* depth bound inside the actions: no successors are generated beyond it
MCNew == /\ G /\ act.a \in {"Init", "New"}
         /\ \E m \in Menu(Len(forest) + 1) : New(m.off, m.size, m.al, DataOf(m.bl), m.pat)
MCSetSize == G /\ \E n \in Ids(forest) : \E s \in {0, 5} : SetSize(n, s)
MCAdd == G /\ DoAdd
MCAppend == G /\ DoAppend
MCJoin == G /\ DoJoin
MCUpdateOffsets == G /\ DoUpdateOffsets
MCNext == MCNew \/ MCAdd \/ MCAppend \/ MCSetSize \/ MCJoin \/ MCUpdateOffsets
MCSpec == Init /\ lvl = 0 /\ [][MCNext]_<<vars, lvl>>
=============================================================================
