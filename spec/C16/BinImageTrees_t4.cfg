CONSTANTS MaxNodes = 4
 Offs = {0, 2}
 Sizes = {0, 5}
 Aligns = {1, 4}
 BinLens = {0, 2}
 Pats = {0}
INIT TreesInit
NEXT TreesNext
INVARIANT ChildBytesInPlace
INVARIANT PaddingOnlyAtEnd
INVARIANT LeafExport
INVARIANT VerdictMonotone
INVARIANT Emit
CHECK_DEADLOCK FALSE
