CONSTANTS MaxNodes = 64
 Offs = {0}
 Sizes = {0}
 Aligns = {1}
 BinLens = {0}
 Pats = {0}
INIT TInit
NEXT TNext
CONSTRAINT Constr
POSTCONDITION Post
CHECK_DEADLOCK FALSE
