----------------------------- MODULE BinImageGen -----------------------------
(* GEN form for composition histories: BinImage plus a history variable; finished behaviours are    *)
(* printed as JSON for replay on real objects.                                                       *)
(*  GEN_MODE = "all" : every behaviour of length GEN_DEPTH over the small per-image menus (exhaustive)*)
(*  GEN_MODE = "sim" : for -simulate; the parameters of a new image are drawn at random from the big *)
(*                     menus (RandomElement), so that one step has few successors                    *)
(*  NegOffs = magnitudes of the negative offsets a new image can have in "sim" mode (an image in    *)
(*            front of its parent: add_image -> validate() refuses, update_offsets repairs)          *)
EXTENDS BinImage, Json, IOUtils
CONSTANT NegOffs
VARIABLES hist, done
SimOffs == Offs \cup {0 - x : x \in NegOffs}
Depth == atoi(IOEnv.GEN_DEPTH)
Sim == IOEnv.GEN_MODE = "sim"
GenNodes == atoi(IOEnv.GEN_NODES)
None == [kind |-> "none", b |-> <<>>]
Ones == [kind |-> "ones", b |-> <<>>]
SmallMenu(n) == IF n = 1 THEN {[off |-> 0, size |-> s, al |-> a, bl |-> 0, pat |-> Ones] : s \in {0, 6}, a \in {1, 4}}
                ELSE IF n = 2 THEN {[off |-> o, size |-> s, al |-> 2, bl |-> 2, pat |-> None] : o \in {1, 3}, s \in {0, 3}}
                ELSE {[off |-> o, size |-> 0, al |-> 1, bl |-> b, pat |-> Ones] : o \in {0, 4}, b \in {0, 1}}
BigPats == {None, Ones, [kind |-> "zeros", b |-> <<>>], [kind |-> "inc", b |-> <<>>], [kind |-> "bytes", b |-> <<165>>],
            [kind |-> "bytes", b |-> <<18, 52>>], [kind |-> "bytes", b |-> <<1, 2, 3>>], [kind |-> "rand", b |-> <<>>]}
GenNew == IF Sim
          THEN \E off \in {RandomElement(SimOffs)} : \E size \in {RandomElement(Sizes)} : \E al \in {RandomElement(Aligns)} :
               \E bl \in {RandomElement(BinLens)} : \E pat \in {RandomElement(BigPats)} : New(off, size, al, DataOf(bl), pat)
          ELSE /\ act.a \in {"Init", "New"} /\ Len(forest) < GenNodes                  \* images are created first, then composed
               /\ \E m \in SmallMenu(Len(forest) + 1) : New(m.off, m.size, m.al, DataOf(m.bl), m.pat)
GenSetSize == IF Sim THEN \E n \in Ids(forest) : \E s \in {RandomElement(Sizes)} : SetSize(n, s)
              ELSE \E n \in Ids(forest) : \E s \in {0, 5} : forest[n].size0 # Align(s, forest[n].al) /\ SetSize(n, s)
\* exhaustive mode: composition starts when all images exist, and a join directly after a join of the same image is skipped
Ready == Sim \/ Len(forest) = GenNodes
GenJoin == \E n \in Ids(forest) : (Sim \/ act # [a |-> "Join", n |-> n]) /\ Join(n)
Step == GenNew \/ (Ready /\ (DoAdd \/ DoAppend \/ GenSetSize \/ GenJoin \/ DoUpdateOffsets))
GInit == Init /\ hist = <<>> /\ done = FALSE
\* the final step exists only to print the finished behaviour exactly once
GNext == \/ Len(hist) < Depth /\ Step /\ hist' = Append(hist, act') /\ UNCHANGED done
         \/ Len(hist) = Depth /\ ~done /\ done' = TRUE /\ PrintT(ToJson(hist)) /\ UNCHANGED <<vars, hist>>
=============================================================================
