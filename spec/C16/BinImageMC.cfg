CONSTANTS MaxNodes = 3
 Offs = {0}
 Sizes = {0}
 Aligns = {1}
 BinLens = {0}
 Pats = {0}
SPECIFICATION MCSpec
INVARIANT TypeOK
INVARIANT StaysInDomain
INVARIANT ChildBytesInPlace
INVARIANT PaddingOnlyAtEnd
INVARIANT LeafExport
INVARIANT VerdictMonotone
PROPERTY JoinPreserves
PROPERTY UpdateOffsetsPreserves
PROPERTY AppendAtEnd
CHECK_DEADLOCK FALSE
