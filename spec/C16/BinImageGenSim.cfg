CONSTANTS MaxNodes = 6
 Offs = {0, 0, 1, 2, 3, 4, 5, 6, 7, 8, 9, 12, 16, 17, 24, 31}
 Sizes = {0, 1, 2, 3, 4, 5, 6, 7, 8, 10, 12, 16, 20, 32}
 Aligns = {1, 2, 3, 4, 8, 16}
 BinLens = {0, 1, 2, 3, 4, 5, 7, 8, 9}
 Pats = {0}
 NegOffs = {2}
INIT GInit
NEXT GNext
CHECK_DEADLOCK FALSE
