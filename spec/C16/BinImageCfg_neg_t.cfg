CONSTANTS MaxNodes = 3
 Offs = {0, 4}
 Sizes = {0, 16}
 Aligns = {1, 4}
 BinLens = {3}
 Pats = {0}
 NegOffs = {2}
INIT CInit
NEXT CNext
INVARIANT CfgBytesInPlace
INVARIANT GivenOffsetsKept
INVARIANT ReadingsCoincide
INVARIANT AppendedIsBehind
INVARIANT FrontRegionRefused
INVARIANT ChildBytesInPlace
INVARIANT PaddingOnlyAtEnd
INVARIANT VerdictMonotone
INVARIANT Emit
CHECK_DEADLOCK FALSE
