CONSTANTS MaxNodes = 3
 Offs = {0, 1, 3}
 Sizes = {0, 4}
 Aligns = {1, 2}
 BinLens = {0, 1, 3}
 Pats = {0}
INIT TreesInit
NEXT TreesNext
INVARIANT ChildBytesInPlace
INVARIANT PaddingOnlyAtEnd
INVARIANT LeafExport
INVARIANT VerdictMonotone
INVARIANT Emit
CHECK_DEADLOCK FALSE
