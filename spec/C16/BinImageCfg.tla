----------------------------- MODULE BinImageCfg -----------------------------
(* MC + GEN form for merge configurations (BinaryImage.load_from_config).  From the empty forest the  *)
(* only action is Config: EVERY configuration of the bounded space (1..MaxNodes regions in listing    *)
(* order; each a pattern block, a plain binary file, an address-carrying file with one segment or one *)
(* with two segments and a gap; offset given - 0 included - or omitted; any listing order; explicit   *)
(* or derived overall size; alignment) with EVERY placement the schema text allows.  The lemmas of    *)
(* BinImage and the configuration lemmas below are checked on each resulting tree; each abstract      *)
(* configuration is emitted once for replay through the real load_from_config.  Patterns, byte        *)
(* contents, file formats, file addresses and the entry point (dictionary / YAML / JSON) are          *)
(* concretised by the replayer (they do not influence placement).                                    *)
(* Menus: Offs = where a region with an offset lands, BinLens = region sizes, Sizes = overall sizes,  *)
(* Aligns = alignments, MaxNodes = maximal number of regions;  NegOffs = how far IN FRONT of the       *)
(* merged image a region with an offset lands (magnitudes: a configuration file of TLC has no negative *)
(* numbers) - every kind of region, wholly in front or straddling offset 0: the tree is built as       *)
(* described and validate() has to refuse it.                                                          *)
EXTENDS BinImage, Json
CONSTANT NegOffs
Lands == Offs \cup {0 - x : x \in NegOffs}
VARIABLE abstract          \* the abstract configuration the tree was built from (what is emitted)
Ones == [kind |-> "ones", b |-> <<>>]
Inc == [kind |-> "inc", b |-> <<>>]
Kinds == {"block", "bin", "hex1", "hex2"}
ARegions == {[kind |-> kd, hasoff |-> h, off |-> o, n |-> n] : kd \in Kinds, h \in BOOLEAN, o \in Lands, n \in BinLens}
ARegion == {r \in ARegions : (~r.hasoff => r.off = 0) /\ (r.kind # "block" => r.n >= 1)}
\* (an explicit overall size is combined with alignment 1 only: the two meet in Align(size, al) alone, which the tree lanes sweep)
Roots2 == {x \in Sizes \X Aligns : x[1] = 0 \/ x[2] = 1}
ACfgs == UNION {{[size |-> x[1], al |-> x[2], regions |-> rs] : x \in Roots2, rs \in [1..n -> ARegion]} : n \in 1..MaxNodes}
\* a concrete configuration for an abstract one: files that carry addresses start at 64 when they have an offset
Data(w, n) == [i \in 1..n |-> DataByte(w, i - 1)]
CRegion(r, k) ==
  LET base == IF r.kind \in {"hex1", "hex2"} /\ r.hasoff THEN 64 ELSE 0 IN
  [kind |-> IF r.kind = "block" THEN "block" ELSE "file", hasoff |-> r.hasoff, off |-> r.off - base,
   size |-> IF r.kind = "block" THEN r.n ELSE 0,
   pat |-> IF r.kind = "block" THEN (IF k % 2 = 1 THEN Ones ELSE Inc) ELSE NonePat,
   segs |-> CASE r.kind = "block" -> <<>>
              [] r.kind = "hex2" -> <<[at |-> base, d |-> Data(k, r.n)], [at |-> base + r.n + 2, d |-> Data(k + 1, 1)]>>
              [] OTHER -> <<[at |-> base, d |-> Data(k, r.n)]>>]
Concrete(c) == [size |-> c.size, al |-> c.al, pat |-> [kind |-> "bytes", b |-> <<165>>],
                regions |-> [k \in DOMAIN c.regions |-> CRegion(c.regions[k], k)]]
CInit == Init /\ abstract = <<>>
\* Left out of the enumeration (not of the specification): a configuration that lists a region behind regions which ALL end below 0.
\* load_from_config refuses such a configuration itself ("Wrong alignment": it works out the place behind the regions listed so far for
\* every region, also for one that has an offset) - the merge fails as it has to, only not in validate(); the property does not speak
\* about that.  A region in front of the image that is listed last, or that reaches offset 0, or that follows a region at or behind 0 stays in.
Listable(cfg, pl) == \A k \in 2..Len(pl) : AllEnd(cfg.regions, pl, k) >= 0
\* (the guard of Config comes first: a state that holds a tree has no successor, and TLC need not walk the configurations to find that out)
DoConfig == forest = <<>> /\ \E c \in ACfgs : \E pl \in Places(Concrete(c), <<>>, 1) : Listable(Concrete(c), pl) /\ Config(Concrete(c), pl) /\ abstract' = c
CNext == DoConfig
\* ---- lemmas on every tree built from a configuration
IsCfg == act.a = "Config"
\* (the property, transported to the configuration) in a valid merged image every byte of every region is where the configuration puts
\* it: byte j of segment i of a file with offset o at o + address + j, byte j of a block at its place + j
CfgBytesT(F, T, cfg, pl) ==
  ValidT(F, T, 1) =>
    \A k \in DOMAIN cfg.regions :
      LET r == cfg.regions[k]
          w == RegionNode(cfg, k) IN
      IF r.kind = "file"
      THEN \A i \in 1..Len(r.segs) : \A j \in 0..(Len(r.segs[i].d) - 1) :
             SrcT(F, T, 1, pl[k] - FirstAt(r) + r.segs[i].at + j) = [k |-> "bin", n |-> w + i, i |-> j]
      ELSE \A j \in 0..(r.size - 1) : SrcT(F, T, 1, pl[k] + j) = [k |-> "pat", n |-> w, i |-> j]
CfgBytesInPlace == IsCfg => CfgBytesT(forest, Tab(forest), act.cfg, act.place)
\* a region with an offset is exactly there, whatever was listed before it
GivenOffsetsKept == IsCfg => \A k \in DOMAIN act.place : act.cfg.regions[k].hasoff =>
                               Abs(forest, RegionNode(act.cfg, k)) = act.cfg.regions[k].off + FirstAt(act.cfg.regions[k])
\* for a listing in address order the two readings of "after the previous one" are the same place
InOrder(cfg, pl) == \A k \in DOMAIN pl : \A j \in 1..(k - 1) : pl[j] + RLen(cfg.regions[j]) <= pl[k]
ReadingsCoincide == IsCfg /\ InOrder(act.cfg, act.place) =>
                      \A k \in DOMAIN act.place : Cardinality(AppendChoices(act.cfg, act.place, k)) <= 1
\* a region that lands below 0 makes the merged image invalid, whatever else the configuration holds
FrontRegionRefused == IsCfg => ((\E k \in DOMAIN act.place : act.place[k] < 0) => Verdict(forest, 1) = "error")
\* a region without offset that goes behind all regions listed before it overlaps none of them and starts on the alignment
AppendedIsBehind == IsCfg => \A k \in DOMAIN act.place :
                      (~act.cfg.regions[k].hasoff /\ act.place[k] = Align(AllEnd(act.cfg.regions, act.place, k), act.cfg.al)) =>
                        /\ act.place[k] % act.cfg.al = 0
                        /\ \A j \in 1..(k - 1) : act.place[j] + RLen(act.cfg.regions[j]) <= act.place[k]
\* one line per abstract configuration (printed with the placement of the second reading only, which always exists)
RECURSIVE BehindAll(_, _, _)
BehindAll(cfg, pl, k) == IF k > Len(cfg.regions) THEN pl
                         ELSE BehindAll(cfg, Append(pl, IF cfg.regions[k].hasoff THEN cfg.regions[k].off + FirstAt(cfg.regions[k])
                                                         ELSE Align(AllEnd(cfg.regions, pl, k), cfg.al)), k + 1)
Emit == (IsCfg /\ act.place = BehindAll(act.cfg, <<>>, 1)) =>
          PrintT(ToJson(<<abstract.size, abstract.al,
                          [k \in DOMAIN abstract.regions |-> <<abstract.regions[k].kind, IF abstract.regions[k].hasoff THEN 1 ELSE 0,
                                                               abstract.regions[k].off, abstract.regions[k].n>>]>>))
=============================================================================
