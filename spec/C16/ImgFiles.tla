------------------------------ MODULE ImgFiles ------------------------------
(* C16, file-format part: acceptance automata of the three file formats, as far as an image file   *)
(* needs them.  A file is a sequence of records; every record is the list of its raw bytes (the    *)
(* hex pairs of the line, checksum included), so record length, address arithmetic and checksums   *)
(* are all recomputed here.  32-bit addresses are pairs <<hi, lo>> of 16-bit limbs (TLC integers   *)
(* are 32-bit); the decoded memory is a function  (address - base) -> byte  for a reference        *)
(* address `base` close to the image.                                                              *)
(*   Intel HEX : ll aaaa tt dd.. cc ;  sum of all bytes = 0 mod 256 ; 00 data, 01 end of file,      *)
(*               02 extended segment address, 04 extended linear address, 03/05 start address      *)
(*   S-record  : S t cc aa.. dd.. kk ; cc counts the bytes after it ; sum(cc..dd) + kk = FF mod 256 *)
(*               S0 header, S1/S2/S3 data with 16/24/32-bit address, S5/S6 record count,           *)
(*               S9/S8/S7 start address                                                            *)
(*   BIN       : one record, byte i of the file is address base + i                                *)
EXTENDS Integers, Sequences, FiniteSets, TLC
Far == 2000000000
EmptyMem == [x \in {} |-> 0]
NoAddr == [k |-> "none", v |-> <<0, 0>>]
RECURSIVE SumRange(_, _, _)
SumRange(s, lo, hi) == IF lo > hi THEN 0 ELSE IF lo = hi THEN s[lo]                      \* balanced: recursion depth log(n)
                       ELSE LET mid == (lo + hi) \div 2 IN SumRange(s, lo, mid) + SumRange(s, mid + 1, hi)
SumSeq(s) == SumRange(s, 1, Len(s))
AddrAdd(a, d) == LET lo == a[2] + d IN <<(a[1] + lo \div 65536) % 65536, lo % 65536>>           \* d >= 0
Rel(a, base) == LET dh == a[1] - base[1] IN IF dh > 16000 \/ dh < 0 - 16000 THEN Far ELSE dh * 65536 + a[2] - base[2]
\* `n` data bytes rb[from], rb[from+1], ... stored at consecutive addresses starting at a0; an address written twice is malformed
StoreAt(st, r0, rb, from, n) ==
  IF r0 = Far \/ (\E i \in r0..(r0 + n - 1) : i \in DOMAIN st.mem) THEN [st EXCEPT !.ok = FALSE]
  ELSE IF n = 0 THEN [st EXCEPT !.ndata = @ + 1]
  ELSE [st EXCEPT !.mem = [i \in r0..(r0 + n - 1) |-> rb[from + i - r0]] @@ st.mem, !.ndata = @ + 1,
                  !.lo = IF r0 < @ THEN r0 ELSE @, !.hi = IF r0 + n - 1 > @ THEN r0 + n - 1 ELSE @]
Store(st, a0, rb, from, n, base) == StoreAt(st, Rel(a0, base), rb, from, n)
St0 == [ok |-> TRUE, mem |-> EmptyMem, ub |-> <<0, 0>>, seg |-> FALSE, start |-> NoAddr, eof |-> FALSE, ndata |-> 0,
        lo |-> Far, hi |-> 0 - Far]                                  \* lowest / highest address seen (relative to base)
Bad(st) == [st EXCEPT !.ok = FALSE]

HexRec(st, rb, base) ==
  LET n == Len(rb) IN
  IF st.eof \/ n < 5 THEN Bad(st)
  ELSE IF rb[1] # n - 5 \/ SumSeq(rb) % 256 # 0 THEN Bad(st)
  ELSE LET ll == rb[1]
           off == rb[2] * 256 + rb[3]
           tt == rb[4] IN
       CASE tt = 0 -> IF st.seg /\ off + ll > 65536 THEN Bad(st) ELSE Store(st, AddrAdd(st.ub, off), rb, 5, ll, base)
         [] tt = 1 -> IF ll = 0 THEN [st EXCEPT !.eof = TRUE] ELSE Bad(st)
         [] tt = 4 -> IF ll = 2 THEN [st EXCEPT !.ub = <<rb[5] * 256 + rb[6], 0>>, !.seg = FALSE] ELSE Bad(st)
         [] tt = 2 -> IF ll = 2 THEN LET sg == rb[5] * 256 + rb[6] IN [st EXCEPT !.ub = <<sg \div 4096, (sg % 4096) * 16>>, !.seg = TRUE] ELSE Bad(st)
         [] tt = 5 -> IF ll = 4 THEN [st EXCEPT !.start = [k |-> "addr", v |-> <<rb[5] * 256 + rb[6], rb[7] * 256 + rb[8]>>]] ELSE Bad(st)
         [] tt = 3 -> IF ll = 4 THEN [st EXCEPT !.start = [k |-> "any", v |-> <<0, 0>>]] ELSE Bad(st)     \* CS:IP - no 32-bit meaning
         [] OTHER -> Bad(st)

SrecRec(st, t, rb, base) ==
  LET n == Len(rb) IN
  IF st.eof \/ n < 3 \/ t \notin 0..9 \/ t = 4 THEN Bad(st)
  ELSE IF rb[1] # n - 1 \/ SumSeq(rb) % 256 # 255 THEN Bad(st)
  ELSE LET alen == IF t \in {0, 1, 5, 9} THEN 2 ELSE IF t \in {2, 6, 8} THEN 3 ELSE 4 IN
       IF n < alen + 2 THEN Bad(st)
       ELSE LET addr == IF alen = 2 THEN <<0, rb[2] * 256 + rb[3]>>
                        ELSE IF alen = 3 THEN <<rb[2], rb[3] * 256 + rb[4]>>
                        ELSE <<rb[2] * 256 + rb[3], rb[4] * 256 + rb[5]>>
                nd == n - alen - 2 IN
            CASE t = 0 -> st
              [] t \in {1, 2, 3} -> Store(st, addr, rb, alen + 2, nd, base)
              [] t \in {5, 6} -> IF nd = 0 /\ (addr[1] * 65536 + addr[2]) = st.ndata THEN st ELSE Bad(st)
              [] OTHER -> IF nd = 0 THEN [st EXCEPT !.start = [k |-> "addr", v |-> addr], !.eof = TRUE] ELSE Bad(st)

RECURSIVE Fold(_, _, _, _, _)
Fold(fmt, recs, i, st, base) ==
  IF i > Len(recs) \/ ~st.ok THEN st
  ELSE Fold(fmt, recs, i + 1, IF fmt = "HEX" THEN HexRec(st, recs[i].b, base) ELSE SrecRec(st, recs[i].t, recs[i].b, base), base)
Final(fmt, st) == [ok |-> st.ok /\ (fmt = "HEX" => st.eof), mem |-> st.mem, start |-> st.start, lo |-> st.lo, hi |-> st.hi]
\* the decoded file: [ok, mem, start, lo, hi]
Decode(fmt, recs, base) ==
  IF fmt = "BIN" THEN [ok |-> Len(recs) = 1, mem |-> IF Len(recs) = 1 THEN [i \in 0..(Len(recs[1].b) - 1) |-> recs[1].b[i + 1]] ELSE EmptyMem, start |-> NoAddr,
                       lo |-> 0, hi |-> IF Len(recs) = 1 THEN Len(recs[1].b) - 1 ELSE 0 - 1]
  ELSE Final(fmt, Fold(fmt, recs, 1, St0, base))
=============================================================================
