----------------------------- MODULE BinImageOffs -----------------------------
(* MC + GEN form for the clause "a child sticks out of its parent", read on BOTH sides of the parent.  *)
(* The set of initial states is every tree of the bounded space in which the OFFSET CLASS of every      *)
(* image below the root is a dimension of its own - for images without sub-images (plain data / pattern *)
(* blocks) exactly as for images that hold sub-images, at every depth 2..4, inside parents with an       *)
(* explicit and with a derived size:                                                                     *)
(*    front   wholly in front of the parent (negative offset, a gap of one byte to offset 0)            *)
(*    cross   offset -1: straddles the start of the parent (or ends exactly there)                      *)
(*    zero    offset 0                                                                                   *)
(*    inside  behind offset 0 (and behind the siblings listed before it), in front of the end            *)
(*    touch   the last byte is the last byte of the parent                                              *)
(*    over    sticks out behind the end by one byte                                                      *)
(*    behind  wholly behind the end (a gap of one byte)                                                  *)
(* The drawn class fixes the offset relative to the length of the child and to the REFERENCE length of   *)
(* the parent (its explicit size; ExpSize[depth] when its size is derived - a derived parent grows with  *)
(* its children, so touch / over / behind all end as "the child that defines the end").  The class that  *)
(* is REALISED in the finished tree is computed from the tree itself (ClassOf) and emitted with it, so    *)
(* that the driver can see which (class, depth, leaf / inner, parent explicit / derived) cells were       *)
(* reached by a tree whose ONLY defect is that one image.                                                *)
(* The lemmas of BinImage are checked on each tree, plus: the class partition agrees with Sticks, a tree  *)
(* is valid iff it has no culprit, and nothing at a negative offset is ever part of a valid tree.         *)
(* ExpSize[d] = explicit size of an image at depth d (decreasing, so that a child fits with room to       *)
(* spare); BinLens = own binary of images without sub-images; Aligns = alignment of the root.             *)
(* Trees of four images: chains (depth 4) with at most OddChain4 images outside class "inside", the other *)
(* shapes (Shapes4 = "all"; "chain" leaves them out) with at most OddOther4.                              *)
EXTENDS BinImage, Json
CONSTANTS Classes, Shapes4, OddChain4, OddOther4
ExpSize == <<16, 10, 6, 3>>
Shapes(n) == {p \in [1..n -> 0..(n - 1)] : p[1] = 0 /\ \A k \in 2..n : p[k] >= 1 /\ p[k] < k}
PatOf(k) == IF k % 2 = 1 THEN [kind |-> "ones", b |-> <<>>] ELSE [kind |-> "none", b |-> <<>>]
RECURSIVE DepthIn(_, _)
DepthIn(par, k) == IF par[k] = 0 THEN 1 ELSE 1 + DepthIn(par, par[k])
RECURSIVE DepthOf(_, _)
DepthOf(F, k) == IF F[k].par = 0 THEN 1 ELSE 1 + DepthOf(F, F[k].par)
IsLeafIn(par, n, k) == \A j \in 1..n : par[j] # k
IsChain(par, n) == \A k \in 2..n : par[k] = k - 1
Odd(cls, n) == Cardinality({k \in 2..n : cls[k] # "inside"})
\* ---- from the drawn class to the offset:  L = length of the child,  R = reference length of the parent,
\*      B = the room the siblings listed before it take when they are put one behind the other with gaps of one byte
OffOf(c, L, R, B) == CASE c = "front"  -> 0 - (L + 1)
                       [] c = "cross"  -> 0 - 1
                       [] c = "zero"   -> 0
                       [] c = "inside" -> 1 + B
                       [] c = "touch"  -> R - L
                       [] c = "over"   -> R - L + 1
                       [] OTHER        -> R + 1                                     \* "behind"
RefLen(F, p) == IF F[p].size0 # 0 THEN F[p].size0 ELSE ExpSize[DepthOf(F, p)]
RECURSIVE SumLens(_, _)
SumLens(F, S) == IF S = {} THEN 0 ELSE LET j == CHOOSE j \in S : TRUE IN ILen(F, j) + 1 + SumLens(F, S \ {j})
Before(F, k) == SumLens(F, {j \in 1..(k - 1) : F[j].par = F[k].par})
\* the children of p, p - 1, ..., 1 are placed in turn: when p is reached everything below its children is final (ids grow downwards)
RECURSIVE PlaceKids(_, _, _)
PlaceKids(F, cls, p) ==
  IF p = 0 THEN F
  ELSE PlaceKids(Mat([k \in 1..Len(F) |-> IF F[k].par = p THEN [F[k] EXCEPT !.off = OffOf(cls[k], ILen(F, k), RefLen(F, p), Before(F, k))]
                                          ELSE F[k]]), cls, p - 1)
OffsInit ==
  \E n \in 2..MaxNodes : \E par \in Shapes(n) : \E cls \in [2..n -> Classes] : \E ex \in [1..n -> BOOLEAN] : \E bl \in [1..n -> BinLens] :
  \E al1 \in Aligns :
    /\ \A k \in 1..n : ~IsLeafIn(par, n, k) => bl[k] = 0
    /\ n >= 4 => IF IsChain(par, n) THEN Odd(cls, n) <= OddChain4 ELSE Shapes4 = "all" /\ Odd(cls, n) <= OddOther4
    /\ LET size == [k \in 1..n |-> IF ex[k] THEN ExpSize[DepthIn(par, k)] ELSE 0] IN
       /\ \A k \in 1..n : size[k] = 0 \/ size[k] >= bl[k]
       /\ forest = PlaceKids(Mat([k \in 1..n |-> [NewNode(k, 0, size[k], IF k = 1 THEN al1 ELSE 1, [i \in 1..bl[k] |-> DataByte(k, i - 1)], PatOf(k))
                                                    EXCEPT !.par = par[k]]]), cls, n)
       /\ act = [a |-> "Tree", size |-> size]
OffsNext == FALSE /\ UNCHANGED vars
\* ---- the class realised in the finished tree (a partition of all placements of a child)
ClassOfT(F, T, k) ==
  IF F[k].off < 0 THEN (IF F[k].off + T.len[k] <= 0 THEN "front" ELSE "cross")
  ELSE IF F[k].off + T.len[k] > T.len[F[k].par] THEN (IF F[k].off >= T.len[F[k].par] THEN "behind" ELSE "over")
  ELSE IF F[k].off = 0 /\ T.len[k] = T.len[F[k].par] THEN "fill"
  ELSE IF F[k].off + T.len[k] = T.len[F[k].par] THEN "touch"
  ELSE IF F[k].off = 0 THEN "zero" ELSE "inside"
OutClasses == {"front", "cross", "over", "behind"}
Below(F) == {k \in Ids(F) : F[k].par # 0}
Culprits(F, T) == {k \in Below(F) : SticksT(F, T, F[k].par, k)}
Clashes(F, T) == {p \in Below(F) \X Below(F) : p[1] < p[2] /\ F[p[1]].par = F[p[2]].par /\ OverlapT(F, T, p[1], p[2])}
\* ---- lemmas
ClassAgreesT(F, T) == \A k \in Below(F) : (ClassOfT(F, T, k) \in OutClasses) = SticksT(F, T, F[k].par, k)
ClassAgrees == ClassAgreesT(forest, Tab(forest))
ValidIffCleanT(F, T) == ValidT(F, T, 1) = (Culprits(F, T) = {} /\ Clashes(F, T) = {})
ValidIffClean == ValidIffCleanT(forest, Tab(forest))
\* whatever lies at a negative offset below the root makes validate() of the root (and of every image above it) report an error ...
RECURSIVE Above(_, _)
Above(F, k) == IF F[k].par = 0 THEN {} ELSE {F[k].par} \cup Above(F, F[k].par)
FrontRefusedT(F, T) == \A k \in Below(F) : F[k].off < 0 => \A a \in Above(F, k) : VerdictT(F, T, a) = "error"
FrontRefused == FrontRefusedT(forest, Tab(forest))
\* ... and it has to: such a tree has no export in which "every sub-image's bytes appear at its absolute offset".  The first byte of
\* the image lies below index 0 of its parent's buffer: at that absolute position the export of the root ends, or holds a byte of
\* something else (the gap of an image further up, a neighbour of the parent) - read with the very source map of BinImage
FrontLosesBytesT(F, T) ==
  \A k \in Below(F) : (F[k].off < 0 /\ T.len[k] > 0 /\ SrcT(F, T, k, 0).k \in {"bin", "pat"}) =>
     \/ Abs(F, k) - Abs(F, 1) < 0 \/ Abs(F, k) - Abs(F, 1) >= T.len[1]
     \/ SrcT(F, T, 1, Abs(F, k) - Abs(F, 1)) # SrcT(F, T, k, 0)
FrontLosesBytes == FrontLosesBytesT(forest, Tab(forest))
\* ---- one line per tree: for every image <<parent, offset, explicit size, alignment, binary length>>, for every image below the root
\*      <<depth, 1 = no sub-images, realised class, 1 = parent has an explicit size, 1 = sticks out>>, the number of overlapping pairs
InfoT(F, T) == [k \in DOMAIN F |-> IF F[k].par = 0 THEN <<1, 0, "root", 0, 0>>
                                   ELSE <<DepthOf(F, k), IF T.kids[k] = {} THEN 1 ELSE 0, ClassOfT(F, T, k),
                                          IF F[F[k].par].size0 # 0 THEN 1 ELSE 0, IF SticksT(F, T, F[k].par, k) THEN 1 ELSE 0>>]
EmitT(F, T) == PrintT(ToJson(<<[k \in DOMAIN F |-> <<F[k].par, F[k].off, act.size[k], F[k].al, Len(F[k].bin)>>],
                               InfoT(F, T), Cardinality(Clashes(F, T))>>))
Emit == EmitT(forest, Tab(forest))
=============================================================================
