----------------------------- MODULE StaleTrace -----------------------------
(* R-spec of C18, staleness clause, in trace form.  The environment is the DATA: the main data folder, an optional  *)
(* add-ons folder and an optional restricted-data folder, each a set of files that may be edited between two runs.   *)
(* A trace is a history of                                                                                            *)
(*   Run(mode, digest)   a fresh process answers the query battery; mode "cache" (cache folder in use) or "truth"     *)
(*                       (cache disabled - the reference the property names)                                         *)
(*   Edit(kind)          the data are edited (a device file of the main folder, an overlay file for a device that     *)
(*                       also lives in the main folder, the defaults, a cached configuration file, a new device ...)  *)
(* and the clause is AnswersTrue in the presence of edits: whatever was cached before, a process that uses the cache  *)
(* answers exactly as a process with the cache disabled does ON THE CURRENT DATA - a cache written before an edit is  *)
(* never trusted.  `gen` counts the edits; the truth digest of a generation is fixed by its first "truth" run.        *)
EXTENDS Naturals, Sequences, FiniteSets, TLC, Json, IOUtils
Traces == ndJsonDeserialize(IOEnv.TRACE_FILE)
VARIABLES tid, l, gen, truth, cached
vars == <<tid, l, gen, truth, cached>>
T == Traces[tid].ev
E == T[l]
Is(e) == l <= Len(T) /\ E.ev = e
Adv == l' = l + 1 /\ UNCHANGED tid
Init == tid \in 1..Len(Traces) /\ l = 1 /\ gen = 0 /\ truth = "none" /\ cached = FALSE /\ TLCSet(tid, 1)
\* the reference run of this generation of the data
RunTruth == Is("Run") /\ E.mode = "truth" /\ E.ok /\ truth' = E.digest /\ (truth # "none" => E.digest = truth) /\ UNCHANGED <<gen, cached>> /\ Adv
\* a run with the cache: never fatal, answers as the reference of the CURRENT generation (which must have been taken)
RunCache == Is("Run") /\ E.mode = "cache" /\ E.ok /\ truth # "none" /\ E.digest = truth /\ cached' = TRUE /\ UNCHANGED <<gen, truth>> /\ Adv
\* an edit starts a new generation; it must be one that changes the answers (else the scenario proves nothing: the harness checks that, E.effective)
Edit == Is("Edit") /\ E.effective /\ gen' = gen + 1 /\ truth' = "none" /\ UNCHANGED cached /\ Adv
Next == RunTruth \/ RunCache \/ Edit
Constr == IF TLCGet(tid) < l THEN TLCSet(tid, l) ELSE TRUE
Post == \A i \in 1..Len(Traces) : \/ TLCGet(i) - 1 = Len(Traces[i].ev)
          \/ PrintT(<<"REJ", Traces[i].id, TLCGet(i) - 1, Len(Traces[i].ev), Traces[i].ev[IF TLCGet(i) <= Len(Traces[i].ev) THEN TLCGet(i) ELSE Len(Traces[i].ev)].ev>>)
=============================================================================
