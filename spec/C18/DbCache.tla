------------------------------ MODULE DbCache ------------------------------
(* I-spec of the on-disk database caches of spsdk/utils/database.py (quick-info cache and config *)
(* cache), one cache file, composed with the R-environment: a file system whose files are        *)
(* written in place (open 'wb' truncates at once, content arrives later), an advisory lock that  *)
(* is released by Release or by the holder's death, and processes that may be killed anywhere.   *)
(* One action per file-system primitive of the code (one label per critical step).               *)
(* Constants select the variant:                                                                 *)
(*   Removes       TRUE for the config cache (a stale / damaged file is os.remove'd outside the   *)
(*                 lock), FALSE for the quick-info cache (rewritten in place)                      *)
(*   Caught        load-failure kinds the loader handles ("eof","trunc","type")                  *)
(*   GuardedRemove TRUE: a vanished file is tolerated by the remover; FALSE: `exists ; remove`    *)
(*   Merge         TRUE for the config cache: the writer re-reads and merges under the lock        *)
EXTENDS Naturals, Sequences, FiniteSets, TLC
CONSTANTS Procs, MaxKills, Removes, Caught, GuardedRemove, Merge, InitKinds
Kinds == {"missing", "empty", "partial", "valid", "stale", "junk"}
VARIABLES file,     \* content kind of the cache file
          lock,     \* holder of the advisory lock or "none"
          kills,    \* crashes so far
          pc, saw, res,
          out,      \* per process: "run" | "ok" | "fatal" | "killed"
          used      \* per process: "none" | "cache" | "rebuilt" - where its answers come from
vars == <<file, lock, kills, pc, saw, res, out, used>>
LoadResult(k) == CASE k = "valid" -> "ok" [] k = "stale" -> "stale" [] k = "empty" -> "eof"
                   [] k = "partial" -> "trunc" [] k = "junk" -> "type" [] k = "missing" -> "nofile"
Init == /\ file \in InitKinds /\ lock = "none" /\ kills = 0
        /\ pc = [p \in Procs |-> "Exists"] /\ saw = [p \in Procs |-> FALSE] /\ res = [p \in Procs |-> "none"]
        /\ out = [p \in Procs |-> "run"] /\ used = [p \in Procs |-> "none"]
Goto(p, l) == pc' = [pc EXCEPT ![p] = l]
Exists(p) == /\ pc[p] = "Exists" /\ saw' = [saw EXCEPT ![p] = file # "missing"]
             /\ Goto(p, IF file # "missing" THEN "Acquire" ELSE "Rebuild") /\ UNCHANGED <<file, lock, kills, res, out, used>>
Acquire(p) == pc[p] = "Acquire" /\ lock = "none" /\ lock' = p /\ Goto(p, "OpenRead") /\ UNCHANGED <<file, kills, saw, res, out, used>>
OpenRead(p) == /\ pc[p] = "OpenRead"
               /\ IF file = "missing" THEN res' = [res EXCEPT ![p] = "nofile"] /\ Goto(p, "Release1")
                                      ELSE res' = res /\ Goto(p, "Load")
               /\ UNCHANGED <<file, lock, kills, saw, out, used>>
Load(p) == pc[p] = "Load" /\ res' = [res EXCEPT ![p] = LoadResult(file)] /\ Goto(p, "Release1") /\ UNCHANGED <<file, lock, kills, saw, out, used>>
Release1(p) == pc[p] = "Release1" /\ lock' = "none" /\ Goto(p, "Decide") /\ UNCHANGED <<file, kills, saw, res, out, used>>
Decide(p) == /\ pc[p] = "Decide"
             /\ CASE res[p] = "ok" -> used' = [used EXCEPT ![p] = "cache"] /\ out' = [out EXCEPT ![p] = "ok"] /\ Goto(p, "Fin")
                  [] res[p] = "nofile" -> Goto(p, "Rebuild") /\ UNCHANGED <<out, used>>
                  [] res[p] = "stale" -> Goto(p, IF Removes THEN "RemoveStale" ELSE "Rebuild") /\ UNCHANGED <<out, used>>
                  [] res[p] \in Caught -> Goto(p, IF Removes THEN "RemoveBad" ELSE "Rebuild") /\ UNCHANGED <<out, used>>
                  [] OTHER -> out' = [out EXCEPT ![p] = "fatal"] /\ Goto(p, "Fin") /\ UNCHANGED used     \* uncaught exception
             /\ UNCHANGED <<file, lock, kills, saw, res>>
\* os.remove of a stale file: inside the try block, a vanished file raises FileNotFoundError which is caught -> handler
RemoveStale(p) == /\ pc[p] = "RemoveStale"
                  /\ IF file = "missing" THEN file' = file /\ Goto(p, "RemoveBad") ELSE file' = "missing" /\ Goto(p, "Rebuild")
                  /\ UNCHANGED <<lock, kills, saw, res, out, used>>
\* except-handler:  if os.path.exists(f): os.remove(f)     -- two steps
RemoveBad(p) == pc[p] = "RemoveBad" /\ saw' = [saw EXCEPT ![p] = file # "missing"] /\ Goto(p, "RemoveBad2") /\ UNCHANGED <<file, lock, kills, res, out, used>>
RemoveBad2(p) == /\ pc[p] = "RemoveBad2"
                 /\ IF ~saw[p] THEN file' = file /\ out' = out /\ Goto(p, "Rebuild")
                    ELSE IF file = "missing"
                         THEN IF GuardedRemove THEN file' = file /\ out' = out /\ Goto(p, "Rebuild")
                              ELSE file' = file /\ out' = [out EXCEPT ![p] = "fatal"] /\ Goto(p, "Fin")      \* FileNotFoundError inside the handler
                         ELSE file' = "missing" /\ out' = out /\ Goto(p, "Rebuild")
                 /\ UNCHANGED <<lock, kills, saw, res, used>>
Rebuild(p) == pc[p] = "Rebuild" /\ used' = [used EXCEPT ![p] = "rebuilt"] /\ Goto(p, "Acquire2") /\ UNCHANGED <<file, lock, kills, saw, res, out>>
Acquire2(p) == pc[p] = "Acquire2" /\ lock = "none" /\ lock' = p /\ Goto(p, IF Merge THEN "MergeExists" ELSE "OpenTrunc") /\ UNCHANGED <<file, kills, saw, res, out, used>>
\* make_cache: under the lock, re-read an existing file and merge; any failure here is swallowed and NOTHING is written
MergeExists(p) == pc[p] = "MergeExists" /\ Goto(p, IF file = "missing" THEN "OpenTrunc" ELSE "MergeLoad") /\ UNCHANGED <<file, lock, kills, saw, res, out, used>>
MergeLoad(p) == /\ pc[p] = "MergeLoad"
                /\ Goto(p, IF LoadResult(file) \in {"ok", "stale"} THEN "OpenTrunc" ELSE "Release2")
                /\ UNCHANGED <<file, lock, kills, saw, res, out, used>>
OpenTrunc(p) == pc[p] = "OpenTrunc" /\ file' = "empty" /\ Goto(p, "Write1") /\ UNCHANGED <<lock, kills, saw, res, out, used>>
Write1(p) == pc[p] = "Write1" /\ file' = "partial" /\ Goto(p, "Write2") /\ UNCHANGED <<lock, kills, saw, res, out, used>>
Write2(p) == pc[p] = "Write2" /\ file' = "valid" /\ Goto(p, "Release2") /\ UNCHANGED <<lock, kills, saw, res, out, used>>
Release2(p) == pc[p] = "Release2" /\ lock' = "none" /\ out' = [out EXCEPT ![p] = "ok"] /\ Goto(p, "Fin") /\ UNCHANGED <<file, kills, saw, res, used>>
Kill(p) == /\ kills < MaxKills /\ out[p] = "run"
           /\ kills' = kills + 1 /\ out' = [out EXCEPT ![p] = "killed"] /\ Goto(p, "Fin")
           /\ lock' = IF lock = p THEN "none" ELSE lock              \* the kernel drops a dead holder's lock; the file stays as it is
           /\ UNCHANGED <<file, saw, res, used>>
Step(p) == Exists(p) \/ Acquire(p) \/ OpenRead(p) \/ Load(p) \/ Release1(p) \/ Decide(p) \/ RemoveStale(p) \/ RemoveBad(p) \/ RemoveBad2(p)
           \/ Rebuild(p) \/ Acquire2(p) \/ MergeExists(p) \/ MergeLoad(p) \/ OpenTrunc(p) \/ Write1(p) \/ Write2(p) \/ Release2(p)
DoStep == \E p \in Procs : Step(p)
DoKill == \E p \in Procs : Kill(p)
Next == DoStep \/ DoKill
Spec == Init /\ [][Next]_vars /\ \A p \in Procs : WF_vars(Step(p))
\* ---------------------------------------------------------------- the property at design level
NoFatal == \A p \in Procs : out[p] # "fatal"                                      \* damaged cache never fatal
NeverTrustDamaged == \A p \in Procs : used[p] = "cache" => res[p] = "ok"          \* answers from the cache only after a valid, current load
MutualExclusion == \A p, q \in Procs : (pc[p] \in {"OpenRead", "Load", "Release1", "MergeExists", "MergeLoad", "OpenTrunc", "Write1", "Write2", "Release2"}
                                        /\ pc[q] \in {"OpenRead", "Load", "Release1", "MergeExists", "MergeLoad", "OpenTrunc", "Write1", "Write2", "Release2"}
                                        /\ out[p] = "run" /\ out[q] = "run") => p = q
AllDone == \A p \in Procs : pc[p] = "Fin"
\* liveness: no lock is left behind by a dead holder - every live process finishes
Progress == <>AllDone
\* a process that runs alone on any file state leaves a valid cache behind (the epilogue clause of the trace monitor)
SoloRepairs == (Cardinality(Procs) = 1 /\ AllDone /\ kills = 0) => file = "valid"
=============================================================================
