------------------------------ MODULE DbCache ------------------------------
(* I-spec of the on-disk database caches of spsdk/utils/database.py (quick-info cache and config *)
(* cache), one cache file, composed with the R-environment: a file system whose files are        *)
(* written in place (open 'wb' truncates at once, content arrives later), an advisory lock that  *)
(* is released by Release or by the holder's death, and processes that may be killed anywhere.   *)
(* One action per file-system primitive of the code (one label per critical step).               *)
(* Constants select the variant:                                                                 *)
(*   Removes       TRUE for the config cache (a stale / damaged file is os.remove'd outside the   *)
(*                 lock), FALSE for the quick-info cache (rewritten in place)                      *)
(*   Caught        load-failure kinds the loader handles ("eof","trunc","type")                  *)
(*   GuardedRemove TRUE: a vanished file is tolerated by the remover; FALSE: `exists ; remove`    *)
(*   Merge         TRUE for the config cache: the writer re-reads and merges under the lock        *)
(*   RemovesStale  TRUE: a file whose fingerprint does not match is removed before anything else   *)
(*                 (FALSE = the variant "leave it, make_cache rewrites it anyway")                   *)
(*   ChecksFolder / ExistOk   how the cache folder is created in front of a write:                   *)
(*                 ChecksFolder: `if not exists(folder)` first; ExistOk: makedirs(exist_ok=True)     *)
(* The folder may be missing at the start (InitKinds contains "nofolder"); a file whose fingerprint  *)
(* is current but whose content was merged from a stale file is "poisoned" - no loader can tell it   *)
(* from a valid one, which is why NeverTrustStale is a property of the DESIGN.                       *)
EXTENDS Naturals, Sequences, FiniteSets, TLC
CONSTANTS Procs, MaxKills, Removes, Caught, GuardedRemove, Merge, InitKinds, RemovesStale, ChecksFolder, ExistOk
Kinds == {"missing", "empty", "partial", "valid", "stale", "junk", "poisoned"}
VARIABLES file,     \* content kind of the cache file
          lock,     \* holder of the advisory lock or "none"
          kills,    \* crashes so far
          pc, saw, res,
          out,      \* per process: "run" | "ok" | "fatal" | "killed"
          used,     \* per process: "none" | "cache" | "rebuilt" | "taint" - where its answers come from (taint: entries of a stale file among them)
          dir,      \* the cache folder exists
          sawdir,   \* per process: what its test for the folder said
          taint     \* per process: its in-memory data holds entries merged from a stale (or poisoned) file
vars == <<file, lock, kills, pc, saw, res, out, used, dir, sawdir, taint>>
LoadResult(k) == CASE k = "valid" -> "ok" [] k = "poisoned" -> "okp" [] k = "stale" -> "stale" [] k = "empty" -> "eof"
                   [] k = "partial" -> "trunc" [] k = "junk" -> "type" [] k = "missing" -> "nofile"
Init == /\ \/ file \in InitKinds \ {"nofolder"} /\ dir = TRUE
           \/ "nofolder" \in InitKinds /\ file = "missing" /\ dir = FALSE
        /\ sawdir = [p \in Procs |-> FALSE] /\ taint = [p \in Procs |-> FALSE]
        /\ lock = "none" /\ kills = 0
        /\ pc = [p \in Procs |-> "Exists"] /\ saw = [p \in Procs |-> FALSE] /\ res = [p \in Procs |-> "none"]
        /\ out = [p \in Procs |-> "run"] /\ used = [p \in Procs |-> "none"]
Goto(p, l) == pc' = [pc EXCEPT ![p] = l]
Exists(p) == /\ pc[p] = "Exists" /\ saw' = [saw EXCEPT ![p] = file # "missing"]
             /\ Goto(p, IF file # "missing" THEN "Acquire" ELSE "Rebuild") /\ UNCHANGED <<file, lock, kills, res, out, used, dir, sawdir, taint>>
Acquire(p) == pc[p] = "Acquire" /\ lock = "none" /\ lock' = p /\ Goto(p, "OpenRead") /\ UNCHANGED <<file, kills, saw, res, out, used, dir, sawdir, taint>>
OpenRead(p) == /\ pc[p] = "OpenRead"
               /\ IF file = "missing" THEN res' = [res EXCEPT ![p] = "nofile"] /\ Goto(p, "Release1")
                                      ELSE res' = res /\ Goto(p, "Load")
               /\ UNCHANGED <<file, lock, kills, saw, out, used, dir, sawdir, taint>>
Load(p) == pc[p] = "Load" /\ res' = [res EXCEPT ![p] = LoadResult(file)] /\ Goto(p, "Release1") /\ UNCHANGED <<file, lock, kills, saw, out, used, dir, sawdir, taint>>
Release1(p) == pc[p] = "Release1" /\ lock' = "none" /\ Goto(p, "Decide") /\ UNCHANGED <<file, kills, saw, res, out, used, dir, sawdir, taint>>
Decide(p) == /\ pc[p] = "Decide"
             /\ CASE res[p] \in {"ok", "okp"} -> used' = [used EXCEPT ![p] = IF res[p] = "okp" THEN "taint" ELSE "cache"] /\ out' = [out EXCEPT ![p] = "ok"] /\ Goto(p, "Fin")
                  [] res[p] = "nofile" -> Goto(p, "Rebuild") /\ UNCHANGED <<out, used>>
                  [] res[p] = "stale" -> Goto(p, IF Removes /\ RemovesStale THEN "RemoveStale" ELSE "Rebuild") /\ UNCHANGED <<out, used>>
                  [] res[p] \in Caught -> Goto(p, IF Removes THEN "RemoveBad" ELSE "Rebuild") /\ UNCHANGED <<out, used>>
                  [] OTHER -> out' = [out EXCEPT ![p] = "fatal"] /\ Goto(p, "Fin") /\ UNCHANGED used     \* uncaught exception
             /\ UNCHANGED <<file, lock, kills, saw, res, dir, sawdir, taint>>
\* os.remove of a stale file: inside the try block, a vanished file raises FileNotFoundError which is caught -> handler
RemoveStale(p) == /\ pc[p] = "RemoveStale"
                  /\ IF file = "missing" THEN file' = file /\ Goto(p, "RemoveBad") ELSE file' = "missing" /\ Goto(p, "Rebuild")
                  /\ UNCHANGED <<lock, kills, saw, res, out, used, dir, sawdir, taint>>
\* except-handler:  if os.path.exists(f): os.remove(f)     -- two steps
RemoveBad(p) == pc[p] = "RemoveBad" /\ saw' = [saw EXCEPT ![p] = file # "missing"] /\ Goto(p, "RemoveBad2") /\ UNCHANGED <<file, lock, kills, res, out, used, dir, sawdir, taint>>
RemoveBad2(p) == /\ pc[p] = "RemoveBad2"
                 /\ IF ~saw[p] THEN file' = file /\ out' = out /\ Goto(p, "Rebuild")
                    ELSE IF file = "missing"
                         THEN IF GuardedRemove THEN file' = file /\ out' = out /\ Goto(p, "Rebuild")
                              ELSE file' = file /\ out' = [out EXCEPT ![p] = "fatal"] /\ Goto(p, "Fin")      \* FileNotFoundError inside the handler
                         ELSE file' = "missing" /\ out' = out /\ Goto(p, "Rebuild")
                 /\ UNCHANGED <<lock, kills, saw, res, used, dir, sawdir, taint>>
Rebuild(p) == pc[p] = "Rebuild" /\ used' = [used EXCEPT ![p] = "rebuilt"] /\ Goto(p, IF ChecksFolder THEN "DirCheck" ELSE "MkDir") /\ UNCHANGED <<file, lock, kills, saw, res, out, dir, sawdir, taint>>
\* the folder in front of a write:  [if not os.path.exists(folder):]  os.makedirs(folder[, exist_ok=True])
DirCheck(p) == pc[p] = "DirCheck" /\ sawdir' = [sawdir EXCEPT ![p] = dir] /\ Goto(p, IF dir THEN "Acquire2" ELSE "MkDir") /\ UNCHANGED <<file, lock, kills, saw, res, out, used, dir, taint>>
MkDir(p) == /\ pc[p] = "MkDir"
            /\ IF dir /\ ~ExistOk THEN out' = [out EXCEPT ![p] = "fatal"] /\ Goto(p, "Fin") /\ dir' = dir          \* FileExistsError outside every handler
               ELSE dir' = TRUE /\ out' = out /\ Goto(p, "Acquire2")
            /\ UNCHANGED <<file, lock, kills, saw, res, used, sawdir, taint>>
Acquire2(p) == pc[p] = "Acquire2" /\ lock = "none" /\ lock' = p /\ Goto(p, IF Merge THEN "MergeExists" ELSE "OpenTrunc") /\ UNCHANGED <<file, kills, saw, res, out, used, dir, sawdir, taint>>
\* make_cache: under the lock, re-read an existing file and merge; any failure here is swallowed and NOTHING is written
MergeExists(p) == pc[p] = "MergeExists" /\ Goto(p, IF file = "missing" THEN "OpenTrunc" ELSE "MergeLoad") /\ UNCHANGED <<file, lock, kills, saw, res, out, used, dir, sawdir, taint>>
MergeLoad(p) == /\ pc[p] = "MergeLoad"
                /\ Goto(p, IF LoadResult(file) \in {"ok", "okp", "stale"} THEN "OpenTrunc" ELSE "Release2")
                /\ taint' = [taint EXCEPT ![p] = @ \/ file \in {"stale", "poisoned"}]                      \* whatever unpickles is merged, unexamined
                /\ used' = [used EXCEPT ![p] = IF file \in {"stale", "poisoned"} THEN "taint" ELSE @]
                /\ UNCHANGED <<file, lock, kills, saw, res, out, dir, sawdir>>
OpenTrunc(p) == pc[p] = "OpenTrunc" /\ file' = "empty" /\ Goto(p, "Write1") /\ UNCHANGED <<lock, kills, saw, res, out, used, dir, sawdir, taint>>
Write1(p) == pc[p] = "Write1" /\ file' = "partial" /\ Goto(p, "Write2") /\ UNCHANGED <<lock, kills, saw, res, out, used, dir, sawdir, taint>>
Write2(p) == pc[p] = "Write2" /\ file' = (IF taint[p] THEN "poisoned" ELSE "valid") /\ Goto(p, "Release2") /\ UNCHANGED <<lock, kills, saw, res, out, used, dir, sawdir, taint>>
Release2(p) == pc[p] = "Release2" /\ lock' = "none" /\ out' = [out EXCEPT ![p] = "ok"] /\ Goto(p, "Fin") /\ UNCHANGED <<file, kills, saw, res, used, dir, sawdir, taint>>
Kill(p) == /\ kills < MaxKills /\ out[p] = "run"
           /\ kills' = kills + 1 /\ out' = [out EXCEPT ![p] = "killed"] /\ Goto(p, "Fin")
           /\ lock' = IF lock = p THEN "none" ELSE lock              \* the kernel drops a dead holder's lock; the file stays as it is
           /\ UNCHANGED <<file, saw, res, used, dir, sawdir, taint>>
Step(p) == Exists(p) \/ Acquire(p) \/ OpenRead(p) \/ Load(p) \/ Release1(p) \/ Decide(p) \/ RemoveStale(p) \/ RemoveBad(p) \/ RemoveBad2(p)
           \/ Rebuild(p) \/ DirCheck(p) \/ MkDir(p) \/ Acquire2(p) \/ MergeExists(p) \/ MergeLoad(p) \/ OpenTrunc(p) \/ Write1(p) \/ Write2(p) \/ Release2(p)
DoStep == \E p \in Procs : Step(p)
DoKill == \E p \in Procs : Kill(p)
Next == DoStep \/ DoKill
Spec == Init /\ [][Next]_vars /\ \A p \in Procs : WF_vars(Step(p))
\* ---------------------------------------------------------------- the property at design level
NoFatal == \A p \in Procs : out[p] # "fatal"                                      \* damaged cache never fatal
NeverTrustDamaged == \A p \in Procs : used[p] = "cache" => res[p] = "ok"          \* answers from the cache only after a valid, current load
NeverTrustStale == \A p \in Procs : used[p] # "taint"                              \* ... and never from entries that came out of a stale file
MutualExclusion == \A p, q \in Procs : (pc[p] \in {"OpenRead", "Load", "Release1", "MergeExists", "MergeLoad", "OpenTrunc", "Write1", "Write2", "Release2"}
                                        /\ pc[q] \in {"OpenRead", "Load", "Release1", "MergeExists", "MergeLoad", "OpenTrunc", "Write1", "Write2", "Release2"}
                                        /\ out[p] = "run" /\ out[q] = "run") => p = q
AllDone == \A p \in Procs : pc[p] = "Fin"
\* liveness: no lock is left behind by a dead holder - every live process finishes
Progress == <>AllDone
\* a process that runs alone on any file state leaves a valid cache behind (the epilogue clause of the trace monitor)
SoloRepairs == (Cardinality(Procs) = 1 /\ AllDone /\ kills = 0) => file = "valid"
=============================================================================
