CONSTANTS Procs = {p1, p2}
 MaxKills = 1
 Removes = FALSE
 Caught = {"eof", "trunc", "type"}
 GuardedRemove = TRUE
 Merge = FALSE
 RemovesStale = TRUE
 ChecksFolder = FALSE
 ExistOk = TRUE
 InitKinds = {"missing", "empty", "partial", "valid", "stale", "junk", "nofolder"}
SPECIFICATION Spec
INVARIANT NoFatal
INVARIANT NeverTrustDamaged
INVARIANT NeverTrustStale
INVARIANT MutualExclusion
PROPERTY Progress
CHECK_DEADLOCK FALSE
