---------------------------- MODULE FsEnvTrace ----------------------------
(* R-spec of C18 in trace form: the environment SPSDK cannot change - a file system whose files   *)
(* are rewritten in place, advisory locks that die with their holder, processes killed anywhere - *)
(* plus the outcome monitor that IS the property:                                                 *)
(*   NoFatal      there is no step for a "fatal" event: a trace containing one is rejected there  *)
(*   AnswersTrue  a finished process reports the digest obtained with the cache disabled          *)
(*   Repaired     after a process that ran alone from start to end, both cache files are valid    *)
(* Events are the primitives each real process performed on the cache files (logged after their   *)
(* effect, one process runs at a time under the scheduler, so the order is exact).                *)
EXTENDS Naturals, Sequences, FiniteSets, TLC, Json, IOUtils
Traces == ndJsonDeserialize(IOEnv.TRACE_FILE)
Files == {"quick", "data"}
Loadable == {"valid", "stale", "junk"}               \* a complete pickle unpickles (junk = complete pickle of a foreign type); anything else fails somehow
VARIABLES tid, l, file, lock, live, solo,
          handle,    \* per process: the file it has open for reading and the content of that inode ([f, k]); POSIX: an unlinked file stays readable through an open handle
          dir        \* the cache folder exists (a cold cache may start without it; two processes may both find it missing and both create it)
vars == <<tid, l, file, lock, live, solo, handle, dir>>
T == Traces[tid].ev
E == T[l]
Is(e) == l <= Len(T) /\ E.ev = e
Adv == l' = l + 1 /\ UNCHANGED tid
Init == /\ tid \in 1..Len(Traces) /\ l = 1
        /\ file = [f \in Files |-> Traces[tid].init[f]]       \* missing | empty | partial | valid | stale | junk  (prepared by the scenario)
        /\ lock = [f \in Files |-> "none"] /\ live = {} /\ solo = "none" /\ handle = [p \in {} |-> 0] /\ TLCSet(tid, 1)
        /\ dir = Traces[tid].init.dir /\ (~dir => \A f \in Files : file[f] = "missing")
Keep == UNCHANGED <<file, lock, handle, dir>>
H(p) == IF p \in DOMAIN handle THEN handle[p] ELSE [f |-> "none", k |-> "none"]
\* a write to the inode of file f is seen by every handle that is still attached to it
Rewrite(f, k) == [p \in DOMAIN handle |-> IF handle[p].f = f THEN [f |-> f, k |-> k] ELSE handle[p]]
Detach(f) == [p \in DOMAIN handle |-> IF handle[p].f = f THEN [f |-> "unlinked", k |-> handle[p].k] ELSE handle[p]]
Start   == Is("start") /\ E.p \notin live /\ live' = live \cup {E.p} /\ solo' = (IF live = {} THEN E.p ELSE "none") /\ Keep /\ Adv
Exists  == Is("exists") /\ E.p \in live /\ E.r = (file[E.file] # "missing") /\ Keep /\ UNCHANGED <<live, solo>> /\ Adv
Acquire == Is("acquire") /\ E.p \in live /\ lock[E.file] = "none" /\ lock' = [lock EXCEPT ![E.file] = E.p] /\ UNCHANGED <<file, live, solo, handle, dir>> /\ Adv
\* a wait for a lock somebody else holds may end in a time-out (the holder is stopped or slow): the waiting process goes on WITHOUT the lock
Timeout == Is("timeout") /\ E.p \in live /\ lock[E.file] \notin {"none", E.p} /\ Keep /\ UNCHANGED <<live, solo>> /\ Adv
Release == Is("release") /\ E.p \in live /\ lock[E.file] = E.p /\ lock' = [lock EXCEPT ![E.file] = "none"] /\ UNCHANGED <<file, live, solo, handle, dir>> /\ Adv
OpenW   == /\ Is("open") /\ E.p \in live /\ E.mode = "wb" /\ E.ok /\ dir /\ file' = [file EXCEPT ![E.file] = "empty"]      \* truncates in place (or creates)
           /\ handle' = (E.p :> [f |-> E.file, k |-> "empty"]) @@ Rewrite(E.file, "empty")                                   \* the writer holds the inode open as well
           /\ UNCHANGED <<lock, live, solo, dir>> /\ Adv
OpenR   == /\ Is("open") /\ E.p \in live /\ E.mode = "rb" /\ E.ok = (file[E.file] # "missing")
           /\ handle' = (IF E.ok THEN (E.p :> [f |-> E.file, k |-> file[E.file]]) @@ handle ELSE handle)
           /\ UNCHANGED <<file, lock, live, solo, dir>> /\ Adv
\* a file cannot be created in a folder that does not exist
OpenWNoDir == Is("open") /\ E.p \in live /\ E.mode = "wb" /\ ~E.ok /\ ~dir /\ Keep /\ UNCHANGED <<live, solo>> /\ Adv
\* the folder: a test for it answers truthfully; creating it succeeds when it is missing, and on an existing folder exactly when the caller said exist_ok
DirExists == Is("direxists") /\ E.p \in live /\ E.r = dir /\ Keep /\ UNCHANGED <<live, solo>> /\ Adv
MkDir     == Is("mkdir") /\ E.p \in live /\ E.ok = (~dir \/ E.r) /\ dir' = TRUE /\ UNCHANGED <<file, lock, handle, live, solo>> /\ Adv      \* E.r: exist_ok
Load    == Is("load") /\ E.p \in live /\ (E.res = "ok") = (H(E.p).k \in Loadable) /\ Keep /\ UNCHANGED <<live, solo>> /\ Adv     \* what the open handle holds
\* the data go to the inode the writer holds open; if another process unlinked the file meanwhile (POSIX allows it), they go nowhere
Dump    == /\ Is("dump") /\ E.p \in live
           /\ IF H(E.p).f = "unlinked" THEN UNCHANGED <<file, handle>>
              ELSE file[E.file] \in {"empty", "partial"} /\ file' = [file EXCEPT ![E.file] = "valid"] /\ handle' = Rewrite(E.file, "valid")
           /\ UNCHANGED <<lock, live, solo, dir>> /\ Adv
Remove  == Is("remove") /\ E.p \in live /\ E.ok = (file[E.file] # "missing") /\ file' = [file EXCEPT ![E.file] = "missing"] /\ handle' = Detach(E.file) /\ UNCHANGED <<lock, live, solo, dir>> /\ Adv
Killed  == /\ Is("killed") /\ E.p \in live /\ live' = live \ {E.p}
           /\ lock' = [f \in Files |-> IF lock[f] = E.p THEN "none" ELSE lock[f]]      \* the kernel drops a dead holder's lock, the file stays as it is
           /\ solo' = "none" /\ UNCHANGED <<file, handle, dir>> /\ Adv
\* ---- outcome monitor
Done    == /\ Is("done") /\ E.p \in live /\ live' = live \ {E.p}
           /\ E.digest = Traces[tid].truth                                           \* AnswersTrue
           /\ \A f \in Files : lock[f] # E.p                                         \* no lock left behind
           /\ (solo = E.p => \A f \in Files : file[f] = "valid")                     \* Repaired: a process that ran alone leaves valid caches
           /\ solo' = "none" /\ Keep /\ Adv
\* independent classification of the files at the end of the scenario (by a probe outside the scheduled processes)
Final   == Is("final") /\ live = {} /\ \A f \in Files : E.state[f] = file[f] /\ UNCHANGED <<file, lock, live, solo, handle, dir>> /\ Adv
Next == Start \/ Exists \/ DirExists \/ MkDir \/ Acquire \/ Timeout \/ Release \/ OpenW \/ OpenWNoDir \/ OpenR \/ Load \/ Dump \/ Remove \/ Killed \/ Done \/ Final
Constr == IF TLCGet(tid) < l THEN TLCSet(tid, l) ELSE TRUE
Post == \A i \in 1..Len(Traces) : \/ TLCGet(i) - 1 = Len(Traces[i].ev)
          \/ PrintT(<<"REJ", Traces[i].id, TLCGet(i) - 1, Len(Traces[i].ev), Traces[i].ev[IF TLCGet(i) <= Len(Traces[i].ev) THEN TLCGet(i) ELSE Len(Traces[i].ev)].ev>>)
=============================================================================
