CONSTANTS Procs = {p1, p2}
 MaxKills = 1
 Removes = TRUE
 Caught = {"eof", "trunc", "type"}
 GuardedRemove = TRUE
 Merge = TRUE
 RemovesStale = TRUE
 ChecksFolder = TRUE
 ExistOk = TRUE
 InitKinds = {"missing", "empty", "partial", "valid", "stale", "junk", "nofolder"}
SPECIFICATION Spec
INVARIANT NoFatal
INVARIANT NeverTrustDamaged
INVARIANT NeverTrustStale
INVARIANT MutualExclusion
PROPERTY Progress
CHECK_DEADLOCK FALSE
