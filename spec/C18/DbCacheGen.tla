----------------------------- MODULE DbCacheGen -----------------------------
(* GEN form: DbCache plus a history of (process, label) steps and kills; each finished behaviour is printed once and *)
(* becomes a schedule for real processes (the process ids and the kill points are what is replayed).                 *)
EXTENDS DbCache, Json
VARIABLES hist, done, file0
GInit == Init /\ hist = <<>> /\ done = FALSE /\ file0 = file
Rec(p) == [p |-> p, at |-> pc[p]]
GNext == \/ ~done /\ \E p \in Procs : Step(p) /\ hist' = Append(hist, Rec(p)) /\ UNCHANGED <<done, file0>>
         \/ ~done /\ \E p \in Procs : Kill(p) /\ hist' = Append(hist, [p |-> p, at |-> "KILL"]) /\ UNCHANGED <<done, file0>>
         \/ ~done /\ AllDone /\ done' = TRUE /\ PrintT(ToJson([file0 |-> file0, sched |-> hist])) /\ UNCHANGED <<vars, hist, file0>>
=============================================================================
