CONSTANTS Procs = {p1, p2, p3}
 MaxKills = 2
 Removes = TRUE
 Caught = {"eof", "trunc", "type"}
 GuardedRemove = TRUE
 Merge = TRUE
 InitKinds = {"missing", "empty", "partial", "valid", "stale", "junk"}
SPECIFICATION Spec
INVARIANT NoFatal
INVARIANT NeverTrustDamaged
INVARIANT MutualExclusion
PROPERTY Progress
CHECK_DEADLOCK FALSE
