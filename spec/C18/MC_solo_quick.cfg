CONSTANTS Procs = {p1}
 MaxKills = 0
 Removes = FALSE
 Caught = {"eof", "trunc", "type"}
 GuardedRemove = TRUE
 Merge = FALSE
 RemovesStale = TRUE
 ChecksFolder = FALSE
 ExistOk = TRUE
 InitKinds = {"missing", "empty", "partial", "valid", "stale", "junk", "nofolder"}
SPECIFICATION Spec
INVARIANT NoFatal
INVARIANT NeverTrustDamaged
INVARIANT NeverTrustStale
INVARIANT SoloRepairs
PROPERTY Progress
CHECK_DEADLOCK FALSE
