CONSTANTS Procs = {p1}
 MaxKills = 0
 Removes = FALSE
 Caught = {"eof", "trunc", "type"}
 GuardedRemove = TRUE
 Merge = FALSE
 InitKinds = {"missing", "empty", "partial", "valid", "stale", "junk"}
SPECIFICATION Spec
INVARIANT NoFatal
INVARIANT NeverTrustDamaged
INVARIANT SoloRepairs
PROPERTY Progress
CHECK_DEADLOCK FALSE
