CONSTANTS Procs = {p1}
 MaxKills = 0
 Removes = TRUE
 Caught = {"eof", "trunc", "type"}
 GuardedRemove = TRUE
 Merge = TRUE
 InitKinds = {"missing", "empty", "partial", "valid", "stale", "junk"}
SPECIFICATION Spec
INVARIANT NoFatal
INVARIANT NeverTrustDamaged
INVARIANT SoloRepairs
PROPERTY Progress
CHECK_DEADLOCK FALSE
