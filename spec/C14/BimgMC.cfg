INIT Init
NEXT GNext
INVARIANT TypeOK
INVARIANT NoOverlap
INVARIANT StartsWhereTold
INVARIANT DynamicFollows
INVARIANT InitSnap
INVARIANT FirstAtZero
INVARIANT CursorMonotone
INVARIANT TotalIsEnd
INVARIANT SlotRestIsGap
INVARIANT ClassesCovered
CHECK_DEADLOCK FALSE
