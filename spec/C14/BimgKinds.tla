----------------------------- MODULE BimgKinds -----------------------------
(* MC + GEN form of the dimension "application containers of every kind the family supports".    *)
(*                                                                                                 *)
(* The application container of a bootable image is not one thing: a Master Boot Image is plain,   *)
(* CRC-protected, signed with a certificate block v1 (RSA) or v2.1 (ECDSA), encrypted; a HAB       *)
(* container is plain or authenticated; an AHAB container set is unsigned or signed.  And the      *)
(* configuration can name it in two FORMS: as a binary file (the segment holds bytes) or as the    *)
(* YAML configuration of the container (the segment holds the container OBJECT and asks it for     *)
(* its length and its bytes).  The image is made on two ROUTES: BootableImage.load_from_config +   *)
(* export, and `nxpimage bootable-image merge`.                                                    *)
(* Kind, form and route do not appear in the property's statement - which is the point: whatever   *)
(* they are, the image is the one Bimg prescribes for the table and the case whose container       *)
(* payload is the container's STANDALONE export (the bytes the container builder gives for the     *)
(* same configuration): it starts where the table says, occupies exactly that many bytes, and      *)
(* what lies there is that container - byte for byte when the construction is deterministic        *)
(* (plain, CRC, RSA PKCS#1 v1.5, AES-CTR with a given counter), or, when the signature is          *)
(* randomised (ECDSA, RSA-PSS), equal outside the signature and with a signature that verifies     *)
(* (BimgTrace, clause ContOk).                                                                     *)
(*                                                                                                 *)
(* An OFFER (KIND_FILE, made by the harness from the device database and the real builders) is one *)
(* container kind of one device: table, payload lengths of the container segments as the           *)
(* standalone builder exports them, whether the kind is deterministic, whether a YAML form exists. *)
(* The cases are the initial states: offer x form x route x requested start (the full image, and   *)
(* an image that starts at the container).  The lemmas of Bimg are checked on every walk; the      *)
(* lemmas below say that the container is part of every such image, whole.                         *)
EXTENDS Bimg
Offers == JsonDeserialize(IOEnv.KIND_FILE)      \* <<[tb, kind, det, yaml, plen : Seq(Nat)]>>
VARIABLES of,     \* index of the offer
          form,   \* "bin" | "yaml"
          route   \* "api" | "cli"
kvars == <<tb, cs, ph, cur, nx, act, of, form, route>>

Forms(o) == IF Offers[o].yaml THEN {"bin", "yaml"} ELSE {"bin"}
Routes == {"api", "cli"}
Conts(sg) == { i \in DOMAIN sg : sg[i].cont }
\* requested starts: the full image and - where the container does not lie at offset 0 - the image that starts at a (static) container
KReqs(o) == LET sg == Tables[Offers[o].tb].segs
            IN {0} \cup { sg[i].off : i \in { j \in Conts(sg) : sg[j].off > 0 /\ Offers[o].plen[j] > 0 } }
Mat(f) == f \o <<>>                            \* materialise a function over 1..n as a tuple
KCase(o, r) == [present |-> Mat([i \in DOMAIN Offers[o].plen |-> Offers[o].plen[i] > 0]), plen |-> Offers[o].plen, req |-> r]

KInit == /\ of \in DOMAIN Offers /\ tb = Offers[of].tb
         /\ form \in Forms(of) /\ route \in Routes
         /\ cs \in { KCase(of, r) : r \in KReqs(of) }
         /\ ph = "new" /\ cur = 0 /\ nx = 0 /\ act = [a |-> "Init"]

Place == [i \in S |-> IF Included(i) THEN <<Off(i), SegLen(i)>> ELSE <<0 - 1, 0>>]
Rests == [i \in S |-> IF Included(i) THEN RestBehind(i) ELSE 0]
Total == IF Inc = {} THEN 0 ELSE Max({ Off(i) + SegLen(i) : i \in Inc })
Keep == UNCHANGED <<of, form, route>>
EmitCase == PrintT(ToJson([of |-> of, tb |-> tb, kind |-> Offers[of].kind, det |-> Offers[of].det, form |-> form, route |-> route,
                           present |-> cs.present, plen |-> cs.plen, req |-> cs.req, refused |-> Refused, eff |-> Eff,
                           place |-> Place, rest |-> Rests, total |-> Total]))
KBuild == Build /\ EmitCase /\ Keep
KRefuse == Refuse /\ Keep                       \* never enabled (lemma NeverRefused); kept so that the reader is complete
KGap == Gap /\ Keep
KSeg == Seg /\ Keep
KEnd == End /\ Keep
KParse == Parse /\ Keep
KParseSeg == ParseSeg /\ Keep
KDone == Done /\ Keep
KNext == KBuild \/ KRefuse \/ KGap \/ KSeg \/ KEnd \/ KParse \/ KParseSeg \/ KDone

\* ---- lemmas of this dimension
KTypeOK == /\ of \in DOMAIN Offers /\ form \in {"bin", "yaml"} /\ route \in Routes
           /\ Len(cs.present) = Len(Segs) /\ Len(cs.plen) = Len(Segs)
           /\ ph \in {"new", "walk", "parse", "psegs", "done"}
\* an offer is a container kind: it supplies at least one container segment, every mandatory segment, and a floating segment only with its predecessor
OfferOK == /\ \E i \in Conts(Segs) : cs.present[i]
           /\ \A i \in S : (~Segs[i].opt => cs.present[i]) /\ (cs.present[i] <=> cs.plen[i] > 0)
           /\ \A i \in S : cs.present[i] /\ Segs[i].off < 0 => cs.present[i - 1]
NeverRefused == ~Refused
\* the container is part of the image, whole: it lies where the table says (minus the start), nothing begins inside it, and the image does not
\* end before it does - whatever the kind, the form and the route
ContainerWhole == \A i \in Conts(Segs) : cs.present[i] /\ Pos(i) >= Eff =>
                     /\ i \in Inc /\ SegLen(i) = Offers[of].plen[i]
                     /\ (Static(i) => Off(i) = Segs[i].off - Eff)
                     /\ \A j \in Inc : j # i => ~(Off(i) <= Off(j) /\ Off(j) < Off(i) + SegLen(i))
                     /\ Total >= Off(i) + SegLen(i)
\* an image that is asked to start at a container starts with it
StartsWithContainer == cs.req > 0 => \E i \in Conts(Segs) \cap Inc : Off(i) = 0
=============================================================================
