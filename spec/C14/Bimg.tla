------------------------------- MODULE Bimg -------------------------------
(* R-spec of C14: where the segments of a bootable image lie.                                      *)
(*                                                                                                 *)
(* A TABLE (one per family / revision / memory type, read from the device database at run time)   *)
(* is an ordered list of segments, each with a static offset in the full image (off >= 0) or a    *)
(* dynamic one (off = -1: the end of its predecessor rounded up to `al`), and the fill pattern of  *)
(* the device.  A CASE says which segments are supplied, how long each payload is and which        *)
(* initial offset was requested.  Table and case determine the exported image completely:          *)
(*    effective start  Eff   = the requested offset, or the next static segment start above it     *)
(*    segment i lies at      Off(i) = Pos(i) - Eff   and occupies exactly its payload length        *)
(*    every other byte up to the end of the last segment is the fill pattern.                      *)
(* A segment kind with a nominal size (`size` > 0: key blob, FCB, key store, BEE header, XMCD ...)  *)
(* owns a SLOT of that many bytes; its payload falls in one of three LENGTH CLASSES - shorter than  *)
(* the slot, nominal, longer (up to the next table offset).  Behind a short payload the rest of the *)
(* slot was not supplied by anybody: it is gap like the bytes between two slots and carries the     *)
(* device's pattern (not the padding of some intermediate buffer).  The reader says of every gap    *)
(* how many of its leading bytes are such a slot rest (`rest`), so that the clause is bound to the  *)
(* bytes of the real image separately.                                                             *)
(* The state machine below is the READER of such an image: Build (or Refuse when no segment lies   *)
(* at or behind the requested start), then Gap / Seg steps that move a cursor through the image,   *)
(* End at the total length, Parse, one ParseSeg per included segment, Done.  Real executions are   *)
(* bound to these actions by BimgTrace; BimgMC enumerates the cases and checks the lemmas.         *)
EXTENDS Integers, Sequences, FiniteSets, TLC, Json, IOUtils
Tables == JsonDeserialize(IOEnv.TABLE_FILE)     \* <<[sig, pat, segs : <<[name, off, size, al, opt, raw, fixed, lens]>>]>>
                                                \* fixed: parse returns exactly `size` bytes (raw: opaque as well)
VARIABLES tb,     \* index of the table
          cs,     \* the case: [present : Seq(BOOLEAN), plen : Seq(Nat), req : Nat]
          ph,     \* "new" -> "walk" -> "parse" -> "psegs" -> "done"   |   "new" -> "refused"
          cur,    \* cursor of the reader in the exported image
          nx,     \* next included segment (table index), Len + 1 when there is none
          act     \* the last step with its numbers (binding point for traces)
vars == <<tb, cs, ph, cur, nx, act>>

ToSet(s) == { s[i] : i \in DOMAIN s }
Min(A) == CHOOSE x \in A : \A y \in A : x <= y
Max(A) == CHOOSE x \in A : \A y \in A : x >= y
Align(n, a) == ((n + a - 1) \div a) * a

\* ---- layout of table sg under case c (parameterised so that Init of the MC form can use it)
StaticIn(sg, i) == sg[i].off >= 0
LenIn(c, i) == IF c.present[i] THEN c.plen[i] ELSE 0
RECURSIVE PosIn(_, _, _)
PosIn(sg, c, i) == IF StaticIn(sg, i) THEN sg[i].off
                   ELSE Align(PosIn(sg, c, i - 1) + LenIn(c, i - 1), sg[i].al)      \* aligned end of the predecessor
StaticOffsIn(sg) == { sg[i].off : i \in { j \in DOMAIN sg : StaticIn(sg, j) } }

Segs == Tables[tb].segs
S == DOMAIN Segs
Static(i) == StaticIn(Segs, i)
SegLen(i) == LenIn(cs, i)               \* a segment occupies exactly its payload; what follows up to its nominal size is gap
Pos(i) == PosIn(Segs, cs, i)            \* offset in the full image
StaticOffs == StaticOffsIn(Segs)
Upper(r) == { o \in StaticOffs : o >= r }
Refused == cs.req > 0 /\ Upper(cs.req) = {}                    \* nothing lies at or behind the requested start
Eff == IF cs.req = 0 \/ Refused THEN 0 ELSE Min(Upper(cs.req))  \* effective start: the closest static segment start
Included(i) == cs.present[i] /\ Pos(i) >= Eff
Off(i) == Pos(i) - Eff                  \* offset in the exported image
Inc == { i \in S : Included(i) }
NextInc(k) == IF { i \in Inc : i > k } = {} THEN Len(Segs) + 1 ELSE Min({ i \in Inc : i > k })
PrevInc(k) == IF { i \in Inc : i < k } = {} THEN 0 ELSE Max({ i \in Inc : i < k })
\* ---- length classes of a payload of n bytes for segment i of table sg (part of the case space: BimgMC enumerates every class of every
\*      segment kind that has a nominal size, on every table - i.e. with either fill pattern the device database knows for that kind)
LenClassIn(sg, i, n) == IF sg[i].size = 0 THEN "free" ELSE IF n < sg[i].size THEN "short" ELSE IF n = sg[i].size THEN "nominal" ELSE "long"
LenClass(i) == LenClassIn(Segs, i, SegLen(i))
\* the unused rest of the slot of included segment i: zero for a free / nominal / long payload
Unused(i) == IF Segs[i].size > SegLen(i) THEN Segs[i].size - SegLen(i) ELSE 0
\* how many leading bytes of the gap in front of included segment k are the unused rest of its predecessor's slot
SlotRest(k) == LET p == PrevInc(k) IN IF p = 0 THEN 0 ELSE Min({ Off(k) - (Off(p) + SegLen(p)), Unused(p) })
\* ... and the same seen from the segment that leaves the rest behind (0 for the last segment: the image ends with its payload)
RestBehind(i) == IF NextInc(i) \in S THEN SlotRest(NextInc(i)) ELSE 0
\* a fixed-size block longer than its nominal size cannot come back whole (parse cuts it at the size): outside the asserted domain of parse
ParseAsserted(i) == ~(Segs[i].fixed /\ cs.plen[i] > Segs[i].size)

Refuse == /\ ph = "new" /\ Refused /\ ph' = "refused"
          /\ act' = [a |-> "Build", refused |-> TRUE, eff |-> 0] /\ UNCHANGED <<tb, cs, cur, nx>>
Build == /\ ph = "new" /\ ~Refused /\ ph' = "walk" /\ cur' = 0 /\ nx' = NextInc(0)
         /\ act' = [a |-> "Build", refused |-> FALSE, eff |-> Eff] /\ UNCHANGED <<tb, cs>>
Gap == /\ ph = "walk" /\ nx \in S /\ Off(nx) > cur /\ cur' = Off(nx)
       /\ act' = [a |-> "Gap", from |-> cur, to |-> Off(nx), rest |-> SlotRest(nx)] /\ UNCHANGED <<tb, cs, ph, nx>>
Seg == /\ ph = "walk" /\ nx \in S /\ Off(nx) = cur /\ cur' = cur + SegLen(nx) /\ nx' = NextInc(nx)
       /\ act' = [a |-> "Seg", i |-> nx, at |-> cur, len |-> SegLen(nx)] /\ UNCHANGED <<tb, cs, ph>>
End == /\ ph = "walk" /\ nx \notin S /\ ph' = "parse" /\ nx' = NextInc(0)
       /\ act' = [a |-> "End", total |-> cur] /\ UNCHANGED <<tb, cs, cur>>
Parse == /\ ph = "parse" /\ ph' = "psegs" /\ act' = [a |-> "Parse"] /\ UNCHANGED <<tb, cs, cur, nx>>
ParseSeg == /\ ph = "psegs" /\ nx \in S /\ nx' = NextInc(nx)
            /\ act' = [a |-> "PSeg", i |-> nx, asserted |-> ParseAsserted(nx)] /\ UNCHANGED <<tb, cs, ph, cur>>
Done == /\ ph = "psegs" /\ nx \notin S /\ ph' = "done" /\ act' = [a |-> "Done"] /\ UNCHANGED <<tb, cs, cur, nx>>
Next == Refuse \/ Build \/ Gap \/ Seg \/ End \/ Parse \/ ParseSeg \/ Done

\* ---- lemmas (checked by BimgMC on every state of every case)
NoOverlap == \A i, j \in Inc : i < j => Off(i) + SegLen(i) <= Off(j)
StartsWhereTold == \A i \in Inc : Static(i) => Off(i) = Segs[i].off - Eff
DynamicFollows == \A i \in Inc : ~Static(i) =>
                     /\ i - 1 \in Inc
                     /\ Off(i) >= Off(i - 1) + SegLen(i - 1)                       \* behind the predecessor ...
                     /\ Off(i) - (Off(i - 1) + SegLen(i - 1)) < Segs[i].al         \* ... by less than one alignment unit ...
                     /\ Pos(i) % Segs[i].al = 0                                    \* ... aligned in the full image
InitSnap == ~Refused => /\ (cs.req = 0 => Eff = 0)
                        /\ (cs.req \in StaticOffs => Eff = cs.req)
                        /\ (cs.req > 0 => Eff \in StaticOffs /\ Eff >= cs.req /\ \A o \in StaticOffs : o >= cs.req => Eff <= o)
FirstAtZero == ~Refused /\ cs.req > 0 /\ (\E i \in Inc : Static(i) /\ Segs[i].off = Eff) => \E i \in Inc : Off(i) = 0
CursorMonotone == ph = "walk" /\ nx \in S => Off(nx) >= cur
\* the rest of a slot is gap: it lies between the payload and the next included segment, and nothing else lies there
SlotRestIsGap == ph \in {"new", "live"} =>          \* depends on table and case only: evaluated once per case / after every change of a live object
                 \A i \in Inc : LET r == RestBehind(i)
                                     e == Off(i) + SegLen(i)
                                     n == NextInc(i)
                                 IN /\ r <= Unused(i)
                                    /\ (n \in S => e + r <= Off(n))
                                    /\ (n \in S /\ LenClass(i) = "short" /\ Off(n) > e => r > 0)
                                    /\ \A j \in Inc : ~(e <= Off(j) /\ Off(j) < e + r)
TotalIsEnd == ph \in {"parse", "psegs", "done"} => Inc # {} /\ cur = Max({ Off(i) + SegLen(i) : i \in Inc })
=============================================================================
