---------------------------- MODULE BimgHistGen ----------------------------
(* MC + GEN form of the history layer: the history itself is part of the state, so every distinct  *)
(* sequence of changes is a distinct behaviour; TLC enumerates them (exhaustive lanes) or draws    *)
(* them (-simulate), checks the lemmas of Bimg / BimgHist on every state and prints each finished  *)
(* history with the placement the R-spec expects after every export.                               *)
(*    lane  "init"   : the initial offset is changed (every start of the menu to every other)      *)
(*          "all"    : + segments supplied / replaced / cleared                                    *)
(*          "parsed" : the first step is the parse of the object's own export, then as "all"       *)
(*          "sim"    : everything, in any order, exports only where TLC puts them                  *)
(*    H_D_<LANE> number of changes per history (0 = lane off);  H_SNAP = 1: starts one below a     *)
(*    segment start (snap up) are in the menu of requested starts;  H_R0 = "zero": the object is   *)
(*    created as a full image only (else with every start of the menu)                             *)
EXTENDS BimgHist
VARIABLES lane,   \* which family of histories this behaviour belongs to
          c0,     \* the case the object was created with
          hist,   \* the changes, exports and parses so far
          fin
\* number of changes per history in each lane (0: lane switched off)
LaneDepth == [init |-> atoi(IOEnv.H_D_INIT), all |-> atoi(IOEnv.H_D_ALL), parsed |-> atoi(IOEnv.H_D_PARSED), sim |-> atoi(IOEnv.H_D_SIM)]
Lanes == { x \in {"init", "all", "parsed", "sim"} : LaneDepth[x] > 0 }
Depth == LaneDepth[lane]
Alpha == lane
Snap == IOEnv.H_SNAP = "1"
Free == Alpha = "sim"                               \* changes may follow each other without an export in between
WithSegs == Alpha \in {"all", "parsed", "sim"}
WithParse == (Alpha = "parsed" /\ hn = 0) \/ Alpha = "sim"
ParseFirst == Alpha = "parsed" /\ hn = 0

\* history menu of payload lengths: the shortest and the nominal / longest one of the case menu (a fixed-size block: created with the
\* nominal length, replaced by one that is shorter than its slot - the rest of the slot turns into gap on the live object - and back)
HLens(sg, i) == IF sg[i].fixed THEN {sg[i].lens[1], sg[i].size} ELSE {sg[i].lens[1], sg[i].lens[Len(sg[i].lens)]}
HLen0(sg, i) == IF sg[i].fixed THEN sg[i].size ELSE sg[i].lens[1]
HReqs(sg) == LET so == StaticOffsIn(sg) IN {0} \cup so \cup (IF Snap THEN { o - 1 : o \in so \ {0} } ELSE {})

HGInit == /\ lane \in Lanes /\ tb \in DOMAIN Tables
          /\ cs \in { [present |-> Mat([i \in DOMAIN Tables[tb].segs |-> TRUE]),
                       plen |-> Mat([i \in DOMAIN Tables[tb].segs |-> HLen0(Tables[tb].segs, i)]),
                       req |-> r] : r \in (IF IOEnv.H_R0 = "zero" THEN {0} ELSE HReqs(Tables[tb].segs)) }
          /\ c0 = cs /\ hist = <<>> /\ fin = FALSE
          /\ ph = "new" /\ cur = 0 /\ nx = 0 /\ act = [a |-> "Init"]
          /\ hn = 0 /\ seen = Mat([i \in DOMAIN Tables[tb].segs |-> FALSE]) /\ pp = Mat([i \in DOMAIN Tables[tb].segs |-> 0])

Place == Mat([i \in S |-> IF Included(i) THEN <<Off(i), SegLen(i)>> ELSE <<0 - 1, 0>>])
Rests == Mat([i \in S |-> IF Included(i) THEN RestBehind(i) ELSE 0])
Keep == UNCHANGED <<lane, c0, hist, fin>>
Rec(a) == hist' = Append(hist, a) /\ UNCHANGED <<lane, c0, fin>>
MayChange == hn < Depth /\ ~ParseFirst /\ (Free \/ ph \in {"parse", "done"})

GBuild == HBuild /\ Rec([a |-> "Build", eff |-> Eff, place |-> Place, rest |-> Rests, total |-> Total])
GGap == HGap /\ Keep
GSeg == HSeg /\ Keep
GEnd == HEnd /\ Keep
GSetInit == MayChange /\ \E r \in HReqs(Segs) \ {cs.req} : HSetInit(r) /\ Rec(act')
GSetSeg == MayChange /\ WithSegs /\ \E i \in S : \E n \in HLens(Segs, i) :
              (~cs.present[i] \/ n # cs.plen[i]) /\ HSetSeg(i, n) /\ Rec(act')
GClearSeg == MayChange /\ WithSegs /\ \E i \in S : HClearSeg(i) /\ Rec(act')
GExport == HExport /\ Rec([a |-> "Export", eff |-> Eff, place |-> Place, rest |-> Rests, total |-> Total])
GParse == WithParse /\ hn < Depth /\ HParse /\ Rec([a |-> "Parse"])
\* the generator's stand-in for the length parse returns: the payload, a fixed-size block filled up to its size
GParseSeg == HParseSeg(IF Segs[nx].size > SegLen(nx) THEN Segs[nx].size ELSE SegLen(nx)) /\ Keep
GDone == HDone /\ Keep
GReparse == WithParse /\ hn < Depth /\ HReparse /\ Rec(act')
\* a finished history (all changes made, last export read) is printed exactly once
Emit == /\ ph = "parse" /\ hn = Depth /\ ~fin /\ fin' = TRUE
        /\ PrintT(ToJson([lane |-> lane, tb |-> tb, present |-> c0.present, plen |-> c0.plen, req |-> c0.req, hist |-> hist]))
        /\ UNCHANGED <<hvars, lane, c0, hist>>
HGNext == GBuild \/ GGap \/ GSeg \/ GEnd \/ GSetInit \/ GSetSeg \/ GClearSeg \/ GExport \/ GParse \/ GParseSeg \/ GDone \/ GReparse \/ Emit

HTypeOK == /\ ph \in {"new", "walk", "parse", "psegs", "done", "live"} /\ cur \in Nat /\ nx \in 0..(Len(Segs) + 1)
           /\ hn \in 0..Depth /\ Len(seen) = Len(Segs) /\ Len(pp) = Len(Segs)
=============================================================================
