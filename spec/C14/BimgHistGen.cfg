INIT HGInit
NEXT HGNext
INVARIANT HTypeOK
INVARIANT CaseOK
INVARIANT NoOverlap
INVARIANT StartsWhereTold
INVARIANT DynamicFollows
INVARIANT InitSnap
INVARIANT FirstAtZero
INVARIANT CursorMonotone
INVARIANT TotalIsEnd
INVARIANT SlotRestIsGap
CHECK_DEADLOCK FALSE
