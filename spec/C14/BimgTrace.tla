----------------------------- MODULE BimgTrace -----------------------------
(* TV form: one trace per executed case or history.  The header of a trace gives table and the    *)
(* case the object was created with, the events are what the executor did to the real             *)
(* BootableImage (changes of the live object), what it saw in the bytes exported by it and what    *)
(* the real parser returned.  Every step must be the next action of Bimg / BimgHist with exactly   *)
(* the logged numbers; after every change the reader walks the image of the CURRENT case.          *)
EXTENDS BimgHist
Traces == ndJsonDeserialize(IOEnv.TRACE_FILE)
VARIABLES tid, l
tvars == <<tb, cs, ph, cur, nx, act, hn, seen, pp, tid, l>>
T == Traces[tid].ev
E == T[l]
Is(e) == l <= Len(T) /\ E.ev = e
Adv == l' = l + 1 /\ UNCHANGED tid
TInit == /\ tid \in 1..Len(Traces) /\ l = 1 /\ tb = Traces[tid].tb
         /\ cs = [present |-> Traces[tid].present, plen |-> Traces[tid].plen, req |-> Traces[tid].req]
         /\ ph = "new" /\ cur = 0 /\ nx = 0 /\ act = [a |-> "Init"]
         /\ hn = 0 /\ seen = Mat([i \in DOMAIN Traces[tid].present |-> FALSE]) /\ pp = Mat([i \in DOMAIN Traces[tid].present |-> 0])
         /\ TLCSet(tid, 1)
\* the build is refused exactly when nothing lies behind the requested start; otherwise the image starts where InitSnap says
TBuild == /\ Is("Build") /\ (HRefuse \/ HBuild) /\ act'.refused = E.refused /\ (~E.refused => act'.eff = E.eff) /\ Adv
\* bytes between two segments: exactly the predicted range, all of them the device pattern - the leading `rest` bytes, which are the
\* unused part of the slot of a fixed-size segment whose payload is shorter than the slot, just like the bytes between two slots
TGap == /\ Is("Gap") /\ HGap /\ E.from = act'.from /\ E.to = act'.to /\ E.rest = act'.rest /\ E.restPat /\ E.pat /\ Adv
\* traces of the lane "container kinds" (BimgKinds) name in their header the kind of the application container, the form in which the
\* configuration supplied it (binary file / YAML configuration of the container: the segment holds the container object) and the route; the
\* payload length of the header is the length of the container's STANDALONE export.  What lies in the image at the container's place is that
\* container: byte-identical when the construction is deterministic, else equal outside the signature with a signature that verifies
\* (facts evaluated by the executor with an independent trusted base) - whatever the form and the route
HasKd == "kd" \in DOMAIN Traces[tid]
Kd == Traces[tid].kd
ContOk == HasKd /\ Segs[E.i].cont => /\ Kd.form \in {"bin", "yaml"} /\ Kd.route \in {"api", "cli"}
                                      /\ (IF Kd.det THEN E.same ELSE E.sameOutside /\ E.acc)
\* the next included segment: its payload is found at the cursor, complete, and the API reports the same offset and length
TSeg == /\ Is("Seg") /\ HSeg /\ E.i = act'.i /\ E.at = act'.at /\ E.len = act'.len /\ E.ok
        /\ E.apiOff = E.at /\ E.apiLen = E.len /\ ContOk /\ Adv
TEnd == /\ Is("End") /\ HEnd /\ E.total = act'.total /\ E.apiLen = act'.total /\ Adv
TParse == /\ Is("Parse") /\ HParse /\ E.ok /\ Adv
\* the parsed segment starts with the supplied bytes; anything behind them is fill
TPSeg == /\ Is("PSeg") /\ HParseSeg(E.plen) /\ E.i = act'.i
         /\ (act'.asserted => E.present /\ E.prefixOk /\ E.tailPat /\ E.plen >= SegLen(E.i))
         /\ Adv
TDone == /\ Is("Done") /\ HDone /\ Adv
\* ---- the live object is changed: the setter is not refused and the object reports the start the R-spec computes
TSetInit == /\ Is("SetInit") /\ ~E.refused /\ HSetInit(E.req) /\ act'.eff = E.eff /\ Adv
TSetSeg == /\ Is("SetSeg") /\ HSetSeg(E.i, E.len) /\ Adv
TClearSeg == /\ Is("ClearSeg") /\ HClearSeg(E.i) /\ Adv
TExport == /\ Is("Export") /\ HExport /\ act'.eff = E.eff /\ Adv
TReparse == /\ Is("Reparse") /\ HReparse /\ act'.eff = E.eff /\ Adv
TNext == TBuild \/ TGap \/ TSeg \/ TEnd \/ TParse \/ TPSeg \/ TDone \/ TSetInit \/ TSetSeg \/ TClearSeg \/ TExport \/ TReparse
Constr == IF TLCGet(tid) < l THEN TLCSet(tid, l) ELSE TRUE
Post == \A i \in 1..Len(Traces) :
          \/ TLCGet(i) - 1 = Len(Traces[i].ev)
          \/ PrintT(<<"REJ", Traces[i].id, TLCGet(i) - 1, Len(Traces[i].ev),
                      Traces[i].ev[IF TLCGet(i) <= Len(Traces[i].ev) THEN TLCGet(i) ELSE Len(Traces[i].ev)].ev>>)
=============================================================================
