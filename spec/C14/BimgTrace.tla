----------------------------- MODULE BimgTrace -----------------------------
(* TV form: one trace per executed case.  The header of a trace gives table and case, the events  *)
(* are what the executor saw in the bytes exported by the real BootableImage and what the real    *)
(* parser returned.  Every step must be the reader's next action with exactly the logged numbers. *)
EXTENDS Bimg
Traces == ndJsonDeserialize(IOEnv.TRACE_FILE)
VARIABLES tid, l
tvars == <<tb, cs, ph, cur, nx, act, tid, l>>
T == Traces[tid].ev
E == T[l]
Is(e) == l <= Len(T) /\ E.ev = e
Adv == l' = l + 1 /\ UNCHANGED tid
TInit == /\ tid \in 1..Len(Traces) /\ l = 1 /\ tb = Traces[tid].tb
         /\ cs = [present |-> Traces[tid].present, plen |-> Traces[tid].plen, req |-> Traces[tid].req]
         /\ ph = "new" /\ cur = 0 /\ nx = 0 /\ act = [a |-> "Init"] /\ TLCSet(tid, 1)
\* the build is refused exactly when nothing lies behind the requested start; otherwise the image starts where InitSnap says
TBuild == /\ Is("Build") /\ (Refuse \/ Build) /\ act'.refused = E.refused /\ (~E.refused => act'.eff = E.eff) /\ Adv
\* bytes between two segments: exactly the predicted range, all of them the device pattern
TGap == /\ Is("Gap") /\ Gap /\ E.from = act'.from /\ E.to = act'.to /\ E.pat /\ Adv
\* the next included segment: its payload is found at the cursor, complete, and the API reports the same offset and length
TSeg == /\ Is("Seg") /\ Seg /\ E.i = act'.i /\ E.at = act'.at /\ E.len = act'.len /\ E.ok
        /\ E.apiOff = E.at /\ E.apiLen = E.len /\ Adv
TEnd == /\ Is("End") /\ End /\ E.total = act'.total /\ E.apiLen = act'.total /\ Adv
TParse == /\ Is("Parse") /\ Parse /\ E.ok /\ Adv
\* the parsed segment starts with the supplied bytes; anything behind them is fill
TPSeg == /\ Is("PSeg") /\ ParseSeg /\ E.i = act'.i
         /\ (act'.asserted => E.present /\ E.prefixOk /\ E.tailPat /\ E.plen >= SegLen(E.i))
         /\ Adv
TDone == /\ Is("Done") /\ Done /\ Adv
TNext == TBuild \/ TGap \/ TSeg \/ TEnd \/ TParse \/ TPSeg \/ TDone
Constr == IF TLCGet(tid) < l THEN TLCSet(tid, l) ELSE TRUE
Post == \A i \in 1..Len(Traces) :
          \/ TLCGet(i) - 1 = Len(Traces[i].ev)
          \/ PrintT(<<"REJ", Traces[i].id, TLCGet(i) - 1, Len(Traces[i].ev),
                      Traces[i].ev[IF TLCGet(i) <= Len(Traces[i].ev) THEN TLCGet(i) ELSE Len(Traces[i].ev)].ev>>)
=============================================================================
