------------------------------ MODULE BimgMC ------------------------------
(* MC + GEN form: the cases of every table are the initial states; the lemmas of Bimg are checked  *)
(* on every state of every walk; the first step of each case prints it with its expected placement. *)
EXTENDS Bimg
Full == IOEnv.GEN_FULL = "1"
RECURSIVE Prod(_, _, _)
\* payload length menu of a segment: all of it, or (small form) without the "one below the nominal size" class
Menu(sg, i) == IF Full \/ sg[i].size = 0 THEN ToSet(sg[i].lens) ELSE { n \in ToSet(sg[i].lens) : n # sg[i].size - 1 }
Prod(sg, p, i) == IF i = 0 THEN {<<>>}
                  ELSE { Append(f, x) : f \in Prod(sg, p, i - 1), x \in (IF p[i] THEN Menu(sg, i) ELSE {0}) }
Presents(sg) == { p \in [DOMAIN sg -> BOOLEAN] :
                    (\A i \in DOMAIN sg : ~sg[i].opt => p[i]) /\ (\A j \in DOMAIN sg : (sg[j].off < 0 /\ p[j]) => p[j - 1]) }   \* a dynamic segment needs its predecessor
HasDyn(sg) == \E i \in DOMAIN sg : sg[i].off < 0
\* requested starts: 0, every static segment start, one below (snaps up to it) and one above (snaps to the next, or is refused)
Reqs(sg) == LET so == StaticOffsIn(sg)
                all == {0} \cup so \cup { o + 1 : o \in so } \cup (IF Full THEN { o - 1 : o \in so } ELSE { Min((so \ {0}) \cup {1}) - 1 })
            IN { r \in all : r >= 0 /\ (HasDyn(sg) => r <= Max(so)) }    \* a start inside the dynamic part is not defined by the property
\* dependent bounds are illegal in one quantifier: build the set by nesting
Cases(t) == LET sg == Tables[t].segs IN
            UNION { UNION { { [present |-> p, plen |-> l, req |-> r] : r \in Reqs(sg) } : l \in Prod(sg, p, Len(sg)) } : p \in Presents(sg) }
Init == /\ tb \in DOMAIN Tables
        /\ cs \in Cases(tb)
        /\ ph = "new" /\ cur = 0 /\ nx = 0 /\ act = [a |-> "Init"]
Place == [i \in S |-> IF Included(i) THEN <<Off(i), SegLen(i)>> ELSE <<0 - 1, 0>>]
\* the unused slot bytes behind every included segment that are gap in this image, and the length class of every supplied payload
Rests == [i \in S |-> IF Included(i) THEN RestBehind(i) ELSE 0]
Classes == [i \in S |-> IF cs.present[i] THEN LenClassIn(Segs, i, cs.plen[i]) ELSE "absent"]
EmitCase == PrintT(ToJson([tb |-> tb, present |-> cs.present, plen |-> cs.plen, req |-> cs.req, refused |-> Refused, eff |-> Eff,
                           place |-> IF Refused THEN <<>> ELSE Place, rest |-> IF Refused THEN <<>> ELSE Rests, cls |-> Classes,
                           total |-> IF Refused \/ Inc = {} THEN 0 ELSE Max({ Off(i) + SegLen(i) : i \in Inc })]))
GRefuse == Refuse /\ EmitCase
GBuild == Build /\ EmitCase
GNext == GRefuse \/ GBuild \/ Gap \/ Seg \/ End \/ Parse \/ ParseSeg \/ Done
\* the case space holds every length class of every fixed-size segment kind of the table: shorter than the slot and nominal always,
\* longer where the next table offset leaves room behind the slot (payload sizes range up to the next segment's offset)
RoomIn(sg, i) == LET later == { sg[j].off : j \in { k \in DOMAIN sg : k > i /\ sg[k].off >= 0 } }
                 IN IF sg[i].off < 0 \/ later = {} THEN 0 ELSE Min(later) - sg[i].off
ClassesInMenu(sg, i) == { LenClassIn(sg, i, n) : n \in Menu(sg, i) }
ClassesCovered == ph = "new" => \A i \in S : Segs[i].fixed => /\ {"short", "nominal"} \subseteq ClassesInMenu(Segs, i)
                                                /\ (RoomIn(Segs, i) > Segs[i].size => "long" \in ClassesInMenu(Segs, i))
                                                /\ \A n \in Menu(Segs, i) : n > 0 /\ (RoomIn(Segs, i) > 0 => n <= RoomIn(Segs, i))
TypeOK == /\ ph \in {"new", "walk", "parse", "psegs", "done", "refused"} /\ cur \in Nat /\ nx \in 0..(Len(Segs) + 1)
          /\ Len(cs.present) = Len(Segs) /\ Len(cs.plen) = Len(Segs)
=============================================================================
