INIT KInit
NEXT KNext
INVARIANT KTypeOK
INVARIANT OfferOK
INVARIANT NeverRefused
INVARIANT ContainerWhole
INVARIANT StartsWithContainer
INVARIANT NoOverlap
INVARIANT StartsWhereTold
INVARIANT DynamicFollows
INVARIANT InitSnap
INVARIANT FirstAtZero
INVARIANT CursorMonotone
INVARIANT TotalIsEnd
INVARIANT SlotRestIsGap
CHECK_DEADLOCK FALSE
