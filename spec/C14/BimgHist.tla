----------------------------- MODULE BimgHist -----------------------------
(* History layer of the R-spec of C14: ONE bootable image object that lives on after it was built. *)
(*                                                                                                 *)
(* The property speaks about the image that a table and a case (supplied segments, payload         *)
(* lengths, requested start) determine.  An object that is changed after its creation - another    *)
(* initial offset (up, down, back to 0), a segment supplied, replaced or cleared, a parse of its   *)
(* own export taking its place - is, at every moment, in exactly one such case: the CURRENT one.   *)
(* Its export must therefore be the image Bimg prescribes for the current case, whatever the       *)
(* history that led there (the same image a fresh object with the final settings gives).           *)
(*                                                                                                 *)
(* The abstract state of the object is `cs` itself; every public mutator is an action on it:       *)
(*    HSetInit(r)    init_offset setter / set_init_offset(number or segment)                       *)
(*    HSetSeg(i, n)  load_config() of segment i with a payload of n bytes (supply or replace)      *)
(*    HClearSeg(i)   clear() of segment i                                                          *)
(*    HExport        export() - starts a new walk of the reader of Bimg over the current case      *)
(*    HReparse       the object returned by parse(export()) takes the place of the object          *)
(* `seen` says of which segments the user holds a reference: a segment object can be reached       *)
(* through the public `segments` list only while it is part of the image.                          *)
EXTENDS Bimg
VARIABLES hn,     \* number of changes made to the object so far
          seen,   \* seen[i]: a reference to segment i of this object was obtainable at some export
          pp      \* length of segment i as the last parse returned it (0: not returned)
hvars == <<tb, cs, ph, cur, nx, act, hn, seen, pp>>

Mat(f) == f \o <<>>                              \* materialise a function over 1..n as a tuple
Zero == Mat([i \in S |-> 0])
None == Mat([i \in S |-> FALSE])
Vis == Mat([i \in S |-> Included(i)])            \* what the `segments` list of the object shows
Held == Mat([i \in S |-> seen[i] \/ Included(i)])
AtRest == ph \in {"parse", "done", "live"}       \* exported (and maybe parsed), or changed and not exported yet
Total == IF Inc = {} THEN 0 ELSE Max({ Off(i) + SegLen(i) : i \in Inc })

\* ---- the steps of Bimg, with the history variables
HRefuse == Refuse /\ UNCHANGED <<hn, seen, pp>>
HBuild == Build /\ seen' = Vis /\ UNCHANGED <<hn, pp>>
HGap == Gap /\ UNCHANGED <<hn, seen, pp>>
HSeg == Seg /\ UNCHANGED <<hn, seen, pp>>
HEnd == End /\ UNCHANGED <<hn, seen, pp>>
HParse == Parse /\ pp' = Zero /\ UNCHANGED <<hn, seen>>
HParseSeg(n) == ParseSeg /\ pp' = [pp EXCEPT ![nx] = n] /\ UNCHANGED <<hn, seen>>     \* n: length of the segment the parser returned
HDone == Done /\ UNCHANGED <<hn, seen, pp>>

\* ---- mutators: each one only changes the current case
\* a new initial offset: legal when 0 or when a static segment lies at or behind it (a refused request is a case of Bimg, not a history
\* step: what a refused setter leaves behind is not settled by the property); the object reports the snapped start
HSetInit(r) == /\ AtRest /\ r >= 0
               /\ (r = 0 \/ Upper(r) # {})
               /\ tb' = tb /\ cs' = [cs EXCEPT !.req = r]
               /\ Inc' # {}
               /\ ph' = "live" /\ hn' = hn + 1 /\ pp' = Zero
               /\ act' = [a |-> "SetInit", req |-> r, eff |-> Eff']
               /\ UNCHANGED <<cur, nx, seen>>
\* segment i gets a (new) payload of n bytes; it may currently lie in front of the start (then it shows up when the start moves back)
HSetSeg(i, n) == /\ AtRest /\ i \in S /\ n > 0 /\ seen[i]
                 /\ (Segs[i].off < 0 => cs.present[i - 1])
                 /\ cs' = [cs EXCEPT !.present[i] = TRUE, !.plen[i] = n]
                 /\ ph' = "live" /\ hn' = hn + 1 /\ pp' = Zero
                 /\ act' = [a |-> "SetSeg", i |-> i, len |-> n]
                 /\ UNCHANGED <<tb, cur, nx, seen>>
\* an optional segment is taken out again (the application container is mandatory; a floating segment needs its predecessor)
HClearSeg(i) == /\ AtRest /\ i \in S /\ seen[i] /\ cs.present[i] /\ Segs[i].opt
                /\ ~(i + 1 \in S /\ Segs[i + 1].off < 0 /\ cs.present[i + 1])
                /\ tb' = tb /\ cs' = [cs EXCEPT !.present[i] = FALSE, !.plen[i] = 0]
                /\ Inc' # {}
                /\ ph' = "live" /\ hn' = hn + 1 /\ pp' = Zero
                /\ act' = [a |-> "ClearSeg", i |-> i]
                /\ UNCHANGED <<cur, nx, seen>>
\* export of the changed object: the reader of Bimg starts again, over the CURRENT case
HExport == /\ ph = "live" /\ ph' = "walk" /\ cur' = 0 /\ nx' = NextInc(0)
           /\ seen' = Held
           /\ act' = [a |-> "Export", eff |-> Eff]
           /\ UNCHANGED <<tb, cs, hn, pp>>
\* the object that parse() returned for the last export takes over: it holds the included segments as they were returned
\* (a fixed-size block padded with fill bytes up to its size) and starts where the image started
HReparse == /\ ph = "done" /\ \A i \in Inc : ParseAsserted(i) /\ pp[i] >= SegLen(i)
            /\ cs' = [present |-> Vis, plen |-> Mat([i \in S |-> IF Included(i) THEN pp[i] ELSE 0]), req |-> Eff]
            /\ seen' = Vis
            /\ ph' = "live" /\ hn' = hn + 1 /\ pp' = Zero
            /\ act' = [a |-> "Reparse", eff |-> Eff]
            /\ UNCHANGED <<tb, cur, nx>>

\* ---- lemma: after a change the object is again a well-formed case (BimgHistGen checks it together with the lemmas of Bimg)
CaseOK == /\ Len(cs.present) = Len(Segs) /\ Len(cs.plen) = Len(Segs)
          /\ \A i \in S : (cs.present[i] <=> cs.plen[i] > 0) /\ (cs.present[i] /\ Segs[i].off < 0 => cs.present[i - 1])
          /\ ph # "refused" => Inc # {}
=============================================================================
