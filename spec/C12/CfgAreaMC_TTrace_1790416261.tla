---- MODULE CfgAreaMC_TTrace_1790416261 ----
EXTENDS Sequences, TLCExt, CfgAreaMC, Toolbox, Naturals, TLC

_expression ==
    LET CfgAreaMC_TEExpression == INSTANCE CfgAreaMC_TEExpression
    IN CfgAreaMC_TEExpression!expression
----

_trace ==
    LET CfgAreaMC_TETrace == INSTANCE CfgAreaMC_TETrace
    IN CfgAreaMC_TETrace!trace
----

_inv ==
    ~(
        TLCGet("level") = Len(_TETrace)
        /\
        gen = (3)
        /\
        act = ([w |-> <<[r |-> 1, f |-> 1, v |-> <<>>, aw |-> 0]>>, a |-> "SetValues"])
        /\
        lay = (2)
        /\
        cfg = ([ok |-> FALSE, b |-> <<>>, nrm |-> FALSE])
        /\
        bin = ([ok |-> FALSE, b |-> <<>>, nrm |-> FALSE])
        /\
        nrm = (TRUE)
        /\
        bits = (<<{2, 3, 30, 31}, {24, 30, 31}, {}>>)
    )
----

_init ==
    /\ lay = _TETrace[1].lay
    /\ nrm = _TETrace[1].nrm
    /\ bin = _TETrace[1].bin
    /\ act = _TETrace[1].act
    /\ gen = _TETrace[1].gen
    /\ bits = _TETrace[1].bits
    /\ cfg = _TETrace[1].cfg
----

_next ==
    /\ \E i,j \in DOMAIN _TETrace:
        /\ \/ /\ j = i + 1
              /\ i = TLCGet("level")
        /\ lay  = _TETrace[i].lay
        /\ lay' = _TETrace[j].lay
        /\ nrm  = _TETrace[i].nrm
        /\ nrm' = _TETrace[j].nrm
        /\ bin  = _TETrace[i].bin
        /\ bin' = _TETrace[j].bin
        /\ act  = _TETrace[i].act
        /\ act' = _TETrace[j].act
        /\ gen  = _TETrace[i].gen
        /\ gen' = _TETrace[j].gen
        /\ bits  = _TETrace[i].bits
        /\ bits' = _TETrace[j].bits
        /\ cfg  = _TETrace[i].cfg
        /\ cfg' = _TETrace[j].cfg

\* Uncomment the ASSUME below to write the states of the error trace
\* to the given file in Json format. Note that you can pass any tuple
\* to `JsonSerialize`. For example, a sub-sequence of _TETrace.
    \* ASSUME
    \*     LET J == INSTANCE Json
    \*         IN J!JsonSerialize("CfgAreaMC_TTrace_1790416261.json", _TETrace)

=============================================================================

 Note that you can extract this module `CfgAreaMC_TEExpression`
  to a dedicated file to reuse `expression` (the module in the 
  dedicated `CfgAreaMC_TEExpression.tla` file takes precedence 
  over the module `CfgAreaMC_TEExpression` below).

---- MODULE CfgAreaMC_TEExpression ----
EXTENDS Sequences, TLCExt, CfgAreaMC, Toolbox, Naturals, TLC

expression == 
    [
        \* To hide variables of the `CfgAreaMC` spec from the error trace,
        \* remove the variables below.  The trace will be written in the order
        \* of the fields of this record.
        lay |-> lay
        ,nrm |-> nrm
        ,bin |-> bin
        ,act |-> act
        ,gen |-> gen
        ,bits |-> bits
        ,cfg |-> cfg
        
        \* Put additional constant-, state-, and action-level expressions here:
        \* ,_stateNumber |-> _TEPosition
        \* ,_layUnchanged |-> lay = lay'
        
        \* Format the `lay` variable as Json value.
        \* ,_layJson |->
        \*     LET J == INSTANCE Json
        \*     IN J!ToJson(lay)
        
        \* Lastly, you may build expressions over arbitrary sets of states by
        \* leveraging the _TETrace operator.  For example, this is how to
        \* count the number of times a spec variable changed up to the current
        \* state in the trace.
        \* ,_layModCount |->
        \*     LET F[s \in DOMAIN _TETrace] ==
        \*         IF s = 1 THEN 0
        \*         ELSE IF _TETrace[s].lay # _TETrace[s-1].lay
        \*             THEN 1 + F[s-1] ELSE F[s-1]
        \*     IN F[_TEPosition - 1]
    ]

=============================================================================



Parsing and semantic processing can take forever if the trace below is long.
 In this case, it is advised to uncomment the module below to deserialize the
 trace from a generated binary file.

\*
\*---- MODULE CfgAreaMC_TETrace ----
\*EXTENDS IOUtils, CfgAreaMC, TLC
\*
\*trace == IODeserialize("CfgAreaMC_TTrace_1790416261.bin", TRUE)
\*
\*=============================================================================
\*

---- MODULE CfgAreaMC_TETrace ----
EXTENDS CfgAreaMC, TLC

trace == 
    <<
    ([gen |-> 1,act |-> [a |-> "NewObject"],lay |-> 2,cfg |-> [ok |-> FALSE, b |-> <<>>, nrm |-> FALSE],bin |-> [ok |-> FALSE, b |-> <<>>, nrm |-> FALSE],nrm |-> TRUE,bits |-> <<{2, 3, 30, 31}, {24, 30, 31}, {}>>]),
    ([gen |-> 2,act |-> [a |-> "NewObject"],lay |-> 2,cfg |-> [ok |-> FALSE, b |-> <<>>, nrm |-> FALSE],bin |-> [ok |-> FALSE, b |-> <<>>, nrm |-> FALSE],nrm |-> TRUE,bits |-> <<{2, 3, 30, 31}, {24, 30, 31}, {}>>]),
    ([gen |-> 3,act |-> [a |-> "NewObject"],lay |-> 2,cfg |-> [ok |-> FALSE, b |-> <<>>, nrm |-> FALSE],bin |-> [ok |-> FALSE, b |-> <<>>, nrm |-> FALSE],nrm |-> TRUE,bits |-> <<{2, 3, 30, 31}, {24, 30, 31}, {}>>]),
    ([gen |-> 3,act |-> [w |-> <<[r |-> 1, f |-> 1, v |-> <<>>, aw |-> 0]>>, a |-> "SetValues"],lay |-> 2,cfg |-> [ok |-> FALSE, b |-> <<>>, nrm |-> FALSE],bin |-> [ok |-> FALSE, b |-> <<>>, nrm |-> FALSE],nrm |-> TRUE,bits |-> <<{2, 3, 30, 31}, {24, 30, 31}, {}>>])
    >>
----


=============================================================================

---- CONFIG CfgAreaMC_TTrace_1790416261 ----

INVARIANT
    _inv

CHECK_DEADLOCK
    \* CHECK_DEADLOCK off because of PROPERTY or INVARIANT above.
    FALSE

INIT
    _init

NEXT
    _next

CONSTANT
    _TETrace <- _trace

ALIAS
    _expression
=============================================================================
\* Generated on Sat Sep 26 09:51:03 UTC 2026