---------------------------- MODULE CfgAreaTrace ----------------------------
(* TV form: every trace is the record of one real area object history (all numbers observed on the real code are  *)
(* logged); every step must be the spec action named by the event, every logged observation must equal what the   *)
(* spec computes.  The first clause that fails is remembered per trace (TLCSet) and reported from the             *)
(* POSTCONDITION:  <<"REJ", id, matched, len, event, clause, register>>.                                          *)
EXTENDS CfgArea
Traces == ndJsonDeserialize(IOEnv.TRACE_FILE)
N == Len(Traces)
VARIABLES tid, l
tvars == <<lay, bits, cfg, bin, nrm, gen, act, tid, l>>
T == Traces[tid].ev
E == T[l]
Is(e) == l <= Len(T) /\ E.a = e
Adv == l' = l + 1 /\ UNCHANGED tid
Fail(name, r) == TLCSet(N + tid, name) /\ TLCSet(2 * N + tid, r) /\ FALSE
Check(name, cond) == IF cond THEN TRUE ELSE Fail(name, 0)
\* L.free: leaves that are not asserted per register (overlapping descriptions, ambiguous presets)
Asserted(b) == Active(L, b) \ ToSet(L.free)
\* the logged projection of the real object (raw bits of every leaf) equals the spec state
StateMatches(name, b, P) ==
  LET bad == {r \in Asserted(b) : b[r] # ToSet(P[r])}
  IN IF bad = {} THEN TRUE ELSE Fail(name, CHOOSE r \in bad : \A x \in bad : r <= x)
\* the values decoded from the exported bytes at the offsets of the layout equal the spec state
BinMatches(name, b, P) ==
  LET bad == {r \in Asserted(b) : b[r] # ToSet(P[r])}
  IN IF bad = {} THEN TRUE ELSE Fail(name, CHOOSE r \in bad : \A x \in bad : r <= x)
Decoded(P) == [r \in LeafSet(L) |-> ToSet(P[r])]

TInit == /\ tid \in 1..N /\ l = 1 /\ lay = Traces[tid].lay
         /\ bits = Fresh(Layouts[Traces[tid].lay]) /\ nrm = (Computed(Layouts[Traces[tid].lay]) = {}) /\ gen = 1
         /\ cfg = None /\ bin = None /\ act = [a |-> "NewObject"]
         /\ TLCSet(tid, 1) /\ TLCSet(N + tid, "none") /\ TLCSet(2 * N + tid, 0)
\* data consistency of the layout itself: every clause is evaluated (a failing one is printed, the others are still checked)
Soft(name, ok, r) == IF ok THEN TRUE ELSE PrintT(<<"LAY", Traces[tid].id, name, r>>)
BadGroups == {g \in Groups(L) : ~(Reg(L, g).nmiss = 0 /\ (Reg(L, g).declw = 0 \/ Reg(L, g).declw = Reg(L, g).subsw))}
\* coverage of the case space (size class x control level) of CfgArea.tla, decided here and only counted by the harness: a trace marked
\* `cov` reports the cases that exist on its layout (with its first event) and the case of every configuration that writes the size
\* bit-field or a control bit-field; the harness demands that every case that exists was executed on the real code (else: machinery)
Cov == "cov" \in DOMAIN Traces[tid] /\ Traces[tid].cov
CovCase(ws, b2) == (Cov /\ (SizeWrites(L, ws) # {} \/ TouchesCtrl(L, ws))) => PrintT(<<"COV", Traces[tid].id, l, CaseOfWrite(L, ws, b2)[1], CaseOfWrite(L, ws, b2)[2]>>)
TLayout == /\ Is("Layout") /\ UNCHANGED <<lay, bits, cfg, bin, nrm, gen, act>>
           /\ Soft("GroupsConsistent", GroupsConsistent(L), IF BadGroups = {} THEN 0 ELSE CHOOSE g \in BadGroups : \A x \in BadGroups : g <= x)
           /\ Soft("NoOverlap", NoOverlap(L), IF L.ovl = <<>> THEN 0 ELSE L.ovl[1])
           /\ Soft("Resolvable", Resolvable(L), 0)
           /\ Soft("FieldNamesUnique", FieldNamesUnique(L), IF L.dupfield = <<>> THEN 0 ELSE L.dupfield[1])
           /\ Soft("FieldsCover", FieldsCover(L), IF L.uncovered = <<>> THEN 0 ELSE L.uncovered[1])
           /\ (("parts" \in DOMAIN E) => Soft("RegisterMap", RegisterMapHolds(E.parts), MapWitness(E.parts)))
           /\ Adv
TNewObject == /\ Is("NewObject")
              /\ IF l = 1 THEN UNCHANGED <<lay, bits, cfg, bin, nrm, gen, act>> ELSE NewObject
              /\ ((Cov /\ l = 1) => \A cs \in CasesPossible(L) : PrintT(<<"APPL", Traces[tid].id, cs[1], cs[2]>>))
              /\ Check("Constructs", E.ok) /\ Check("Structure", E.struct)
              /\ StateMatches("Preset", bits', E.post) /\ Adv
TTemplate == /\ Is("Template") /\ Template
             /\ Check("TemplateGenerated", E.ok) /\ Check("TemplateYaml", E.yaml) /\ Check("TemplateSchema", E.schema) /\ Adv
TGetConfig == /\ Is("GetConfig") /\ GetConfig
              /\ Check("ConfigWritten", E.ok) /\ Check("ConfigYaml", E.yaml) /\ Check("ConfigSchema", E.schema) /\ Adv
TLoadConfig == /\ Is("LoadConfig") /\ LoadConfig
               /\ Check(IF act.a = "Template" THEN "TemplateLoads" ELSE "ConfigLoads", E.ok)
               /\ StateMatches(IF act.a = "Template" THEN "TemplateState" ELSE "ConfigRoundTrip", bits', E.post) /\ Adv
TSetValues == /\ Is("SetValues") /\ SetValues(E.w)
              /\ Check("InRangeAccepted", E.ok)
              /\ StateMatches("SetValues", bits', E.post) /\ CovCase(E.w, bits') /\ Adv
TExport == /\ Is("Export") /\ Export(E.seal)
           /\ Check("Exports", E.ok)
           /\ Check("SizeFixed", E.size = ExpSize(L, bits))
           /\ Check("GapsFilled", E.gaps)
           /\ BinMatches("ExportFaithful", bin'.b, E.bin)
           /\ Check("ComputedHold", Computed(L) = {} \/ ComputedHold(L, Decoded(E.bin)))
           /\ Check("SizeField", L.sizefld.r = 0 \/ SizeFieldHolds(L, Decoded(E.bin)))
           /\ Check("Seal", E.seal => SealHolds(L, Decoded(E.bin)))
           /\ Check("BytesStable", (bin.ok /\ Same(L, bin.b, bin'.b) /\ Same(L, bin'.b, bin.b)) => E.eqprev)
           /\ Check("Rotkh", E.rotkh) /\ Check("Crc", E.crc) /\ Adv
TParse == /\ Is("Parse") /\ Parse
          /\ Check("ParserAccepts", E.ok) /\ Check("VerifierAccepts", E.verified)
          /\ StateMatches("ParseIdentity", bits', E.post) /\ Adv
TNext == TLayout \/ TNewObject \/ TTemplate \/ TGetConfig \/ TLoadConfig \/ TSetValues \/ TExport \/ TParse
Constr == IF TLCGet(tid) < l THEN TLCSet(tid, l) ELSE TRUE
Post == \A i \in 1..N :
          \/ TLCGet(i) - 1 = Len(Traces[i].ev)
          \/ PrintT(<<"REJ", Traces[i].id, TLCGet(i) - 1, Len(Traces[i].ev),
                      Traces[i].ev[IF TLCGet(i) <= Len(Traces[i].ev) THEN TLCGet(i) ELSE Len(Traces[i].ev)].a,
                      TLCGet(N + i), TLCGet(2 * N + i)>>)
=============================================================================
