SPECIFICATION Spec
INVARIANT TypeOK
INVARIANT LayoutOK
INVARIANT ExportedComputedHold
INVARIANT SizeFieldAlways
INVARIANT SizeFixedLemma
INVARIANT ExportedSizeHolds
INVARIANT ConfigRoundTripIdentity
INVARIANT ParseExportIdentity
INVARIANT SealedExportSealed
INVARIANT SecondObjectFresh
INVARIANT FullWidthReadBack
INVARIANT FieldReadBack
INVARIANT AltWidthReadBack
INVARIANT AltViewsConsistent
PROPERTY Frozen
PROPERTY Local
PROPERTY AnnouncedSizeIgnored
PROPERTY AltWidthLocal
CHECK_DEADLOCK FALSE
