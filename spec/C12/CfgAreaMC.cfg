SPECIFICATION Spec
INVARIANT TypeOK
INVARIANT LayoutOK
INVARIANT ExportedComputedHold
INVARIANT SizeFieldAlways
INVARIANT SizeFixedLemma
INVARIANT ConfigRoundTripIdentity
INVARIANT ParseExportIdentity
INVARIANT SealedExportSealed
INVARIANT SecondObjectFresh
INVARIANT FullWidthReadBack
INVARIANT FieldReadBack
PROPERTY Frozen
PROPERTY Local
CHECK_DEADLOCK FALSE
