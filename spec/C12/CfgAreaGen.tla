----------------------------- MODULE CfgAreaGen -----------------------------
(* GEN form: CfgAreaMC plus a history variable.  TLC emits SCHEDULES - sequences of area operations that respect *)
(* the enabling conditions of the spec (Parse needs a binary, LoadConfig a configuration) with the CLASS of every *)
(* write; the harness concretises the classes on every real layout (seeded) and replays them on the real area.   *)
EXTENDS CfgAreaMC
VARIABLES hist, done
Depth == atoi(IOEnv.GEN_DEPTH)
Classes == {m.cls : m \in WriteMenu}
Rep(c) == CHOOSE m \in WriteMenu : m.cls = c /\ m.ws[1].v # <<>>
\* every step also records the spec's own successor state: a generated behaviour doubles as a trace that the trace form must accept
\* (the canary of the check does not depend on SPSDK)
GenClasses == Classes \ {"sizefld", "ctrl"}
GSetValues == \E c \in GenClasses : /\ SetValues(Rep(c).ws)
                                     /\ hist' = Append(hist, [a |-> "SetValues", cls |-> c, sz |-> "", lv |-> "", seal |-> FALSE, w |-> Rep(c).ws, post |-> bits', size |-> 0])
\* writes to the control bit-fields and the size bit-field are generated per CASE (size class, control level) of CfgArea.tla: every such
\* step flips the control level (the configuration selects FEWER or MORE registers than the object had) and announces a size of every
\* class for the registers that exist afterwards; the harness concretises the case on every real layout
GCaseWs(s, ws) == /\ SetValues(ws)
                  /\ hist' = Append(hist, [a |-> "SetValues", cls |-> "sizectrl", sz |-> s, lv |-> CtrlLevel(L, bits'), seal |-> FALSE, w |-> ws, post |-> bits', size |-> 0])
GCaseSize(s, pre, S) == GCaseWs(s, IF s = "-" THEN pre ELSE Append(pre, SizeWrite(IF s = "eq" THEN S ELSE IF s = "lt" THEN S - 1 ELSE S + 1)))
GCasePre(s, pre) == GCaseSize(s, pre, IF s = "-" THEN 0 ELSE ExpSize(L, Apply(L, bits, pre)))
GCaseLv(s, lv) == IF ~L.hascond THEN s # "-" /\ GCasePre(s, <<>>)
                  ELSE LET cws == {cw \in CtrlWrites : CtrlLevel(L, Apply(L, bits, <<cw>>)) = lv} IN cws # {} /\ GCasePre(s, <<CHOOSE cw \in cws : TRUE>>)
GSizeCtrl == \E s \in (IF L.sizefld.r = 0 THEN {"-"} ELSE ToSet(SizeClasses)) : GCaseLv(s, IF CtrlLevel(L, bits) = "max" THEN "min" ELSE "max")
GOther == /\ (NewObject \/ Template \/ GetConfig \/ LoadConfig \/ DoExport \/ Parse)
          /\ hist' = Append(hist, [a |-> act'.a, cls |-> "", sz |-> "", lv |-> "", seal |-> (act'.a = "Export" /\ act'.seal), w |-> <<>>,
                                    post |-> IF act'.a = "Export" THEN bin'.b ELSE bits', size |-> ExpSize(L, bits')])
\* the case space itself is printed once: the canonical schedule of the harness runs every case on every area that has it
ASSUME PrintT(ToJson([cases |-> SizeCtrlCases]))
GInit == Init /\ hist = <<>> /\ done = FALSE /\ steps = 0
GNext == \/ Len(hist) < Depth /\ (GSetValues \/ GSizeCtrl \/ GOther) /\ UNCHANGED <<done, steps>>
         \/ Len(hist) = Depth /\ ~done /\ done' = TRUE /\ PrintT(ToJson([lay |-> lay, hist |-> hist, fresh |-> Fresh(L)])) /\ UNCHANGED <<vars, hist, steps>>
=============================================================================
