----------------------------- MODULE CfgAreaGen -----------------------------
(* GEN form: CfgAreaMC plus a history variable.  TLC emits SCHEDULES - sequences of area operations that respect *)
(* the enabling conditions of the spec (Parse needs a binary, LoadConfig a configuration) with the CLASS of every *)
(* write; the harness concretises the classes on every real layout (seeded) and replays them on the real area.   *)
EXTENDS CfgAreaMC
VARIABLES hist, done
Depth == atoi(IOEnv.GEN_DEPTH)
Classes == {m.cls : m \in WriteMenu}
Rep(c) == CHOOSE m \in WriteMenu : m.cls = c /\ m.ws[1].v # <<>>
\* every step also records the spec's own successor state: a generated behaviour doubles as a trace that the trace form must accept
\* (the canary of the check does not depend on SPSDK)
GSetValues == \E c \in Classes : /\ SetValues(Rep(c).ws)
                                  /\ hist' = Append(hist, [a |-> "SetValues", cls |-> c, seal |-> FALSE, w |-> Rep(c).ws, post |-> bits', size |-> 0])
GOther == /\ (NewObject \/ Template \/ GetConfig \/ LoadConfig \/ DoExport \/ Parse)
          /\ hist' = Append(hist, [a |-> act'.a, cls |-> "", seal |-> (act'.a = "Export" /\ act'.seal), w |-> <<>>,
                                    post |-> IF act'.a = "Export" THEN bin'.b ELSE bits', size |-> ExpSize(L, bits')])
GInit == Init /\ hist = <<>> /\ done = FALSE /\ steps = 0
GNext == \/ Len(hist) < Depth /\ (GSetValues \/ GOther) /\ UNCHANGED <<done, steps>>
         \/ Len(hist) = Depth /\ ~done /\ done' = TRUE /\ PrintT(ToJson([lay |-> lay, hist |-> hist])) /\ UNCHANGED <<vars, hist, steps>>
=============================================================================
