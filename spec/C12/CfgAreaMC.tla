----------------------------- MODULE CfgAreaMC -----------------------------
(* MC form: CfgArea on small layouts with a menu of writes; the lemmas below are what the design of the area   *)
(* guarantees (and what the trace form demands from the real code).                                             *)
EXTENDS CfgArea
Menu(w) == IF IOEnv.MENU = "small" THEN {<<w - 1>>, [i \in 1..w |-> i - 1]} ELSE {<<>>, <<0>>, <<w - 1>>, [i \in 1..w |-> i - 1]}                       \* bit lists, as in the traces
FieldTargets == UNION {{<<r, f>> : f \in {g \in Flds(L, r) : ~Fld(L, r, g).hidden}} : r \in {x \in Leaves(L) : ~Reg(L, x).hidden}}
Role(r, f) == IF f > 0 THEN (IF IsSizeFld(L, r, f) THEN "sizefld" ELSE IF IsCtrl(L, r, f) THEN "ctrl" ELSE IF Reg(L, r).comp # "" THEN "compfield" ELSE "field")
              ELSE IF Reg(L, r).kind = "group" THEN "group" ELSE "reg"
\* whole-value writes: groups and registers without bit-fields (a computed register is configured through its bit-fields)
WholeTargets == {r \in Regs(L) : /\ Reg(L, r).comp = "" /\ ~Reg(L, r).hidden /\ Reg(L, r).parent = 0
                                 /\ (Reg(L, r).kind = "group" \/ Flds(L, r) = {})}
WriteMenu == UNION {{[cls |-> Role(t[1], t[2]), ws |-> <<[r |-> t[1], f |-> t[2], v |-> V, aw |-> 0]>>] : V \in Menu(Fld(L, t[1], t[2]).width)} : t \in FieldTargets}
             \cup UNION {{[cls |-> Role(r, 0), ws |-> <<[r |-> r, f |-> 0, v |-> V, aw |-> 0]>>] : V \in Menu(W(L, r))} : r \in WholeTargets}
\* groups with alternative widths: values of the narrower width
AltMenu == UNION {UNION {{[cls |-> "group", ws |-> <<[r |-> g, f |-> 0, v |-> V, aw |-> Reg(L, g).altw[k]]>>] : V \in Menu(Reg(L, g).altw[k])}
                         : k \in DOMAIN Reg(L, g).altw} : g \in {x \in Groups(L) : ~Reg(L, x).hidden}}
\* control bit-fields at their boundary values and the size bit-field around the real size (and at both ends of its range) - alone and
\* TOGETHER in one configuration: every case of SizeCtrlCases that exists on the layout is a successor of every state
CtrlWrites == IF ~L.hascond THEN {} ELSE UNION {{[r |-> t[1], f |-> t[2], v |-> BitSeq(v), aw |-> 0] : v \in CtrlMenu(L, t[1], t[2])} : t \in CtrlFields(L)}
SizeWrite(n) == [r |-> L.sizefld.r, f |-> L.sizefld.f, v |-> BitSeq(n), aw |-> 0]
SizeAround(n) == {v \in {n - 1, n, n + 1} \cup (IF IOEnv.MENU = "small" THEN {} ELSE {0, 2 ^ Fld(L, L.sizefld.r, L.sizefld.f).width - 1}) : v >= 0 /\ v < 2 ^ Fld(L, L.sizefld.r, L.sizefld.f).width}
SizeCtrlMenu == {[cls |-> "ctrl", ws |-> <<cw>>] : cw \in CtrlWrites}
                \cup (IF L.sizefld.r = 0 THEN {}
                      ELSE {[cls |-> "sizefld", ws |-> <<SizeWrite(v)>>] : v \in SizeAround(ExpSize(L, bits))}
                           \cup UNION {{[cls |-> "sizefld", ws |-> <<cw, SizeWrite(v)>>] : v \in SizeAround(ExpSize(L, Apply(L, bits, <<cw>>)))} : cw \in CtrlWrites})
DoSetValues == \E m \in WriteMenu \cup AltMenu \cup SizeCtrlMenu : SetValues(m.ws)
DoExport == \E s \in {FALSE} \cup (IF L.seal # <<>> THEN {TRUE} ELSE {}) : Export(s)
Next == NewObject \/ Template \/ GetConfig \/ LoadConfig \/ DoSetValues \/ DoExport \/ Parse
\* bounded by an explicit step counter (TLCGet("level") in a constraint makes the state count depend on the worker schedule)
VARIABLE steps
MCInit == Init /\ steps = 0
More == steps < atoi(IOEnv.MC_LEVEL)
MCNewObject == More /\ NewObject /\ steps' = steps + 1
MCTemplate == More /\ Template /\ steps' = steps + 1
MCGetConfig == More /\ GetConfig /\ steps' = steps + 1
MCLoadConfig == More /\ LoadConfig /\ steps' = steps + 1
MCSetValues == More /\ DoSetValues /\ steps' = steps + 1
MCExport == More /\ DoExport /\ steps' = steps + 1
MCParse == More /\ Parse /\ steps' = steps + 1
MCNext == MCNewObject \/ MCTemplate \/ MCGetConfig \/ MCLoadConfig \/ MCSetValues \/ MCExport \/ MCParse
Spec == MCInit /\ [][MCNext]_<<vars, steps>>

\* ---------------------------------------------------------------- lemmas
\* alias of an alias: over every chain of up to 4 folders (each with no file / one of three files) the nearest own file is the file found by
\* following the aliases one at a time (own file, else the file of the aliased device), and a chain without any file prescribes nothing
ChainCases == UNION {[1..n -> [f : 0..3]] : n \in 1..4}
ASSUME AliasComposes == \A c \in ChainCases : /\ HasFile(c) <=> ByAlias(c) # 0
                                              /\ HasFile(c) => PrescribedFile(c) = ByAlias(c)
                                              /\ \A x \in [f : 0..3] : HasFile(<<x>> \o c) => PrescribedFile(<<x>> \o c) = (IF x.f # 0 THEN x.f ELSE PrescribedFile(c))
TypeOK == (\A r \in Leaves(L) : bits[r] \subseteq AllBits(W(L, r))) /\ LeafSet(L) = Leaves(L) /\ Computed(L) = {r \in Leaves(L) : Reg(L, r).comp # ""}
LayoutOK == GroupsConsistent(L) /\ NoOverlap(L) /\ Resolvable(L) /\ FieldNamesUnique(L) /\ FieldsCover(L)
\* "computed fields hold in every exported binary"
ExportedComputedHold == bin.ok => ComputedHold(L, bin.b)
\* the size bit-field of every object holds the size of its binary
SizeFieldAlways == SizeFieldHolds(L, bits)
SizeFixedLemma == L.size > 0 => ExpSize(L, bits) = L.size
\* "the exported header describes the exported block": whatever size a configuration announced and whichever registers its control
\* bit-field selected, the size bit-field of every exported binary holds the size of the registers that exist in that binary
ExportedSizeHolds == bin.ok => SizeFieldHolds(L, bin.b)
\* a configuration that announces a size (right, too small, too large) builds the object that the same configuration without the
\* announcement builds - whichever registers its control bit-field selects
NoSize(ws) == SelectSeq(ws, LAMBDA w : ~IsSizeFld(L, w.r, w.f))
AnnouncedSizeIgnored == [][act'.a = "SetValues" => bits' = Norm(L, Apply(L, bits, NoSize(act'.w)), Touched(act'.w))]_vars
\* configuration of a fully loaded object -> load = identity
ConfigRoundTripIdentity == (act.a = "LoadConfig" /\ act.fromnrm) => act.id
\* parse -> export gives the binary that was parsed
ParseExportIdentity == (act.a = "Export" /\ act.afterparse /\ ~act.seal) => act.same
SealedExportSealed == (act.a = "Export" /\ act.seal) => SealHolds(L, bin.b)
\* a new object starts from the presets whatever happened before
SecondObjectFresh == act.a = "NewObject" => bits = Fresh(L)
\* a whole-register / group write is read back in full width through the configuration view (ROTKH: all 48 bytes)
FullWidthReadBack == (act.a = "SetValues" /\ Len(act.w) = 1 /\ act.w[1].f = 0 /\ act.w[1].aw = 0) => View(L, bits, act.w[1].r, FALSE) = ToSet(act.w[1].v)
\* a value of an alternative width is read back through the view of that width, and writing back what that view shows changes nothing
AltWidthReadBack == (act.a = "SetValues" /\ Len(act.w) = 1 /\ act.w[1].f = 0 /\ act.w[1].aw > 0) => AltView(L, bits, act.w[1].r, act.w[1].aw) = ToSet(act.w[1].v)
AltViewsConsistent == \A g \in Groups(L) : \A k \in DOMAIN Reg(L, g).altw :
                         SetViewAlt(L, bits, g, AltView(L, bits, g, Reg(L, g).altw[k]), Reg(L, g).altw[k]) = bits
\* ... and leaves the sub-registers beyond that width alone
AltWidthLocal == [][(act'.a = "SetValues" /\ act'.w[1].f = 0 /\ act'.w[1].aw > 0) =>
                      \A k \in DOMAIN Reg(L, act'.w[1].r).subs : k > act'.w[1].aw \div SubW(L, act'.w[1].r) => bits'[Reg(L, act'.w[1].r).subs[k]] = bits[Reg(L, act'.w[1].r).subs[k]]]_vars
FieldReadBack == (act.a = "SetValues" /\ Len(act.w) = 1 /\ act.w[1].f > 0 /\ ~(act.w[1].r = L.sizefld.r /\ act.w[1].f = L.sizefld.f)) =>
                    RawField(L, bits, act.w[1].r, act.w[1].f) = PreProc(L, act.w[1].r, act.w[1].f, ToSet(act.w[1].v))
\* everything but SetValues / object creation leaves the current object alone
Frozen == [][act'.a \in {"Template", "GetConfig", "Export"} => bits' = bits /\ gen' = gen]_vars
\* a bit-field write changes no other register, and inside its register only the field and the computed field
Local == [][act'.a = "SetValues" => \A r \in Leaves(L) : (\A i \in DOMAIN act'.w : act'.w[i].r # r /\ Reg(L, act'.w[i].r).kind = "leaf") /\ r # L.sizefld.r => bits'[r] = bits[r]]_vars
=============================================================================
