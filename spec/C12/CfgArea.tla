------------------------------ MODULE CfgArea ------------------------------
(* R-spec of C12: a register-backed configuration area (PFR CMPA/CFPA, IFR, BCA, FCF, FCB, XMCD, TrustZone preset,  *)
(* fuse map, memory-configuration option words) as a state machine over the bit-vector semantics of Registers.tla  *)
(* (the finished R-spec of C11, copied unchanged).                                                               *)
(*                                                                                                               *)
(* The abstract state of an object is `bits` - the raw 1-bits of every leaf register.  Every public operation is  *)
(* one action; EVERY ACTION EXCEPT SetValues IS THE IDENTITY on the abstract state it transports:                 *)
(*   Template   : the configuration it denotes is the device preset                                               *)
(*   GetConfig  : the configuration denotes the state of the object                                               *)
(*   LoadConfig : a new object whose state is the state the configuration denotes (computed fields recomputed)    *)
(*   Export     : a binary that denotes the state of the object (plus seal markers when asked for)                *)
(*   Parse      : a new object whose state is the state the binary denotes                                        *)
(*   NewObject  : a new object starts from the device presets - whatever happened to other objects before         *)
(*   SetValues  : bit-field / register / group writes with the semantics of Registers.tla, then computed fields   *)
(*                                                                                                               *)
(* Layout record L (one per area, extracted from the device database FILES at run time - register JSON,            *)
(* grouped_registers, computed_fields, seal_start / seal_count, preset file - never from SPSDK's register objects)    *)
(* extends the record of Registers.tla:                                                                               *)
(*  per register : off (byte offset), hidden, preset (bit list), comp ("" | "inv_hi16" | "inv_lo8"),                  *)
(*                 cond [c, f, op, k] (the register exists only while bit-field f of register c satisfies op k;      *)
(*                 c = 0: always), group: declw / subsw / nmiss (declared width, sum of the widths of the            *)
(*                 sub-registers present in the register file, number of declared sub-registers that are missing)    *)
(*  per layout   : size (documented size in bytes; 0 = the size of the registers that exist), hasbin, seal (leaf      *)
(*                 indices that receive the seal marker), sizefld [r, f] (bit-field that must hold the total size;    *)
(*                 r = 0: none), leaves / computed / hascond (pre-computed index sets), free (leaves not asserted     *)
(*                 per register), and the data-consistency witnesses ovl (overlapping leaves), nbad (unresolvable     *)
(*                 computed_fields / seal entries), dupenum / dupfield / uncovered (registers whose configuration     *)
(*                 cannot carry every value: repeated enum names, repeated bit-field names, bit-fields not tiling).   *)
EXTENDS Registers, Json, IOUtils

Layouts == JsonDeserialize(IOEnv.LAYOUT_FILE)          \* sequence of layouts
VARIABLES lay,      \* index of the layout of this behaviour
          bits,     \* abstract state of the CURRENT object
          cfg,      \* [ok, b, nrm] : the state denoted by the configuration captured last (Template / GetConfig)
          bin,      \* [ok, b, nrm] : the state denoted by the binary exported last
          nrm,      \* the current object went through a full configuration load (all computed fields recomputed)
          gen,      \* number of objects created so far
          act       \* the last action with its arguments (binding point for traces)
vars == <<lay, bits, cfg, bin, nrm, gen, act>>
L == Layouts[lay]

\* ------------------------------------------------------------------ numbers <-> bit sets (narrow values only)
RECURSIVE BitsToInt(_)
BitsToInt(S) == IF S = {} THEN 0 ELSE LET m == CHOOSE x \in S : TRUE IN 2 ^ m + BitsToInt(S \ {m})
IntToBits(n, w) == {i \in AllBits(w) : (n \div (2 ^ i)) % 2 = 1}
SealBytes == <<83, 69, 65, 76>>                                        \* "SEAL"
SealWord == UNION {{8 * (k - 1) + i : i \in IntToBits(SealBytes[k], 8)} : k \in 1..4}   \* little-endian 32-bit word

\* ------------------------------------------------------------------ which registers exist
RawField(La, b, r, f) == {i - Fld(La, r, f).off : i \in b[r] \cap FieldMask(La, r, f)}
CondHolds(La, b, r) ==
  LET c == Reg(La, r).cond IN
  \/ c.c = 0
  \/ c.op = "ne" /\ BitsToInt(RawField(La, b, c.c, c.f)) # c.k
  \/ c.op = "eq" /\ BitsToInt(RawField(La, b, c.c, c.f)) = c.k
  \/ c.op = "ge" /\ BitsToInt(RawField(La, b, c.c, c.f)) >= c.k
\* La.leaves / La.computed / La.hascond are pre-computed by the extraction (= Leaves(La), the leaves with a computed field, some cond.c # 0)
LeafSet(La) == ToSet(La.leaves)
Active(La, b) == IF La.hascond THEN {r \in LeafSet(La) : CondHolds(La, b, r)} ELSE LeafSet(La)
Same(La, b1, b2) == IF La.hascond THEN \A r \in Active(La, b1) : b1[r] = b2[r] ELSE b1 = b2     \* equality of abstract states

\* ------------------------------------------------------------------ presets, computed fields, size, seal
Preset(La) == [r \in LeafSet(La) |-> ToSet(Reg(La, r).preset)]
InvHi16(S) == (S \cap (0..15)) \cup {i + 16 : i \in (0..15) \ S}      \* high half-word = inverse of the low one
InvLo8(S) == (S \ (8..15)) \cup {i + 8 : i \in (0..7) \ S}             \* byte 1 = inverse of byte 0
Comp(La, r, S) == IF Reg(La, r).comp = "inv_hi16" THEN InvHi16(S)
                  ELSE IF Reg(La, r).comp = "inv_lo8" THEN InvLo8(S) ELSE S
Computed(La) == ToSet(La.computed)
\* number of bytes of a set of registers (as the cardinality of a set of byte positions: no deep recursion on large layouts)
SumBytes(La, A) == Cardinality(UNION {{<<r, k>> : k \in 1..(W(La, r) \div 8)} : r \in A})
ExpSize(La, b) == IF La.size > 0 THEN La.size ELSE SumBytes(La, Active(La, b))
NormSize(La, b) ==
  IF La.sizefld.r = 0 THEN b
  ELSE LET r == La.sizefld.r
           f == La.sizefld.f
       IN [b EXCEPT ![r] = (b[r] \ FieldMask(La, r, f)) \cup {i + Fld(La, r, f).off : i \in IntToBits(ExpSize(La, b), Fld(La, r, f).width)}]
Norm(La, b, T) == NormSize(La, IF T \cap Computed(La) = {} THEN b ELSE [r \in DOMAIN b |-> IF r \in T THEN Comp(La, r, b[r]) ELSE b[r]])
Sealed(La, b) == IF La.seal = <<>> THEN b ELSE [r \in DOMAIN b |-> IF r \in ToSet(La.seal) THEN SealWord ELSE b[r]]
Fresh(La) == NormSize(La, Preset(La))                                  \* the state of a new object
\* a configuration / a binary denotes the registers that exist; whatever an object holds for the others is not transported
Restrict(La, b) == IF La.hascond THEN [r \in DOMAIN b |-> IF r \in Active(La, b) THEN b[r] ELSE Preset(La)[r]] ELSE b

\* ------------------------------------------------------------------ control bit-fields and the size bit-field: classes of writes
\* A CONTROL bit-field decides which registers exist (cond.c / cond.f of some register: XMCD optionSize, option-word OptionSize /
\* AcTimingMode); the SIZE bit-field announces the size of the binary (XMCD header.configurationBlockSize).  Both are ordinary
\* in-range bit-fields of the template.  Whatever a configuration says about them - a size that is right, too small or too large,
\* together with a control value that selects fewer or more registers than before - the object that is built consists of the
\* registers the control bit-field selects and ANNOUNCES ITS OWN REAL SIZE (NormSize in every action that builds an object): "the
\* exported header describes the exported block".  The case space of these writes:
SizeClasses == <<"eq", "lt", "gt">>             \* announced size  = / < / >  the size of the registers that exist afterwards
CtrlLevels == <<"min", "mid", "max">>           \* none / some / all of the conditional registers exist afterwards
SizeCtrlCases == {<<s, c>> : s \in ToSet(SizeClasses), c \in ToSet(CtrlLevels)}
CondRegs(La) == {r \in LeafSet(La) : Reg(La, r).cond.c # 0}
CtrlFields(La) == {<<Reg(La, r).cond.c, Reg(La, r).cond.f>> : r \in CondRegs(La)}
IsCtrl(La, r, f) == La.hascond /\ <<r, f>> \in CtrlFields(La)
IsSizeFld(La, r, f) == La.sizefld.r # 0 /\ r = La.sizefld.r /\ f = La.sizefld.f
SizeClass(La, b, v) == IF v = ExpSize(La, b) THEN "eq" ELSE IF v < ExpSize(La, b) THEN "lt" ELSE "gt"
CtrlLevel(La, b) == LET n == Cardinality(CondRegs(La) \cap Active(La, b))
                    IN IF n = Cardinality(CondRegs(La)) THEN "max" ELSE IF n = 0 THEN "min" ELSE "mid"      \* (no conditional register: "max")
\* boundary values of a control bit-field: around every threshold that the condition of some register names, and both ends of the range
CtrlMenu(La, c, f) ==
  LET ks == {Reg(La, r).cond.k : r \in {x \in CondRegs(La) : Reg(La, x).cond.c = c /\ Reg(La, x).cond.f = f}}
      top == 2 ^ Fld(La, c, f).width - 1
  IN {v \in UNION {{k - 1, k, k + 1} : k \in ks} \cup {0, top} : v >= 0 /\ v <= top}
RECURSIVE BitSeqFrom(_, _)
BitSeqFrom(n, i) == IF n = 0 THEN <<>> ELSE IF n % 2 = 1 THEN <<i>> \o BitSeqFrom(n \div 2, i + 1) ELSE BitSeqFrom(n \div 2, i + 1)
BitSeq(n) == BitSeqFrom(n, 0)                                               \* a number as the bit list of the traces
\* the levels that the boundary values of the control bit-fields can select on this layout (everything else at its preset)
LevelsPossible(La) ==
  IF ~La.hascond THEN {"max"}
  ELSE UNION {{CtrlLevel(La, SetFieldBits(La, Preset(La), t[1], t[2], ToSet(BitSeq(v)), TRUE)) : v \in CtrlMenu(La, t[1], t[2])} : t \in CtrlFields(La)}
\* the cases of SizeCtrlCases that exist on this layout (size class "-": the area has no size bit-field)
CasesPossible(La) == {<<s, c>> : s \in (IF La.sizefld.r = 0 THEN {"-"} ELSE ToSet(SizeClasses)), c \in LevelsPossible(La)}

\* ------------------------------------------------------------------ writes: sequence of [r, f, v]  (f = 0: whole register / group through
\* its configuration view; f > 0: bit-field f of leaf r)
\* A group with ALTERNATIVE WIDTHS takes a value that fits into a narrower alternative width aw as a value of that width:
\* it is distributed (with the byte reversal of the group, if any) over the first aw / SubW sub-registers, the others keep
\* their value.  aw = 0: the declared width - SetView of Registers.tla.
SetViewAlt(La, b, g, S, aw) ==
  LET sw == SubW(La, g)
      n == aw \div sw
      S0 == IF Reg(La, g).reverse THEN ByteRev(S, aw) ELSE S
      PosA(k) == IF Reg(La, g).rso THEN aw - k * sw ELSE (k - 1) * sw
      Part(k) == {i - PosA(k) : i \in {j \in S0 : j >= PosA(k) /\ j < PosA(k) + sw}}
      IdxOf(s) == CHOOSE k \in 1..Len(Reg(La, g).subs) : Reg(La, g).subs[k] = s
  IN [s \in DOMAIN b |-> IF s \in ToSet(Reg(La, g).subs) /\ IdxOf(s) <= n THEN Part(IdxOf(s)) ELSE b[s]]
\* what the first aw / SubW sub-registers show through the configuration view of width aw (the inverse of SetViewAlt)
AltView(La, b, g, aw) ==
  LET sw == SubW(La, g)
      PosA(k) == IF Reg(La, g).rso THEN aw - k * sw ELSE (k - 1) * sw
      cat == UNION {{i + PosA(k) : i \in b[Reg(La, g).subs[k]]} : k \in 1..(aw \div sw)}
  IN IF Reg(La, g).reverse THEN ByteRev(cat, aw) ELSE cat
RECURSIVE Apply(_, _, _)
Apply(La, b, ws) ==
  IF ws = <<>> THEN b
  ELSE LET w == Head(ws)
           V == ToSet(w.v)
           nb == IF w.f > 0 THEN SetFieldBits(La, b, w.r, w.f, V, TRUE)
                 ELSE IF w.aw = 0 THEN SetView(La, b, w.r, V, FALSE) ELSE SetViewAlt(La, b, w.r, V, w.aw)
       IN Apply(La, nb, Tail(ws))
Touched(ws) == {ws[i].r : i \in {j \in DOMAIN ws : ws[j].f > 0}}
\* the case (size class, control level) of a configuration ws that leads to state b2: the size it announces (its last write to the size
\* bit-field; "-" when it has none) against the real size of b2, and how many conditional registers exist in b2
SizeWrites(La, ws) == {i \in DOMAIN ws : IsSizeFld(La, ws[i].r, ws[i].f)}
WrittenSize(La, ws) == LET i == CHOOSE i \in SizeWrites(La, ws) : \A j \in SizeWrites(La, ws) : j <= i IN BitsToInt(ToSet(ws[i].v))
TouchesCtrl(La, ws) == \E i \in DOMAIN ws : IsCtrl(La, ws[i].r, ws[i].f)
CaseOfWrite(La, ws, b2) == <<IF SizeWrites(La, ws) = {} THEN "-" ELSE SizeClass(La, b2, WrittenSize(La, ws)), CtrlLevel(La, b2)>>
WriteFits(La, w) == IF w.f > 0 THEN Fits(La, w.r, w.f, ToSet(w.v))
                    ELSE \A i \in ToSet(w.v) : i < (IF w.aw = 0 THEN W(La, w.r) ELSE w.aw)

\* ------------------------------------------------------------------ layout well-formedness (data consistency)
GroupsConsistent(La) == \A g \in Groups(La) : Reg(La, g).nmiss = 0 /\ (Reg(La, g).declw = 0 \/ Reg(La, g).declw = Reg(La, g).subsw)
\* no two registers of a binary area describe the same byte (La.ovl: leaves whose byte range overlaps another one)
NoOverlap(La) == La.ovl = <<>>
\* every computed_fields / seal_start entry of the database names a register and a bit-field that exist, with a known rule
Resolvable(La) == La.nbad = 0
\* (enum names shared by several values of a bit-field - La.dupenum - are no layout clause: a configuration writes the name only for the
\*  value the name resolves to, the others are written as numbers; such values are generated and asserted like all others)
\* the names of the visible bit-fields of a register are distinct (La.dupfield) - a configuration is a mapping from names to values
FieldNamesUnique(La) == La.dupfield = <<>>
\* the bit-fields of a visible register tile it completely (La.uncovered) - its configuration is written bit-field by bit-field, a
\* bit outside every bit-field does not survive GetConfig -> LoadConfig
FieldsCover(La) == La.uncovered = <<>>

\* ------------------------------------------------------------------ which register file does the database prescribe (alias families)
\* The device database is a set of folders; a folder either describes a device or names the device it is an ALIAS of and holds only what differs.
\* chain = the folder of the family first, then the device it is an alias of, then the device THAT one is an alias of ... - as the raw
\* database.yaml files name them; chain[i].f # 0: folder i holds a file of the name the (merged) feature gives (f = index into the table of the
\* distinct files found).  The NEAREST own file is the prescribed one - a device in between that has its own register file is not skipped.
HasFile(chain) == \E i \in DOMAIN chain : chain[i].f # 0
Nearest(chain) == CHOOSE i \in DOMAIN chain : chain[i].f # 0 /\ \A j \in 1..(i - 1) : chain[j].f = 0
PrescribedFile(chain) == chain[Nearest(chain)].f
\* composition law of aliases (checked by TLC as an assumption of CfgAreaMC over all chains of up to 4 folders): the file of a family is its
\* own file if it has one, else the file prescribed for the device it is an alias of - at every depth
RECURSIVE ByAlias(_)
ByAlias(chain) == IF chain = <<>> THEN 0 ELSE IF chain[1].f # 0 THEN chain[1].f ELSE ByAlias(Tail(chain))
\* register maps (name n, byte offset o, width w, OTP index x of fuse maps; -1 = none) in canonical order: the positions where two maps differ
MapDiff(exp, obs) == {i \in 1..(IF Len(exp) > Len(obs) THEN Len(exp) ELSE Len(obs)) : i > Len(exp) \/ i > Len(obs) \/ exp[i] # obs[i]}
\* RegisterMap: the register map the area object works on (part.obs, read from the real object) is the map of the prescribed file
PartAgrees(part) == HasFile(part.chain) /\ MapDiff(part.files[PrescribedFile(part.chain)], part.obs) = {}
RegisterMapHolds(parts) == \A p \in DOMAIN parts : PartAgrees(parts[p])
\* witness of a failing RegisterMap clause: 10000 * part + first differing position (0: no folder of the chain holds the file)
FirstOf(S) == IF S = {} THEN 0 ELSE CHOOSE i \in S : \A x \in S : i <= x
MapWitness(parts) == LET p == FirstOf({q \in DOMAIN parts : ~PartAgrees(parts[q])}) IN
                     IF p = 0 THEN 0 ELSE 10000 * p + (IF HasFile(parts[p].chain) THEN FirstOf(MapDiff(parts[p].files[PrescribedFile(parts[p].chain)], parts[p].obs)) ELSE 0)

\* ------------------------------------------------------------------ actions
Keep == UNCHANGED lay
NewObject == /\ bits' = Fresh(L) /\ nrm' = (Computed(L) = {}) /\ gen' = gen + 1
             /\ act' = [a |-> "NewObject"] /\ UNCHANGED <<cfg, bin>> /\ Keep
Template == /\ cfg' = [ok |-> TRUE, b |-> Preset(L), nrm |-> FALSE]
            /\ act' = [a |-> "Template"] /\ UNCHANGED <<bits, bin, nrm, gen>> /\ Keep
GetConfig == /\ cfg' = [ok |-> TRUE, b |-> Restrict(L, bits), nrm |-> nrm]
             /\ act' = [a |-> "GetConfig"] /\ UNCHANGED <<bits, bin, nrm, gen>> /\ Keep
LoadConfig == /\ cfg.ok
              /\ bits' = Norm(L, cfg.b, Computed(L)) /\ nrm' = TRUE /\ gen' = gen + 1
              /\ act' = [a |-> "LoadConfig", id |-> Same(L, cfg.b, Norm(L, cfg.b, Computed(L))), fromnrm |-> cfg.nrm]
              /\ UNCHANGED <<cfg, bin>> /\ Keep
SetValues(ws) == /\ \A i \in DOMAIN ws : WriteFits(L, ws[i])
                 /\ bits' = Norm(L, Apply(L, bits, ws), Touched(ws))
                 /\ act' = [a |-> "SetValues", w |-> ws] /\ UNCHANGED <<cfg, bin, nrm, gen>> /\ Keep
Export(seal) == /\ L.hasbin
                /\ bin' = [ok |-> TRUE, b |-> Restrict(L, IF seal THEN Sealed(L, bits) ELSE bits), nrm |-> nrm]
                /\ act' = [a |-> "Export", seal |-> seal, afterparse |-> (act.a = "Parse"), same |-> (bin.ok /\ ~seal /\ Same(L, bin.b, bits))]
                /\ UNCHANGED <<bits, cfg, nrm, gen>> /\ Keep
Parse == /\ bin.ok
         /\ bits' = bin.b /\ nrm' = bin.nrm /\ gen' = gen + 1
         /\ act' = [a |-> "Parse"] /\ UNCHANGED <<cfg, bin>> /\ Keep

None == [ok |-> FALSE, b |-> <<>>, nrm |-> FALSE]
Init == /\ lay \in 1..Len(Layouts)
        /\ bits = Fresh(Layouts[lay]) /\ nrm = (Computed(Layouts[lay]) = {}) /\ gen = 1
        /\ cfg = None /\ bin = None /\ act = [a |-> "NewObject"]

\* ------------------------------------------------------------------ clauses on a binary (evaluated on what was decoded from real bytes)
\* a computed register in an exported binary either still holds its preset (never configured) or satisfies its rule
ComputedHold(La, b) == \A r \in Computed(La) : b[r] = Preset(La)[r] \/ Comp(La, r, b[r]) = b[r]
SizeFieldHolds(La, b) == La.sizefld.r = 0 \/ BitsToInt(RawField(La, b, La.sizefld.r, La.sizefld.f)) = ExpSize(La, b)
SealHolds(La, b) == \A r \in ToSet(La.seal) : b[r] = SealWord
=============================================================================
