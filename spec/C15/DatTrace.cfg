CONSTANTS Devices = {"d1", "d2"}
 Chals = {"ch1", "ch2"}
 Beacons = {"b1", "b2"}
INIT TInit
NEXT TNext
CONSTRAINT Constr
POSTCONDITION Post
CHECK_DEADLOCK FALSE
