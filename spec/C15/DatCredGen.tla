----------------------------- MODULE DatCredGen -----------------------------
(* GEN form of C15, credential-object lane: TLC explores the reference credential object of DatTerms (Sign, Set f for each signed      *)
(* field class f, Export, Parse) breadth first up to MaxCredHistory operations, checks the lemma below in every state and prints every  *)
(* history that ends with an observation as JSON.  The harness executes them on real credential objects of every class (RSA, ECC,      *)
(* EdgeLock enclave), the device twin reads and verifies every exported credential, DatTrace decides every step.                       *)
EXTENDS DatTerms, Json
VARIABLES h,      \* the operations so far
          o,      \* the reference object after them
          prev    \* ... and before the last one
V0 == [f \in CredFields |-> "v0"]
\* pruned: a Parse needs an export the spec speaks about and is not repeated at once; at most MaxCredSets Set operations, neighbouring
\* ones in the order of CredRank (they commute)
CredRank(f) == CASE f = "socc" -> 1 [] f = "uuid" -> 2 [] f = "socu" -> 3 [] f = "vu" -> 4 [] f = "beacon" -> 5 [] f = "dck" -> 6
LastOp == IF Len(h) = 0 THEN [op |-> "-", f |-> "-"] ELSE h[Len(h)]
NSets == Cardinality({k \in 1..Len(h) : h[k].op = "Set"})
AppendOk(q) ==
  /\ (q.op = "Parse" => o.wst = "clean" /\ LastOp.op # "Parse")
  /\ (q.op = "Set" => NSets < MaxCredSets /\ (LastOp.op = "Set" => CredRank(LastOp.f) < CredRank(q.f)))
Init == h = <<>> /\ o = CredNew(V0) /\ prev = CredNew(V0)
Do(q) == Len(h) < MaxCredHistory /\ AppendOk(q) /\ h' = Append(h, q) /\ o' = CredStep(o, q) /\ prev' = o
DoSign == \E q \in CredOps : q.op = "Sign" /\ Do(q)
DoSet == \E q \in CredOps : q.op = "Set" /\ Do(q)
DoExport == \E q \in CredOps : q.op = "Export" /\ Do(q)
DoParse == \E q \in CredOps : q.op = "Parse" /\ Do(q)
Next == DoSign \/ DoSet \/ DoExport \/ DoParse
\* an export verifies at the device exactly when the signature the object holds was made over the values it exports; sign() followed
\* by export() on an object that has the key always is such an export, whatever was signed, set, exported or parsed before; a
\* signature made before a Set never verifies for the values after it
CredExportVerifies == LastOp.op = "Export" =>
     /\ (prev.st = "signed" => (CredClean(prev) <=> CheckDcSignature(CredOnWire(prev))))
     /\ (Len(h) > 1 /\ h[Len(h) - 1].op = "Sign" /\ prev.prov => CredClean(prev))
     /\ (Len(h) > 2 /\ h[Len(h) - 1].op = "Set" /\ h[Len(h) - 2].op = "Sign" /\ prev.st = "signed" => ~CheckDcSignature(CredOnWire(prev)))
\* an object parsed back from a clean export carries exactly what was exported, and has no key
ParsedIsWire == LastOp.op = "Parse" => o.cur = prev.wire /\ CredClean(o) /\ ~o.prov
Emit == Len(h) >= 2 /\ LastOp.op \in {"Export", "Parse"} => PrintT(ToJson([kind |-> "credhist", h |-> h]))
=============================================================================
