------------------------------- MODULE DatGen -------------------------------
(* GEN form of C15: TLC enumerates                                                                               *)
(*   - the abstract credential cases (class x protocol version x number of RoT keys x used index x wildcard x   *)
(*     which key of the case - used RoT key, another RoT key, debug key - has an X / Y coordinate with a leading *)
(*     zero byte, DatLayout.ValidShape; or x which SLOTS of the RoT key list hold the same key - every partition *)
(*     of 1..4 slots - x how a repeated slot names its key, DatLayout.ValidSlots),                               *)
(*   - the histories of the honest host (sequences of answers re-using configuration / credential / response      *)
(*     objects, DatTerms),                                                                                       *)
(*   - every delivery attempt of the intruder world of DatTerms: an original response (built by the honest host *)
(*     with cA, or signed by the intruder with cI / cE) for (u0, ch0), spliced to carry (c, intact, b, u),      *)
(*     delivered to device d whose outstanding challenge is ch,                                                  *)
(*   - what a challenge ANNOUNCES besides its vector (DatTerms): every protocol version x announcing device x    *)
(*     content of the RoT hash field x the host's way of building the answer - crossed by the harness with the   *)
(*     credential cases, so that the announced version differs from the credential's in every combination,        *)
(* checks the lemmas below over both spaces, and prints every element as JSON for the harness, which builds the  *)
(* real bytes with SPSDK, lets the device twin decide them, and hands the observations back to DatTrace.         *)
EXTENDS DatTerms, DatLayout, Json
VARIABLE x
OrigCreds == {"cA", "cI", "cE"}
\* the RoT key set is a list of slots: every pattern of slots sharing a key (DatLayout.Patterns(n), n = 1..4) x the way a repeated slot
\* names its key x each used index; a case varies the shape of ONE key or the slot pattern, not both
PlainCases(n) == {[kind |-> "case", cls |-> c, ver |-> v, nkeys |-> n, used |-> u, wild |-> w, lz |-> z, coord |-> co, pat |-> p, given |-> "-"] :
                    c \in Classes, v \in Versions, u \in 0..(n - 1), w \in BOOLEAN, z \in LzRoles, co \in Coords, p \in {<<>> \o AllDistinct(n)}}
SlotCases(n) == {[kind |-> "case", cls |-> c, ver |-> v, nkeys |-> n, used |-> u, wild |-> w, lz |-> "none", coord |-> "-", pat |-> p, given |-> g] :
                   c \in Classes, v \in Versions, u \in 0..(n - 1), w \in BOOLEAN, p \in Patterns(n), g \in Givens \ {"-"}}
CaseSet == UNION {PlainCases(n) \cup SlotCases(n) : n \in 1..4}
ValidCaseOfSpace(c) == /\ ValidCase(c.cls, c.ver, c.nkeys, c.used) /\ ValidShape(c.ver, c.nkeys, c.lz, c.coord)
                       /\ ValidSlots(c.nkeys, c.pat, c.given) /\ (c.given # "-" => c.lz = "none")
AttemptSet == {[kind |-> "attempt", binds |-> bb, c0 |-> c0, u0 |-> u0, ch0 |-> ch0, c |-> c, i |-> i, b |-> b, u |-> u, d |-> d, ch |-> ch] :
                 bb \in BOOLEAN, c0 \in OrigCreds, u0 \in Devices, ch0 \in Chals, c \in Creds, i \in BOOLEAN, b \in Beacons,
                 u \in Devices, d \in Devices, ch \in Chals}
Steps == [m : Modes, d : Devices, ch : Chals, b : Beacons]
\* challenges and beacons are interchangeable names: the first answer of a history is for (ch1, b1) without loss of generality
H1 == {<<s>> : s \in {t \in Steps : t.ch = "ch1" /\ t.b = "b1"}}
Longer(H) == {Append(h, s) : h \in H, s \in Steps}
H2 == {h \in Longer(H1) : ValidHistory(h, FALSE)}
H3 == {h \in Longer(H2) : ValidHistory(h, FALSE)}
HistorySet == {[kind |-> "history", h |-> h] : h \in H2 \cup H3}
\* what a challenge announces: any protocol version of the family of protocols, whatever the credential's is
AnnounceSet == {[kind |-> "announce", ver |-> v, d |-> d, rkth |-> k, via |-> m] : v \in Versions, d \in Devices, k \in AnnRkth, m \in AnnVias}
ASSUME MaxHistory = 3
Init == \/ x \in {c \in CaseSet : ValidCaseOfSpace(c)}
        \/ x \in {a \in AttemptSet : ~a.binds => a.u = a.u0}          \* RSA: there is no uuid field to splice
        \/ x \in HistorySet
        \/ x \in AnnounceSet
Next == UNCHANGED x
ASSUME B0 \in Beacons /\ {"d1", "d2"} \subseteq Devices
\* ---- lemmas
\* "a response never verifies against a different challenge, credential or UUID"
NeverForOther == x.kind = "attempt" => \A w \in BOOLEAN :
   AttemptVerdict(x, w) = "Accept" =>
      /\ x.ch = x.ch0 /\ x.c = x.c0 /\ x.i /\ x.b = B0                       \* same challenge, same untouched credential, same beacon
      /\ (x.binds => x.u = x.u0 /\ x.d = x.u0)                               \* ECC: same device
      /\ CredRot(x.c) = Fused /\ CredUuid(x.c, w) \in {"any", x.d}
\* ... and the honest exchange is accepted
HonestAccepted == x.kind = "attempt" /\ x.c0 = "cA" /\ x.c = "cA" /\ x.i /\ x.b = B0 /\ x.u = x.u0 /\ x.d = x.u0 /\ x.ch = x.ch0
                    => AttemptVerdict(x, TRUE) = "Accept" /\ (x.d = "d1" => AttemptVerdict(x, FALSE) = "Accept")
\* RSA: the UUID is not bound by definition - a wildcard credential's response is accepted by the other device under the same challenge
RsaNotDeviceBound == x.kind = "attempt" /\ ~x.binds /\ x.c0 = "cA" /\ x.c = "cA" /\ x.i /\ x.b = B0 /\ x.ch = x.ch0
                    => AttemptVerdict(x, TRUE) = "Accept"
\* histories: whatever the host answered before and whatever it re-uses, the answer of step k is accepted by the device it was built
\* for under the challenge it was built for (credential scope permitting), and by no device under any other challenge; ECC: by no other device
HistoryBound == x.kind = "history" => \A bb \in BOOLEAN, w \in BOOLEAN, k \in 1..Len(x.h) :
   /\ \A t \in StepVerdicts(bb, w, x.h[k], Devices) : t.v = "Accept" => t.ch = x.h[k].ch /\ (bb => t.d = x.h[k].d)
   /\ (w \/ x.h[k].d = "d1") => [d |-> x.h[k].d, ch |-> x.h[k].ch, v |-> "Accept"] \in StepVerdicts(bb, w, x.h[k], Devices)
   /\ Cardinality(StepVerdicts(bb, w, x.h[k], Devices)) = Cardinality(Devices) * Cardinality(Chals)
\* what the challenge announces about protocol version and RoT hash is no input of the response: for a credential of EITHER protocol kind
\* (bb) the answer to announcement x is accepted by the announcing device under its challenge (credential scope permitting), by no device
\* under another challenge and - ECC credential - by no other device
AnnounceBound == x.kind = "announce" => \A bb \in BOOLEAN, w \in BOOLEAN :
   /\ \A t \in AnnVerdicts(bb, w, x, Devices) : t.v = "Accept" => t.ch = "ch1" /\ (bb => t.d = x.d)
   /\ (w \/ x.d = "d1") => [d |-> x.d, ch |-> "ch1", v |-> "Accept"] \in AnnVerdicts(bb, w, x, Devices)
   /\ Cardinality(AnnVerdicts(bb, w, x, Devices)) = Cardinality(Devices) * Cardinality(Chals)
\* ... and the FORM of the answer is the credential's: an answer in the form of the announced version - UUID embedded and signed exactly when
\* the ANNOUNCED version is an ECC one - is, wherever the announced kind is not the credential's, accepted by no device under any challenge
\* (the device reads the response along the credential it carries); and were a device to read it along its announcement instead, the
\* RSA-form answer made with a wildcard ECC credential would open every other device that has the same challenge outstanding
FormFollowsCredential == x.kind = "announce" =>
   /\ \A bb \in BOOLEAN, w \in BOOLEAN :
        BindsUuid(x.ver) # bb => \A d \in Devices, ch \in Chals : Verdict(AnnResp(BindsUuid(x.ver), x), d, ch, bb, w) # "Accept"
   /\ ~BindsUuid(x.ver) => \A d \in Devices : Verdict(AnnResp(FALSE, x), d, "ch1", FALSE, TRUE) = "Accept"
\* (the layout depends on class, version and number of keys only - not on the values of the keys: checked once per such triple and wildcard flag)
Layout == x.kind = "case" /\ x.lz = "none" /\ x.given = "-" => LayoutLemma(x.cls, x.ver, x.nkeys) /\ (x.cls = "ele2" => Msg2Lemma(x.ver))
\* ---- the slot dimension
\* the patterns are exactly the partitions of the slots (1, 2, 5, 15 of them), each in its canonical numbering
Partitions(S) == {P \in SUBSET ((SUBSET S) \ {{}}) : (UNION P) = S /\ \A a \in P, b \in P : a = b \/ a \cap b = {}}
ASSUME SlotPatternsArePartitions ==
  \A n \in 1..4 : /\ Cardinality(Patterns(n)) = <<1, 2, 5, 15>>[n]
                   /\ {BlocksOf(p) : p \in Patterns(n)} = Partitions(1..n)
                   /\ \A p \in Patterns(n) : PatternOf(p) = p /\ \A u \in 0..(n - 1) : p[FirstSlot(p, u) + 1] = p[u + 1] /\ FirstSlot(p, u) <= u
\* one table entry per slot; the entry of the named slot is the hash of the key the credential is signed with; entries are equal exactly
\* where the slots hold the same key
SlotEntries == x.kind = "case" => \A k \in RotKinds :
   LET t == RotHashTerm(k, x.pat) IN
   /\ Len(t.over) = (IF k = "rsa" THEN 4 ELSE x.nkeys)
   /\ NamedEntry(k, x.pat, x.used) = [kh |-> x.pat[x.used + 1]]
   /\ \A i \in 1..x.nkeys, j \in 1..x.nkeys : (t.over[i] = t.over[j]) <=> (x.pat[i] = x.pat[j])
\* the root of trust is the LIST: a table built over the key files read once (a set) is another term whenever a key is repeated - so the
\* image side, which hashes the list, and the device would disagree with it
ListNotSet == x.kind = "case" /\ x.given # "-" => \A k \in RotKinds :
   /\ RotHashTerm(k, ReadOnce(x.pat)) # RotHashTerm(k, x.pat)
   /\ Len(ReadOnce(x.pat)) < x.nkeys
ListIsSetWhenDistinct == x.kind = "case" /\ x.given = "-" => ReadOnce(x.pat) = x.pat
Emit == PrintT(ToJson(x))
=============================================================================
