------------------------------- MODULE DatGen -------------------------------
(* GEN form of C15: TLC enumerates                                                                               *)
(*   - the abstract credential cases (class x protocol version x number of RoT keys x used index x wildcard),   *)
(*   - every delivery attempt of the intruder world of DatTerms: an original response (built by the honest host *)
(*     with cA, or signed by the intruder with cI / cE) for (u0, ch0), spliced to carry (c, intact, b, u),      *)
(*     delivered to device d whose outstanding challenge is ch,                                                  *)
(* checks the lemmas below over both spaces, and prints every element as JSON for the harness, which builds the  *)
(* real bytes with SPSDK, lets the device twin decide them, and hands the observations back to DatTrace.         *)
EXTENDS DatTerms, DatLayout, Json
VARIABLE x
OrigCreds == {"cA", "cI", "cE"}
CaseSet == {[kind |-> "case", cls |-> c, ver |-> v, nkeys |-> n, used |-> u, wild |-> w] :
              c \in Classes, v \in Versions, n \in 1..4, u \in 0..3, w \in BOOLEAN}
AttemptSet == {[kind |-> "attempt", binds |-> bb, c0 |-> c0, u0 |-> u0, ch0 |-> ch0, c |-> c, i |-> i, b |-> b, u |-> u, d |-> d, ch |-> ch] :
                 bb \in BOOLEAN, c0 \in OrigCreds, u0 \in Devices, ch0 \in Chals, c \in Creds, i \in BOOLEAN, b \in Beacons,
                 u \in Devices, d \in Devices, ch \in Chals}
Init == \/ x \in {c \in CaseSet : ValidCase(c.cls, c.ver, c.nkeys, c.used)}
        \/ x \in {a \in AttemptSet : ~a.binds => a.u = a.u0}          \* RSA: there is no uuid field to splice
Next == UNCHANGED x
ASSUME B0 \in Beacons /\ {"d1", "d2"} \subseteq Devices
\* ---- lemmas
\* "a response never verifies against a different challenge, credential or UUID"
NeverForOther == x.kind = "attempt" => \A w \in BOOLEAN :
   AttemptVerdict(x, w) = "Accept" =>
      /\ x.ch = x.ch0 /\ x.c = x.c0 /\ x.i /\ x.b = B0                       \* same challenge, same untouched credential, same beacon
      /\ (x.binds => x.u = x.u0 /\ x.d = x.u0)                               \* ECC: same device
      /\ CredRot(x.c) = Fused /\ CredUuid(x.c, w) \in {"any", x.d}
\* ... and the honest exchange is accepted
HonestAccepted == x.kind = "attempt" /\ x.c0 = "cA" /\ x.c = "cA" /\ x.i /\ x.b = B0 /\ x.u = x.u0 /\ x.d = x.u0 /\ x.ch = x.ch0
                    => AttemptVerdict(x, TRUE) = "Accept" /\ (x.d = "d1" => AttemptVerdict(x, FALSE) = "Accept")
\* RSA: the UUID is not bound by definition - a wildcard credential's response is accepted by the other device under the same challenge
RsaNotDeviceBound == x.kind = "attempt" /\ ~x.binds /\ x.c0 = "cA" /\ x.c = "cA" /\ x.i /\ x.b = B0 /\ x.ch = x.ch0
                    => AttemptVerdict(x, TRUE) = "Accept"
Layout == x.kind = "case" => LayoutLemma(x.cls, x.ver, x.nkeys) /\ (x.cls = "ele2" => Msg2Lemma(x.ver))
Emit == PrintT(ToJson(x))
=============================================================================
