CONSTANTS Devices = {"d1", "d2"}
 Chals = {"ch1", "ch2"}
 Beacons = {"b1", "b2"}
INIT Init
NEXT Next
INVARIANT CredExportVerifies
INVARIANT ParsedIsWire
INVARIANT Emit
CHECK_DEADLOCK FALSE
