CONSTANTS Devices = {"d1", "d2"}
 Chals = {"ch1"}
 Beacons = {"b1"}
 MaxNet = 1
INIT Init
NEXT MCNext
INVARIANT NeverAccepts
CHECK_DEADLOCK FALSE
