----------------------------- MODULE DatLayout -----------------------------
(* C15 R-spec, byte-layout part: debug credential (DC), challenge (DAC) and response (DAR) per protocol version *)
(* and credential class.  Field ORDER is the one of the anchored artefacts (anchors/C15):                        *)
(*   new_dck_rsa2048.cert (1.0, 940 bytes)      version socc uuid rotmeta dck cc_socu cc_vu cc_beacon rotpub sig *)
(*   new_dck_secp256r1.cert (2.0, 1 key, 232)   version socc uuid cc_socu cc_vu cc_beacon rotflags [rottable]    *)
(*   lpc55s3x_dck_secp384r1.cert (2.1, 4 keys, 520)                                   rotpub dck sig             *)
(*   rt118x_ecc256.dc (enclave, 2.0, 476)       version socc uuid cc_socu cc_vu cc_beacon rotflags SRK-table     *)
(*   rt118x_rsa2048.dc (enclave, 1.0, 1647)                                           dck sig                    *)
(*   sample_dac.bin / sample_dac_ecc.bin (104), sample_dac_lpc55s3x.bin (120)                                    *)
(* The ASSUME at the end re-derives the five anchored lengths from the definitions.                              *)
EXTENDS Naturals, Sequences, FiniteSets

Versions == {<<1, 0>>, <<1, 1>>, <<2, 0>>, <<2, 1>>, <<2, 2>>}
Classes == {"classic", "ele1", "ele2"}
IsRsa(v) == v[1] = 1
BindsUuid(v) == v[1] = 2                       \* the response of the ECC versions carries and signs the device UUID
\* modulus bytes (RSA) / coordinate bytes (ECC)
KeySize(v) == CASE v = <<1, 0>> -> 256 [] v = <<1, 1>> -> 512 [] v = <<2, 0>> -> 32 [] v = <<2, 1>> -> 48 [] v = <<2, 2>> -> 66
\* length of a key hash / of the root-of-trust hash (SHA-256 for RSA, SHA-256/384/512 by curve)
HashLen(v) == CASE IsRsa(v) -> 32 [] v = <<2, 0>> -> 32 [] v = <<2, 1>> -> 48 [] v = <<2, 2>> -> 64
SigLen(v) == IF IsRsa(v) THEN KeySize(v) ELSE 2 * KeySize(v)
KeyBlobLen(v) == IF IsRsa(v) THEN KeySize(v) + 4 ELSE 2 * KeySize(v)       \* modulus || exponent(4)   /   x || y
EleDckLen(v) == IF IsRsa(v) THEN KeySize(v) + 3 ELSE 2 * KeySize(v)        \* enclave: modulus || exponent(3)  (anchor rt118x_rsa2048.dc)

F(n, l) == [n |-> n, l |-> l]
Hdr == <<F("version", 4), F("socc", 4), F("uuid", 16)>>
Constraints == <<F("cc_socu", 4), F("cc_vu", 4), F("cc_beacon", 4)>>
\* AHAB SRK table, container version 1: 4-byte header, per key a 12-byte record header and the two key parameters
SrkRecord(v) == <<F("srk_record", 12), F("srk_param1", KeySize(v)), F("srk_param2", IF IsRsa(v) THEN 4 ELSE KeySize(v))>>
RECURSIVE Rep(_, _)
Rep(s, k) == IF k = 0 THEN <<>> ELSE s \o Rep(s, k - 1)
SrkTable(v, n) == <<F("srk_table_header", 4)>> \o Rep(SrkRecord(v), n)

\* enclave, container version 2: the credential is an AHAB certificate (no protocol version, no vendor usage, no RoT meta data:
\* the SRK table travels in the response); layout from the format tables of the AHAB documentation, no golden artefact
Cert2 (v) == <<F("hdr", 4), F("sig_offset", 2), F("permissions", 2), F("socc", 4), F("cc_socu", 4), F("cc_beacon", 4), F("fuse_version", 4),
               F("uuid", 16), F("srk_record", 12), F("srk_data_hash", 64), F("srk_data_header", 8), F("dck", 2 * KeySize(v)),
               F("sig_header", 8), F("signature", SigLen(v))>>
DcFieldLens(cls, v, n) ==
  IF cls = "ele2" THEN Cert2(v)
  ELSE IF cls = "ele1"
    THEN Hdr \o Constraints \o <<F("rotflags", 4)>> \o SrkTable(v, n) \o <<F("dck", EleDckLen(v)), F("signature", SigLen(v))>>
  ELSE IF IsRsa(v)
    THEN Hdr \o <<F("rotmeta", 128), F("dck", KeyBlobLen(v))>> \o Constraints \o <<F("rotpub", KeyBlobLen(v)), F("signature", SigLen(v))>>
  ELSE Hdr \o Constraints \o <<F("rotflags", 4), F("rottable", IF n > 1 THEN n * HashLen(v) ELSE 0),
                                F("rotpub", KeyBlobLen(v)), F("dck", KeyBlobLen(v)), F("signature", SigLen(v))>>

RECURSIVE SumLen(_)
SumLen(s) == IF s = <<>> THEN 0 ELSE Head(s).l + SumLen(Tail(s))
\* the field table with offsets, as an executor walking the bytes must find it
WithOffsets(s) == [i \in 1..Len(s) |-> [n |-> s[i].n, o |-> SumLen(SubSeq(s, 1, i - 1)), l |-> s[i].l]]
DcTable(cls, v, n) == WithOffsets(DcFieldLens(cls, v, n))
DcLen(cls, v, n) == SumLen(DcFieldLens(cls, v, n))
\* the RoT signature covers bytes [0, DcSigAt)  (ele2: up to the header of the signature container)
DcSigAt(cls, v, n) == DcLen(cls, v, n) - SigLen(v) - (IF cls = "ele2" THEN 8 ELSE 0)

\* ele2: the response is a signed message: container header, message (descriptor, header, uuid, challenge vector, beacon), signature
\* block (header, SRK table array with the data of the used key, container signature, certificate = the credential), zero padding to 8
Msg2Body(v) == <<F("container_header", 16), F("msg_descriptor", 36), F("msg_header", 8), F("msg_uuid", 8), F("challenge", 32), F("beacon", 2),
                 F("sigblock_header", 16), F("srk_array_header", 8), F("srk_table_header", 4)>> \o Rep(<<F("srk_record", 76)>>, 4)
               \o <<F("srk_data_header", 8), F("rotpub", 2 * KeySize(v)), F("sig_header", 8), F("signature", SigLen(v)), F("dc", SumLen(Cert2(v)))>>
Msg2(v) == Msg2Body(v) \o <<F("pad", (8 - (SumLen(Msg2Body(v)) % 8)) % 8)>>
Msg2SigAt(v) == SumLen(Msg2Body(v)) - SumLen(Cert2(v)) - SigLen(v) - 8        \* the debug key signs bytes [0, Msg2SigAt)
DarFieldLens(cls, v, n) == IF cls = "ele2" THEN Msg2(v) ELSE
                           <<F("dc", DcLen(cls, v, n)), F("beacon", 4)>> \o (IF BindsUuid(v) THEN <<F("uuid", 16)>> ELSE <<>>)
                           \o <<F("signature", SigLen(v))>>
DarTable(cls, v, n) == WithOffsets(DarFieldLens(cls, v, n))
DarLen(cls, v, n) == SumLen(DarFieldLens(cls, v, n))
\* what the debug-credential key signs: credential, beacon, (ECC) device UUID, challenge vector
RespCover(v) == IF BindsUuid(v) THEN <<"dc", "beacon", "uuid", "chal">> ELSE <<"dc", "beacon", "chal">>
RespCoverLens(cls, v, n) == IF BindsUuid(v) THEN <<DcLen(cls, v, n), 4, 16, 32>> ELSE <<DcLen(cls, v, n), 4, 32>>

\* challenge: version socc uuid revocation rot-hash pinned default vu challenge(32)
DacHashLen(cls, v, sha256) == IF cls = "ele1" \/ sha256 \/ IsRsa(v) THEN 32 ELSE HashLen(v)
DacLen(hl) == 4 + 4 + 16 + 4 + hl + 4 + 4 + 4 + 32

\* domain of the credential cases
ValidCase(cls, v, n, used) == /\ cls \in Classes /\ v \in Versions /\ n \in 1..4 /\ used \in 0..(n - 1)
                              /\ (cls \in {"ele1", "ele2"} => n = 4)            \* an enclave SRK table always has four keys
                              /\ (cls = "ele2" => ~IsRsa(v))                   \* container version 2 is asserted for the ECC key types
\* key shapes: every coordinate of an ECC key is encoded in KeySize(v) bytes whatever its value.  lz names the key of the case whose
\* public point has a coordinate (coord = "x" / "y") starting with a zero byte: the RoT key in use, another RoT key of the set, or the
\* debug key.  Asked for P-256 / P-384 (for P-521 the top byte of a 66-byte coordinate is 0 or 1 anyway; an RSA modulus has no leading zero).
LzRoles == {"none", "used", "other", "dck"}
Coords == {"-", "x", "y"}
ValidShape(v, n, lz, coord) == /\ lz \in LzRoles /\ coord \in Coords /\ ((lz = "none") = (coord = "-"))
                               /\ (lz # "none" => KeySize(v) \in {32, 48})
                               /\ (lz = "other" => n > 1)
\* shapes = [rot |-> <<shape of RoT key 0, ...>>, dck |-> shape] as found in the key files ("-", "x", "y", "xy"): the keys of the case have the asked shape
ShapesFit(v, n, used, lz, coord, shapes) ==
  /\ Len(shapes.rot) = n
  /\ KeySize(v) \in {32, 48} =>
       /\ shapes.dck = (IF lz = "dck" THEN coord ELSE "-")
       /\ shapes.rot[used + 1] = (IF lz = "used" THEN coord ELSE "-")
       /\ IF lz = "other" THEN \E j \in (1..n) \ {used + 1} : shapes.rot[j] = coord /\ \A i \in (1..n) \ {used + 1, j} : shapes.rot[i] = "-"
          ELSE \A i \in (1..n) \ {used + 1} : shapes.rot[i] = "-"
\* ---- the RoT key set is a LIST of slots
\* "RoT key sets of 1..4 keys and each used index": credential, certificate block and SRK table have n SLOTS, and nothing stops the same
\* key from filling several of them (one key in every slot of a part that wants four; a key kept in two slots while a third is rotated).
\* Which slots share a key is the pattern pat, a restricted growth string: pat[1] = 0, pat[i] is at most one more than the largest value
\* in front of it; pat[i] = pat[j] exactly when slots i and j hold the same key, and slot i holds key number pat[i] of the key pool.
\* Patterns(n) is in bijection with the partitions of 1..n (lemma SlotPatternsArePartitions of DatGen).
\* given = how a slot that repeats the key of an earlier slot names it: "path" - the very same file path once more, "copy" - another
\* file (another path) that holds the same key; "-" when all slots differ.
SlotMax(S) == CHOOSE m \in S : \A k \in S : k <= m
RECURSIVE PatternsRec(_)
PatternsRec(n) == IF n = 1 THEN {<<0>>}
                  ELSE UNION {{Append(p, k) : k \in 0..(SlotMax({p[j] : j \in 1..(n - 1)}) + 1)} : p \in PatternsRec(n - 1)}
PatternTable == [n \in 1..4 |-> PatternsRec(n)]           \* (a constant: TLC evaluates it once)
Patterns(n) == PatternTable[n]
AllDistinct(n) == [i \in 1..n |-> i - 1]
Givens == {"-", "path", "copy"}
ValidSlots(n, pat, given) == /\ n \in 1..4 /\ pat \in Patterns(n) /\ given \in Givens /\ ((pat = AllDistinct(n)) <=> (given = "-"))
\* the pattern of ANY list of values: entries are numbered in the order of their first appearance, equal entries get the same number
FirstAt(s, i) == CHOOSE j \in 1..i : s[j] = s[i] /\ \A k \in 1..(j - 1) : s[k] # s[i]
PatternOf(s) == [i \in 1..Len(s) |-> Cardinality({s[j] : j \in 1..(FirstAt(s, i) - 1)})]
\* the first slot (0-based) that holds the key of slot `used`; the blocks of a pattern
FirstSlot(pat, used) == FirstAt(pat, used + 1) - 1
BlocksOf(p) == {{j \in 1..Len(p) : p[j] = p[i]} : i \in 1..Len(p)}
\* the files a run really used fit the case: slots = [keys |-> <<fingerprint of the key the file of slot i holds>>, paths |-> <<its path>>]
SlotsFit(n, pat, given, slots) == /\ Len(slots.keys) = n /\ Len(slots.paths) = n
                                  /\ PatternOf(slots.keys) = pat
                                  /\ PatternOf(slots.paths) = (IF given = "path" THEN pat ELSE AllDistinct(n))
\* the root-of-trust hash clause needs the image side to define a value: it does not for P-521 (no certificate block takes it)
RotHashDefined(v) == v # <<2, 2>>

\* ---- facts
SignedFields(cls, v, n) == {DcFieldLens(cls, v, n)[i].n : i \in 1..(Len(DcFieldLens(cls, v, n)) - 1)} \ {"sig_header"}
\* ele2: challenge vector, beacon and the selected SRK lie inside the range the debug key signs; the credential does not (it is
\* bound to the response through the debug key only - container format, not reported)
Msg2Lemma(v) == LET T == WithOffsets(Msg2(v)) IN
  /\ \A i \in 1..Len(T) : T[i].n \in {"container_header", "msg_header", "msg_uuid", "challenge", "beacon", "sigblock_header", "srk_record", "rotpub"}
                              => T[i].o + T[i].l <= Msg2SigAt(v)
  /\ \E i \in 1..Len(T) : T[i].n = "sig_header" /\ T[i].o = Msg2SigAt(v)
  /\ SumLen(Msg2(v)) % 8 = 0
LayoutLemma(cls, v, n) ==
  LET T == DcTable(cls, v, n) IN
  /\ T[Len(T)].n = "signature" /\ T[Len(T)].o = DcLen(cls, v, n) - SigLen(v)                   \* the signature is the last field
  /\ \A i \in 1..(Len(T) - 1) : /\ T[i].o + T[i].l = T[i + 1].o                                 \* gap-free
                                 /\ (T[i].n # "sig_header" => T[i].o + T[i].l <= DcSigAt(cls, v, n))   \* all preceding fields inside the signed range
  /\ IF cls = "ele2" THEN {"socc", "uuid", "dck", "cc_socu", "cc_beacon", "permissions"} \subseteq SignedFields(cls, v, n)
     ELSE /\ {"version", "socc", "uuid", "dck", "cc_socu", "cc_vu", "cc_beacon"} \subseteq SignedFields(cls, v, n)
          /\ SignedFields(cls, v, n) \cap {"rotmeta", "rotflags"} # {}                         \* RoT meta data is signed too
ASSUME /\ DcLen("classic", <<1, 0>>, 1) = 940 /\ DcLen("classic", <<2, 0>>, 1) = 232 /\ DcLen("classic", <<2, 1>>, 4) = 520
       /\ DcLen("ele1", <<2, 0>>, 4) = 476 /\ DcLen("ele1", <<1, 0>>, 4) = 1647
       /\ DacLen(32) = 104 /\ DacLen(48) = 120
       /\ DcLen("ele2", <<2, 0>>, 4) = 260 /\ SumLen(Msg2(<<2, 0>>)) = 840 /\ Msg2SigAt(<<2, 0>>) = 506
=============================================================================
