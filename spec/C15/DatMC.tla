------------------------------- MODULE DatMC -------------------------------
(* MC form of Dat: small constants; the honest host answers at most MaxNet times (what the intruder does with *)
(* the answers is not bounded: every splice of every seen response and every forgery can be delivered).       *)
EXTENDS Dat
CONSTANT MaxNet
MCHostRespond == Cardinality(net) < MaxNet /\ DoHostRespond
MCNext == DoChallenge \/ MCHostRespond \/ DeliverSeen \/ DeliverSpliced \/ DeliverForged
\* non-vacuity: both outcomes of a delivery are reachable (checked by the harness as "these invariants are VIOLATED")
NeverAccepts == accepted = {}
NeverRejects == nrej = 0
=============================================================================
