------------------------------- MODULE DatMC -------------------------------
(* MC form of Dat: small constants, the wire bounded to MaxNet responses (the intruder's splices are unbounded *)
(* in kind, bounded in number).                                                                               *)
EXTENDS Dat
CONSTANT MaxNet
Bound == Cardinality(net) <= MaxNet
=============================================================================
