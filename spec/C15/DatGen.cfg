CONSTANTS Devices = {"d1", "d2"}
 Chals = {"ch1", "ch2"}
 Beacons = {"b1", "b2"}
INIT Init
NEXT Next
INVARIANT NeverForOther
INVARIANT HonestAccepted
INVARIANT RsaNotDeviceBound
INVARIANT HistoryBound
INVARIANT AnnounceBound
INVARIANT FormFollowsCredential
INVARIANT Layout
INVARIANT SlotEntries
INVARIANT ListNotSet
INVARIANT ListIsSetWhenDistinct
INVARIANT Emit
CHECK_DEADLOCK FALSE
