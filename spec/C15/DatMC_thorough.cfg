CONSTANTS Devices = {"d1", "d2"}
 Chals = {"ch1", "ch2"}
 Beacons = {"b1", "b2"}
 MaxNet = 3
INIT Init
NEXT MCNext
INVARIANT BoundToChallenge
INVARIANT BoundToCredential
INVARIANT BoundToBeacon
INVARIANT BoundToDevice
INVARIANT HostAuthentic
INVARIANT IntruderConfined
INVARIANT CredentialScope
INVARIANT NoReplay
INVARIANT NoEscalation
CHECK_DEADLOCK FALSE
