-------------------------------- MODULE Dat --------------------------------
(* C15 R-spec, protocol part: debug authentication as a two-party protocol (device = boot ROM / enclave, host =  *)
(* the tool holding a debug credential) with a Dolev-Yao intruder.  Everything here is fixed by the silicon and  *)
(* the protocol definition; SPSDK only plays the host.                                                           *)
(*                                                                                                               *)
(* Terms and the device's acceptance automaton (CheckDcSignature, CheckRotHash, CheckDcBinding,                 *)
(* CheckResponseSignature) are in DatTerms; the byte layouts in DatLayout.                                       *)
(*                                                                                                               *)
(*   DC  = Cat(<fields of the protocol version in anchored order>, Sig(rotk, all preceding bytes))               *)
(*   DAR = Cat(DC, beacon, [uuid], Sig(dck, Cat(DC, beacon, [uuid], challenge)))        [uuid]: ECC versions 2.x *)
(*                                                                                                               *)
(* In the RSA versions 1.0 / 1.1 the UUID is NOT part of the response: the response is bound to a device only    *)
(* through the challenge and through the UUID inside the credential.  That is the protocol, not a defect;        *)
(* BoundToDevice is therefore stated for the ECC versions only.                                                  *)
EXTENDS DatTerms

\* ------------------------------------------------------------------ the protocol
VARIABLES binds,      \* TRUE = ECC protocol version (UUID in the response), FALSE = RSA; fixed per behaviour
          wild,       \* TRUE = the host's credentials are wildcard credentials (uuid = 0); fixed per behaviour
          session,    \* session[d] = challenge outstanding at device d, or "none"
          issued,     \* challenges a device has ever issued (a device draws FRESH challenges)
          net,        \* every response the honest host has put on the wire - the intruder may replay and splice all of them
          built,      \* ghost: what the honest host really built  <<c, b, u, ch>>
          accepted,   \* ghost: <<d, ch, r>> accepted by the devices
          nrej        \* number of rejected deliveries, saturating (for non-vacuity only)
vars == <<binds, wild, session, issued, net, built, accepted, nrej>>

Init == /\ binds \in BOOLEAN /\ wild \in BOOLEAN
        /\ session = [d \in Devices |-> "none"] /\ issued = [d \in Devices |-> {}]
        /\ net = {} /\ built = {} /\ accepted = {} /\ nrej = 0

Challenge(d) == /\ session[d] = "none"
                /\ \E ch \in Chals \ issued[d] : /\ session' = [session EXCEPT ![d] = ch]
                                                  /\ issued' = [issued EXCEPT ![d] = @ \cup {ch}]
                /\ UNCHANGED <<binds, wild, net, built, accepted, nrej>>
\* the honest host answers whatever challenge it is shown (a host that refuses more is covered a fortiori)
HostRespond(d, c, b) == /\ session[d] # "none"
                        /\ Resp(binds, c, b, d, session[d]) \notin net
                        /\ net' = net \cup {Resp(binds, c, b, d, session[d])}
                        /\ built' = built \cup {<<c, b, UuidPart(binds, d), session[d]>>}
                        /\ UNCHANGED <<binds, wild, session, issued, accepted, nrej>>
Deliver(d, r) ==
  /\ session[d] # "none"
  /\ IF Verdict(r, d, session[d], binds, wild) = "Accept"
       THEN accepted' = accepted \cup {<<d, session[d], r>>} /\ nrej' = nrej
       ELSE accepted' = accepted /\ nrej' = IF nrej < 2 THEN nrej + 1 ELSE nrej
  /\ session' = [session EXCEPT ![d] = "none"]              \* a challenge is used up by one attempt
  /\ UNCHANGED <<binds, wild, issued, net, built>>

DoChallenge == \E d \in Devices : Challenge(d)
DoHostRespond == \E d \in Devices, c \in HostCreds, b \in Beacons : HostRespond(d, c, b)
DeliverSeen == \E d \in Devices, r \in net : Deliver(d, r)                                   \* relay / replay
DeliverSpliced == \E d \in Devices, r0 \in net : \E r \in Splices(binds, r0) \ {r0} : Deliver(d, r)
\* forgeries: signed by the intruder for whatever (beacon, uuid, challenge) he likes, presented with any credential - his own or the
\* host's, intact or altered (the full splice space of forgeries is covered by the lemma NeverForOther of DatGen)
DeliverForged == \E d \in Devices, r0 \in Forgeries(binds), c \in Creds, i \in BOOLEAN : Deliver(d, [r0 EXCEPT !.dc = DcTerm(c, i)])
Next == DoChallenge \/ DoHostRespond \/ DeliverSeen \/ DeliverSpliced \/ DeliverForged
Spec == Init /\ [][Next]_vars

\* ------------------------------------------------------------------ what acceptance means (the property)
\* Accept(session) => the response was built for (challenge(session), dc, uuid):
BoundToChallenge == \A a \in accepted : a[3].sig.msg[4] = a[2]
BoundToCredential == \A a \in accepted : /\ a[3].sig.msg[1] = a[3].dc /\ a[3].dc.intact
                                         /\ a[3].sig.key = CredDck(a[3].dc.id) /\ CredRot(a[3].dc.id) = Fused
BoundToBeacon == \A a \in accepted : a[3].sig.msg[2] = a[3].beacon
BoundToDevice == binds => \A a \in accepted : a[3].sig.msg[3] = a[1] /\ a[3].uuid = a[1]
\* whatever is accepted under the HOST's debug key is something the host really built, for this very challenge
HostAuthentic == \A a \in accepted : a[3].sig.key = "dckHost" =>
                   <<a[3].dc.id, a[3].beacon, UuidPart(binds, a[1]), a[2]>> \in built
\* the intruder's own credentials open nothing but his own device; a self-made credential opens nothing
IntruderConfined == \A a \in accepted : a[3].dc.id \in IntruderCreds => a[3].dc.id = "cI" /\ a[1] = "d2"
\* a credential for d1 opens d1 only; a wildcard opens any device - but only with a response built for that device (ECC)
CredentialScope == \A a \in accepted : CredUuid(a[3].dc.id, wild) \in {"any", a[1]}
\* challenges being fresh, no response is accepted twice by the same device
NoReplay == \A a1, a2 \in accepted : a1[1] = a2[1] /\ a1[3] = a2[3] => a1 = a2
\* the intruder never gets more rights than the host asked for: no accepted response carries cB unless the host built it with cB
NoEscalation == \A a \in accepted : a[3].dc.id = "cB" => \E t \in built : t[1] = "cB" /\ t[4] = a[2]
=============================================================================
