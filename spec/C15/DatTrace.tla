------------------------------ MODULE DatTrace ------------------------------
(* TV form of C15.  One trace = one credential case executed on the real code:                                   *)
(*   Case, then the steps of Order(class) - Create, DcLayout, DcFields, DcKeys, SpsdkParse, CheckDcSignature,    *)
(*   CheckRotHash, Dac, Respond, DarLayout, DarFields, CheckResponseSignature [, Deliver] -,                     *)
(*   then (Attempt | History | Announce | Tamper)*, Done.                                                        *)
(* Lane "slots" (Case.lane): the RoT key list of the case has slots sharing a key (Case.pat, Case.given); the     *)
(*   trace is the fixed part only - up to CheckRotHash (container version 2, where the SRK table travels in the   *)
(*   response: the whole fixed part).                                                                            *)
(* Lane "cred" (Case.lane): Case, then histories of ONE credential object each - CredNew, (CredSign | CredSet | *)
(*   CredExport | CredParse)* - , Done: the object model of DatTerms is stepped along the logged operations.     *)
(* The harness drives SPSDK (the host) and the device twin (independent parser / verifier); every number it logs *)
(* is recomputed here from the case parameters, every crypto fact must be TRUE, every delivery attempt must get  *)
(* the verdict of the acceptance automaton of DatTerms.                                                          *)
(* A trace whose step X was rejected (and reported) is submitted again without X and with X in Case.skip, so     *)
(* that the clauses after a known finding are still decided; a step may be absent only if it is listed there.    *)
EXTENDS DatTerms, DatLayout, Json, IOUtils
Traces == ndJsonDeserialize(IOEnv.TRACE_FILE)
VARIABLES tid, l, pos, cs, inp, ob
T == Traces[tid].ev
E == T[l]
V == <<cs.ver[1], cs.ver[2]>>
N == cs.nkeys
C == cs.cls
Order(cls) ==
  IF cs.lane = "cred" THEN <<>>            \* the credential-object lane has no fixed part
  ELSE IF cs.lane = "slots" /\ cls # "ele2"
    THEN <<"Create", "DcLayout", "DcFields", "DcKeys", "SpsdkParse", "CheckDcSignature", "CheckRotHash">>
  ELSE IF cls = "ele2"
    THEN <<"Create", "DcLayout", "DcFields", "DcKeys", "SpsdkParse", "CheckDcSignature", "Dac", "Respond", "DarLayout", "DarFields",
           "CheckRotHash", "CheckResponseSignature", "Deliver">>
    ELSE <<"Create", "DcLayout", "DcFields", "DcKeys", "SpsdkParse", "CheckDcSignature", "CheckRotHash", "Dac", "Respond", "DarLayout",
           "DarFields", "CheckResponseSignature">>
Ord == Order(C)
Start == 0 - 1
Refused == 99
Finished == 100
Is(e) == l <= Len(T) /\ E.e = e /\ pos >= 0 /\ pos < Len(Ord) /\ Ord[pos + 1] = e
Adv == l' = l + 1 /\ pos' = pos + 1 /\ UNCHANGED tid
Keep == UNCHANGED <<cs, inp, ob>>
Open == pos >= 0 /\ pos = Len(Ord)
Zero16 == [i \in 1..16 |-> 0]
Skippable == {"DcFields", "DcKeys", "SpsdkParse", "CheckDcSignature", "CheckRotHash", "Dac", "DarFields", "CheckResponseSignature", "Deliver"}
TInit == /\ tid \in 1..Len(Traces) /\ l = 1 /\ pos = Start /\ cs = [cls |-> "none", lane |-> "main"] /\ inp = [none |-> 0] /\ ob = [alive |-> FALSE] /\ TLCSet(tid, 1)

TCase == /\ l <= Len(T) /\ E.e = "Case" /\ pos = Start /\ Len(E.ver) = 2 /\ ValidCase(E.cls, <<E.ver[1], E.ver[2]>>, E.nkeys, E.used)
         /\ ValidShape(<<E.ver[1], E.ver[2]>>, E.nkeys, E.lz, E.coord)
         /\ ShapesFit(<<E.ver[1], E.ver[2]>>, E.nkeys, E.used, E.lz, E.coord, E.shapes)      \* the keys of the run have the shape the case asks for
         /\ ValidSlots(E.nkeys, E.pat, E.given) /\ (E.given # "-" => E.lz = "none")
         /\ SlotsFit(E.nkeys, E.pat, E.given, E.slots)                  \* the key files of the run share keys / paths exactly as the case says
         /\ {E.skip[i] : i \in 1..Len(E.skip)} \subseteq Skippable /\ E.lane \in {"main", "cred", "slots"}
         /\ (E.given # "-" => E.lane = "slots")
         /\ cs' = E /\ UNCHANGED <<inp, tid, ob>> /\ l' = l + 1 /\ pos' = 0
\* a step listed in Case.skip may be absent
TSkip == /\ pos >= 0 /\ pos < Len(Ord) /\ \E i \in 1..Len(cs.skip) : cs.skip[i] = Ord[pos + 1]
         /\ (l > Len(T) \/ E.e # Ord[pos + 1])
         /\ pos' = pos + 1 /\ UNCHANGED <<tid, l>> /\ Keep
\* SPSDK may refuse a configuration: then it has created nothing and the property says nothing
TCreateRefused == Is("Create") /\ ~E.ok /\ Keep /\ l' = l + 1 /\ pos' = Refused /\ UNCHANGED tid
TCreate == /\ Is("Create") /\ E.ok /\ E.len = DcLen(C, V, N)
           /\ cs.wild = (E.in.uuid = Zero16)
           /\ inp' = E.in /\ UNCHANGED <<cs, ob>> /\ Adv
\* independent walk of the exported bytes: field table = the table of the spec, nothing left over
TDcLayout == /\ Is("DcLayout") /\ E.fields = DcTable(C, V, N) /\ E.end = DcLen(C, V, N) /\ E.len = E.end
             /\ Keep /\ Adv
\* "parses back to equal field values" - with the independent reader ...
FieldsEqual(o) == /\ o.socc = inp.socc /\ o.uuid = inp.uuid /\ o.socu = inp.socu /\ o.beacon = inp.beacon
                  /\ IF C = "ele2" THEN TRUE                                        \* an AHAB certificate has no version / vendor usage / RoT meta data
                     ELSE /\ o.ver = cs.ver /\ o.vu = inp.vu /\ o.nkeys = N
                          /\ (~(C = "classic" /\ IsRsa(V)) => o.used = cs.used)       \* an RSA credential has no index field
TDcFields == Is("DcFields") /\ FieldsEqual(E.out) /\ E.flagsOk /\ Keep /\ Adv
\* ... the embedded RoT key is the key the configuration names (rotIdx: the first slot whose key file holds the embedded key), the debug
\* key is the configured one, every table entry is the hash of the key of ITS slot (facts computed by the twin from the key files)
TDcKeys == /\ Is("DcKeys") /\ E.rotIdx = FirstSlot(cs.pat, cs.used) /\ E.dckOk /\ (RotHashDefined(V) \/ C = "ele2" => E.tableOk)
           /\ Keep /\ Adv
\* ... and with SPSDK's own parser
\* (ele2: SPSDK's == also compares how the uuid was spelled in the configuration; the property is about field values)
TSpsdkParse == /\ Is("SpsdkParse") /\ E.ok /\ FieldsEqual(E.out) /\ (E.eq \/ C = "ele2") /\ E.reexport
               /\ Keep /\ Adv
\* the signature verifies under the named RoT key over ALL preceding fields
TCheckDcSignature == /\ Is("CheckDcSignature")
                     /\ E.from = 0 /\ E.to = DcSigAt(C, V, N) /\ E.sigAt = DcSigAt(C, V, N) /\ E.sigLen = SigLen(V) /\ E.ok
                     /\ Keep /\ Adv
\* RoT hash: from the credential bytes = reference construction from the keys (fixed-width coordinates, hashlib) = what the DC object
\* reports (dc: the created object, dc2: the object parsed back) = image tools (tools: RoT calculator of the family; tools2:
\* certificate block v2.1 built over the same keys)
\* (ele2: the SRK table travels in the response; the credential object has no RoT hash: dc = "n/a")
\* entries = what the hashed structure of the credential holds per slot (read from the bytes): one entry per slot of the RoT term, equal
\* exactly where the term's entries are equal - the root of trust is the LIST of slots, also when slots share a key
\* (ele2: every SRK record commits to its own slot number, so no two entries of the table are equal whatever the keys)
RotKind == IF C \in {"ele1", "ele2"} THEN "srk" ELSE IF IsRsa(V) THEN "rsa" ELSE "ecc"
EntriesFit(entries) == LET t == RotHashTerm(RotKind, cs.pat) IN
                       /\ Len(entries) = Len(t.over)
                       /\ PatternOf(entries) = (IF C = "ele2" THEN AllDistinct(4) ELSE PatternOf(t.over))
TCheckRotHash == /\ Is("CheckRotHash") /\ EntriesFit(E.entries)
                 /\ (RotHashDefined(V) \/ C = "ele2" => /\ E.fromBytes = E.ref /\ E.tools \in {"n/a", E.ref} /\ E.tools2 \in {"n/a", E.ref} /\ E.dc2 \in {"n/a", E.ref}
                                                        /\ (IF C = "ele2" THEN E.dc = "n/a" ELSE E.dc = E.ref))
                 /\ Keep /\ Adv
\* the challenge of the device (built by the twin) is read correctly by the host
TDac == /\ Is("Dac") /\ E.hl = DacHashLen(IF C = "ele2" THEN "ele1" ELSE C, V, cs.sha256) /\ E.len = DacLen(E.hl)
        /\ E.ok /\ E.chalOk /\ E.uuidOk /\ E.verOk /\ (RotHashDefined(V) \/ C = "ele2" => E.validate = "ok")
        /\ Keep /\ Adv
TRespondRefused == Is("Respond") /\ ~E.ok /\ Keep /\ l' = l + 1 /\ pos' = Refused /\ UNCHANGED tid
TRespond == Is("Respond") /\ E.ok /\ Keep /\ Adv
TDarLayout == /\ Is("DarLayout") /\ E.fields = DarTable(C, V, N) /\ E.end = DarLen(C, V, N) /\ E.len = E.end
              /\ Keep /\ Adv
\* embeds that credential and the authentication beacon (and, ECC, the DEVICE's uuid from the challenge; ele2: the challenge vector)
TDarFields == /\ Is("DarFields") /\ E.dcEq /\ E.beacon = E.beaconIn
              /\ (IF C = "ele2" THEN E.chalOk ELSE (BindsUuid(V) => E.uuidIsDev))
              /\ Keep /\ Adv
\* signed by the debug-credential key over credential, beacon, (ECC) device uuid, challenge vector
\* (ele2: over the container from its header to the SRK table array, which holds beacon and challenge vector)
TCheckResponseSignature ==
  /\ Is("CheckResponseSignature") /\ E.key = "dck" /\ E.ok
  /\ IF C = "ele2" THEN E.from = 0 /\ E.to = Msg2SigAt(V) /\ E.sigAt = Msg2SigAt(V) + 8 /\ E.sigLen = SigLen(V)
     ELSE E.cover = RespCover(V) /\ E.lens = RespCoverLens(C, V, N)
  /\ Keep /\ Adv
\* ele2: the device twin accepts the honest response for its own challenge
TDeliver == Is("Deliver") /\ E.verdict = "Accept" /\ Keep /\ Adv
\* every substitution the intruder tries gets the verdict of the acceptance automaton
TAttempt == /\ l <= Len(T) /\ E.e = "Attempt" /\ Open /\ cs.lane = "main" /\ C # "ele2" /\ E.a.binds = BindsUuid(V)
            /\ E.a.c0 \in Creds /\ E.a.c \in Creds /\ {E.a.u0, E.a.u, E.a.d} \subseteq Devices /\ {E.a.ch0, E.a.ch} \subseteq Chals /\ E.a.b \in Beacons
            /\ E.verdict = AttemptVerdict(E.a, cs.wild)
            /\ Keep /\ l' = l + 1 /\ UNCHANGED <<tid, pos>>
\* a history of the honest host: whatever it re-uses from its earlier answers (configuration object, credential object, response
\* object), the answer of step k embeds the credential and the beacon of step k and gets, from every device and for every challenge
\* a device may have outstanding, the verdict of the acceptance automaton for Resp(cA, b_k, d_k, ch_k) - i.e. it is bound to ITS
\* challenge (and, ECC, device).  A step the host refuses builds nothing (ok = FALSE).
HistDevices == IF C = "ele2" THEN {"d1"} ELSE Devices
THistory == /\ l <= Len(T) /\ E.e = "History" /\ Open /\ cs.lane = "main"
            /\ ValidHistory(E.h, C = "ele2") /\ Len(E.obs) = Len(E.h)
            /\ \A k \in 1..Len(E.h) : E.obs[k].ok =>
                  /\ E.obs[k].dcEq /\ E.obs[k].bIs = E.h[k].b
                  /\ Len(E.obs[k].v) = Cardinality(HistDevices) * Cardinality(Chals)
                  /\ {E.obs[k].v[i] : i \in 1..Len(E.obs[k].v)} = StepVerdicts(BindsUuid(V), cs.wild, E.h[k], HistDevices)
            /\ Keep /\ l' = l + 1 /\ UNCHANGED <<tid, pos>>
\* a challenge that ANNOUNCES something else than the credential says (DatTerms): another protocol version - each of the five, whatever
\* the credential's is -, the other device, a RoT hash field that does not hold the fused value.  The challenge the twin sends has the
\* layout of the ANNOUNCED version.  The host may refuse it (built = FALSE: nothing was built, nothing is said).  An answer it builds -
\* through either of its entry points - is the answer of the CREDENTIAL's protocol to (a.d, ch1): it has the length of the response
\* layout of the credential's class and version, embeds the credential and the beacon, was made from a challenge the host read correctly,
\* and gets from every device, for every challenge a device may have outstanding, the verdict of the acceptance automaton for
\* AnnResp(<binds of the credential>, a) - accepted by the announcing device under its challenge (credential scope permitting), by no device
\* under another challenge, (ECC credential) by no other device.
AnnVer == <<E.a.ver[1], E.a.ver[2]>>
TAnnounce == /\ l <= Len(T) /\ E.e = "Announce" /\ Open /\ cs.lane = "main"
             /\ Len(E.a.ver) = 2 /\ AnnVer \in Versions /\ E.a.d \in HistDevices /\ E.a.rkth \in AnnRkth /\ E.a.via \in AnnVias
             /\ (C = "ele2" => E.a.via = "config")                               \* signed-message variant: no constructor taking a credential object
             /\ E.hl = DacHashLen(IF C = "ele2" THEN "ele1" ELSE C, AnnVer, cs.sha256) /\ E.len = DacLen(E.hl)
             /\ (E.built => /\ E.parsed /\ E.chalOk /\ E.uuidOk /\ E.verOk
                            /\ E.darLen = DarLen(C, V, N)
                            /\ E.obs.dcEq /\ E.obs.bIs = B0
                            /\ Len(E.obs.v) = Cardinality(HistDevices) * Cardinality(Chals)
                            /\ {E.obs.v[i] : i \in 1..Len(E.obs.v)} = AnnVerdicts(BindsUuid(V), cs.wild, E.a, HistDevices))
             /\ Keep /\ l' = l + 1 /\ UNCHANGED <<tid, pos>>
\* single-bit corruption of the honest response: never accepted, and stopped by the check that covers the field
DcNames == {DcTable(C, V, N)[i].n : i \in 1..Len(DcTable(C, V, N))}
DarNames == {DarTable(C, V, N)[i].n : i \in 1..Len(DarTable(C, V, N))} \ {"dc", "pad"}
Rejections == {"Malformed", "CheckRotHash", "CheckDcSignature", "CheckResponseSignature"}
TamperAllowed(part, field) ==
  CASE C = "ele2" /\ part = "dc" /\ field \in DcNames -> {"Malformed", "CheckDcSignature"}
    [] C = "ele2" /\ part = "dar" /\ field \in DarNames -> Rejections
    [] C # "ele2" /\ part = "dc" /\ field \in DcNames \ {"signature"} -> {"Malformed", "CheckDcSignature"}
    [] C # "ele2" /\ part = "dc" /\ field = "signature" -> {"CheckDcSignature"}
    [] C # "ele2" /\ part = "dar" /\ field \in DarNames -> {"CheckResponseSignature"}
    [] OTHER -> {}
TTamper == /\ l <= Len(T) /\ E.e = "Tamper" /\ Open /\ cs.lane = "main" /\ E.verdict \in TamperAllowed(E.part, E.field)
           /\ Keep /\ l' = l + 1 /\ UNCHANGED <<tid, pos>>
\* ------------------------------------------------------------------ lane "cred": histories of ONE credential object (DatTerms)
\* Every operation the host performs on the object is one event; `ob` is the object of DatTerms stepped along them with the REAL values
\* (cur / over / wire hold what the harness set: limbs, byte lists, the name of the debug key).  Decided here:
\*   - an object without a signature exports nothing (or, should the host sign on the way, a credential as good as after Sign);
\*   - every export of an object whose signature was made over its current values (sign() returned, no Set since) has the layout of
\*     the case, carries exactly the CURRENT values (independent reader), names the configured RoT key, and its signature verifies under
\*     that key over exactly the bytes in front of it - the device's CheckDcSignature on the term the object model puts on the wire;
\*   - SPSDK's parser reads such an export back to the values exported, and the parsed object exports the same bytes again.
\* Not decided: an export after a Set without a Sign in between (and whatever is parsed from it); whether a Sign without the key is
\* refused - but a Sign that returns has signed (container version 2 excepted: its signature container documents that it keeps the
\* raw signature it was parsed with when it has no key).
CredLane == l <= Len(T) /\ Open /\ cs.lane = "cred"
CredAdv == l' = l + 1 /\ UNCHANGED <<tid, pos, cs, inp>>
Settable == IF C = "ele2" THEN {"socc", "socu", "beacon"} ELSE CredFields
CredVals(i) == [socc |-> i.socc, uuid |-> i.uuid, socu |-> i.socu, vu |-> i.vu, beacon |-> i.beacon, dck |-> i.dck]
CredFieldsEqual(o, v) == /\ o.socc = v.socc /\ o.uuid = v.uuid /\ o.socu = v.socu /\ o.beacon = v.beacon /\ o.dck = v.dck
                         /\ IF C = "ele2" THEN TRUE
                            ELSE /\ o.ver = cs.ver /\ o.vu = v.vu /\ o.nkeys = N
                                 /\ (~(C = "classic" /\ IsRsa(V)) => o.used = cs.used)
TCredNewRefused == CredLane /\ E.e = "CredNew" /\ ~E.ok /\ ob' = [alive |-> FALSE] /\ CredAdv
TCredNew == CredLane /\ E.e = "CredNew" /\ E.ok /\ ob' = CredNew(CredVals(E.in)) /\ CredAdv
TCredSign == /\ CredLane /\ E.e = "CredSign" /\ ob.alive
             /\ ob' = (IF E.ok /\ (ob.prov \/ C # "ele2") THEN CredSigned(ob) ELSE ob)
             /\ CredAdv
TCredSet == /\ CredLane /\ E.e = "CredSet" /\ ob.alive /\ E.f \in Settable
            /\ IF E.ok THEN E.to # ob.cur[E.f] /\ ob' = CredSetTo(ob, E.f, E.to)
               ELSE ob' = ob                                                     \* the assignment was refused: the object stays as it is
            /\ CredAdv
ExportClause(o) ==
                /\ E.walk /\ E.fields = DcTable(C, V, N) /\ E.end = DcLen(C, V, N) /\ E.len = E.end
                /\ CredFieldsEqual(E.out, o.cur) /\ E.flagsOk
                /\ E.rotIdx = FirstSlot(cs.pat, cs.used) /\ (RotHashDefined(V) \/ C = "ele2" => E.tableOk)
                /\ E.from = 0 /\ E.to = DcSigAt(C, V, N) /\ E.sigAt = DcSigAt(C, V, N) /\ E.sigLen = SigLen(V)
                /\ E.sigOk = CheckDcSignature(CredOnWire(o))
TCredExport == /\ CredLane /\ E.e = "CredExport" /\ ob.alive
               /\ IF ob.lost THEN ob' = ob
                  ELSE IF ~E.ok THEN ob' = ob                                   \* refused: nothing was exported
                  ELSE IF ob.st = "unsigned" THEN ob.prov /\ ExportClause(CredSigned(ob)) /\ ob' = CredExported(CredSigned(ob))
                  ELSE IF CredClean(ob) THEN ExportClause(ob) /\ ob' = CredExported(ob)
                  ELSE ob' = CredExported(ob)
               /\ CredAdv
TCredParse == /\ CredLane /\ E.e = "CredParse" /\ ob.alive /\ ob.wst # "none"
              /\ (~ob.lost /\ ob.wst = "clean" => E.ok /\ CredFieldsEqual(E.out, ob.wire) /\ E.reexport)
              /\ ob' = CredParsed(ob) /\ CredAdv
TDone == /\ l <= Len(T) /\ E.e = "Done" /\ (Open \/ pos = Refused) /\ Keep /\ l' = l + 1 /\ pos' = Finished /\ UNCHANGED tid
TNext == \/ TCase \/ TSkip \/ TCreateRefused \/ TCreate \/ TDcLayout \/ TDcFields \/ TDcKeys \/ TSpsdkParse \/ TCheckDcSignature
         \/ TCheckRotHash \/ TDac \/ TRespondRefused \/ TRespond \/ TDarLayout \/ TDarFields \/ TCheckResponseSignature \/ TDeliver
         \/ TAttempt \/ THistory \/ TAnnounce \/ TTamper \/ TDone
         \/ TCredNewRefused \/ TCredNew \/ TCredSign \/ TCredSet \/ TCredExport \/ TCredParse
Constr == IF TLCGet(tid) < l THEN TLCSet(tid, l) ELSE TRUE
Post == /\ PrintT(<<"DONE", Len(Traces)>>)
        /\ \A i \in 1..Len(Traces) :
          \/ TLCGet(i) - 1 = Len(Traces[i].ev)
          \/ PrintT(<<"REJ", Traces[i].id, TLCGet(i) - 1, Len(Traces[i].ev),
                      Traces[i].ev[IF TLCGet(i) <= Len(Traces[i].ev) THEN TLCGet(i) ELSE Len(Traces[i].ev)].e>>)
=============================================================================
