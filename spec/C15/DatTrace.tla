------------------------------ MODULE DatTrace ------------------------------
(* TV form of C15.  One trace = one credential case executed on the real code:                                   *)
(*   Case, Create, DcLayout, DcFields, DcKeys, SpsdkParse, CheckDcSignature, CheckRotHash, Dac, Respond,          *)
(*   DarLayout, DarFields, CheckResponseSignature, (Attempt | Tamper)*, Done                                      *)
(* The harness drives SPSDK (the host) and the device twin (independent parser / verifier); every number it logs  *)
(* is recomputed here from the case parameters, every crypto fact must be TRUE, every delivery attempt must get   *)
(* the verdict of the acceptance automaton of DatTerms.                                                           *)
EXTENDS DatTerms, DatLayout, Json, IOUtils
Traces == ndJsonDeserialize(IOEnv.TRACE_FILE)
VARIABLES tid, l, st, cs, inp
T == Traces[tid].ev
E == T[l]
Is(e, s) == l <= Len(T) /\ E.e = e /\ st = s
Adv(s) == l' = l + 1 /\ st' = s /\ UNCHANGED tid
Keep == UNCHANGED <<cs, inp>>
V == <<cs.ver[1], cs.ver[2]>>
N == cs.nkeys
C == cs.cls
Zero16 == [i \in 1..16 |-> 0]
TInit == /\ tid \in 1..Len(Traces) /\ l = 1 /\ st = "start" /\ cs = [cls |-> "none"] /\ inp = [none |-> 0] /\ TLCSet(tid, 1)

TCase == /\ Is("Case", "start") /\ Len(E.ver) = 2 /\ ValidCase(E.cls, <<E.ver[1], E.ver[2]>>, E.nkeys, E.used)
         /\ cs' = E /\ UNCHANGED inp /\ Adv("case")
\* SPSDK may refuse a configuration: then it has created nothing and the property says nothing
TCreateRefused == Is("Create", "case") /\ ~E.ok /\ Keep /\ Adv("end")
TCreate == /\ Is("Create", "case") /\ E.ok /\ E.len = DcLen(C, V, N)
           /\ cs.wild = (E.in.uuid = Zero16)
           /\ inp' = E.in /\ UNCHANGED cs /\ Adv("created")
\* independent walk of the exported bytes: field table = the table of the spec, nothing left over
TDcLayout == /\ Is("DcLayout", "created") /\ E.fields = DcTable(C, V, N) /\ E.end = DcLen(C, V, N) /\ E.len = E.end
             /\ Keep /\ Adv("layout")
\* "parses back to equal field values" - with the independent reader ...
FieldsEqual(o) == /\ o.ver = cs.ver /\ o.socc = inp.socc /\ o.uuid = inp.uuid
                  /\ o.socu = inp.socu /\ o.vu = inp.vu /\ o.beacon = inp.beacon
                  /\ o.nkeys = N /\ (~(C = "classic" /\ IsRsa(V)) => o.used = cs.used)   \* an RSA credential has no index field
TDcFields == Is("DcFields", "layout") /\ FieldsEqual(E.out) /\ E.flagsOk /\ Keep /\ Adv("fields")
\* ... the embedded RoT key is the key the configuration names, the debug key is the configured one, every table entry
\* is the hash of its key (facts computed by the twin from the key files)
TDcKeys == /\ Is("DcKeys", "fields") /\ E.rotIdx = cs.used /\ E.dckOk /\ (RotHashDefined(V) => E.tableOk)
           /\ Keep /\ Adv("keys")
\* ... and with SPSDK's own parser
TSpsdkParse == /\ Is("SpsdkParse", "keys") /\ ~cs.noparse /\ E.ok /\ FieldsEqual(E.out) /\ E.eq /\ E.reexport
               /\ Keep /\ Adv("parsed")
\* the signature verifies under the named RoT key over ALL preceding fields
\* (a trace marked noparse is the continuation of one whose SpsdkParse step was rejected: that step is absent here)
TCheckDcSignature == /\ (Is("CheckDcSignature", "parsed") \/ (Is("CheckDcSignature", "keys") /\ cs.noparse))
                     /\ E.from = 0 /\ E.to = DcSigAt(C, V, N) /\ E.sigAt = DcSigAt(C, V, N) /\ E.sigLen = SigLen(V) /\ E.ok
                     /\ Keep /\ Adv("dcsig")
\* RoT hash: from the credential bytes = reference construction from the keys = what the DC object reports = image tools
TCheckRotHash == /\ Is("CheckRotHash", "dcsig")
                 /\ (RotHashDefined(V) => /\ E.fromBytes = E.ref /\ E.dc = E.ref /\ E.tools \in {"n/a", E.ref})
                 /\ Keep /\ Adv("rothash")
\* the challenge of the device (built by the twin) is read correctly by the host
TDac == /\ Is("Dac", "rothash") /\ E.hl = DacHashLen(C, V, cs.sha256) /\ E.len = DacLen(E.hl)
        /\ E.ok /\ E.chalOk /\ E.uuidOk /\ E.verOk /\ (RotHashDefined(V) => E.validate = "ok")
        /\ Keep /\ Adv("dac")
TRespondRefused == Is("Respond", "dac") /\ ~E.ok /\ Keep /\ Adv("end")
TRespond == Is("Respond", "dac") /\ E.ok /\ Keep /\ Adv("responded")
TDarLayout == /\ Is("DarLayout", "responded") /\ E.fields = DarTable(C, V, N) /\ E.end = DarLen(C, V, N) /\ E.len = E.end
              /\ Keep /\ Adv("darlayout")
\* embeds that credential and the authentication beacon (and, ECC, the DEVICE's uuid from the challenge)
TDarFields == /\ Is("DarFields", "darlayout") /\ E.dcEq /\ E.beacon = E.beaconIn /\ (BindsUuid(V) => E.uuidIsDev)
              /\ Keep /\ Adv("darfields")
\* signed by the debug-credential key over credential, beacon, (ECC) device uuid, challenge vector
TCheckResponseSignature == /\ Is("CheckResponseSignature", "darfields")
                           /\ E.cover = RespCover(V) /\ E.lens = RespCoverLens(C, V, N) /\ E.key = "dck" /\ E.ok
                           /\ Keep /\ Adv("open")
\* every substitution the intruder tries gets the verdict of the acceptance automaton
TAttempt == /\ Is("Attempt", "open") /\ E.a.binds = BindsUuid(V)
            /\ E.a.c0 \in Creds /\ E.a.c \in Creds /\ {E.a.u0, E.a.u, E.a.d} \subseteq Devices /\ {E.a.ch0, E.a.ch} \subseteq Chals /\ E.a.b \in Beacons
            /\ E.verdict = AttemptVerdict(E.a, cs.wild)
            /\ Keep /\ Adv("open")
\* single-bit corruption of the honest response: never accepted, and stopped by the check that covers the field
DcNames == {DcTable(C, V, N)[i].n : i \in 1..Len(DcTable(C, V, N))}
DarNames == {DarTable(C, V, N)[i].n : i \in 1..Len(DarTable(C, V, N))} \ {"dc"}
TamperAllowed(part, field) ==
  CASE part = "dc" /\ field \in DcNames \ {"signature"} -> {"Malformed", "CheckDcSignature"}
    [] part = "dc" /\ field = "signature" -> {"CheckDcSignature"}
    [] part = "dar" /\ field \in DarNames -> {"CheckResponseSignature"}
    [] OTHER -> {}
TTamper == Is("Tamper", "open") /\ E.verdict \in TamperAllowed(E.part, E.field) /\ Keep /\ Adv("open")
TDone == (Is("Done", "open") \/ Is("Done", "end")) /\ Keep /\ Adv("done")
TNext == \/ TCase \/ TCreateRefused \/ TCreate \/ TDcLayout \/ TDcFields \/ TDcKeys \/ TSpsdkParse \/ TCheckDcSignature
         \/ TCheckRotHash \/ TDac \/ TRespondRefused \/ TRespond \/ TDarLayout \/ TDarFields \/ TCheckResponseSignature
         \/ TAttempt \/ TTamper \/ TDone
Constr == IF TLCGet(tid) < l THEN TLCSet(tid, l) ELSE TRUE
Post == \A i \in 1..Len(Traces) :
          \/ TLCGet(i) - 1 = Len(Traces[i].ev)
          \/ PrintT(<<"REJ", Traces[i].id, TLCGet(i) - 1, Len(Traces[i].ev),
                      Traces[i].ev[IF TLCGet(i) <= Len(Traces[i].ev) THEN TLCGet(i) ELSE Len(Traces[i].ev)].e>>)
=============================================================================
