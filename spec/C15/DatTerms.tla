------------------------------ MODULE DatTerms ------------------------------
(* C15 R-spec, term part: the symbolic messages of debug authentication and the device's acceptance automaton.  *)
(* Terms are symbolic.  A signature is the pair [key, msg]: it verifies only under that key and only for that    *)
(* message.  A credential (DC) on the wire is [id, intact]: intact = FALSE stands for "some signed field was     *)
(* altered after the root-of-trust key signed it" (the signature term is the one of the original).               *)
(*                                                                                                               *)
(*   DC  = Cat(<fields of the protocol version in anchored order>, Sig(rotk, all preceding bytes))               *)
(*   DAR = Cat(DC, beacon, [uuid], Sig(dck, Cat(DC, beacon, [uuid], challenge)))        [uuid]: ECC versions 2.x *)
(*                                                                                                               *)
(* In the RSA versions 1.0 / 1.1 the UUID is NOT part of the response (binds = FALSE): the response is bound to  *)
(* a device only through the challenge and through the UUID inside the credential.  That is the protocol.        *)
EXTENDS Naturals, Sequences, FiniteSets, TLC
CONSTANTS Devices,     \* device identities = UUIDs: {"d1", "d2"}
          Chals,       \* challenge vectors
          Beacons      \* authentication beacon values

\* ------------------------------------------------------------------ the world of credentials
\* cA : the host's credential, issued by the OEM root of trust, for device d1 or for any device (wildcard, uuid = 0)
\* cB : a second credential of the same root of trust with the SAME debug key but other constraints (more rights)
\* cI : a genuine credential of the intruder for HIS device d2 - he owns its debug key
\* cE : a credential the intruder made himself: own root keys, own debug key, uuid = 0
Creds == {"cA", "cB", "cI", "cE"}
HostCreds == {"cA", "cB"}
IntruderCreds == {"cI", "cE"}
CredUuid(c, wild) == CASE c \in HostCreds -> IF wild THEN "any" ELSE "d1"
                       [] c = "cI" -> "d2"
                       [] OTHER -> "any"
CredRot(c) == IF c = "cE" THEN "evil" ELSE "oem"
CredDck(c) == IF c \in HostCreds THEN "dckHost" ELSE "dckIntruder"
Fused == "oem"                                     \* root-of-trust hash burnt into every device of the model

DcTerm(c, intact) == [id |-> c, intact |-> intact]
Sig(k, m) == [key |-> k, msg |-> m]
UuidPart(binds, u) == IF binds THEN u ELSE "-"
\* the response the holder of credential c builds for (device uuid u, challenge ch) with beacon b
Resp(binds, c, b, u, ch) ==
  [dc |-> DcTerm(c, TRUE), beacon |-> b, uuid |-> UuidPart(binds, u),
   sig |-> Sig(CredDck(c), <<DcTerm(c, TRUE), b, UuidPart(binds, u), ch>>)]

\* ------------------------------------------------------------------ the device's acceptance automaton
\* Returns the name of the first check that fails, or "Accept".  d = the device's own UUID, ch = ITS outstanding challenge.
CheckDcSignature(r) == r.dc.intact
CheckRotHash(r) == CredRot(r.dc.id) = Fused
CheckDcBinding(r, d, wild) == CredUuid(r.dc.id, wild) \in {"any", d}
CheckResponseSignature(r, d, ch, binds) ==
  /\ r.uuid = UuidPart(binds, d)
  /\ r.sig = Sig(CredDck(r.dc.id), <<r.dc, r.beacon, UuidPart(binds, d), ch>>)      \* recomputed from the device's own view
Verdict(r, d, ch, binds, wild) ==
  IF ~CheckDcSignature(r) THEN "CheckDcSignature"
  ELSE IF ~CheckRotHash(r) THEN "CheckRotHash"
  ELSE IF ~CheckDcBinding(r, d, wild) THEN "CheckDcBinding"
  ELSE IF ~CheckResponseSignature(r, d, ch, binds) THEN "CheckResponseSignature"
  ELSE "Accept"


\* ------------------------------------------------------------------ the root of trust is a LIST of key slots
\* What the device holds in its fuses - and what the image tools compute for the same keys (C03) - is a hash over one entry PER SLOT, in
\* slot order, whether or not two slots hold the same key (pat: slot i holds key number pat[i], DatLayout.Patterns):
\*   "rsa" (certificate block v1)   : SHA-256 over four 32-byte entries, entry i = hash of the key of slot i, unused slots = zeros
\*   "ecc" (certificate block v2.1) : one slot - the hash of the key itself; more - the hash over the table of the n key hashes
\*   "srk" (AHAB SRK table)         : the hash over the table of the n key records
\* An entry is the term [kh |-> number of the key] (kh = 0 - 1: a slot filled with zeros).
RotEntries(pat) == [i \in 1..Len(pat) |-> [kh |-> pat[i]]]
RotHashTerm(kind, pat) ==
  CASE kind = "rsa" -> [h |-> "table-v1", over |-> RotEntries(pat) \o [i \in 1..(4 - Len(pat)) |-> [kh |-> 0 - 1]]]
    [] kind = "ecc" -> [h |-> IF Len(pat) = 1 THEN "key" ELSE "table-v21", over |-> RotEntries(pat)]
    [] kind = "srk" -> [h |-> "srk-table", over |-> RotEntries(pat)]
RotKinds == {"rsa", "ecc", "srk"}
\* the slot the credential names holds the key it is signed with: entry `used` of the table is the hash of that key
NamedEntry(kind, pat, used) == RotHashTerm(kind, pat).over[used + 1]
\* (a host that reads every key FILE once and builds the table over what it has read - the keys in order of first appearance - has
\*  hashed a SET, not the list; DatGen.ListNotSet: for every pattern with a repeated key that is another term)
ReadOnce(pat) == [i \in 1..Cardinality({pat[j] : j \in 1..Len(pat)}) |-> i - 1]

\* ------------------------------------------------------------------ what the intruder can put on the wire
\* he owns the debug key of cI and cE and signs what he likes, whenever he likes
Forgeries(binds) == {Resp(binds, c, b, u, ch) : c \in IntruderCreds, b \in Beacons, u \in Devices, ch \in Chals}
\* ... and rewrites every unsigned component of a response he has seen (the signature term stays).  Splicing a spliced
\* response gives nothing new (all three components are overwritten), so one level is the whole closure.
Splice(r, c, i, b, u) == [r EXCEPT !.dc = DcTerm(c, i), !.beacon = b, !.uuid = u]
Splices(binds, r) == {Splice(r, c, i, b, UuidPart(binds, u)) : c \in Creds, i \in BOOLEAN, b \in Beacons, u \in Devices}

\* ------------------------------------------------------------------ delivery attempts (enumerated by DatGen, decided in DatTrace)
\* a = [binds, c0, u0, ch0, c, i, b, u, d, ch]: an original response for (u0, ch0) made with credential c0 and the first beacon,
\* spliced to carry credential c (intact or altered), beacon b and uuid field u, delivered to device d with outstanding challenge ch
B0 == "b1"
AttemptResp(a) == Splice(Resp(a.binds, a.c0, B0, a.u0, a.ch0), a.c, a.i, a.b, UuidPart(a.binds, a.u))
AttemptVerdict(a, wild) == Verdict(AttemptResp(a), a.d, a.ch, a.binds, wild)

\* ------------------------------------------------------------------ histories of the honest host (enumerated by DatGen, decided in DatTrace)
\* The host of the R-spec has no memory: the response it builds for (device d, challenge ch) with beacon b is Resp(.., b, d, ch),
\* whatever it has answered before and whichever of its objects it uses again.  A history is a sequence of answers of ONE host with
\* credential cA; step s = [m, d, ch, b]: m says what the host re-uses from its earlier answers
\*   "fresh" : nothing - a new configuration, the credential read again
\*   "cfg"   : the configuration object of the last "fresh" step, with the beacon entry set to b
\*   "obj"   : the credential OBJECT the host already holds, handed to the response constructor again
\*   "again" : the response object of the previous step, exported once more (same device, challenge, beacon)
Modes == {"fresh", "cfg", "obj", "again"}
MaxHistory == 3
ValidHistory(h, msgOnly) ==
  /\ Len(h) \in 2..MaxHistory
  /\ \A k \in 1..Len(h) : h[k].m \in Modes /\ h[k].d \in Devices /\ h[k].ch \in Chals /\ h[k].b \in Beacons
  /\ h[1].m \in {"fresh", "obj"}
  /\ \A k \in 2..Len(h) : /\ (h[k].m = "cfg" => \E j \in 1..(k - 1) : h[j].m = "fresh")
                          /\ (h[k].m = "again" => h[k].d = h[k - 1].d /\ h[k].ch = h[k - 1].ch /\ h[k].b = h[k - 1].b)
  \* signed-message variant (enclave, container version 2): no response constructor taking a credential object, one device
  /\ (msgOnly => \A k \in 1..Len(h) : h[k].m # "obj" /\ h[k].d = "d1")
StepResp(binds, s) == Resp(binds, "cA", s.b, s.d, s.ch)
\* what every device of devs says to the answer of step s, for each challenge it may have outstanding
StepVerdicts(binds, wild, s, devs) == {[d |-> d, ch |-> ch, v |-> Verdict(StepResp(binds, s), d, ch, binds, wild)] : d \in devs, ch \in Chals}

\* ------------------------------------------------------------------ what a challenge ANNOUNCES (enumerated by DatGen, decided in DatTrace)
\* Besides the challenge vector a challenge carries what the device says about itself: the protocol version it speaks, its SoC class, its
\* UUID and a root-of-trust hash field.  The host may compare them with its credential and refuse to answer (then it builds nothing and
\* the property is silent); some differences it tolerates - a device of the EdgeLock-enclave classes may announce another protocol
\* version than the one of the credential, a wildcard credential answers any UUID, some devices do not put the RoT hash into the field.
\* Whatever the host tolerates: of the announced values only the UUID and the challenge vector are inputs of the response.  The device
\* verifies what it receives along the CREDENTIAL inside the response - the credential's own version field says how long it is, of which
\* type the debug key is and whether a UUID follows the beacon (`binds` of Verdict is the credential's).  So the answer to announcement a
\* of a host whose credential is of protocol `binds` is AnnResp(binds, a) = Resp(binds, cA, b1, a.d, ch1): the very term it builds for a
\* challenge that announces the credential's own version, and the answer to (a.d, ch1) only.
\*   a = [ver, d, rkth, via]: ver = announced protocol version (DatLayout.Versions), d = the announcing device, rkth = what the RoT hash
\*   field holds ("fused": the value in the device's fuses, "other": something else), via = the host's way of building the response
\*   (from a configuration, the credential read from its file / by the constructor taking the credential object it holds)
AnnRkth == {"fused", "other"}
AnnVias == {"config", "create"}
AnnStep(a) == [m |-> "fresh", d |-> a.d, ch |-> "ch1", b |-> B0]
AnnResp(binds, a) == StepResp(binds, AnnStep(a))
\* what the devices say to the answer to announcement a, for each challenge they may have outstanding
AnnVerdicts(binds, wild, a, devs) == StepVerdicts(binds, wild, AnnStep(a), devs)
\* (a host that takes the FORM of its answer from the announced version builds AnnResp(<kind of the announced version>, a) instead;
\*  DatGen.FormFollowsCredential: where that kind is not the credential's, no device accepts it under any challenge)

\* ------------------------------------------------------------------ histories of ONE credential object (enumerated by DatGen, decided step by step in DatTrace)
\* The host holds a credential as an OBJECT: the values of the signed field classes CredFields and, once signed, the signature term
\* Sig(rotk, <the values the fields had when the root-of-trust key signed>).  What an export puts on the wire is
\* Cat(<current field values>, <that signature>), and the device recomputes the signed message from the bytes in front of the
\* signature: the exported credential is DcTerm(c, intact) with intact = (values signed = values exported).  Nothing else of the
\* object's past counts.  Operations on the object:
\*   Sign    : the RoT key signs the CURRENT values (an object made from a configuration has the signing key; an object parsed from
\*             bytes has none - whether such a Sign is refused is the host's business, but a Sign that RETURNS has signed)
\*   Set f   : field class f gets another value
\*   Export  : the object is serialised (there is nothing to export while the object has no signature)
\*   Parse   : the host goes on with the object parsed back from the bytes of the last export
\* o = [alive, lost, cur, over, st, prov, wire, wst]:  cur = current values, over = values under the signature,
\*   st  = "unsigned" | "signed" | "unknown"   ("unknown": after an export whose signature was not over the current values - the host
\*         used the object outside its documented order sign() -> export(); nothing is said about that export or about the signature
\*         the object holds afterwards, until the next Sign)
\*   wire = values on the wire of the last export, wst = "none" | "clean" | "unknown";  lost: the host parsed an export nothing is said about
CredFields == {"socc", "uuid", "socu", "vu", "beacon", "dck"}
CredNew(vals) == [alive |-> TRUE, lost |-> FALSE, cur |-> vals, over |-> vals, st |-> "unsigned", prov |-> TRUE, wire |-> vals, wst |-> "none"]
CredClean(o) == o.st = "signed" /\ o.over = o.cur
CredOnWire(o) == [dc |-> DcTerm("cA", o.over = o.cur)]             \* what the device's CheckDcSignature looks at
CredSigned(o) == [o EXCEPT !.over = o.cur, !.st = "signed"]
CredSetTo(o, f, v) == [o EXCEPT !.cur[f] = v]
CredExported(o) == IF CredClean(o) THEN [o EXCEPT !.wire = o.cur, !.wst = "clean"] ELSE [o EXCEPT !.st = "unknown", !.wst = "unknown"]
CredParsed(o) == IF o.wst = "clean" THEN [o EXCEPT !.cur = o.wire, !.over = o.wire, !.st = "signed", !.prov = FALSE]
                 ELSE [o EXCEPT !.lost = TRUE, !.prov = FALSE]
\* the reference object (GEN): two values per field class, Set toggles; a Sign without the key and an export without a signature do nothing
CredOps == {[op |-> "Sign", f |-> "-"], [op |-> "Export", f |-> "-"], [op |-> "Parse", f |-> "-"]} \cup {[op |-> "Set", f |-> f] : f \in CredFields}
CredStep(o, op) == CASE op.op = "Sign" -> IF o.prov THEN CredSigned(o) ELSE o
                     [] op.op = "Set" -> CredSetTo(o, op.f, IF o.cur[op.f] = "v0" THEN "v1" ELSE "v0")
                     [] op.op = "Export" -> IF o.st = "unsigned" THEN o ELSE CredExported(o)
                     [] op.op = "Parse" -> CredParsed(o)
MaxCredHistory == 6
MaxCredSets == 2
=============================================================================
