----------------------------- MODULE RegFileGen -----------------------------
(* GEN form: RegFile plus a history variable; maximal behaviours are printed as JSON for replay. *)
EXTENDS RegFile
VARIABLES hist, done
Depth == atoi(IOEnv.GEN_DEPTH)
GInit == Init /\ hist = <<>> /\ done = FALSE
\* the final step exists only to print the finished behaviour exactly once (also in -simulate mode, where invariants
\* are evaluated on all successor candidates but an action is evaluated once per chosen state)
GNext == \/ Len(hist) < Depth /\ Next /\ hist' = Append(hist, act') /\ UNCHANGED done
         \/ Len(hist) = Depth /\ ~done /\ done' = TRUE /\ PrintT(ToJson([lay |-> lay, hist |-> hist])) /\ UNCHANGED <<vars, hist>>
=============================================================================
