--------------------------- MODULE RegFileShipGen ---------------------------
(* GEN form for the register files the device database SHIPS (lane "ship" of C11).                                    *)
(* LAYOUT_FILE holds one layout per declared grouped register: the group as declared (width, byte reversal, order of   *)
(* the sub-register slots, alternative widths), the member registers found in the register file, and the nearest plain *)
(* registers (observed only).  For every group TLC emits the TOURS below - histories over the action alphabet of       *)
(* RegFile; the harness replays them on the real object of every family / revision that ships this layout and          *)
(* RegFileTrace decides every step.  The case space is a function of the declarations only.                            *)
EXTENDS Registers, Json, IOUtils
Layouts == JsonDeserialize(IOEnv.LAYOUT_FILE)
VARIABLE lay

N(La, g) == Len(Reg(La, g).subs)
Alt(La, g) == "altw" \in DOMAIN Reg(La, g) /\ Reg(La, g).altw # <<>>
Img(La) == "img" \in DOMAIN La /\ La.img
\* a value that occupies the declared width in both views (top and bottom byte not zero before and after byte reversal): on a group with
\* alternative widths only such values are written - what a shorter value means there is not part of the asserted domain
Span(La, g) == {0, W(La, g) - 1}
\* every byte non-zero and different from its mirror byte: byte j carries bit (j % 8); plus the two ends
Pat(w) == {8 * j + (j % 8) : j \in 0..((w \div 8) - 1)} \cup {0, w - 1}
\* every hexadecimal digit is a decimal digit 1..9 (a configuration written as bare hex digits must be read back as hexadecimal)
NibBits(v) == {b \in 0..3 : (v \div (2 ^ b)) % 2 = 1}
Dec(w) == UNION {{4 * j + b : b \in NibBits((j % 9) + 1)} : j \in 0..((w \div 4) - 1)}
Small(w) == {4}                                                    \* 0x10: leading zeros in every fixed-width rendering
\* only the slot of sub-register k is occupied (plus the ends on groups with alternative widths)
Slot(La, g, k) == {Pos(La, g, k) + i : i \in AllBits(SubW(La, g))}
Chunk(La, g, k) == {Pos(La, g, k) + i : i \in {0, SubW(La, g) - 1} \cup {8 * j + ((j + k) % 8) : j \in 0..((SubW(La, g) \div 8) - 1)}}
                   \cup (IF Alt(La, g) THEN Span(La, g) ELSE {})
SubPat(w, i) == {0, w - 1} \cup {8 * j + ((j + i) % 8) : j \in 0..((w \div 8) - 1)}
\* the slots visited one by one: all of them up to 12, the two ends at both sides and the middle beyond that
KSeq(n) == IF n <= 12 THEN [k \in 1..n |-> k] ELSE <<1, 2, n \div 2, n - 1, n>>
\* members written behind the back of the group: on a group with alternative widths only inner members (the ends stay occupied)
Inner(s) == IF Len(s) <= 2 THEN <<>> ELSE SubSeq(s, 2, Len(s) - 1)
MSeq(La, g) == IF Alt(La, g) THEN Inner(KSeq(N(La, g))) ELSE KSeq(N(La, g))

SR(r, V, raw) == [a |-> "SetReg", r |-> r, v |-> V, raw |-> raw]
SF(r, f, V) == [a |-> "SetField", r |-> r, f |-> f, v |-> V]
Q(q) == [a |-> "Query", q |-> q]
CR(d) == [a |-> "ConfigRoundTrip", diff |-> d]
EP(La) == IF Img(La) THEN <<[a |-> "ExportParse"]>> ELSE <<>>           \* only a file that declares a memory image is exported and parsed

Wide(La, g) == {Pat(W(La, g)), AllBits(W(La, g)), Dec(W(La, g))} \cup (IF Alt(La, g) THEN {} ELSE {Small(W(La, g))})
\* T1: a value of the declared width through either view, read back, written out as configuration and loaded, exported and parsed;
\*     then the other value classes (all ones, decimal-looking hex digits, leading zeros) each followed by a configuration round trip
Others(La, g) == <<AllBits(W(La, g)), Dec(W(La, g))>> \o (IF Alt(La, g) THEN <<>> ELSE <<Small(W(La, g))>>)
T1(La, g) == {<<SR(g, Pat(W(La, g)), raw), Q("config"), CR(FALSE)>> \o EP(La) \o <<CR(TRUE), Q("hex_values")>> : raw \in BOOLEAN}
T1o(La, g) == {[i \in 1..(2 * Len(Others(La, g))) |-> IF i % 2 = 1 THEN SR(g, Others(La, g)[(i + 1) \div 2], raw) ELSE CR(i % 4 = 0)]
               \o <<Q("hex_values")>> : raw \in BOOLEAN}
\* T2: one value per sub-register slot, alternating views
T2(La, g) == LET ks == KSeq(N(La, g)) IN
             {[i \in 1..Len(ks) |-> SR(g, Chunk(La, g, ks[i]), i % 2 = 0)] \o <<Q("names_grp")>> \o EP(La) \o <<Q("regs_grp")>>}
\* T3: the other direction - members written one by one behind the group, then every view and round trip
T3(La, g) == LET ms == MSeq(La, g) IN
             {<<SR(g, Pat(W(La, g)), FALSE)>> \o [i \in 1..Len(ms) |-> SR(Reg(La, g).subs[ms[i]], SubPat(SubW(La, g), i), i % 2 = 1)]
              \o <<Q("config"), CR(FALSE)>> \o EP(La) \o <<Q("find_grp"), CR(TRUE)>>}
\* T4: values that do not fit the declared width are refused and change nothing; the value that just fits is accepted
T4(La, g) == LET w == W(La, g) IN
             {<<SR(g, {w}, FALSE), SR(g, Pat(w), TRUE), SR(g, AllBits(w + 1), TRUE), SR(g, {0, w}, FALSE), Q("config_diff"), SR(g, AllBits(w), FALSE), SR(g, {w + 8}, TRUE)>>}
\* T5: bit-fields of members (first and last visible one of every visited member) under a full group value
Vis(La, s) == {f \in Flds(La, s) : ~Fld(La, s, f).hidden}
FOnes(La, s, f) == {i + Fld(La, s, f).shr : i \in AllBits(Fld(La, s, f).width)}
Ends(S) == IF S = {} THEN <<>> ELSE LET lo == CHOOSE x \in S : \A y \in S : x <= y
                                        hi == CHOOSE x \in S : \A y \in S : x >= y
                                    IN IF lo = hi THEN <<lo>> ELSE <<lo, hi>>
T5(La, g) == LET ms == KSeq(N(La, g)) IN
             {<<SR(g, AllBits(W(La, g)), FALSE), SR(g, Pat(W(La, g)), FALSE)>>
              \o [i \in 1..Len(Ends(Vis(La, Reg(La, g).subs[ms[k]]))) |->
                     SF(Reg(La, g).subs[ms[k]], Ends(Vis(La, Reg(La, g).subs[ms[k]]))[i],
                        IF i = 1 THEN FOnes(La, Reg(La, g).subs[ms[k]], Ends(Vis(La, Reg(La, g).subs[ms[k]]))[i]) ELSE {})]
              \o <<Q("enum_values"), CR(TRUE), Q("bitfield_names")>>
              : k \in {j \in 1..Len(ms) : ~Alt(La, g) /\ Vis(La, Reg(La, g).subs[ms[j]]) # {}}}
Tours(La, g) == [T1 |-> T1(La, g), T1o |-> T1o(La, g), T2 |-> T2(La, g), T3 |-> T3(La, g), T4 |-> T4(La, g), T5 |-> T5(La, g)]

Emit(l) == \A g \in Groups(Layouts[l]) : Reg(Layouts[l], g).subs # <<>> =>
             \A kind \in DOMAIN Tours(Layouts[l], g) : \A t \in Tours(Layouts[l], g)[kind] :
                PrintT(ToJson([lay |-> l, g |-> g, kind |-> kind, hist |-> t]))
SInit == lay \in 1..Len(Layouts) /\ Emit(lay)
SNext == UNCHANGED lay
\* lemmas about the case space (checked on every layout): every visited slot is hit by a value that lies inside the declared width, the
\* slots are pairwise disjoint (stated for the groups that tile), and the wide values occupy the whole declared width
SlotsHit == \A g \in Groups(Layouts[lay]) : Tiles(Layouts[lay], g) =>
              LET La == Layouts[lay]  ks == KSeq(N(La, g)) IN
              /\ \A i \in 1..Len(ks) : Chunk(La, g, ks[i]) \cap Slot(La, g, ks[i]) # {} /\ Chunk(La, g, ks[i]) \subseteq AllBits(W(La, g))
              /\ \A i, j \in 1..Len(ks) : i # j => Slot(La, g, ks[i]) \cap Slot(La, g, ks[j]) = {}
              /\ \A V \in Wide(La, g) : V \subseteq AllBits(W(La, g))
              /\ Wide(La, g) = {Pat(W(La, g))} \cup ToSet(Others(La, g))
              /\ \A b \in 0..((W(La, g) \div 8) - 1) : Pat(W(La, g)) \cap {8 * b + i : i \in 0..7} # {}
=============================================================================
