\* refutation run: on a layout whose group is declared wider than the registers behind it, RegWriteWins must be VIOLATED
SPECIFICATION Spec
INVARIANT TypeOK
INVARIANT RegWriteWins
CHECK_DEADLOCK FALSE
CONSTRAINT Bounded
