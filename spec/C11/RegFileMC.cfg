SPECIFICATION Spec
INVARIANT TypeOK
INVARIANT LastWriteWins
INVARIANT EnumWriteWins
INVARIANT RegWriteWins
INVARIANT ViewsConsistent
INVARIANT GroupsTile
PROPERTY Independent
PROPERTY RegsIndependent
PROPERTY Frozen
CHECK_DEADLOCK FALSE
CONSTRAINT Bounded
