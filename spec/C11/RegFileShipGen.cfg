INIT SInit
NEXT SNext
INVARIANT SlotsHit
CHECK_DEADLOCK FALSE
