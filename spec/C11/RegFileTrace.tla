---------------------------- MODULE RegFileTrace ----------------------------
(* TV form: each trace is a sequence of events recorded while a real Registers object was driven. *)
(* Every step must be the spec action named by the event, with the logged outcome (refused or not) *)
(* and the logged projection of the real state equal to the spec's successor state.               *)
EXTENDS RegFile
Traces == ndJsonDeserialize(IOEnv.TRACE_FILE)
VARIABLES tid, l
tvars == <<lay, bits, nregs, act, tid, l>>
T == Traces[tid].ev
E == T[l]
Is(e) == l <= Len(T) /\ E.a = e
Adv == l' = l + 1 /\ UNCHANGED tid
\* the logged projection equals the (primed) spec state in every view
PostMatches(b, n) ==
  LET P == E.post IN
  /\ n = P.n
  /\ \A r \in Leaves(L) : b[r] = ToSet(P.bits[r])
  /\ \A r \in Leaves(L) : \A f \in Flds(L, r) : /\ FieldVal(L, b, r, f) = ToSet(P.fv[r][f])
                                                /\ (~Fld(L, r, f).hidden => EnumIdx(L, b, r, f) = P.en[r][f])
  /\ \A g \in Groups(L) : View(L, b, g, TRUE) = ToSet(P.gv[g][1]) /\ View(L, b, g, FALSE) = ToSet(P.gv[g][2])
TInit == /\ tid \in 1..Len(Traces) /\ l = 1 /\ lay = Traces[tid].lay
         /\ bits = ResetBits(Layouts[Traces[tid].lay]) /\ nregs = Cardinality(Top(Layouts[Traces[tid].lay])) + Rest(Layouts[Traces[tid].lay])
         /\ act = [a |-> "Init"] /\ TLCSet(tid, 1)
TStart == Is("Init") /\ UNCHANGED <<lay, bits, nregs, act>> /\ PostMatches(bits, nregs) /\ Adv
\* an accepted whole-register write reads back through the view it was written through (lemma RegWriteWins of RegFile as a clause of every
\* observed step: implied by SetView on a layout whose groups tile, the deciding clause on a shipped layout whose group is wider than its members)
ReadsBack(b) == ~E.refused => View(L, b, E.r, E.raw) = ToSet(E.v)
TSetReg == /\ Is("SetReg")
           /\ IF \E i \in ToSet(E.v) : i >= W(L, E.r) THEN SetRegTooBig(E.r, ToSet(E.v)) ELSE SetReg(E.r, ToSet(E.v), E.raw)
           /\ act'.refused = E.refused /\ ReadsBack(bits') /\ PostMatches(bits', nregs') /\ Adv
TSetField == /\ Is("SetField")
             /\ (SetField(E.r, E.f, ToSet(E.v)) \/ SetFieldTooBig(E.r, E.f, ToSet(E.v)))
             /\ act'.refused = E.refused /\ PostMatches(bits', nregs') /\ Adv
TSetFieldEnum == /\ Is("SetFieldEnum")
                 /\ IF E.e = 0 THEN SetFieldUnknownEnum(E.r, E.f) ELSE SetFieldEnum(E.r, E.f, E.e)
                 /\ act'.refused = E.refused /\ PostMatches(bits', nregs') /\ Adv
TReset == Is("Reset") /\ Reset(E.r, E.raw) /\ PostMatches(bits', nregs') /\ Adv
TResetAll == Is("ResetAll") /\ ResetAll /\ PostMatches(bits', nregs') /\ Adv
TExportParse == Is("ExportParse") /\ ExportParse /\ PostMatches(bits', nregs') /\ Adv
TConfig == Is("ConfigRoundTrip") /\ ConfigRoundTrip(E.diff) /\ PostMatches(bits', nregs') /\ Adv
TQuery == Is("Query") /\ Query(E.q) /\ PostMatches(bits', nregs') /\ Adv
TNext == TStart \/ TSetReg \/ TSetField \/ TSetFieldEnum \/ TReset \/ TResetAll \/ TExportParse \/ TConfig \/ TQuery
Constr == IF TLCGet(tid) < l THEN TLCSet(tid, l) ELSE TRUE
Post == \A i \in 1..Len(Traces) :
          \/ TLCGet(i) - 1 = Len(Traces[i].ev)
          \/ PrintT(<<"REJ", Traces[i].id, TLCGet(i) - 1, Len(Traces[i].ev),
                      Traces[i].ev[IF TLCGet(i) <= Len(Traces[i].ev) THEN TLCGet(i) ELSE Len(Traces[i].ev)].a>>)
=============================================================================
