----------------------------- MODULE Registers -----------------------------
(* R-spec of C11 (and of the register part of C12): a register file is a set of independent     *)
(* bit-vectors.  The state is bits[r], the set of 1-bit positions of the RAW value of every leaf  *)
(* register r; every other view (bit-field, byte-reversed register, group of sub-registers) is a  *)
(* function of it.  A 512-bit register is as cheap as an 8-bit one.                               *)
(*                                                                                               *)
(* Layout record L (JSON):                                                                       *)
(*   regs : sequence of [name, kind \in {"leaf","group"}, width, reverse, parent (0 = top level), *)
(*                       subs (group: indices of sub-registers in declared order), rso (reverse   *)
(*                       sub-register order), fields : sequence of [name, off, width, reset (bit  *)
(*                       list), shr (SHIFT_RIGHT count, 0 = none), hidden, enums : seq of [name, v (bit list)]]] *)
EXTENDS Integers, Sequences, FiniteSets, TLC

ToSet(s) == {s[i] : i \in DOMAIN s}
Regs(L) == 1..Len(L.regs)
Reg(L, r) == L.regs[r]
Leaves(L) == {r \in Regs(L) : Reg(L, r).kind = "leaf"}
Groups(L) == {r \in Regs(L) : Reg(L, r).kind = "group"}
Top(L) == {r \in Regs(L) : Reg(L, r).parent = 0}
W(L, r) == Reg(L, r).width
Flds(L, r) == 1..Len(Reg(L, r).fields)
Fld(L, r, f) == Reg(L, r).fields[f]
AllBits(w) == 0..(w - 1)

\* byte reversal of a w-bit value is a permutation of bit indices (an involution)
ByteRev(S, w) == {((w \div 8) - 1 - (i \div 8)) * 8 + (i % 8) : i \in S}

LeafView(L, b, r, raw) == IF raw \/ ~Reg(L, r).reverse THEN b[r] ELSE ByteRev(b[r], W(L, r))
SubW(L, g) == W(L, Reg(L, g).subs[1])
Pos(L, g, k) == IF Reg(L, g).rso THEN W(L, g) - k * SubW(L, g) ELSE (k - 1) * SubW(L, g)
GroupConcat(L, b, g, raw) ==                      \* concatenation of the sub-register values in declared order
  UNION {{i + Pos(L, g, k) : i \in LeafView(L, b, Reg(L, g).subs[k], raw)} : k \in 1..Len(Reg(L, g).subs)}
View(L, b, r, raw) ==
  IF Reg(L, r).kind = "leaf" THEN LeafView(L, b, r, raw)
  ELSE IF raw \/ ~Reg(L, r).reverse THEN GroupConcat(L, b, r, raw)
  ELSE ByteRev(GroupConcat(L, b, r, FALSE), W(L, r))

\* the new raw bits after a whole-register write of value S through the view (raw / not raw)
SetView(L, b, r, S, raw) ==
  IF Reg(L, r).kind = "leaf"
  THEN [b EXCEPT ![r] = IF raw \/ ~Reg(L, r).reverse THEN S ELSE ByteRev(S, W(L, r))]
  ELSE LET S0 == IF raw \/ ~Reg(L, r).reverse THEN S ELSE ByteRev(S, W(L, r))
           sw == SubW(L, r)
           Part(k) == {i - Pos(L, r, k) : i \in {j \in S0 : j >= Pos(L, r, k) /\ j < Pos(L, r, k) + sw}}
           IdxOf(s) == CHOOSE k \in 1..Len(Reg(L, r).subs) : Reg(L, r).subs[k] = s
       IN [s \in DOMAIN b |-> IF s \in ToSet(Reg(L, r).subs)
                               THEN (IF raw \/ ~Reg(L, s).reverse THEN Part(IdxOf(s)) ELSE ByteRev(Part(IdxOf(s)), sw))
                               ELSE b[s]]

\* ---- a group is a view of the bits of its sub-registers and of nothing else: its declared width is the width of the (distinct) registers behind it.
\* Generated layouts tile by construction; a layout read from a shipped device database is data and may not (then a value of the declared
\* width has bits without a home: RegWriteWins / ReadsBack fail on it).
RECURSIVE SumW(_, _)
SumW(L, S) == IF S = {} THEN 0 ELSE LET s == CHOOSE x \in S : TRUE IN W(L, s) + SumW(L, S \ {s})
Tiles(L, g) == /\ Reg(L, g).subs # <<>>
               /\ Cardinality(ToSet(Reg(L, g).subs)) = Len(Reg(L, g).subs)
               /\ \A s \in ToSet(Reg(L, g).subs) : W(L, s) = SubW(L, g)
               /\ SumW(L, ToSet(Reg(L, g).subs)) = W(L, g)

\* ---- bit-fields (defined on the not-raw view of their register)
FieldMask(L, r, f) == {i \in AllBits(W(L, r)) : i >= Fld(L, r, f).off /\ i < Fld(L, r, f).off + Fld(L, r, f).width}
Stored(L, b, r, f) == {i - Fld(L, r, f).off : i \in View(L, b, r, FALSE) \cap FieldMask(L, r, f)}
FieldVal(L, b, r, f) == {i + Fld(L, r, f).shr : i \in Stored(L, b, r, f)}                  \* what get_value() reads
PreProc(L, r, f, V) == {i - Fld(L, r, f).shr : i \in {j \in V : j >= Fld(L, r, f).shr}}   \* value >> shr
Fits(L, r, f, V) == \A i \in PreProc(L, r, f, V) : i < Fld(L, r, f).width
SetFieldBits(L, b, r, f, V, raw) ==                \* a bit-field write never disturbs its neighbours
  LET nv == (View(L, b, r, raw) \ FieldMask(L, r, f)) \cup {i + Fld(L, r, f).off : i \in PreProc(L, r, f, V)}
  IN SetView(L, b, r, nv, raw)

\* ---- reset state (a layout read from a shipped register file may carry a register-level reset value next to those of its bit-fields)
RegReset(L, r) == IF "reset" \in DOMAIN Reg(L, r) THEN ToSet(Reg(L, r).reset) ELSE {}
ResetVal(L, r) == RegReset(L, r) \cup UNION {{i + Fld(L, r, f).off : i \in ToSet(Fld(L, r, f).reset)} : f \in Flds(L, r)}
ResetBits(L) == [r \in Leaves(L) |-> ResetVal(L, r)]

\* ---- enum view: the name of the enum whose value equals the field value, else none
EnumIdx(L, b, r, f) ==
  LET E == Fld(L, r, f).enums
      hits == {e \in DOMAIN E : ToSet(E[e].v) = FieldVal(L, b, r, f)}
  IN IF hits = {} THEN 0 ELSE CHOOSE e \in hits : \A x \in hits : e <= x           \* first match wins
=============================================================================
