------------------------------ MODULE RegFile ------------------------------
(* The register file of C11 as a state machine: every public operation is one action on `bits`. *)
(* Operations that must not change anything (queries, export/parse, configuration round trip,   *)
(* refused writes) are actions with bits' = bits and nregs' = nregs - that is the property.      *)
EXTENDS Registers, Json, IOUtils
Layouts == JsonDeserialize(IOEnv.LAYOUT_FILE)          \* sequence of layouts
VARIABLES lay,      \* index of the layout of this behaviour
          bits,     \* raw 1-bits of every leaf register
          nregs,    \* number of top-level registers (structure; queries must not change it)
          act       \* the last action with its arguments and outcome (binding point for traces)
vars == <<lay, bits, nregs, act>>
L == Layouts[lay]
Small == IOEnv.MENU = "small"
Menu(w) == IF Small THEN {{}, {w - 1}, AllBits(w), {i \in AllBits(w) : i % 2 = 1}}
           ELSE {{}, {0}, {w - 1}, AllBits(w), {i \in AllBits(w) : i % 2 = 1}, {i \in AllBits(w) : i % 3 = 0}}
TooBig(w) == IF Small THEN {{w}, {0, w}} ELSE {{w}, {0, w}, {w, w + 1}, AllBits(w + 1)}
Queries == {"names", "names_grp", "regs_grp", "find_grp", "bitfield_names", "config", "config_diff", "export",
            "image_info", "str", "hex_values", "enum_values", "schema", "reset_values_get", "diff"}
\* a layout may describe a PART of a register file (a shipped group with its members and neighbours): `rest` = top-level registers outside of it
Rest(La) == IF "rest" \in DOMAIN La THEN La.rest ELSE 0
Init == /\ lay \in 1..Len(Layouts)
        /\ bits = ResetBits(Layouts[lay])
        /\ nregs = Cardinality(Top(Layouts[lay])) + Rest(Layouts[lay])
        /\ act = [a |-> "Init"]
Keep == UNCHANGED <<lay, nregs>>
SetReg(r, V, raw) ==
  /\ bits' = SetView(L, bits, r, V, raw)
  /\ act' = [a |-> "SetReg", r |-> r, v |-> V, raw |-> raw, refused |-> FALSE] /\ Keep
SetRegTooBig(r, V) ==
  /\ act' = [a |-> "SetReg", r |-> r, v |-> V, raw |-> FALSE, refused |-> TRUE] /\ UNCHANGED bits /\ Keep
SetField(r, f, V) ==
  /\ Fits(L, r, f, V)
  /\ bits' = SetFieldBits(L, bits, r, f, V, FALSE)
  /\ act' = [a |-> "SetField", r |-> r, f |-> f, v |-> V, refused |-> FALSE] /\ Keep
SetFieldTooBig(r, f, V) ==
  /\ ~Fits(L, r, f, V)
  /\ act' = [a |-> "SetField", r |-> r, f |-> f, v |-> V, refused |-> TRUE] /\ UNCHANGED bits /\ Keep
SetFieldEnum(r, f, e) ==
  /\ bits' = SetFieldBits(L, bits, r, f, ToSet(Fld(L, r, f).enums[e].v), FALSE)
  /\ act' = [a |-> "SetFieldEnum", r |-> r, f |-> f, e |-> e, refused |-> FALSE] /\ Keep
SetFieldUnknownEnum(r, f) ==
  /\ act' = [a |-> "SetFieldEnum", r |-> r, f |-> f, e |-> 0, refused |-> TRUE] /\ UNCHANGED bits /\ Keep
Reset(r, raw) ==
  /\ bits' = SetView(L, bits, r, ResetVal(L, r), raw)
  /\ act' = [a |-> "Reset", r |-> r, raw |-> raw] /\ Keep
ResetAll ==
  /\ bits' = ResetBits(L)
  /\ act' = [a |-> "ResetAll"] /\ Keep
ExportParse == act' = [a |-> "ExportParse"] /\ UNCHANGED bits /\ Keep
ConfigRoundTrip(diff) == act' = [a |-> "ConfigRoundTrip", diff |-> diff] /\ UNCHANGED bits /\ Keep
Query(q) == act' = [a |-> "Query", q |-> q] /\ UNCHANGED bits /\ Keep

LeafTop == Leaves(L) \cap Top(L)
DoSetReg == \E r \in Regs(L) : \E V \in Menu(W(L, r)) : \E raw \in BOOLEAN : SetReg(r, V, raw)
DoSetRegTooBig == \E r \in Regs(L) : \E V \in TooBig(W(L, r)) : SetRegTooBig(r, V)
FieldMenu(r, f) == Menu(Fld(L, r, f).width + Fld(L, r, f).shr) \cup TooBig(Fld(L, r, f).width + Fld(L, r, f).shr)
DoSetField == \E r \in Leaves(L) : \E f \in Flds(L, r) : \E V \in FieldMenu(r, f) : SetField(r, f, V)
DoSetFieldTooBig == \E r \in Leaves(L) : \E f \in Flds(L, r) : \E V \in FieldMenu(r, f) : SetFieldTooBig(r, f, V)
DoSetFieldEnum == \E r \in Leaves(L) : \E f \in Flds(L, r) : \E e \in DOMAIN Fld(L, r, f).enums : SetFieldEnum(r, f, e)
DoSetFieldUnknownEnum == \E r \in Leaves(L) : \E f \in Flds(L, r) : SetFieldUnknownEnum(r, f)
DoReset == \E r \in LeafTop : \E raw \in BOOLEAN : Reset(r, raw)
DoConfigRoundTrip == \E d \in BOOLEAN : ConfigRoundTrip(d)
DoQuery == \E q \in Queries : Query(q)
Next == \/ DoSetReg \/ DoSetRegTooBig \/ DoSetField \/ DoSetFieldTooBig \/ DoSetFieldEnum \/ DoSetFieldUnknownEnum
        \/ DoReset \/ ResetAll \/ ExportParse \/ DoConfigRoundTrip \/ DoQuery
Spec == Init /\ [][Next]_vars
Bounded == TLCGet("level") <= atoi(IOEnv.MC_LEVEL)

\* ---------------------------------------------------------------- lemmas (checked by TLC on the bounded model)
TypeOK == \A r \in Leaves(L) : bits[r] \subseteq AllBits(W(L, r))
\* after an accepted bit-field write the field reads the value written (modulo the SHIFT_RIGHT quantisation)
LastWriteWins == act.a = "SetField" /\ ~act.refused =>
                   FieldVal(L, bits, act.r, act.f) = {i \in act.v : i >= Fld(L, act.r, act.f).shr}
EnumWriteWins == act.a = "SetFieldEnum" /\ ~act.refused =>
                   FieldVal(L, bits, act.r, act.f) = {i \in ToSet(Fld(L, act.r, act.f).enums[act.e].v) : i >= Fld(L, act.r, act.f).shr}
\* a whole-register write is read back through the same view, and a bit-field reads the corresponding slice of it
RegWriteWins == act.a = "SetReg" /\ ~act.refused => View(L, bits, act.r, act.raw) = act.v
\* every group of the layout is exactly as wide as the registers behind it (the premise under which RegWriteWins holds for groups:
\* RegFileMC_untiled.cfg refutes RegWriteWins on a layout that breaks it)
GroupsTile == \A g \in Groups(L) : Tiles(L, g)
\* writing back what a view shows changes nothing: the views are consistent with each other
ViewsConsistent == \A r \in Regs(L) : \A raw \in BOOLEAN : SetView(L, bits, r, View(L, bits, r, raw), raw) = bits
\* a bit-field write leaves every other bit-field of every register unchanged
Independent == [][act'.a \in {"SetField", "SetFieldEnum"} =>
                   \A r \in Leaves(L) : \A f \in Flds(L, r) :
                      ~(r = act'.r /\ f = act'.f) => FieldVal(L, bits', r, f) = FieldVal(L, bits, r, f)]_vars
\* a write to one top-level register leaves all other top-level registers unchanged
RegsIndependent == [][act'.a = "SetReg" =>
                   \A r \in Top(L) : (r # act'.r /\ r # Reg(L, act'.r).parent /\ Reg(L, r).kind = "leaf") => bits'[r] = bits[r]]_vars
Frozen == [][act'.a \in {"Query", "ExportParse", "ConfigRoundTrip"} \/ (act'.a \in {"SetField", "SetReg", "SetFieldEnum"} /\ act'.refused)
              => bits' = bits /\ nregs' = nregs]_vars
=============================================================================
