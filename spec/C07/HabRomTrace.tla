---------------------------- MODULE HabRomTrace ----------------------------
(* C07 - TV form: batch validation of executor traces against the ROM automaton of HabRom.tla.     *)
(* A trace = the inputs given to the builder (inp) + one logged event per ROM step over the bytes   *)
(* SPSDK exported (+ one ParseBack event: what SPSDK's own parser recovered from the same bytes).   *)
(* A trace is accepted when it is consumed to its end; the executor's "Stop" event (pointer outside *)
(* the file, unparsable structure) has no action, so such a trace is rejected where it stopped.     *)
EXTENDS HabRom, TLC, Json, IOUtils
Traces == ndJsonDeserialize(IOEnv.TRACE_FILE)
VARIABLES tid, l, s
T == Traces[tid].ev
E == T[l]
inp == Traces[tid].inp
Is(e) == l <= Len(T) /\ E.ev = e
Adv == l' = l + 1 /\ UNCHANGED tid
TInit == tid \in 1..Len(Traces) /\ l = 1 /\ s = S0 /\ TLCSet(tid, 1)

ParseIvt         == Is("ParseIvt")     /\ IvtOK(inp, s, E)       /\ s' = IvtNx(inp, s, E)       /\ Adv
BootData         == Is("BootData")     /\ BdOK(inp, s, E)        /\ s' = BdNx(inp, s, E)        /\ Adv
Dcd              == Is("Dcd")          /\ DcdOK(inp, s, E)       /\ s' = CfgNx(inp, s, E)       /\ Adv
Xmcd             == Is("Xmcd")         /\ XmcdOK(inp, s, E)      /\ s' = CfgNx(inp, s, E)       /\ Adv
App              == Is("App")          /\ AppOK(inp, s, E)       /\ s' = AppNx(inp, s, E)       /\ Adv
CsfHeader        == Is("CsfHeader")    /\ CsfOK(inp, s, E)       /\ s' = CsfNx(inp, s, E)       /\ Adv
InstallSrk       == Is("InstallKey")   /\ SrkOK(inp, s, E)       /\ s' = SrkNx(inp, s, E)       /\ Adv
InstallCsfk      == Is("InstallKey")   /\ CsfkOK(inp, s, E)      /\ s' = CsfkNx(inp, s, E)      /\ Adv
AuthenticateCsf  == Is("Authenticate") /\ AuthCsfOK(inp, s, E)   /\ s' = AuthCsfNx(inp, s, E)   /\ Adv
InstallImgk      == Is("InstallKey")   /\ ImgkOK(inp, s, E)      /\ s' = ImgkNx(inp, s, E)      /\ Adv
AuthenticateData == Is("Authenticate") /\ AuthDataOK(inp, s, E)  /\ s' = AuthDataNx(inp, s, E)  /\ Adv
InstallSecretKey == Is("InstallKey")   /\ SecretOK(inp, s, E)    /\ s' = SecretNx(inp, s, E)    /\ Adv
DecryptData      == Is("Authenticate") /\ DecryptOK(inp, s, E)   /\ s' = DecryptNx(inp, s, E)   /\ Adv
OtherCmd         == Is("Cmd")          /\ OtherOK(inp, s, E)     /\ s' = OtherNx(inp, s, E)     /\ Adv
CsfEnd           == Is("CsfEnd")       /\ EndOK(inp, s, E)       /\ s' = EndNx(inp, s, E)       /\ Adv
Accept           == Is("Accept")       /\ AcceptOK(inp, s)       /\ s' = AcceptNx(inp, s)       /\ Adv
ParseBack        == Is("ParseBack")    /\ l = Len(T) /\ ParseBackOK(inp, s, E) /\ s' = ParseBackNx(inp, s, E) /\ Adv
TNext == ParseIvt \/ BootData \/ Dcd \/ Xmcd \/ App \/ CsfHeader \/ InstallSrk \/ InstallCsfk \/ AuthenticateCsf \/ InstallImgk
         \/ AuthenticateData \/ InstallSecretKey \/ DecryptData \/ OtherCmd \/ CsfEnd \/ Accept \/ ParseBack
Constr == IF TLCGet(tid) < l THEN TLCSet(tid, l) ELSE TRUE
Post == \A i \in 1..Len(Traces) :
          \/ TLCGet(i) - 1 = Len(Traces[i].ev)
          \/ PrintT(<<"REJ", Traces[i].id, TLCGet(i) - 1, Len(Traces[i].ev),
                      Traces[i].ev[IF TLCGet(i) <= Len(Traces[i].ev) THEN TLCGet(i) ELSE Len(Traces[i].ev)].ev>>)
=============================================================================
