---------------------------- MODULE HabRomTrace ----------------------------
(* C07 - TV form: batch validation of executor traces against the ROM automaton of HabRom.tla.     *)
(* A trace = the inputs given to the builder (inp) + one logged event per ROM step over the bytes   *)
(* SPSDK exported (+ one ParseBack event: what SPSDK's own parser recovered from the same bytes).   *)
(* A trace is accepted when it is consumed to its end; the executor's "Stop" event (pointer outside *)
(* the file, unparsable structure) has no action, so such a trace is rejected where it stopped.     *)
(*                                                                                                 *)
(* A HISTORY (HabHist.tla: several images built one after the other in ONE process, from projects     *)
(* whose configurations use the same relative names for different key files) is one trace too: it      *)
(* carries  inps  (the inputs of every build, in order) instead of  inp,  and its event list is the     *)
(* ROM walk over the first image up to Accept, a "NextBuild" event, the walk over the second image ...  *)
(* The register b counts the images: image b is judged against inps[b] - the certificates, SRK table,    *)
(* fuse value and DEK of ITS project - by a ROM that starts from S0 again (NextBuild).                   *)
EXTENDS HabRom, HabHist, TLC, Json, IOUtils
Traces == ndJsonDeserialize(IOEnv.TRACE_FILE)
VARIABLES tid, l, s, b
T == Traces[tid].ev
E == T[l]
IsHist == "inps" \in DOMAIN Traces[tid]
NBuilds == IF IsHist THEN Len(Traces[tid].inps) ELSE 1
inp == IF IsHist THEN Traces[tid].inps[b] ELSE Traces[tid].inp
Is(e) == l <= Len(T) /\ E.ev = e
Adv == l' = l + 1 /\ UNCHANGED <<tid, b>>
TInit == tid \in 1..Len(Traces) /\ l = 1 /\ s = S0 /\ b = 1 /\ TLCSet(tid, 1)

ParseIvt         == Is("ParseIvt")     /\ IvtOK(inp, s, E)       /\ s' = IvtNx(inp, s, E)       /\ Adv
BootData         == Is("BootData")     /\ BdOK(inp, s, E)        /\ s' = BdNx(inp, s, E)        /\ Adv
Dcd              == Is("Dcd")          /\ DcdOK(inp, s, E)       /\ s' = CfgNx(inp, s, E)       /\ Adv
Xmcd             == Is("Xmcd")         /\ XmcdOK(inp, s, E)      /\ s' = CfgNx(inp, s, E)       /\ Adv
App              == Is("App")          /\ AppOK(inp, s, E)       /\ s' = AppNx(inp, s, E)       /\ Adv
CsfHeader        == Is("CsfHeader")    /\ CsfOK(inp, s, E)       /\ s' = CsfNx(inp, s, E)       /\ Adv
InstallSrk       == Is("InstallKey")   /\ SrkOK(inp, s, E)       /\ s' = SrkNx(inp, s, E)       /\ Adv
InstallCsfk      == Is("InstallKey")   /\ CsfkOK(inp, s, E)      /\ s' = CsfkNx(inp, s, E)      /\ Adv
AuthenticateCsf  == Is("Authenticate") /\ AuthCsfOK(inp, s, E)   /\ s' = AuthCsfNx(inp, s, E)   /\ Adv
InstallImgk      == Is("InstallKey")   /\ ImgkOK(inp, s, E)      /\ s' = ImgkNx(inp, s, E)      /\ Adv
AuthenticateData == Is("Authenticate") /\ AuthDataOK(inp, s, E)  /\ s' = AuthDataNx(inp, s, E)  /\ Adv
InstallSecretKey == Is("InstallKey")   /\ SecretOK(inp, s, E)    /\ s' = SecretNx(inp, s, E)    /\ Adv
DecryptData      == Is("Authenticate") /\ DecryptOK(inp, s, E)   /\ s' = DecryptNx(inp, s, E)   /\ Adv
OtherCmd         == Is("Cmd")          /\ OtherOK(inp, s, E)     /\ s' = OtherNx(inp, s, E)     /\ Adv
CsfEnd           == Is("CsfEnd")       /\ EndOK(inp, s, E)       /\ s' = EndNx(inp, s, E)       /\ Adv
\* (a history is consumed only when every build it has inputs for was judged: its last event is the Accept of image NBuilds)
Accept           == Is("Accept")       /\ AcceptOK(inp, s)       /\ s' = AcceptNx(inp, s)       /\ Adv
                                       /\ (IsHist /\ l = Len(T) => b = NBuilds)
ParseBack        == Is("ParseBack")    /\ l = Len(T) /\ ParseBackOK(inp, s, E) /\ s' = ParseBackNx(inp, s, E) /\ Adv
\* the next image of a history: accepted image behind, fresh ROM, the inputs of the next build
NextBuild        == Is("NextBuild")    /\ IsHist /\ HNextBuildOK(s.st, E, b, NBuilds) /\ s' = S0 /\ b' = b + 1 /\ l' = l + 1 /\ UNCHANGED tid
\* a REFUSED build (the only event of its trace) is no violation in exactly one situation: the nonce supplied for an encrypted image leaves
\* a CCM length field (15 - |nonce| bytes) too small for the data to encrypt (application padded to 16 bytes) - no MAC record could be right
BuildRefused     == Is("BuildFailed")  /\ ~IsHist /\ l = 1 /\ Len(T) = 1 /\ "nonceGiven" \in DOMAIN inp /\ inp.flags = "enc"
                                       /\ inp.nonceGiven \in 7..13 /\ ~CcmFits(inp.nonceGiven, Align(inp.appLen, 16)) /\ UNCHANGED s /\ Adv
TNext == BuildRefused \/ NextBuild \/ ParseIvt \/ BootData \/ Dcd \/ Xmcd \/ App \/ CsfHeader \/ InstallSrk \/ InstallCsfk \/ AuthenticateCsf \/ InstallImgk
         \/ AuthenticateData \/ InstallSecretKey \/ DecryptData \/ OtherCmd \/ CsfEnd \/ Accept \/ ParseBack
Constr == IF TLCGet(tid) < l THEN TLCSet(tid, l) ELSE TRUE
Post == \A i \in 1..Len(Traces) :
          \/ TLCGet(i) - 1 = Len(Traces[i].ev)
          \/ PrintT(<<"REJ", Traces[i].id, TLCGet(i) - 1, Len(Traces[i].ev),
                      Traces[i].ev[IF TLCGet(i) <= Len(Traces[i].ev) THEN TLCGet(i) ELSE Len(Traces[i].ev)].ev>>)
=============================================================================
