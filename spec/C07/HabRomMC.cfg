SPECIFICATION Spec
INVARIANT UntamperedAccepted
INVARIANT PadDontCare
INVARIANT TamperRejected
INVARIANT MutantRejected
INVARIANT ParseMutantRejected
INVARIANT DocumentedLayoutOK
INVARIANT KeyDiscipline
INVARIANT RegionsCovered
CHECK_DEADLOCK FALSE
