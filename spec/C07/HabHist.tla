------------------------------- MODULE HabHist -------------------------------
(* C07 - R-spec of a HISTORY of builds: one Python process builds several HAB images one after the  *)
(* other (HabContainer.load_from_config(...).export() called again and again: a build server, a     *)
(* test session, a script that signs the images of several products).                               *)
(*                                                                                                 *)
(* A build request q comes from a PROJECT: a configuration directory with its own PKI tree, i.e. its  *)
(* own search path.  The configuration names its material by RELATIVE strings - the private keys     *)
(* ("../keys/CSF1_1_sha256_2048_65537_v3_usr_key.pem", also inside `type=file;file_path=...` and as    *)
(* the path derived from the certificate path), the certificates, the SRK table, the DEK file.  NXP's  *)
(* CST scripts produce the SAME file names for every tree, so two projects use the same strings for    *)
(* different files:  HRes(p, n)  is the file the name n resolves to through the search path of p.      *)
(*                                                                                                 *)
(* Reference builder: the image of request q is made of the files q's own search path resolves,       *)
(* whatever was built before (HRefImage) - the property is stated per image, for ALL images SPSDK      *)
(* builds, hence for every image of every history.  The boot ROM judges every image on its own, with   *)
(* fresh registers (HNextBuildOK: the clause of the trace form between two images of a history).       *)
(*                                                                                                 *)
(* Builders WITH a memory are the design mutants of this dimension (HabHistMC): a memory keyed by the   *)
(* resolved file is a legal optimisation, a memory keyed by the unresolved name leaks the material of   *)
(* an earlier build into a later one.                                                                 *)
EXTENDS Integers, Sequences, FiniteSets

\* kinds of material a configuration names: signature provider / private key, installed certificate, SRK table, DEK (given, reused)
HKinds == {"key", "crt", "srk", "dek"}

HRes(p, n) == <<p, n>>                                              \* the file name n resolves to in project p

\* q = [proj, names : HKinds -> name]
HRefImage(q) == [k \in HKinds |-> HRes(q.proj, q.names[k])]

\* What the ROM automaton of HabRom.tla + the executor decide for ONE image, in the abstract: every piece of material is the
\* project's own -   key: the CMS signatures verify under the installed certificates (sigOk)
\*                   crt: the installed certificate is the configured one and chains to the SRK (certMatch, chainOk)
\*                   srk: the table hash is the fuse value reported for THIS project, the selected entry its SRK (fuseOk, keyOk)
\*                   dek: the DEK file of THIS build decrypts, a given DEK is the one used (macOk, plainOk, dekKept)
HJudgedOK(q, img) == \A k \in HKinds : img[k] = HRes(q.proj, q.names[k])

\* ---- builders: b = [m : "ref" | "byResolved" | "byName", k : kind whose material is remembered]
HKeyOf(b, q) == IF b.m = "byName" THEN <<b.k, q.names[b.k]>> ELSE <<b.k, HRes(q.proj, q.names[b.k])>>
HHit(b, mem, q) == b.m # "ref" /\ \E e \in mem : e[1] = HKeyOf(b, q)
HImage(b, mem, q) ==
  [k \in HKinds |-> IF k = b.k /\ HHit(b, mem, q) THEN (CHOOSE e \in mem : e[1] = HKeyOf(b, q))[2] ELSE HRes(q.proj, q.names[k])]
HMemNx(b, mem, q) == IF b.m = "ref" \/ HHit(b, mem, q) THEN mem ELSE mem \cup {<<HKeyOf(b, q), HRes(q.proj, q.names[b.k])>>}

\* ---- trace form: event "NextBuild" between the events of two images of one history.  b = index of the image just judged,
\* n = number of images; st = control state of the ROM.  The next image is judged against ITS OWN inputs from fresh registers.
HNextBuildOK(st, e, b, n) == st = "Accepted" /\ b < n /\ e.idx = b + 1
=============================================================================
