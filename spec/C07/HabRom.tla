------------------------------- MODULE HabRom -------------------------------
(* C07 - R-spec: how a HAB4 boot ROM accepts an image.                                              *)
(*                                                                                                 *)
(* The ROM reads the IVT, the boot data, the DCD (pointer) / XMCD (fixed place), then interprets    *)
(* the CSF as a command automaton: Install SRK (table hash = fuses) -> Install CSFK (X.509 under    *)
(* the SRK) -> Authenticate CSF (CMS over header + commands) -> Install Key (IMGK) -> Authenticate  *)
(* Data (CMS over the concatenation of exactly the listed blocks) -> Install Secret Key -> Decrypt  *)
(* Data (AES-CCM, nonce and MAC from the MAC record) ... ; at the end everything that is executed    *)
(* or interpreted (IVT, boot data, DCD/XMCD, application) must lie inside authenticated blocks.     *)
(*                                                                                                 *)
(* Every step is a pair  XOK(inp, s, e)  (guard over the LOGGED numbers of event e, the inputs inp  *)
(* known to the verifier and the registers s accumulated so far)  and  XNx(inp, s, e)  (successor    *)
(* registers).  Content facts TLA+ cannot compute (SHA-256, RSA/ECDSA, X.509, AES-CCM, byte          *)
(* comparison) arrive as booleans computed by the executor with an independent trusted base and      *)
(* must be TRUE; every range those facts were computed over is logged and recomputed here.           *)
(*                                                                                                 *)
(* inp = [start, ivtOff, ils, appLen, flags, cfgKind, cfgLen, entry, ver, nSrk, srcIdx, fast,        *)
(*        imgTgt, vfyIdx, macLen, dekLen, waive, xmcdKind, cfgVer, dcdCmds]                         *)
(* inp.xmcdKind: "none" (no XMCD), a name of HabLayout!XmcdKinds (a block of that real kind was given  *)
(* to the builder) or "raw" (a well-formed header + arbitrary configuration bytes of inp.cfgLen bytes). *)
(* inp.cfgVer / inp.dcdCmds: version byte and command list [tag, len] of the DCD that was given (0 / << >> without a DCD).      *)
(* inp.waive is empty when a trace is judged.  Only after a rejection whose finding key is listed as  *)
(* KNOWN does the harness validate the same trace again with that one clause waived, so that a known  *)
(* defect does not hide what comes after it (a further rejection is reported under its own key).      *)
EXTENDS HabLayout

F(inp, a) == LET o == Off(a, inp.start) IN IF o = BIG THEN BIG ELSE o - inp.ivtOff     \* address -> file offset (IVT = 0)

Waived(inp, w) == \E i \in 1..Len(inp.waive) : inp.waive[i] = w

S0 == [st |-> "Ivt", ivt |-> [x |-> 0], bd |-> [x |-> 0], fileLen |-> 0, cfg |-> {}, cfgEv |-> [x |-> 0], csf |-> [at |-> 0, len |-> 0],
       cur |-> 0, nCmds |-> 0, slots |-> {}, srkCa |-> FALSE, csfOk |-> FALSE, secrets |-> {}, signed |-> {}, macd |-> {},
       refs |-> {}, blob |-> -1]

(* ------------------------------------------------------------------ IVT, boot data, DCD / XMCD, application *)
IvtOK(inp, s, e) ==
  /\ s.st = "Ivt"
  /\ e.tag = 209 /\ e.len = IvtLen /\ e.ver \in 64..79                      \* D1 0020 4x
  /\ F(inp, e.self) = 0                                                      \* self pointer = start + IVT offset of the boot device
  /\ F(inp, e.bd) >= IvtLen /\ F(inp, e.bd) % 4 = 0 /\ F(inp, e.bd) + BdLen <= e.fileLen
  /\ e.entry = inp.entry
  /\ IF inp.cfgKind = "dcd" THEN F(inp, e.dcd) >= IvtLen /\ F(inp, e.dcd) % 4 = 0 /\ F(inp, e.dcd) + 4 <= e.fileLen
                            ELSE IsZero(e.dcd)
  /\ IF inp.flags = "plain" THEN IsZero(e.csf)
                            ELSE F(inp, e.csf) >= IvtLen + BdLen /\ F(inp, e.csf) % 4 = 0 /\ F(inp, e.csf) + 4 <= e.fileLen
IvtNx(inp, s, e) == [s EXCEPT !.st = "Bd", !.ivt = e, !.fileLen = e.fileLen]

BdOK(inp, s, e) ==
  /\ s.st = "Bd"
  /\ e.at = F(inp, s.ivt.bd)                                                 \* read where the IVT points
  /\ e.start = inp.start /\ e.plugin = 0 /\ e.len > 0                        \* length is bounded at Accept, when the CSF is known
BdNx(inp, s, e) == [s EXCEPT !.st = IF inp.cfgKind = "none" THEN "App" ELSE "Cfg", !.bd = e]

DcdOK(inp, s, e) ==
  /\ s.st = "Cfg" /\ inp.cfgKind = "dcd"
  /\ e.at = F(inp, s.ivt.dcd) /\ e.len = inp.cfgLen /\ e.at + e.len <= s.fileLen                   \* D2 len 4x
  \* what lies at the pointer is a DCD: tag, HAB major version 4, length = header + the commands one behind the other (each a DCD
  \* command of a legal length); a pointer to bytes that are no DCD (e.g. fill bytes) is a rejection
  /\ DcdWellFormed(e.tag, e.len, e.ver, e.cmds)
  \* ... and it is the DCD that was given to the builder: its version byte (0x40 for HAB 4.0 parts, 0x41, ...), its commands, its bytes
  /\ e.ver = inp.cfgVer /\ e.cmds = inp.dcdCmds
  /\ e.match                                                                 \* bytes at the pointer = the DCD given to the builder
XmcdOK(inp, s, e) ==
  /\ s.st = "Cfg" /\ inp.cfgKind = "xmcd"
  /\ e.at = XmcdAt /\ e.tag = 12 /\ e.ver = 0 /\ e.size = inp.cfgLen /\ e.at + e.size <= s.fileLen     \* C0 .. .. size
  /\ e.size > XmcdHdr /\ e.size <= XmcdMax /\ e.iface \in {0, 1} /\ e.btype \in {0, 1} /\ e.inst \in 0..15
  /\ (inp.xmcdKind # "raw" =>                                                \* the header the ROM reads is the header of that kind
        LET k == XmcdKinds[inp.xmcdKind] IN e.size = k.size /\ e.iface = k.iface /\ e.btype = k.btype)
  /\ (e.match \/ Waived(inp, "xmcdMatch"))                                   \* bytes at IVT + 0x40 = the XMCD given to the builder
CfgNx(inp, s, e) == [s EXCEPT !.st = "App", !.cfg = {<<e.at, e.at + inp.cfgLen>>}, !.cfgEv = e]

AppOK(inp, s, e) ==
  /\ s.st = "App" /\ e.len = inp.appLen
  /\ IF inp.flags = "enc" THEN e.at = -1                                     \* the plaintext must not be in an encrypted image
                          ELSE e.at = AppAt(inp)                             \* found exactly at initial load size - IVT offset
AppNx(inp, s, e) == [s EXCEPT !.st = IF inp.flags = "plain" THEN "Tail" ELSE "Csf"]

(* ------------------------------------------------------------------ CSF *)
CsfOK(inp, s, e) ==
  /\ s.st = "Csf"
  /\ e.at = F(inp, s.ivt.csf) /\ e.tag = 212 /\ e.ver = inp.ver              \* D4 len 4x
  /\ e.len >= 4 /\ e.len % 4 = 0 /\ e.at + e.len <= s.fileLen
  /\ e.at >= AppAt(inp) + inp.appLen
CsfNx(inp, s, e) == [s EXCEPT !.st = "Cmds", !.csf = [at |-> e.at, len |-> e.len], !.cur = e.at + 4]

CmdAt(s, e, n) == s.st = "Cmds" /\ e.at = s.cur /\ e.len = n /\ e.at + n <= s.csf.at + s.csf.len
\* command data (SRK table, certificates, signatures, MAC) lives behind the commands, inside the file, nothing overlaps
DataRef(s, e, n) ==
  /\ n >= 4 /\ e.dat >= s.csf.len /\ e.dat % 4 = 0 /\ s.csf.at + e.dat + n <= s.fileLen
  /\ \A r \in s.refs : ~Meets(r, <<e.dat, e.dat + n>>)
Step(s, e, n) == [s EXCEPT !.cur = s.cur + e.len, !.nCmds = s.nCmds + 1, !.refs = s.refs \cup {<<e.dat, e.dat + n>>}]

SrkOK(inp, s, e) ==
  /\ CmdAt(s, e, 12) /\ e.ev = "InstallKey" /\ e.pcl = 3 /\ e.flg = 0 /\ e.tgt = 0
  /\ 0 \notin s.slots /\ ~s.csfOk
  /\ e.nKeys \in 1..4 /\ e.nKeys = inp.nSrk /\ e.src = inp.srcIdx /\ e.src < e.nKeys
  /\ e.tblTag = 215 /\ DataRef(s, e, e.tblLen)
  /\ e.fuseOk                                                                \* SHA-256 over the SHA-256 of every table entry = fuse value SPSDK reports
  /\ e.keyOk                                                                 \* selected entry = public key of the configured SRK certificate
SrkNx(inp, s, e) == [Step(s, e, e.tblLen) EXCEPT !.slots = {0}, !.srkCa = e.ca]

CertOK(s, e) == e.crtTag = 215 /\ DataRef(s, e, e.crtLen) /\ e.derLen + 4 <= e.crtLen /\ e.chainOk /\ e.certMatch
CsfkOK(inp, s, e) ==
  /\ CmdAt(s, e, 12) /\ e.ev = "InstallKey" /\ e.pcl = 9 /\ e.flg = 2 /\ e.src = 0 /\ e.tgt = 1
  /\ ~s.csfOk /\ 0 \in s.slots /\ 1 \notin s.slots /\ s.srkCa /\ ~inp.fast
  /\ CertOK(s, e)                                                            \* X.509 signature verifies under the installed SRK
CsfkNx(inp, s, e) == [Step(s, e, e.crtLen) EXCEPT !.slots = s.slots \cup {1}]

CmsOK(e) == e.sigTag = 216 /\ e.derLen + 4 <= e.sigLen /\ e.digAlg = "sha256" /\ e.attrsOk /\ e.sidOk /\ e.digestOk /\ e.sigOk
AuthCsfOK(inp, s, e) ==
  /\ CmdAt(s, e, 12) /\ e.ev = "Authenticate" /\ e.pcl = 197 /\ e.flg = 0 /\ Len(e.blocks) = 0
  /\ ~s.csfOk /\ 0 \in s.slots
  /\ IF 1 \in s.slots THEN e.key = 1 ELSE inp.fast /\ ~s.srkCa /\ e.key \in {0, 1}      \* fast authentication: the SRK itself
  /\ DataRef(s, e, e.sigLen) /\ CmsOK(e)
  /\ e.from = s.csf.at /\ e.to = s.csf.at + s.csf.len                       \* digest taken over exactly header + commands
AuthCsfNx(inp, s, e) == [Step(s, e, e.sigLen) EXCEPT !.csfOk = TRUE]

ImgkOK(inp, s, e) ==
  /\ CmdAt(s, e, 12) /\ e.ev = "InstallKey" /\ e.pcl = 9 /\ e.flg = 0
  /\ s.csfOk /\ e.src \in s.slots /\ e.src # 1 /\ e.tgt \in 2..5 /\ e.tgt \notin s.slots /\ e.tgt = inp.imgTgt
  /\ CertOK(s, e)
ImgkNx(inp, s, e) == [Step(s, e, e.crtLen) EXCEPT !.slots = s.slots \cup {e.tgt}]

BlockIv(inp, b) == <<F(inp, b.a), F(inp, b.a) + b.n>>
\* an empty block authenticates nothing (whether the ROM minds it is not asserted); the others must be distinct and disjoint
NonEmpty(e) == {i \in 1..Len(e.blocks) : e.blocks[i].n > 0}
Blocks(inp, e) == {BlockIv(inp, e.blocks[i]) : i \in NonEmpty(e)}
BlocksOK(inp, s, e) ==
  /\ Len(e.blocks) >= 1
  /\ \A i \in 1..Len(e.blocks) : e.blocks[i].n >= 0 /\ F(inp, e.blocks[i].a) >= 0 - inp.ivtOff
                                 /\ F(inp, e.blocks[i].a) + e.blocks[i].n <= s.csf.at
  /\ Cardinality(Blocks(inp, e)) = Cardinality(NonEmpty(e)) /\ Disj(Blocks(inp, e))
RECURSIVE SumN(_, _)
SumN(bs, i) == IF i > Len(bs) THEN 0 ELSE bs[i].n + SumN(bs, i + 1)

AuthDataOK(inp, s, e) ==
  /\ CmdAt(s, e, 12 + 8 * Len(e.blocks)) /\ e.ev = "Authenticate" /\ e.pcl = 197 /\ e.flg = 0
  /\ s.csfOk /\ e.key \in s.slots /\ e.key # 1 /\ (e.key = 0 => ~s.srkCa) /\ e.key = inp.vfyIdx
  /\ BlocksOK(inp, s, e) /\ e.dataLen = SumN(e.blocks, 1)
  /\ DataRef(s, e, e.sigLen) /\ CmsOK(e)                                     \* digest over the concatenation of exactly these blocks
AuthDataNx(inp, s, e) == [Step(s, e, e.sigLen) EXCEPT !.signed = s.signed \cup Blocks(inp, e)]

SecretOK(inp, s, e) ==
  /\ CmdAt(s, e, 12) /\ e.ev = "InstallKey" /\ e.pcl = 187 /\ e.flg = 1      \* BLOB protocol, absolute address
  /\ s.csfOk /\ inp.flags = "enc" /\ s.blob = -1 /\ e.src \in 0..3 /\ e.tgt \in 0..3 /\ e.tgt \notin s.secrets
  /\ F(inp, e.loc) # BIG
SecretNx(inp, s, e) == [s EXCEPT !.cur = s.cur + e.len, !.nCmds = s.nCmds + 1, !.secrets = s.secrets \cup {e.tgt}, !.blob = F(inp, e.loc)]

RECURSIVE Pow256(_)
Pow256(k) == IF k = 0 THEN 1 ELSE 256 * Pow256(k - 1)
\* length field of CCM has 15 - |nonce| bytes (IF, not \/: TLC explores both branches of a disjunction inside an action, and 256^4 overflows)
CcmFits(nonceLen, n) == IF 15 - nonceLen >= 4 THEN TRUE ELSE n < Pow256(15 - nonceLen)
DecryptOK(inp, s, e) ==
  /\ CmdAt(s, e, 12 + 8 * Len(e.blocks)) /\ e.ev = "Authenticate" /\ e.pcl = 163 /\ e.flg = 0
  /\ s.csfOk /\ inp.flags = "enc" /\ e.key \in s.secrets
  /\ BlocksOK(inp, s, e) /\ e.dataLen = SumN(e.blocks, 1)
  /\ e.macTag = 172 /\ e.nonceLen \in 7..13 /\ e.macBytes \in {4, 6, 8, 10, 12, 14, 16} /\ e.macBytes = inp.macLen
  /\ e.macLen = 8 + e.nonceLen + e.macBytes /\ DataRef(s, e, e.macLen) /\ CcmFits(e.nonceLen, e.dataLen)
  /\ e.dekLen = inp.dekLen /\ e.dekKept /\ e.nonceKept                       \* a DEK / nonce given in the configuration is the one used
  /\ e.macOk                                                                 \* AES-CCM tag over the listed blocks under DEK / nonce verifies
  /\ e.plainOk                                                               \* and the decryption is the application given to the builder
DecryptNx(inp, s, e) == [Step(s, e, e.macLen) EXCEPT !.macd = s.macd \cup Blocks(inp, e), !.secrets = s.secrets \ {e.key}]

OtherOK(inp, s, e) ==
  /\ CmdAt(s, e, e.len) /\ e.ev = "Cmd" /\ s.csfOk
  /\ e.tag \in {177, 178, 180, 192, 204, 207} /\ e.len >= 4 /\ e.len % 4 = 0   \* SET UNLK INIT NOP WRT_DAT CHK_DAT
OtherNx(inp, s, e) == [s EXCEPT !.cur = s.cur + e.len, !.nCmds = s.nCmds + 1]

EndOK(inp, s, e) == s.st = "Cmds" /\ e.at = s.cur /\ s.cur = s.csf.at + s.csf.len
EndNx(inp, s, e) == [s EXCEPT !.st = "Tail"]

(* ------------------------------------------------------------------ Accept: coverage + boot-data length *)
BdIv(s) == <<s.bd.at, s.bd.at + BdLen>>
Structures(inp, s) == {<<0, IvtLen>>, BdIv(s), AppIv(inp)} \cup s.cfg
Required(inp, s) == {<<0, IvtLen>>, BdIv(s), AppIv(inp)} \cup (IF Waived(inp, "cfgCoverage") THEN {} ELSE s.cfg)
CsfDataLen(s) == IF s.refs = {} THEN s.csf.len ELSE SetMax({r[2] : r \in s.refs})
NeedEnd(inp, s) ==
  IF inp.flags = "plain" THEN AppAt(inp) + inp.appLen
  ELSE IF inp.flags = "auth" THEN s.csf.at + CsfDataLen(s)
  ELSE Max(s.csf.at + CsfDataLen(s), s.blob + BlobHdr + BlobOvh + inp.dekLen)
AcceptOK(inp, s) ==
  /\ s.st = "Tail"
  /\ Cardinality(Structures(inp, s)) = 3 + Cardinality(s.cfg) /\ Disj(Structures(inp, s))    \* structures do not overlap
  /\ s.bd.len >= inp.ivtOff + NeedEnd(inp, s)                                                  \* everything the ROM needs is loaded
  /\ s.bd.len <= inp.ivtOff + s.fileLen + (IF inp.flags = "enc" THEN BlobSpan ELSE 0)          \* and nothing that does not exist
  /\ (inp.flags # "plain" =>
        /\ s.csfOk /\ 0 \in s.slots
        /\ \A r \in Required(inp, s) : Covered(r, s.signed \cup s.macd)                         \* the coverage clause
        /\ \A r \in Required(inp, s) \ {AppIv(inp)} : Covered(r, s.signed))
  /\ (inp.flags = "auth" => s.macd = {} /\ s.blob = -1)
  /\ (inp.flags = "enc" => /\ Covered(AppIv(inp), s.macd) /\ s.blob >= s.csf.at + CsfDataLen(s)
                           /\ \A r \in Structures(inp, s) : ~Meets(r, <<s.blob, s.blob + BlobHdr + BlobOvh + inp.dekLen>>))
AcceptNx(inp, s) == [s EXCEPT !.st = "Accepted"]

(* ------------------------------------------------------------------ round trip: what SPSDK's own parser recovers *)
FlagWord(f) == CASE f = "plain" -> 0 [] f = "auth" -> 8 [] OTHER -> 12
ParseBackOK(inp, s, e) ==
  /\ s.st = "Accepted" /\ e.ok
  /\ e.self = s.ivt.self /\ e.bd = s.ivt.bd /\ e.dcd = s.ivt.dcd /\ e.csf = s.ivt.csf /\ e.entry = s.ivt.entry
  /\ e.bdStart = s.bd.start /\ e.bdLen = s.bd.len /\ e.plugin = s.bd.plugin
  /\ e.flags = FlagWord(inp.flags)
  /\ e.hasDcd = (inp.cfgKind = "dcd") /\ e.hasXmcd = (inp.cfgKind = "xmcd") /\ e.hasCsf = (inp.flags # "plain")
  \* the DCD / XMCD segment the parser recovers sits where the ROM read it and has its size; an XMCD comes back as the same kind
  /\ IF inp.cfgKind = "none" THEN e.cfgAt = -1 /\ e.cfgLen = 0
                             ELSE \E r \in s.cfg : e.cfgAt = r[1] /\ e.cfgAt + e.cfgLen = r[2]
  \* a DCD comes back with the version and the number of commands the ROM read
  /\ (inp.cfgKind = "dcd" => e.dVer = s.cfgEv.ver /\ e.dN = Len(s.cfgEv.cmds))
  /\ (inp.cfgKind = "xmcd" => e.xSize = s.cfgEv.size /\ e.xIface = s.cfgEv.iface /\ e.xInst = s.cfgEv.inst /\ e.xType = s.cfgEv.btype)
  /\ e.appAt = AppAt(inp) /\ e.nCmds = s.nCmds /\ e.cStart = inp.start /\ e.cIvtOff = inp.ivtOff
  /\ e.ivtEq /\ e.bdEq /\ (e.cfgEq \/ Waived(inp, "xmcdMatch")) /\ e.appEq /\ e.csfEq /\ e.reexpEq
ParseBackNx(inp, s, e) == [s EXCEPT !.st = "Done"]
=============================================================================
