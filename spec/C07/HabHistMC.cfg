SPECIFICATION Spec
INVARIANT RefIsolated
INVARIANT OneProjectBlind
INVARIANT LeakRejected
INVARIANT GenShapesSuffice
CHECK_DEADLOCK FALSE
