----------------------------- MODULE HabHistMC -----------------------------
(* C07 - MC form of the history dimension (HabHist.tla).  Two projects with the same file names, two    *)
(* names, histories of up to three builds, the reference builder and builders with a memory.           *)
(* Lemmas:                                                                                           *)
(*   RefIsolated        - the reference builder and a memory keyed by the RESOLVED file produce, in every *)
(*                        history, exactly the image of the request alone; every image is accepted.      *)
(*   OneProjectBlind    - with a memory keyed by the unresolved NAME, every history of ONE build, and     *)
(*                        every history whose builds all come from one project, is accepted: exploring     *)
(*                        single builds (or several builds with one key set) cannot see the leak.         *)
(*   LeakRejected       - ... and in every history in which an image follows an image of ANOTHER project    *)
(*                        that used the same name first, that later image is rejected.                    *)
(*   GenShapesSuffice   - the shapes the generator emits (HabGen!HShapes: <<a, b>>, <<b, a, b>>, ... - two   *)
(*                        projects, same names) contain a rejected image for every such builder.           *)
EXTENDS HabHist, TLC

Projs == {"a", "b"}
Names == {"n1", "n2"}
MaxLen == 3
Reqs == {[proj |-> p, names |-> [k \in HKinds |-> n]] : p \in Projs, n \in Names}
Builders == {[m |-> "ref", k |-> "key"]} \cup [m : {"byResolved", "byName"}, k : HKinds]

VARIABLES bld, mem, hist
vars == <<bld, mem, hist>>
Init == bld \in Builders /\ mem = {} /\ hist = << >>
Build(q) == /\ Len(hist) < MaxLen
            /\ hist' = Append(hist, [q |-> q, img |-> HImage(bld, mem, q)])
            /\ mem' = HMemNx(bld, mem, q)
            /\ UNCHANGED bld
DoBuild == \E q \in Reqs : Build(q)
Next == DoBuild
Spec == Init /\ [][Next]_vars

OK(i) == HJudgedOK(hist[i].q, hist[i].img)
Idx == 1..Len(hist)
Name(i) == hist[i].q.names[bld.k]
First(j) == CHOOSE i \in Idx : Name(i) = Name(j) /\ \A i2 \in Idx : Name(i2) = Name(j) => i <= i2    \* first build that used the name of build j

RefIsolated == bld.m \in {"ref", "byResolved"} => \A i \in Idx : hist[i].img = HRefImage(hist[i].q) /\ OK(i)
OneProjectBlind == (bld.m = "byName" /\ \A i, j \in Idx : hist[i].q.proj = hist[j].q.proj) => \A i \in Idx : OK(i)
LeakRejected == bld.m = "byName" => \A j \in Idx : OK(j) = (hist[First(j)].q.proj = hist[j].q.proj)
\* shapes of the generator: all builds use the same names; the projects are <<a, b>>, <<b, a, b>>, <<a, a, b>>, <<a, b, a>>
IsGenShape == /\ Len(hist) \in {2, 3} /\ \A i, j \in Idx : Name(i) = Name(j)
              /\ [i \in Idx |-> hist[i].q.proj] \in {<<"a", "b">>, <<"b", "a", "b">>, <<"a", "a", "b">>, <<"a", "b", "a">>}
GenShapesSuffice == (bld.m = "byName" /\ IsGenShape) => \E i \in Idx : ~OK(i)
\* non-vacuity: the generator shapes are reached for every builder (checked as a property of the scope)
ASSUME ScopeOK == Cardinality(Builders) = 9 /\ Cardinality(Reqs) = 4
=============================================================================
