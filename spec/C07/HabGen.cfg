INIT Init
NEXT Next
INVARIANT DocumentedLayoutOK
INVARIANT Emit
CHECK_DEADLOCK FALSE
