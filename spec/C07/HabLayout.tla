----------------------------- MODULE HabLayout -----------------------------
(* C07 - layout algebra of a HAB4 boot image (i.MX RT10xx/11xx, i.MX6/7/8M).                       *)
(*                                                                                                 *)
(* All positions are FILE OFFSETS RELATIVE TO THE IVT (offset 0 = first byte of the IVT = first     *)
(* byte of what SPSDK exports).  The boot ROM copies `boot data length` bytes from the boot device  *)
(* to `boot data start`; the IVT sits at the device-specific offset ivtOff of the boot device, so   *)
(* the byte at file offset f lives at address  start + ivtOff + f.                                   *)
(*                                                                                                 *)
(* 32-bit addresses are pairs <<hi16, lo16>> (TLC integers are 32-bit signed).                      *)
EXTENDS Integers, Sequences, FiniteSets

BIG == 1073741824                                   \* "far away": pointer not near the image
Off(a, base) == IF a[1] - base[1] \in (0 - 8192)..8192 THEN (a[1] - base[1]) * 65536 + (a[2] - base[2]) ELSE BIG
IsZero(a) == a[1] = 0 /\ a[2] = 0
AddTo(base, n) == LET v == base[2] + n IN <<base[1] + v \div 65536, v % 65536>>      \* n >= -base[2]

(* ---- half-open intervals <<a, b>> = [a, b) *)
Disj(S) == \A x, y \in S : x = y \/ x[2] <= y[1] \/ y[2] <= x[1]
Meets(x, y) == x[1] < y[2] /\ y[1] < x[2]
Cuts(r, S) == {r[1]} \cup {p \in {s[1] : s \in S} \cup {s[2] : s \in S} : p > r[1] /\ p < r[2]}
Covered(r, S) == r[2] <= r[1] \/ \A p \in Cuts(r, S) : \E s \in S : s[1] <= p /\ p < s[2]
Align(n, a) == ((n + a - 1) \div a) * a
Max(a, b) == IF a >= b THEN a ELSE b
SetMax(S) == CHOOSE m \in S : \A x \in S : x <= m

(* ---- fixed sizes of the format *)
IvtLen == 32          \* D1 00 20 4x + 7 words
BdLen == 12           \* start, length, plugin
XmcdAt == 64          \* XMCD is found by the ROM at IVT + 0x40 (no pointer)
XmcdHdr == 4          \* XMCD header word: tag C | version 0 | interface | instance | block type | 12-bit block size (header included)
\* The XMCD blocks that exist for RT116x / RT117x (the only HAB devices with an XMCD): interface 0 = FlexSPI RAM, 1 = SEMC SDRAM;
\* block type 0 = simplified, 1 = full; size = whole block in bytes.  Golden blocks of every kind: anchors/C07/xmcd.
XmcdKinds == [ fsr_s0  |-> [iface |-> 0, btype |-> 0, size |-> 8],     \* FlexSPI RAM simplified, option size 0 (option word 0 only)
               fsr_s1  |-> [iface |-> 0, btype |-> 0, size |-> 12],    \* FlexSPI RAM simplified, option words 0 and 1
               sdram_s |-> [iface |-> 1, btype |-> 0, size |-> 13],    \* SEMC SDRAM simplified (9 bytes, not a multiple of 4)
               sdram_f |-> [iface |-> 1, btype |-> 1, size |-> 72],    \* SEMC SDRAM full
               fsr_f   |-> [iface |-> 0, btype |-> 1, size |-> 516] ]  \* FlexSPI RAM full: 512 bytes of configuration + header (the biggest)
XmcdKindNames == DOMAIN XmcdKinds
XmcdMax == 516        \* no XMCD block is bigger than the biggest kind ("raw" blocks of the generator stay within 8..XmcdMax)
\* The DCD (HAB4): header  D2 | length (big endian, header included) | version 4x  followed by commands  tag | length | parameter | ...
\* Shape of a DCD = the sequence of its commands as [tag, len] records (the empty sequence = the smallest legal DCD, D2 00 04 4x).
DcdHdr == 4
DcdW(n) == [tag |-> 204, len |-> 4 + 8 * n]          \* CC Write Data, n address / value pairs
DcdC(cnt) == [tag |-> 207, len |-> 12 + 4 * cnt]     \* CF Check Data: address, mask [, count]
DcdN == [tag |-> 192, len |-> 4]                     \* C0 NOP
DcdU(n) == [tag |-> 178, len |-> 4 + 4 * n]          \* B2 Unlock, n feature / UID words
RECURSIVE DcdSum(_, _)
DcdSum(cs, i) == IF i > Len(cs) THEN 0 ELSE cs[i].len + DcdSum(cs, i + 1)
DcdLen(cs) == DcdHdr + DcdSum(cs, 1)
DcdCmdOK(c) == /\ c.len >= 4 /\ c.len % 4 = 0
               /\ CASE c.tag = 204 -> c.len >= 12 /\ (c.len - 4) % 8 = 0
                    [] c.tag = 207 -> c.len \in {12, 16}
                    [] c.tag = 192 -> c.len = 4
                    [] c.tag = 178 -> TRUE
                    [] OTHER -> FALSE
\* what the ROM reads at the DCD pointer of the IVT: tag D2, a length that is the header + the commands one after the other, HAB major version 4
DcdWellFormed(tag, len, ver, cs) == /\ tag = 210 /\ ver \in 64..79 /\ len = DcdLen(cs)
                                    /\ \A i \in 1..Len(cs) : DcdCmdOK(cs[i])
BlobHdr == 8          \* DEK blob: 8-byte header + key + 48 bytes of wrapping overhead
BlobOvh == 48
BlobSpan == 512       \* space reserved behind the CSF for the DEK blob by CST

(* ---- inputs p: [ivtOff, ils, appLen, flags \in {"plain","auth","enc"}, cfgKind \in {"none","dcd","xmcd"}, cfgLen, dekLen, ...] *)
AppAt(p) == p.ils - p.ivtOff                        \* "initial load size" = distance image start -> application
AppIv(p) == <<AppAt(p), AppAt(p) + p.appLen>>

(* ---- the documented construction (CST / elftosb): used by the MC form to build abstract images *)
CsfSpan == 8192
CsfAlign(n) == Align(n + (16 - (n % 16)), 4096)       \* CSF on the next 4 KiB boundary strictly behind the 16-byte padded image
Layout(p) ==
  LET csf == IF p.flags = "plain" THEN -1 ELSE CsfAlign(p.ils + p.appLen) - p.ivtOff
      appEnd == AppAt(p) + (IF p.flags = "plain" THEN p.appLen ELSE Align(p.appLen, 16))
      fileLen == IF p.flags = "plain" THEN appEnd ELSE csf + CsfSpan
  IN [ivt |-> 0, bd |-> IvtLen, cfg |-> IF p.cfgKind = "none" THEN -1 ELSE 64, app |-> AppAt(p), appEnd |-> appEnd,
      csf |-> csf, fileLen |-> fileLen,
      blob |-> IF p.flags = "enc" THEN csf + CsfSpan ELSE -1,
      bdLen |-> p.ivtOff + fileLen + (IF p.flags = "enc" THEN BlobSpan ELSE 0)]

(* ---- what the ROM needs of a layout L (R-clauses; AcceptOK of HabRom.tla states the same over observed numbers) *)
LayoutOK(p, L, csfDataLen) ==
  /\ L.ivt = 0
  /\ L.bd >= IvtLen /\ L.bd % 4 = 0
  /\ L.app = AppAt(p) /\ L.bd + BdLen <= L.app
  /\ (p.cfgKind # "none" => L.cfg >= L.bd + BdLen /\ L.cfg + p.cfgLen <= L.app)
  /\ (p.cfgKind = "xmcd" => L.cfg = XmcdAt /\ p.cfgLen > XmcdHdr /\ p.cfgLen <= XmcdMax)
  /\ (p.flags # "plain" => L.csf >= L.app + p.appLen /\ L.csf % 4 = 0 /\ L.csf + csfDataLen <= L.fileLen)
  /\ (p.flags = "enc" => L.blob >= L.csf + csfDataLen)
  /\ L.bdLen >= p.ivtOff + (IF p.flags = "plain" THEN L.app + p.appLen
                            ELSE IF p.flags = "auth" THEN L.csf + csfDataLen
                            ELSE Max(L.csf + csfDataLen, L.blob + BlobHdr + BlobOvh + p.dekLen))
  /\ L.bdLen <= p.ivtOff + L.fileLen + (IF p.flags = "enc" THEN BlobSpan ELSE 0)
=============================================================================
