------------------------------ MODULE HabRomMC ------------------------------
(* C07 - MC form.  An abstract image is built from a shape by the documented layout (HabLayout!Layout *)
(* + the canonical CSF of CST), optionally one region is tampered with (t) or the builder is one of  *)
(* the design mutants (m); the ROM of HabRom.tla walks the resulting event list.  Crypto facts are   *)
(* abstract: a check fails exactly when the tampered region meets the bytes it authenticates         *)
(* (structure is left intact - the strongest adversary, so coverage alone must force the reject).    *)
(* Lemmas: every untampered shape is accepted and parses back; every tamper of an authenticated      *)
(* region is rejected; padding is don't-care; every design mutant is rejected; key discipline.       *)
(* The XMCD kind (HabLayout!XmcdKinds + "raw") is a dimension of the shapes; a third kind of deviation  *)
(* are the PARSE mutants (pm): the image is right, but SPSDK's own parser loses / shortens / mislabels  *)
(* the DCD / XMCD segment - the ROM accepts such an image, the round-trip clause must not (ParseMutantRejected). *)
(* The SHAPE OF THE SUPPLIED DCD (header only / one command / a command of every kind) and its header version  *)
(* (0x40 / 0x41 / 0x43) are dimensions of the shapes, with the design mutants dcdVerForced / dcdDroppedPtrKept   *)
(* and the parse mutants dcdVerLost / dcdCmdsLost.                                                             *)
EXTENDS HabRom, TLC, IOUtils

Full == IF "MC_FULL" \in DOMAIN IOEnv THEN IOEnv.MC_FULL = "1" ELSE FALSE

Lays == {[ivtOff |-> 0, ils |-> 1024], [ivtOff |-> 4096, ils |-> 8192], [ivtOff |-> 1024, ils |-> 4096], [ivtOff |-> 0, ils |-> 8192]}
\* application sizes: (ils + appLen) mod 4096 around the 4 KiB boundary, and the 16-byte boundary
Residues == IF Full THEN {4079, 4080, 4081, 4095, 0, 1, 15, 16, 17, 2048} ELSE {4080, 0}
AppLens == {4096 + r : r \in Residues} \cup (IF Full THEN {r : r \in Residues \ {0, 1, 15, 16, 17}} ELSE {})
Start == <<8192, 7168>>                              \* 0x20001C00

Shapes ==
  { sh \in [lay : Lays, appLen : AppLens, flags : {"plain", "auth", "enc"}, cfgKind : {"none", "dcd", "xmcd"},
            xk : XmcdKindNames \cup {"raw", "none"},
            dk : {"none", "hdr", "one", "many"}, dv : {0, 64, 65, 67},      \* shape and header version of the supplied DCD
            fast : BOOLEAN, extra : {0, 1}, imgTgt : (IF Full THEN 2..5 ELSE {2, 5})] :
      /\ (sh.xk = "none") = (sh.cfgKind # "xmcd")
      /\ (sh.dk = "none") = (sh.cfgKind # "dcd") /\ (sh.dv = 0) = (sh.cfgKind # "dcd")
      \* the DCD shapes / versions other than (several commands, 0x41): not fast, one application size; quick: on one layout
      /\ (sh.cfgKind = "dcd" /\ (sh.dk # "many" \/ sh.dv # 65) =>
            ~sh.fast /\ sh.imgTgt = 2 /\ sh.appLen = 4096 /\ (~Full => sh.lay.ivtOff = 4096))
      /\ (~Full /\ sh.xk \in XmcdKindNames => sh.lay.ivtOff = 4096 /\ ~sh.fast /\ sh.appLen = 4096)    \* quick: the real kinds on one layout
      /\ (sh.flags = "plain" => ~sh.fast /\ sh.extra = 0 /\ sh.imgTgt = 2)
      /\ (~Full /\ sh.flags # "plain" => sh.extra = 1)
      /\ (sh.fast => sh.imgTgt = 2)
      /\ (sh.cfgKind = "xmcd" => sh.lay.ils - sh.lay.ivtOff >= 3072) }

\* header only = the smallest legal DCD (D2 00 04 4x); one Write Data command; a command of every kind
DcdCmdsMC(dk) == CASE dk = "one" -> << DcdW(1) >> [] dk = "many" -> << DcdW(2), DcdC(0), DcdN, DcdU(1) >> [] OTHER -> << >>
CfgLen(sh) == CASE sh.cfgKind = "none" -> 0 [] sh.cfgKind = "dcd" -> DcdLen(DcdCmdsMC(sh.dk)) [] sh.xk = "raw" -> 16 [] OTHER -> XmcdKinds[sh.xk].size
XIface(sh) == IF sh.xk \in XmcdKindNames THEN XmcdKinds[sh.xk].iface ELSE 0
XType(sh) == IF sh.xk \in XmcdKindNames THEN XmcdKinds[sh.xk].btype ELSE 0
Inp(sh) == [start |-> Start, ivtOff |-> sh.lay.ivtOff, ils |-> sh.lay.ils, appLen |-> sh.appLen, flags |-> sh.flags,
            cfgKind |-> sh.cfgKind, cfgLen |-> CfgLen(sh), entry |-> AddTo(Start, sh.lay.ils + 257), ver |-> 66,
            nSrk |-> 4, srcIdx |-> 1, fast |-> sh.fast, imgTgt |-> sh.imgTgt, vfyIdx |-> IF sh.fast THEN 0 ELSE sh.imgTgt,
            macLen |-> 16, dekLen |-> 32, waive |-> << >>, xmcdKind |-> sh.xk, cfgVer |-> sh.dv, dcdCmds |-> DcdCmdsMC(sh.dk)]

Tampers == {"none", "pad", "ivt", "bd", "cfg", "app", "csfcmds", "srktable", "csfkcert", "csfsig", "imgkcert", "datasig", "mac"}
Mutants == {"none", "noCfgBlock", "noIvtOffInBlocks", "dataBeforeCsfAuth", "noCsfk", "imgkBySlot1", "shortBootLen",
            "csfAtAppEnd", "appBlockShort", "macNotOverApp", "selfWithoutIvtOff",
            "dcdVerForced",          \* the builder re-emits the DCD with header version 0x41 whatever version it was given with
            "dcdDroppedPtrKept"}     \* the builder leaves the DCD out (fill bytes at IVT + 0x40, no block for it) but the IVT still points there
DcdMutants == {"dcdVerForced", "dcdDroppedPtrKept"}
ParseMutants == {"none", "dropCfg", "cfgShort", "cfgMoved", "xmcdOtherType", "xmcdOtherIface",
                 "dcdVerLost", "dcdCmdsLost"}      \* the parser returns a DCD of version 0x41 / without commands
Applicable(sh, t, m, pm) ==
  /\ (t # "none" => m = "none")
  /\ (pm # "none" => t = "none" /\ m = "none" /\ sh.cfgKind # "none")
  /\ (pm \in {"xmcdOtherType", "xmcdOtherIface"} => sh.cfgKind = "xmcd")
  \* the real XMCD kinds meet only the deviations that concern the XMCD (the others are explored with the raw block)
  /\ (sh.xk \in XmcdKindNames => t \in {"none", "cfg"} /\ m \in {"none", "noCfgBlock"} /\ sh.imgTgt = 2)
  /\ (sh.flags = "plain" => t \in {"none", "app"} /\ m \in {"none", "shortBootLen", "selfWithoutIvtOff"} \cup DcdMutants)
  /\ (m \in DcdMutants \/ pm \in {"dcdVerLost", "dcdCmdsLost"} => sh.cfgKind = "dcd")
  /\ (m = "dcdVerForced" \/ pm = "dcdVerLost" => sh.dv # 65) /\ (pm = "dcdCmdsLost" => sh.dk # "hdr")
  \* the other DCD shapes / versions meet only the deviations that concern the DCD
  /\ (sh.cfgKind = "dcd" /\ (sh.dk # "many" \/ sh.dv # 65) => t \in {"none", "cfg"} /\ m \in {"none", "noCfgBlock"} \cup DcdMutants)
  /\ (t = "cfg" \/ m = "noCfgBlock" => sh.cfgKind # "none")
  /\ (t \in {"csfkcert", "imgkcert"} \/ m \in {"noCsfk", "imgkBySlot1"} => ~sh.fast)
  /\ (t = "mac" \/ m = "macNotOverApp" => sh.flags = "enc")
  /\ (m = "appBlockShort" => sh.flags = "auth")
  /\ (m \in {"noIvtOffInBlocks", "selfWithoutIvtOff"} => sh.lay.ivtOff > 0)

(* ---- the abstract image: event list of shape sh under tamper t / mutant m *)
A(sh, f) == AddTo(Start, sh.lay.ivtOff + f)
Blk(sh, f, n, m) == [a |-> IF m = "noIvtOffInBlocks" THEN AddTo(Start, f) ELSE A(sh, f), n |-> n]
Events(sh, t, m, pm) ==
  LET p == Inp(sh)
      L == Layout(p)
      plain == sh.flags = "plain"   enc == sh.flags = "enc"
      nExtra == sh.extra
      \* CSF: header 4, SRK 12, [CSFK 12], AuthCsf 12, [IMGK 12], AuthData 12 + 8 nb, [Secret 12, Decrypt 20], extra 8 each
      noDcd == m = "dcdDroppedPtrKept"
      cfgBlk == IF sh.cfgKind = "none" \/ m = "noCfgBlock" \/ noDcd THEN << >> ELSE << Blk(sh, 64, CfgLen(sh), m) >>
      appBlk == IF enc THEN << >> ELSE << Blk(sh, L.app, IF m = "appBlockShort" THEN Align(p.appLen, 16) - 16 ELSE Align(p.appLen, 16), m) >>
      dblocks == << Blk(sh, 0, 64, m) >> \o cfgBlk \o appBlk
      eblocks == << Blk(sh, IF m = "macNotOverApp" THEN L.app + 16 ELSE L.app, IF m = "macNotOverApp" THEN Align(p.appLen, 16) - 16 ELSE Align(p.appLen, 16), "none") >>
      hasCsfk == ~sh.fast /\ m # "noCsfk"
      nIns == (IF hasCsfk THEN 1 ELSE 0) + (IF sh.fast THEN 0 ELSE 1)
      csfLen == 4 + 12 + 12 * nIns + 12 + (12 + 8 * Len(dblocks)) + (IF enc THEN 12 + 20 ELSE 0) + 8 * nExtra
      csfAt == IF m = "csfAtAppEnd" THEN L.app + p.appLen - 4 ELSE L.csf
      \* command data behind the commands
      tblAt == csfLen            tblLen == 1096
      ckAt == tblAt + tblLen     ckLen == IF hasCsfk THEN 840 ELSE 0
      csAt == ckAt + ckLen       csLen == 420
      ikAt == csAt + csLen       ikLen == IF sh.fast THEN 0 ELSE 840
      dsAt == ikAt + ikLen       dsLen == 420
      mcAt == dsAt + dsLen       mcLen == IF enc THEN 8 + 13 + 16 ELSE 0
      \* which bytes did the tamper hit?  (file regions; "structure intact")
      hitSigned == t \in {"ivt", "bd"} \/ (t = "cfg" /\ m # "noCfgBlock") \/ (t = "app" /\ ~enc)
      ivt == [ev |-> "ParseIvt", tag |-> 209, len |-> 32, ver |-> 64, entry |-> p.entry,
              dcd |-> IF sh.cfgKind = "dcd" THEN A(sh, 64) ELSE <<0, 0>>, bd |-> A(sh, 32),
              self |-> IF m = "selfWithoutIvtOff" THEN Start ELSE A(sh, 0),
              csf |-> IF plain THEN <<0, 0>> ELSE A(sh, csfAt), fileLen |-> L.fileLen]
      bd == [ev |-> "BootData", at |-> 32, start |-> Start, plugin |-> 0,
             len |-> IF m = "shortBootLen" THEN (IF plain THEN p.ivtOff + L.app + p.appLen - 4 ELSE p.ivtOff + csfAt) ELSE L.bdLen]
      \* the DCD mutants change the NUMBERS the ROM reads; the byte comparison stays TRUE (strongest adversary)
      cfg == IF sh.cfgKind = "dcd" THEN << [ev |-> "Dcd", at |-> 64, tag |-> IF noDcd THEN 0 ELSE 210, len |-> IF noDcd THEN 0 ELSE CfgLen(sh),
                                            ver |-> IF noDcd THEN 0 ELSE IF m = "dcdVerForced" THEN 65 ELSE sh.dv,
                                            cmds |-> IF noDcd THEN << >> ELSE DcdCmdsMC(sh.dk), match |-> t # "cfg"] >>
             ELSE IF sh.cfgKind = "xmcd" THEN << [ev |-> "Xmcd", at |-> 64, tag |-> 12, ver |-> 0, size |-> CfgLen(sh), iface |-> XIface(sh),
                                                   inst |-> 0, btype |-> XType(sh), match |-> t # "cfg"] >>
             ELSE << >>
      app == [ev |-> "App", at |-> IF enc \/ t = "app" THEN -1 ELSE L.app, len |-> p.appLen, padOk |-> TRUE]
      hdr == [ev |-> "CsfHeader", at |-> csfAt, tag |-> 212, len |-> csfLen, ver |-> 66]
      srk == [ev |-> "InstallKey", len |-> 12, pcl |-> 3, flg |-> 0, src |-> 1, tgt |-> 0, dat |-> tblAt, nKeys |-> 4,
              tblTag |-> 215, tblLen |-> tblLen, fuseOk |-> t # "srktable", keyOk |-> t # "srktable", ca |-> ~sh.fast]
      csfk == [ev |-> "InstallKey", len |-> 12, pcl |-> 9, flg |-> 2, src |-> 0, tgt |-> 1, dat |-> ckAt, crtTag |-> 215,
               crtLen |-> ckLen, derLen |-> ckLen - 4, chainOk |-> t # "csfkcert", certMatch |-> t # "csfkcert"]
      cms(dat, n, ok) == [dat |-> dat, sigTag |-> 216, sigLen |-> n, derLen |-> n - 6, digAlg |-> "sha256", attrsOk |-> TRUE,
                          sidOk |-> TRUE, digestOk |-> ok, sigOk |-> TRUE]
      acsf == [ev |-> "Authenticate", len |-> 12, pcl |-> 197, flg |-> 0, key |-> IF sh.fast THEN 0 ELSE 1, blocks |-> << >>,
               from |-> csfAt, to |-> csfAt + csfLen] @@ cms(csAt, csLen, t # "csfcmds")
      acsf2 == IF t = "csfsig" THEN [acsf EXCEPT !.sigOk = FALSE] ELSE acsf
      imgk == [ev |-> "InstallKey", len |-> 12, pcl |-> 9, flg |-> 0, src |-> IF m = "imgkBySlot1" THEN 1 ELSE 0, tgt |-> sh.imgTgt,
               dat |-> ikAt, crtTag |-> 215, crtLen |-> ikLen, derLen |-> ikLen - 4, chainOk |-> t # "imgkcert", certMatch |-> t # "imgkcert"]
      adat == [ev |-> "Authenticate", len |-> 12 + 8 * Len(dblocks), pcl |-> 197, flg |-> 0, key |-> p.vfyIdx, blocks |-> dblocks,
               dataLen |-> SumN(dblocks, 1)] @@ cms(dsAt, dsLen, ~hitSigned /\ m # "noIvtOffInBlocks")
      adat2 == IF t = "datasig" THEN [adat EXCEPT !.sigOk = FALSE] ELSE adat
      sec == [ev |-> "InstallKey", len |-> 12, pcl |-> 187, flg |-> 1, src |-> 0, tgt |-> 0, loc |-> A(sh, csfAt + CsfSpan)]
      dec == [ev |-> "Authenticate", len |-> 20, pcl |-> 163, flg |-> 0, key |-> 0, blocks |-> eblocks, dataLen |-> SumN(eblocks, 1),
              dat |-> mcAt, macTag |-> 172, macLen |-> mcLen, nonceLen |-> 13, macBytes |-> 16, dekLen |-> 32,
              macOk |-> ~(t \in {"mac", "app"}), plainOk |-> t # "app", dekKept |-> TRUE, nonceKept |-> TRUE]
      ext == [ev |-> "Cmd", tag |-> 178, len |-> 8, par |-> 0]
      core == << srk >> \o (IF hasCsfk THEN << csfk >> ELSE << >>)
      auth1 == IF m = "dataBeforeCsfAuth"
               THEN (IF sh.fast THEN << >> ELSE << imgk >>) \o << adat2, acsf2 >>
               ELSE << acsf2 >> \o (IF sh.fast THEN << >> ELSE << imgk >>) \o << adat2 >>
      cmds0 == core \o auth1 \o (IF enc THEN << sec, dec >> ELSE << >>) \o (IF nExtra = 1 THEN << ext >> ELSE << >>)
      \* place the commands one after the other
      RECURSIVE Place(_, _, _)
      Place(cs, i, at) == IF i > Len(cs) THEN << >> ELSE << cs[i] @@ [at |-> at] >> \o Place(cs, i + 1, at + cs[i].len)
      cmds == Place(cmds0, 1, csfAt + 4)
      endev == [ev |-> "CsfEnd", at |-> csfAt + csfLen]
      pb == [ev |-> "ParseBack", ok |-> TRUE, self |-> ivt.self, bd |-> ivt.bd, dcd |-> ivt.dcd, csf |-> ivt.csf, entry |-> ivt.entry,
             bdStart |-> bd.start, bdLen |-> bd.len, plugin |-> 0, flags |-> FlagWord(sh.flags),
             hasDcd |-> sh.cfgKind = "dcd" /\ pm # "dropCfg", hasXmcd |-> sh.cfgKind = "xmcd" /\ pm # "dropCfg", hasCsf |-> ~plain,
             \* parse mutants change the NUMBERS only; the byte comparisons stay TRUE (strongest adversary: the structure clauses must reject)
             cfgAt |-> IF sh.cfgKind = "none" \/ pm = "dropCfg" THEN -1 ELSE IF pm = "cfgMoved" THEN 68 ELSE 64,
             cfgLen |-> IF sh.cfgKind = "none" \/ pm = "dropCfg" THEN 0 ELSE IF pm = "cfgShort" THEN CfgLen(sh) - 4 ELSE CfgLen(sh),
             xSize |-> IF sh.cfgKind # "xmcd" \/ pm = "dropCfg" THEN -1 ELSE IF pm = "cfgShort" THEN CfgLen(sh) - 4 ELSE CfgLen(sh),
             xIface |-> IF sh.cfgKind # "xmcd" \/ pm = "dropCfg" THEN -1 ELSE IF pm = "xmcdOtherIface" THEN 1 - XIface(sh) ELSE XIface(sh),
             xInst |-> IF sh.cfgKind # "xmcd" \/ pm = "dropCfg" THEN -1 ELSE 0,
             xType |-> IF sh.cfgKind # "xmcd" \/ pm = "dropCfg" THEN -1 ELSE IF pm = "xmcdOtherType" THEN 1 - XType(sh) ELSE XType(sh),
             dVer |-> IF sh.cfgKind # "dcd" \/ pm = "dropCfg" THEN -1 ELSE IF pm = "dcdVerLost" THEN 65 ELSE sh.dv,
             dN |-> IF sh.cfgKind # "dcd" \/ pm = "dropCfg" THEN -1 ELSE IF pm = "dcdCmdsLost" THEN 0 ELSE Len(DcdCmdsMC(sh.dk)),
             appAt |-> L.app, cStart |-> Start, cIvtOff |-> p.ivtOff,
             nCmds |-> IF plain THEN 0 ELSE Len(cmds0), ivtEq |-> TRUE, bdEq |-> TRUE, cfgEq |-> TRUE, appEq |-> TRUE, csfEq |-> TRUE, reexpEq |-> TRUE]
  IN << ivt, bd >> \o cfg \o << app >> \o (IF plain THEN << >> ELSE << hdr >> \o cmds \o << endev >>)
     \o << [ev |-> "Accept"], pb >>

\* all abstract images of the scope, built once (constant-level definition)
Cases == {c \in Shapes \X Tampers \X Mutants \X ParseMutants : Applicable(c[1], c[2], c[3], c[4])}

VARIABLES sh, t, m, pm, i, s, evs
vars == <<sh, t, m, pm, i, s, evs>>
E == evs[i]
inp == Inp(sh)
Init == \E c \in Cases : sh = c[1] /\ t = c[2] /\ m = c[3] /\ pm = c[4] /\ i = 1 /\ s = S0 /\ evs = Events(c[1], c[2], c[3], c[4])
Has(name) == i <= Len(evs) /\ E.ev = name
Adv == i' = i + 1 /\ UNCHANGED <<sh, t, m, pm, evs>>
DoParseIvt == Has("ParseIvt") /\ IvtOK(inp, s, E) /\ s' = IvtNx(inp, s, E) /\ Adv
DoBootData == Has("BootData") /\ BdOK(inp, s, E) /\ s' = BdNx(inp, s, E) /\ Adv
DoDcd == Has("Dcd") /\ DcdOK(inp, s, E) /\ s' = CfgNx(inp, s, E) /\ Adv
DoXmcd == Has("Xmcd") /\ XmcdOK(inp, s, E) /\ s' = CfgNx(inp, s, E) /\ Adv
DoApp == Has("App") /\ AppOK(inp, s, E) /\ s' = AppNx(inp, s, E) /\ Adv
DoCsfHeader == Has("CsfHeader") /\ CsfOK(inp, s, E) /\ s' = CsfNx(inp, s, E) /\ Adv
DoInstallSrk == Has("InstallKey") /\ SrkOK(inp, s, E) /\ s' = SrkNx(inp, s, E) /\ Adv
DoInstallCsfk == Has("InstallKey") /\ CsfkOK(inp, s, E) /\ s' = CsfkNx(inp, s, E) /\ Adv
DoAuthenticateCsf == Has("Authenticate") /\ AuthCsfOK(inp, s, E) /\ s' = AuthCsfNx(inp, s, E) /\ Adv
DoInstallImgk == Has("InstallKey") /\ ImgkOK(inp, s, E) /\ s' = ImgkNx(inp, s, E) /\ Adv
DoAuthenticateData == Has("Authenticate") /\ AuthDataOK(inp, s, E) /\ s' = AuthDataNx(inp, s, E) /\ Adv
DoInstallSecretKey == Has("InstallKey") /\ SecretOK(inp, s, E) /\ s' = SecretNx(inp, s, E) /\ Adv
DoDecryptData == Has("Authenticate") /\ DecryptOK(inp, s, E) /\ s' = DecryptNx(inp, s, E) /\ Adv
DoOtherCmd == Has("Cmd") /\ OtherOK(inp, s, E) /\ s' = OtherNx(inp, s, E) /\ Adv
DoCsfEnd == Has("CsfEnd") /\ EndOK(inp, s, E) /\ s' = EndNx(inp, s, E) /\ Adv
DoAccept == Has("Accept") /\ AcceptOK(inp, s) /\ s' = AcceptNx(inp, s) /\ Adv
DoParseBack == Has("ParseBack") /\ ParseBackOK(inp, s, E) /\ s' = ParseBackNx(inp, s, E) /\ Adv
Next == DoParseIvt \/ DoBootData \/ DoDcd \/ DoXmcd \/ DoApp \/ DoCsfHeader \/ DoInstallSrk \/ DoInstallCsfk
        \/ DoAuthenticateCsf \/ DoInstallImgk \/ DoAuthenticateData \/ DoInstallSecretKey \/ DoDecryptData \/ DoOtherCmd
        \/ DoCsfEnd \/ DoAccept \/ DoParseBack
Spec == Init /\ [][Next]_vars

\* the guard of the step that would consume the next event (no primes: usable inside invariants)
CanStep ==
  /\ i <= Len(evs)
  /\ \/ E.ev = "ParseIvt" /\ IvtOK(inp, s, E)
     \/ E.ev = "BootData" /\ BdOK(inp, s, E)
     \/ E.ev = "Dcd" /\ DcdOK(inp, s, E)
     \/ E.ev = "Xmcd" /\ XmcdOK(inp, s, E)
     \/ E.ev = "App" /\ AppOK(inp, s, E)
     \/ E.ev = "CsfHeader" /\ CsfOK(inp, s, E)
     \/ E.ev = "InstallKey" /\ (SrkOK(inp, s, E) \/ CsfkOK(inp, s, E) \/ ImgkOK(inp, s, E) \/ SecretOK(inp, s, E))
     \/ E.ev = "Authenticate" /\ (AuthCsfOK(inp, s, E) \/ AuthDataOK(inp, s, E) \/ DecryptOK(inp, s, E))
     \/ E.ev = "Cmd" /\ OtherOK(inp, s, E)
     \/ E.ev = "CsfEnd" /\ EndOK(inp, s, E)
     \/ E.ev = "Accept" /\ AcceptOK(inp, s)
     \/ E.ev = "ParseBack" /\ ParseBackOK(inp, s, E)

(* ---- lemmas *)
Finished == i > Len(evs)
UntamperedAccepted == (t = "none" /\ m = "none" /\ pm = "none") => IF Finished THEN s.st = "Done" ELSE CanStep
\* the ROM accepts the image of a parse mutant (the image is right), the round-trip clause does not
ParseMutantRejected == (pm # "none") => /\ s.st # "Done"
                                        /\ IF i < Len(evs) THEN CanStep ELSE i = Len(evs) /\ s.st = "Accepted" /\ ~CanStep
\* every XMCD kind is accepted under every flag that can carry it, and parses back (non-vacuity of the kind dimension)
ASSUME XmcdKindsReached == \A k \in XmcdKindNames \cup {"raw"}, f \in {"plain", "auth", "enc"} :
                      \E c \in Cases : c[1].xk = k /\ c[1].flags = f /\ c[2] = "none" /\ c[3] = "none" /\ c[4] = "none"
\* every shape of the supplied DCD (header only / one command / every kind) x header version is accepted under every flag and parses
\* back; the builder that forces the version / drops the DCD but keeps the pointer is in scope for the HAB 4.0 header-only DCD
ASSUME DcdShapesReached ==
  /\ \A k \in {"hdr", "one", "many"}, ver \in {64, 65, 67}, f \in {"plain", "auth", "enc"} :
        \E c \in Cases : c[1].dk = k /\ c[1].dv = ver /\ c[1].flags = f /\ c[2] = "none" /\ c[3] = "none" /\ c[4] = "none"
  /\ \A mm \in DcdMutants, f \in {"plain", "auth", "enc"} : \E c \in Cases : c[1].dk = "hdr" /\ c[1].dv = 64 /\ c[1].flags = f /\ c[3] = mm
  /\ \A f \in {"plain", "auth", "enc"} : \E c \in Cases : c[1].dv = 64 /\ c[1].flags = f /\ c[4] = "dcdVerLost"
PadDontCare == (t = "pad") => IF Finished THEN s.st = "Done" ELSE CanStep
TamperRejected == (t \notin {"none", "pad"}) => s.st \notin {"Accepted", "Done"}
MutantRejected == (m # "none") => s.st \notin {"Accepted", "Done"}
DocumentedLayoutOK == LayoutOK(inp, Layout(inp), 4096)
KeyDiscipline ==
  /\ (1 \in s.slots => 0 \in s.slots /\ s.srkCa)
  /\ (s.csfOk => 0 \in s.slots)
  /\ (s.slots \cap (2..5) # {} => s.csfOk)
  /\ (s.signed # {} \/ s.macd # {} \/ s.secrets # {} => s.csfOk)
RegionsCovered ==
  (s.st \in {"Accepted", "Done"} /\ sh.flags # "plain") =>
     /\ \A r \in Required(inp, s) : Covered(r, s.signed \cup s.macd)
     /\ (sh.flags = "enc" => ~Covered(AppIv(inp), s.signed) /\ Covered(AppIv(inp), s.macd))
     /\ s.bd.len >= inp.ivtOff + s.csf.at + CsfDataLen(s)
=============================================================================
