------------------------------- MODULE HabGen -------------------------------
(* C07 - GEN form: TLC enumerates the abstract cases that are built through SPSDK.                 *)
(* Primary dimensions (full product): layout class x application size (pages, residue of            *)
(* (initial load size + length) mod 4 KiB around the boundary) x flags x none/DCD x repetition, and   *)
(* for the XMCD:  layout class x flags x XMCD KIND (every kind of HabLayout!XmcdKinds + "raw") x     *)
(* source of the block (golden block of NXP / built by SPSDK's XMCD class from its template / header  *)
(* of the kind + arbitrary configuration bytes) - there the application size is a secondary dimension. *)
(* The SHAPE OF THE SUPPLIED DCD is a primary dimension too: every shape (header only / one command /  *)
(* several Write Data / several Check Data / NOP + Unlock / every kind) x header version (0x40 / 0x41 /  *)
(* another 4.x) x flags, in every tier.                                                                *)
(* Secondary dimensions (key tree, number of SRKs, source index, key-path variant, MAC / DEK length, *)
(* nonce / DEK given or generated, extra commands, CSF version, IMGK slot, entry point given,        *)
(* family + boot device instead of explicit offsets, start address) are spread over the primary     *)
(* cases by index arithmetic with pairwise coprime strides, shifted by GEN_SEED.                     *)
(* Each case is checked against the documented layout (LayoutOK(Layout)) before it is emitted.       *)
EXTENDS HabLayout, TLC, Json, IOUtils, SequencesExt

Env(n, d) == IF n \in DOMAIN IOEnv THEN atoi(IOEnv[n]) ELSE d
Full == Env("GEN_FULL", 0) = 1
Seed == Env("GEN_SEED", 0)
Reps == Env("GEN_REPS", 1)

Lays == << [n |-> "sd0", ivtOff |-> 0, ils |-> 1024], [n |-> "nor", ivtOff |-> 4096, ils |-> 8192],
           [n |-> "nand", ivtOff |-> 1024, ils |-> 4096], [n |-> "ram", ivtOff |-> 0, ils |-> 8192] >>
Residues == IF Full THEN {4079, 4080, 4081, 4094, 4095, 0, 1, 2, 15, 16, 17, 31, 32, 33, 100, 2048, 3000}
                    ELSE {4080, 4081, 4095, 0, 1, 16, 2048}
Pages == IF Full THEN 0..3 ELSE 0..1
CfgLens == [dcd |-> <<12, 44, 124, 332>>, xmcd |-> <<8, 13, 16, 260, 512, XmcdMax>>]     \* xmcd: lengths of "raw" blocks
Flags == {"plain", "auth", "enc"}
ResSeq == SetToSeq(Residues)
MaxPage == IF Full THEN 3 ELSE 1

\* without XMCD: the full product
\* (a DCD of these cases: one Write Data command, sometimes a Check Data command, NOPs - shape "gen", length and version by index)
PrimB == { p \in [lay : 1..4, res : Residues, pages : Pages, flags : Flags, cfg : {"none", "dcd"}, xk : {"none"}, xv : {"none"},
                  ds : {"gen", "none"}, dv : {-1}, sub : {0}, nl : {0}, rep : 0..(Reps - 1)] :
             p.pages * 4096 + p.res >= 64 /\ (p.ds = "none") = (p.cfg = "none") }
\* SHAPE OF THE SUPPLIED DCD: every shape x every header version x every flag (layout and application size by index).
\*   hdr  - the smallest legal DCD: a header without any command (D2 00 04 4x)       one - one Write Data command with one pair
\*   wr   - several Write Data commands (each operation; 1, 2, 4-byte accesses)        chk - several Check Data commands (with / without count)
\*   misc - NOP and Unlock commands                                                   mix - commands of every kind
\* version: 0 = 0x40 (HAB 4.0 parts: i.MX6 class), 1 = 0x41 (RT10xx / RT11xx tool chains), 2 = another minor version of HAB 4 (0x42 .. 0x45)
DcdShapeNames == {"hdr", "one", "wr", "chk", "misc", "mix"}
DcdVerSel == 0..2
PrimD == [lay : {0}, res : {-1}, pages : {-1}, flags : Flags, cfg : {"dcd"}, xk : {"none"}, xv : {"none"},
          ds : DcdShapeNames, dv : DcdVerSel, sub : (IF Full THEN 0..1 ELSE {0}), nl : {0}, rep : 0..(Reps - 1)]
\* with XMCD (layouts whose application offset leaves room: the RT116x / RT117x boot devices): every kind x every flag x every source
XLays == {i \in 1..4 : Lays[i].ils - Lays[i].ivtOff >= 3072}
PrimX == [lay : XLays, res : {-1}, pages : {-1}, flags : Flags, cfg : {"xmcd"}, xk : XmcdKindNames, xv : {"golden", "tmpl", "rand"},
          ds : {"none"}, dv : {-1}, sub : (IF Full THEN 0..2 ELSE {0}), nl : {0}, rep : 0..(Reps - 1)]
PrimR == [lay : XLays, res : {-1}, pages : {-1}, flags : Flags, cfg : {"xmcd"}, xk : {"raw"}, xv : {"rand"},
          ds : {"none"}, dv : {-1}, sub : (IF Full THEN 0..5 ELSE 0..1), nl : {0}, rep : 0..(Reps - 1)]
\* ENCRYPTED IMAGE WITH A SUPPLIED NONCE: every legal nonce length (7..13 bytes; nl = 0 elsewhere: a supplied nonce has 13 bytes) x length of the
\* encrypted data around 2^16, the boundary of the 2-byte length field of AES-CCM (15 - |nonce| bytes): the application padded to 16 bytes is
\* below / exactly at / above 65536 bytes (layout by index).  There the ROM decrypts with the nonce of the MAC record, or the build is refused.
NonceLens == 7..13
CcmSizes == {61440, 65519, 65520, 65521, 65536, 65552} \cup (IF Full THEN {65535, 69632} ELSE {})
PrimN == [lay : {0}, res : CcmSizes, pages : {0}, flags : {"enc"}, cfg : {"none"}, xk : {"none"}, xv : {"none"},
          ds : {"none"}, dv : {-1}, sub : {0}, nl : NonceLens, rep : 0..(Reps - 1)]
Prim0 == PrimB \cup PrimX \cup PrimR \cup PrimD
PrimSeq0 == SetToSeq(Prim0)
PrimSeq == PrimSeq0 \o SetToSeq(PrimN)          \* the nonce cases behind the others: the indices (= secondary dimensions) of those stay

Trees == << "rsa2048", "p256", "rsa4096", "p384", "fa_rsa2048", "rsa3072", "p521", "fa_p256" >>
KeyVars == << "pk", "sp", "auto" >>
Vers == << "4.2", "4.3", "4.1", "4.0", "4.5" >>
Pick(seq, x) == seq[(x % Len(seq)) + 1]
IsFast(tree) == tree \in {"fa_rsa2048", "fa_p256"}

\* raw XMCD blocks: every length under every flag (sub x layout position spans the lengths)
LayPos(l) == Cardinality({j \in XLays : j < l})
FlagIdx(f) == CASE f = "plain" -> 0 [] f = "auth" -> 1 [] OTHER -> 2
RawIdx(p) == p.sub * Cardinality(XLays) + LayPos(p.lay) + FlagIdx(p.flags) + Seed + p.rep
\* the commands of a DCD shape (y varies the numbers of pairs / the presence of a count / the order)
DcdCmdsOf(shape, y) ==
  CASE shape = "hdr" -> << >>
    [] shape = "one" -> << DcdW(1) >>
    [] shape = "wr" -> << DcdW(1 + (y % 3)), DcdW(1), DcdW(1 + ((y \div 3) % 2)), DcdW(2) >>
    [] shape = "chk" -> << DcdC(y % 2), DcdC(1 - (y % 2)), DcdC((y \div 2) % 2), DcdC(1) >>
    [] shape = "misc" -> IF y % 2 = 0 THEN << DcdN, DcdU(1), DcdN, DcdN, DcdU(1) >> ELSE << DcdU(1), DcdN, DcdU(1) >>
    [] shape = "mix" -> IF y % 2 = 0 THEN << DcdW(2), DcdN, DcdC(1), DcdU(1), DcdW(1), DcdC(0) >>
                                     ELSE << DcdC(0), DcdU(1), DcdW(1), DcdN, DcdC(1), DcdW(3) >>
    [] OTHER -> << >>                      \* "gen": the harness builds a DCD of exactly cfgLen bytes
DcdVerOf(sel, y) == CASE sel = 0 -> 64 [] sel = 1 -> 65 [] OTHER -> 66 + (y % 4)
Case(k) ==
  LET p == PrimSeq[k]
      x == k + Seed + 7919 * p.rep
      lay == IF p.lay = 0 THEN Lays[((x + p.sub) % 4) + 1] ELSE Lays[p.lay]
      dcmds == DcdCmdsOf(p.ds, x + p.sub)
      tree == Pick(Trees, x)
      nSrk == ((x \div 8) % 4) + 1
      cfgLen == CASE p.cfg = "none" -> 0
                  [] p.cfg = "dcd" /\ p.ds = "gen" -> Pick(CfgLens.dcd, x \div 3)
                  [] p.cfg = "dcd" -> DcdLen(dcmds)
                  [] p.xk \in XmcdKindNames -> XmcdKinds[p.xk].size
                  [] OTHER -> Pick(CfgLens.xmcd, RawIdx(p))
      \* application size of the XMCD cases: residue and pages by index
      res == IF p.res = -1 THEN Pick(ResSeq, x \div 3) ELSE p.res
      pages == IF p.res # -1 THEN p.pages ELSE IF res < 64 THEN 1 + ((x \div 9) % MaxPage) ELSE (x \div 9) % (MaxPage + 1)
  IN [id |-> k, lay |-> lay.n, ivtOff |-> lay.ivtOff, ils |-> lay.ils, appLen |-> pages * 4096 + res,
      flags |-> p.flags, cfg |-> p.cfg, cfgLen |-> cfgLen, rep |-> p.rep, xmcdKind |-> p.xk, xmcdVar |-> p.xv, sub |-> p.sub,
      tree |-> tree, fast |-> IsFast(tree), nSrk |-> nSrk, src |-> (x \div 5) % nSrk, keyvar |-> Pick(KeyVars, x \div 7),
      macLen |-> 4 + 2 * ((x \div 2) % 7), dekLen |-> Pick(<<16, 24, 32>>, x \div 11),
      nonceGiven |-> p.nl # 0 \/ (x \div 13) % 2 = 0, nonceLen |-> IF p.nl # 0 THEN p.nl ELSE 13, reuseDek |-> (x \div 17) % 2 = 0, extra |-> (x \div 19) % 4,
      ver |-> Pick(Vers, x \div 23), tgt |-> IF IsFast(tree) THEN 0 ELSE 2 + ((x \div 29) % 4),
      entryGiven |-> (x \div 31) % 3, byDb |-> (x \div 37) % 2 = 0 /\ lay.n # "ram", startSel |-> (x \div 41) % 6,
      dcdShape |-> p.ds, dcdCmds |-> dcmds,
      dcdVer |-> IF p.cfg # "dcd" THEN 0 ELSE IF p.ds = "gen" THEN Pick(<<65, 64, 65, 67>>, x \div 53) ELSE DcdVerOf(p.dv, x),
      dcdVerSel |-> p.dv,
      xmcdSel |-> (x \div 43) % 6, xmcdInst |-> (x \div 43) % 2, tsGiven |-> (x \div 47) % 2 = 0]

Params(c) == [ivtOff |-> c.ivtOff, ils |-> c.ils, appLen |-> c.appLen, flags |-> c.flags, cfgKind |-> c.cfg, cfgLen |-> c.cfgLen,
              dekLen |-> c.dekLen]

(* ---- HISTORIES of builds in one process (R-spec: HabHist.tla).  A history = 2..3 builds, each from a project "a" / "b": two PKI   *)
(* trees made with the same parameters (same file names, different keys - /verif/keys/hab/<tree> and <tree>_b), each with its own      *)
(* configuration directory = search path.  Every build of a history names its keys / certificates by the SAME relative strings          *)
(* (naming = "rel": ../keys/<name>_key.pem, ../crts/<name>_crt.pem; same tree parameters, same SRK index, same key-path variant), so the *)
(* strings are equal and the files they resolve to differ.  Primary (every tier): key tree x key-path variant (private key file /      *)
(* signature-provider string / path derived from the certificate path) with the shape <<a, b>>, further shapes; flags, layout, sizes, DCD / XMCD, *)
(* CSF command set ... of each build come from a primary case by index.                                                              *)
HShapes == IF Full THEN << <<"a", "b">>, <<"b", "a", "b">>, <<"a", "a", "b">>, <<"a", "b", "a">> >>
                   ELSE << <<"a", "b">>, <<"b", "a", "b">> >>
\* quick tier: the shape <<a, b>> for every tree x variant, the three-build shape for every tree with one variant (by index)
HPrim == { p \in [tree : 1..Len(Trees), kv : 1..Len(KeyVars), shape : 1..Len(HShapes), rep : 0..(Reps - 1)] :
             Full \/ p.shape = 1 \/ p.kv = ((p.tree + Seed) % Len(KeyVars)) + 1 }
HPrimSeq == SetToSeq(HPrim)
HFlagPat == << <<"auth", "auth", "enc">>, <<"auth", "enc", "auth">>, <<"enc", "auth", "auth">>, <<"enc", "enc", "enc">> >>
HistIdBase == 100000
Hist(h) ==
  LET p == HPrimSeq[h]
      x == h + Seed + 7919 * p.rep
      tree == Trees[p.tree]
      src == (x \div 5) % 4
      shape == HShapes[p.shape]
      pat == Pick(HFlagPat, x)
      B(i) == LET c == Case(((x * 31 + 101 * i) % Len(PrimSeq0)) + 1)
              IN [c EXCEPT !.id = HistIdBase + 10 * h + i, !.rep = p.rep, !.tree = tree, !.fast = IsFast(tree),
                           !.tgt = IF IsFast(tree) THEN 0 ELSE 2 + ((x + i) % 4), !.flags = pat[i], !.keyvar = KeyVars[p.kv],
                           !.src = src, !.nSrk = IF c.nSrk > src THEN c.nSrk ELSE src + 1]
                 @@ [proj |-> shape[i], naming |-> "rel", hid |-> h, pos |-> i]
  IN [hid |-> h, tree |-> tree, keyvar |-> KeyVars[p.kv], src |-> src, shape |-> shape, rep |-> p.rep,
      builds |-> [i \in 1..Len(shape) |-> B(i)]]
\* the class the history dimension is there for: two builds of different projects whose key / certificate names are equal
HistReachesClass(hh) == \E i, j \in 1..Len(hh.builds) :
                          /\ i < j /\ hh.builds[i].proj # hh.builds[j].proj
                          /\ hh.builds[i].tree = hh.builds[j].tree /\ hh.builds[i].src = hh.builds[j].src
                          /\ hh.builds[i].keyvar = hh.builds[j].keyvar /\ hh.builds[i].naming = "rel" /\ hh.builds[j].naming = "rel"

NCases == Len(PrimSeq)
VARIABLE k
Init == k \in 1..(NCases + Len(HPrimSeq))
Next == UNCHANGED k
CaseLayoutOK(c) == /\ LayoutOK(Params(c), Layout(Params(c)), 4096)
                   /\ (c.dcdShape \notin {"gen", "none"} => DcdWellFormed(210, c.cfgLen, c.dcdVer, c.dcdCmds))
DocumentedLayoutOK == IF k <= NCases THEN CaseLayoutOK(Case(k))
                      ELSE LET hh == Hist(k - NCases) IN /\ \A i \in 1..Len(hh.builds) : CaseLayoutOK(hh.builds[i])
                                                         /\ HistReachesClass(hh)
Emit == PrintT(ToJson(IF k <= NCases THEN Case(k) ELSE Hist(k - NCases)))
=============================================================================
