------------------------------- MODULE HabGen -------------------------------
(* C07 - GEN form: TLC enumerates the abstract cases that are built through SPSDK.                 *)
(* Primary dimensions (full product): layout class x application size (pages, residue of            *)
(* (initial load size + length) mod 4 KiB around the boundary) x flags x DCD/XMCD x repetition.     *)
(* Secondary dimensions (key tree, number of SRKs, source index, key-path variant, MAC / DEK length, *)
(* nonce / DEK given or generated, extra commands, CSF version, IMGK slot, entry point given,        *)
(* family + boot device instead of explicit offsets, start address) are spread over the primary     *)
(* cases by index arithmetic with pairwise coprime strides, shifted by GEN_SEED.                     *)
(* Each case is checked against the documented layout (LayoutOK(Layout)) before it is emitted.       *)
EXTENDS HabLayout, TLC, Json, IOUtils, SequencesExt

Env(n, d) == IF n \in DOMAIN IOEnv THEN atoi(IOEnv[n]) ELSE d
Full == Env("GEN_FULL", 0) = 1
Seed == Env("GEN_SEED", 0)
Reps == Env("GEN_REPS", 1)

Lays == << [n |-> "sd0", ivtOff |-> 0, ils |-> 1024], [n |-> "nor", ivtOff |-> 4096, ils |-> 8192],
           [n |-> "nand", ivtOff |-> 1024, ils |-> 4096], [n |-> "ram", ivtOff |-> 0, ils |-> 8192] >>
Residues == IF Full THEN {4079, 4080, 4081, 4094, 4095, 0, 1, 2, 15, 16, 17, 31, 32, 33, 100, 2048, 3000}
                    ELSE {4080, 4081, 4095, 0, 1, 16, 2048}
Pages == IF Full THEN 0..3 ELSE 0..1
CfgLens == [dcd |-> <<12, 44, 124, 332>>, xmcd |-> <<8, 13, 16, 260>>]

Prim == { p \in [lay : 1..4, res : Residues, pages : Pages, flags : {"plain", "auth", "enc"}, cfg : {"none", "dcd", "xmcd"},
                 rep : 0..(Reps - 1)] :
            /\ p.pages * 4096 + p.res >= 64
            /\ (p.cfg = "xmcd" => Lays[p.lay].ils - Lays[p.lay].ivtOff >= 3072) }
PrimSeq == SetToSeq(Prim)

Trees == << "rsa2048", "p256", "rsa4096", "p384", "fa_rsa2048", "rsa3072", "p521", "fa_p256" >>
KeyVars == << "pk", "sp", "auto" >>
Vers == << "4.2", "4.3", "4.1", "4.0", "4.5" >>
Pick(seq, x) == seq[(x % Len(seq)) + 1]
IsFast(tree) == tree \in {"fa_rsa2048", "fa_p256"}

Case(k) ==
  LET p == PrimSeq[k]
      x == k + Seed + 7919 * p.rep
      lay == Lays[p.lay]
      tree == Pick(Trees, x)
      nSrk == ((x \div 8) % 4) + 1
      cfgLen == IF p.cfg = "none" THEN 0 ELSE Pick(CfgLens[p.cfg], x \div 3)
  IN [id |-> k, lay |-> lay.n, ivtOff |-> lay.ivtOff, ils |-> lay.ils, appLen |-> p.pages * 4096 + p.res,
      flags |-> p.flags, cfg |-> p.cfg, cfgLen |-> cfgLen, rep |-> p.rep,
      tree |-> tree, fast |-> IsFast(tree), nSrk |-> nSrk, src |-> (x \div 5) % nSrk, keyvar |-> Pick(KeyVars, x \div 7),
      macLen |-> 4 + 2 * ((x \div 2) % 7), dekLen |-> Pick(<<16, 24, 32>>, x \div 11),
      nonceGiven |-> (x \div 13) % 2 = 0, reuseDek |-> (x \div 17) % 2 = 0, extra |-> (x \div 19) % 4,
      ver |-> Pick(Vers, x \div 23), tgt |-> IF IsFast(tree) THEN 0 ELSE 2 + ((x \div 29) % 4),
      entryGiven |-> (x \div 31) % 3, byDb |-> (x \div 37) % 2 = 0 /\ lay.n # "ram", startSel |-> (x \div 41) % 6,
      xmcdSel |-> (x \div 43) % 6, tsGiven |-> (x \div 47) % 2 = 0]

Params(c) == [ivtOff |-> c.ivtOff, ils |-> c.ils, appLen |-> c.appLen, flags |-> c.flags, cfgKind |-> c.cfg, cfgLen |-> c.cfgLen,
              dekLen |-> c.dekLen]

VARIABLE k
Init == k \in 1..Len(PrimSeq)
Next == UNCHANGED k
DocumentedLayoutOK == LayoutOK(Params(Case(k)), Layout(Params(Case(k))), 4096)
Emit == PrintT(ToJson(Case(k)))
=============================================================================
