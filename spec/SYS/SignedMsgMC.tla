------------------------------ MODULE SignedMsgMC ------------------------------
(* DESIGN MODEL of the signed-message lane, model checked:   abstract builder  ||  one tampered region  ||  the automaton of SignedMsg.tla. *)
(* A shape (command, format version, IV, unique-id width, fuse words, key type) is laid out by the rules of the documented format into   *)
(* the events an executor would log; one named region may be tampered with (t).  Crypto facts are abstract: a primary check (container  *)
(* signature, SRK hash against the fuses, CMAC of a key-import blob) fails exactly when the tampered region meets the bytes it           *)
(* authenticates; structure is left intact (the strongest adversary: coverage alone has to force Reject).  t = "resign" is the adversary  *)
(* who swaps the SRK table for his own keys and signs again: only the fused hash stops him (the comparison of the table with the          *)
(* builder's keys is an auxiliary check of the harness and MAY come out either way).                                                     *)
(* Lemmas (invariants):  GoodAccepted - an untampered message is never rejected;  TamperRejected - a tampered one is accepted only for    *)
(* the declared don't-care region;  CoverageTotal - at Accept every other region lies inside an authenticated interval;                   *)
(* RoundTrip - the parser finds the payload where the builder put it.                                                                    *)
(* VARIANT selects the design:  "ok" (as the format defines)  - holds;                                                                    *)
(*   "shortsig"  the device checks the signature over container header + message only              - TamperRejected REFUTED (sb.hdr)      *)
(*   "nohash"    the device does not compare the SRK table with the fused hash                     - TamperRejected REFUTED (resign)      *)
(*   "uuid"      the parser of format 2 takes a 128-bit unique id where the builder wrote 64 bits  - RoundTrip REFUTED                    *)
EXTENDS SignedMsg, IOUtils
CONSTANT VARIANT
Full == IF "MC_FULL" \in DOMAIN IOEnv THEN IOEnv.MC_FULL = "1" ELSE FALSE
Kinds == {"rlc", "fuse", "ksr", "kex", "kimp", "dat"}
KtsMC == IF Full THEN {"ecc256", "ecc384", "ecc521", "rsa2048", "rsa3072", "rsa4096"} ELSE {"ecc256", "rsa2048"}
Shapes == { sh \in [kind : Kinds, cver : {1, 2}, enc : BOOLEAN, u16 : BOOLEAN, n : 1..2, kt : KtsMC, used : {0, 3}] :
              /\ (sh.u16 => sh.cver = 2) /\ (sh.n = 2 => sh.kind = "fuse")
              /\ (~Full /\ sh.kt # "ecc256" => sh.kind = "rlc" /\ ~sh.enc /\ sh.used = 0)
              /\ (~Full /\ sh.used # 0 => sh.kind = "rlc" /\ ~sh.enc) }
L(v) == <<0, v \div 65536, v % 65536>>
Seq1(n) == [i \in 1..n |-> i] \o <<>>
NoCertMC == [present |-> FALSE, perm |-> 0, permData |-> Zeros(12), fuse |-> 0, uuid |-> Zeros(16), signer |-> 0]
Fields(sh) ==
  CASE sh.kind = "rlc"  -> [life_cycle |-> L(16)]
    [] sh.kind = "fuse" -> [id |-> L(513), flags |-> L(3), data |-> [i \in 1..sh.n |-> L(70000 + i)]]
    [] sh.kind = "ksr"  -> [monotonic_counter |-> L(7), user_sab_id |-> L(65537)]
    [] sh.kind = "dat"  -> [challenge |-> Seq1(32), beacon |-> L(258)]
    [] sh.kind = "kex"  -> [key_store_id |-> L(1), key_exchange_algorithm |-> L(9), salt_flags |-> L(1), derived_key_grp |-> L(2), derived_key_size_bits |-> L(256),
                            derived_key_type |-> L(37376), derived_key_lifetime |-> L(1), derived_key_usage |-> L(16384), derived_key_permitted_algorithm |-> L(8),
                            derived_key_lifecycle |-> L(0), derived_key_id |-> L(2), private_key_id |-> L(1), peer_digest |-> Seq1(32), info_digest |-> Zeros(32)]
    [] OTHER            -> [key_id |-> L(1), alg |-> L(9), usage |-> L(16384), type |-> L(9216), bits |-> L(128), lifetime |-> L(1), lifecycle |-> L(0),
                            mk_id |-> L(5), wrap |-> L(1), iv |-> Zeros(16), keyLen |-> 16]
XC(sh) == [cver |-> sh.cver, enc |-> sh.enc, iv |-> (IF sh.enc THEN Seq1(32) ELSE Zeros(32)),
          cont |-> [srkSet |-> 2, used |-> sh.used, revoke |-> 0, gdet |-> 0, sw |-> 258, fuse |-> 3, kt |-> sh.kt, blob |-> FALSE, keyBits |-> 0, keyId |-> <<0, 0>>,
                    cert |-> NoCertMC, img |-> <<>>],
          msg |-> [certVer |-> L(1), perm |-> L(2), month |-> L(9), year |-> L(2024), uuid |-> Seq1(IF sh.u16 THEN 16 ELSE 8)],
          pl |-> [kind |-> sh.kind, f |-> Fields(sh)]]
(* ---- the documented layout *)
Al(cver, n) == IF cver = 2 THEN n ELSE ((n + 7) \div 8) * 8
UL(sh) == IF sh.u16 THEN 16 ELSE 8
Cipher(sh) == [wrapped |-> Zeros(24), sig |-> Zeros(16)]               \* outputs of the key-import ciphers (RFC 3394: key + 8; CMAC: 16)
PBytes(sh) == PayloadOf(XC(sh).pl, Cipher(sh))
PayAt(sh) == MsgAt + MsgHeadLen + UL(sh)
SbAt(sh) == PayAt(sh) + Len(PBytes(sh))
TabLen(sh) == TabHdrLen + 4 * RecLen(sh.cver, sh.kt)
SrkLen(sh) == IF sh.cver = 2 THEN ArrHdrLen + TabLen(sh) + DataHdrLen + ParLen(sh.kt) ELSE TabLen(sh)
SigOff(sh) == Al(sh.cver, SbHdrLen + SrkLen(sh))
SigTot(sh) == SigHdrLen + SigLen(sh.kt)
SbLen(sh) == SigOff(sh) + SigTot(sh)
CLen(sh) == SbAt(sh) + SbLen(sh)
FileLen(sh) == ((CLen(sh) + 7) \div 8) * 8
SigAt(sh) == SbAt(sh) + SigOff(sh)
(* ---- regions of the file *)
Reg(sh) == [ hdr      |-> <<0, HdrLen>>,                 descFlags |-> <<HdrLen, HdrLen + 4>>,      descIv |-> <<HdrLen + 4, MsgAt>>,
             msgHead  |-> <<MsgAt, MsgAt + MsgHeadLen>>, msgUuid   |-> <<MsgAt + MsgHeadLen, PayAt(sh)>>, payload |-> <<PayAt(sh), SbAt(sh)>>,
             sbHdr    |-> <<SbAt(sh), SbAt(sh) + SbHdrLen>>, srk   |-> <<SbAt(sh) + SbHdrLen, SbAt(sh) + SbHdrLen + SrkLen(sh)>>,
             srkPad   |-> <<SbAt(sh) + SbHdrLen + SrkLen(sh), SigAt(sh)>>,
             sigRsv   |-> <<SigAt(sh) + 4, SigAt(sh) + SigHdrLen>>, sigData |-> <<SigAt(sh) + SigHdrLen, CLen(sh)>>,
             pad      |-> <<CLen(sh), FileLen(sh)>> ]
RegNames == DOMAIN Reg([kind |-> "rlc", cver |-> 1, enc |-> FALSE, u16 |-> FALSE, n |-> 1, kt |-> "ecc256", used |-> 0])
NonEmpty(sh, r) == Reg(sh)[r][1] < Reg(sh)[r][2]
Tampers(sh) == {"none", "resign"} \cup {r \in RegNames : NonEmpty(sh, r)}
DontCare == {"sigRsv"}                       \* the reserved word of the signature header: neither signed nor checked
Meets(sh, t, iv) == t \in RegNames /\ Overlaps(Reg(sh)[t], iv)
(* ---- crypto facts by coverage *)
SignedTo(sh) == IF VARIANT = "shortsig" THEN SbAt(sh) ELSE SigAt(sh)         \* what the device's signature check really covers
SigFact(sh, t) == ~Meets(sh, t, <<0, SignedTo(sh)>>) /\ t # "sigData"
HashFact(sh, t) == VARIANT = "nohash" \/ (~Meets(sh, t, Reg(sh).srk) /\ t # "resign")
CmacFact(sh, t) == ~(sh.kind = "kimp" /\ Meets(sh, t, Reg(sh).payload))
(* ---- the events of a walk (structure intact) *)
Events(sh, t, aux) ==
  LET x == XC(sh)
      sb == SbAt(sh)
      tabAt == IF sh.cver = 2 THEN sb + SbHdrLen + ArrHdrLen ELSE sb + SbHdrLen
      dataAt == tabAt + TabLen(sh) IN
  << [ev |-> "MsgContainerHeader", ci |-> 0, at |-> 0, tagOk |-> TRUE, version |-> ContVersion(sh.cver), length |-> CLen(sh), srkSet |-> 2, used |-> sh.used, revoke |-> 0,
      flagsOther |-> <<0, 0>>, sw |-> 258, fuse |-> 3, nImages |-> 0, sigBlockOff |-> sb, reserved |-> 0],
     [ev |-> "Descriptor", at |-> HdrLen, flags |-> (IF sh.enc THEN 1 ELSE 0), rsvZero |-> TRUE, iv |-> x.iv],
     [ev |-> "MessageHeader", at |-> MsgAt, month |-> 9, year |-> 2024, perm |-> 2, certVer |-> 1, rsvZero |-> TRUE, cmd |-> CmdOf(sh.kind), uuidLen |-> UL(sh),
      uuid |-> WordSwap(x.msg.uuid)],
     [ev |-> "Payload", at |-> PayAt(sh), len |-> Len(PBytes(sh)), declared |-> Len(PBytes(sh)), bytes |-> PBytes(sh), unwrapOk |-> TRUE, cmacOk |-> CmacFact(sh, t),
      wrapped |-> Cipher(sh).wrapped, sig |-> Cipher(sh).sig],
     [ev |-> "SignatureBlock", ci |-> 0, at |-> sb, tagOk |-> TRUE, version |-> SbVersion(sh.cver), length |-> SbLen(sh), certOff |-> 0, srkOff |-> SbHdrLen,
      sigOff |-> SigOff(sh), blobOff |-> 0, keyId |-> <<0, 0>>],
     [ev |-> "SrkTable", ci |-> 0, at |-> sb + SbHdrLen, arr |-> sh.cver = 2, arrTagOk |-> TRUE, arrLen |-> (IF sh.cver = 2 THEN SrkLen(sh) ELSE 0), nTables |-> 1,
      arrRsvZero |-> TRUE, tabAt |-> tabAt, tagOk |-> TRUE, version |-> TabVersion(sh.cver), length |-> TabLen(sh), nRecords |-> 4, recsOk |-> TRUE, sameType |-> TRUE,
      sizesOk |-> TRUE, alg |-> KeyAlg(sh.kt), keySize |-> KeySize(sh.kt), signHash |-> SignHash(sh.kt), recFlags |-> 0, recRsvZero |-> TRUE,
      recLen |-> RecLen(sh.cver, sh.kt), keysOk |-> (IF t = "resign" THEN aux ELSE TRUE),
      srkDataAt |-> (IF sh.cver = 2 THEN dataAt ELSE 0), srkDataLen |-> (IF sh.cver = 2 THEN DataHdrLen + ParLen(sh.kt) ELSE 0), srkDataId |-> (IF sh.cver = 2 THEN sh.used ELSE 0),
      srkDataTagOk |-> TRUE, dataHashOk |-> TRUE, srkHashOk |-> HashFact(sh, t), end |-> sb + SbHdrLen + SrkLen(sh)],
     [ev |-> "VerifySignature", ci |-> 0, sigAt |-> SigAt(sh), tagOk |-> TRUE, version |-> 0, length |-> SigTot(sh), sigLen |-> SigLen(sh.kt), rsvZero |-> t # "sigRsv",
      signedFrom |-> 0, signedTo |-> SigAt(sh), key |-> sh.used, ok |-> SigFact(sh, t), byCert |-> FALSE],
     [ev |-> "ContainerEnd", ci |-> 0, end |-> CLen(sh)],
     [ev |-> "MsgAccept", fileLen |-> FileLen(sh), padZero |-> t # "pad"] >>

VARIABLES sh, t, evs, i, s, parsed
vars == <<sh, t, evs, i, s, parsed>>
NoParse == [payAt |-> 0, uuidLen |-> 0]
Init == /\ sh \in Shapes /\ t = "new" /\ evs = <<>> /\ i = 1 /\ s = M0 /\ parsed = NoParse
Build == /\ t = "new"
         /\ \E tt \in Tampers(sh) : \E aux \in BOOLEAN : (tt = "resign" \/ aux) /\ t' = tt /\ evs' = Events(sh, tt, aux)
         /\ UNCHANGED <<sh, i, s, parsed>>
Running == t # "new" /\ i <= Len(evs) /\ s.st \notin {"Accepted", "Rejected", "Parsed"}
(* one action per step of the automaton (written out: TLC's coverage names the operator that forms the action body) *)
MsgContainerHeader == /\ Running /\ evs[i].ev = "MsgContainerHeader" /\ MStepOK(XC(sh), s, evs[i])
                      /\ s' = MStepNx(XC(sh), s, evs[i]) /\ i' = i + 1 /\ UNCHANGED <<sh, t, evs, parsed>>
Descriptor == /\ Running /\ evs[i].ev = "Descriptor" /\ MStepOK(XC(sh), s, evs[i])
              /\ s' = MStepNx(XC(sh), s, evs[i]) /\ i' = i + 1 /\ UNCHANGED <<sh, t, evs, parsed>>
MessageHeader == /\ Running /\ evs[i].ev = "MessageHeader" /\ MStepOK(XC(sh), s, evs[i])
                 /\ s' = MStepNx(XC(sh), s, evs[i]) /\ i' = i + 1 /\ UNCHANGED <<sh, t, evs, parsed>>
Payload == /\ Running /\ evs[i].ev = "Payload" /\ MStepOK(XC(sh), s, evs[i])
           /\ s' = MStepNx(XC(sh), s, evs[i]) /\ i' = i + 1 /\ UNCHANGED <<sh, t, evs, parsed>>
SignatureBlock == /\ Running /\ evs[i].ev = "SignatureBlock" /\ MStepOK(XC(sh), s, evs[i])
                  /\ s' = MStepNx(XC(sh), s, evs[i]) /\ i' = i + 1 /\ UNCHANGED <<sh, t, evs, parsed>>
SrkTable == /\ Running /\ evs[i].ev = "SrkTable" /\ MStepOK(XC(sh), s, evs[i])
            /\ s' = MStepNx(XC(sh), s, evs[i]) /\ i' = i + 1 /\ UNCHANGED <<sh, t, evs, parsed>>
VerifySignature == /\ Running /\ evs[i].ev = "VerifySignature" /\ MStepOK(XC(sh), s, evs[i])
                   /\ s' = MStepNx(XC(sh), s, evs[i]) /\ i' = i + 1 /\ UNCHANGED <<sh, t, evs, parsed>>
ContainerEnd == /\ Running /\ evs[i].ev = "ContainerEnd" /\ MStepOK(XC(sh), s, evs[i])
                /\ s' = MStepNx(XC(sh), s, evs[i]) /\ i' = i + 1 /\ UNCHANGED <<sh, t, evs, parsed>>
MsgAccept == /\ Running /\ evs[i].ev = "MsgAccept" /\ MStepOK(XC(sh), s, evs[i])
             /\ s' = MStepNx(XC(sh), s, evs[i]) /\ i' = i + 1 /\ UNCHANGED <<sh, t, evs, parsed>>
Reject == /\ Running /\ ~MStepOK(XC(sh), s, evs[i])
          /\ s' = [s EXCEPT !.st = "Rejected"] /\ UNCHANGED <<sh, t, evs, i, parsed>>
(* the host's parser reads the accepted message back: where does it look for the payload? *)
ParserUuid == IF VARIANT = "uuid" /\ sh.cver = 2 THEN 16 ELSE evs[3].uuidLen
ParseBack == /\ s.st = "Accepted" /\ t = "none"
             /\ parsed' = [payAt |-> MsgAt + MsgHeadLen + ParserUuid, uuidLen |-> ParserUuid]
             /\ s' = [s EXCEPT !.st = "Parsed"] /\ UNCHANGED <<sh, t, evs, i>>
Next == Build \/ MsgContainerHeader \/ Descriptor \/ MessageHeader \/ Payload \/ SignatureBlock \/ SrkTable \/ VerifySignature \/ ContainerEnd \/ MsgAccept
        \/ Reject \/ ParseBack

GoodAccepted   == s.st = "Rejected" => t # "none"
TamperRejected == (s.st \in {"Accepted", "Parsed"} /\ t # "none") => t \in DontCare
CoverageTotal  == s.st = "Accepted" => \A r \in RegNames \ (DontCare \cup {"pad"}) : NonEmpty(sh, r) =>
                                          \A at \in {Reg(sh)[r][1], Reg(sh)[r][2] - 1} : InCov(s, at)
RoundTrip      == s.st = "Parsed" => parsed.payAt = PayAt(sh) /\ parsed.uuidLen = UL(sh)
Reaches        == ~(s.st = "Parsed")          \* stated as an invariant to be violated: an untampered message is accepted and parsed back
=============================================================================
