--------------------------- MODULE FusesTrace ---------------------------
(* Trace form of the fuse lane.  REFERENCE = the OTP array of the device (Fuses.tla in concrete numbers) + the command grammar of the two back     *)
(* ends + the contract of one call of the fuse API.  One trace = a history of calls on ONE Fuses object against ONE device.                       *)
(*   A 32-bit word is a pair <<hi16, lo16>>; inside the device a word is the SET of its one-bits (program = union: bits only ever go 0 -> 1).      *)
(*   trace  : id, lay (fuse map entries of the words involved: idx, lk = index of the lock fuse or -1, wm / rm = write / read lock mask inside      *)
(*            the lock fuse, iwl = individual write lock kind, acc = access), dev0 (initial words), wl0 (indexes individually write-locked)       *)
(*   events : call   op read | write | read_all | script, tgt = << [idx, val, lock] >> what the configuration asks for, in order                  *)
(*            acc    one command as it crossed the link: be blhost (McuBoot tag 14 program once <<index | lock<<24, 4, data>>, tag 15 read once     *)
(*                   <<index, 4>>) | nxpele (the ELE message words: header ver 6 | size<<8 | cmd<<16 | tag 0x17<<24; READ_COMMON_FUSE 0x97          *)
(*                   <<index>>; WRITE_FUSE 0xD6 <<bit position | bit length<<16 | lock<<31, data>>); st = status answered, ret = value answered,   *)
(*                   flt = the scenario made this access fail, lost = an ELE exchange whose answer never reached the buffer                        *)
(*            result kind ret | exc, documented, hasval / val, obj = the object's word values afterwards, ctx, api                                *)
(* A clause of the contract that does not hold is NOTED (register N + tid) and printed from the post-condition as <<"OBS", id, step, clause>>;     *)
(* a trace whose device events depart from the reference device is not consumed to its end: <<"REJ", ...>> (machinery: twin against spec).        *)
EXTENDS Naturals, Integers, Sequences, FiniteSets, TLC, Json, IOUtils
Traces == ndJsonDeserialize(IOEnv.TRACE_FILE)
N == Len(Traces)
VARIABLES tid, l, call, otp, wl, done, att, readok, failed, garbled, otp0, wl0, seen, hopeless
vars == <<tid, l, call, otp, wl, done, att, readok, failed, garbled, otp0, wl0, seen, hopeless>>
T == Traces[tid].ev
E == T[l]
Lay == Traces[tid].lay
Is(e) == l <= Len(T) /\ E.ev = e
Adv == l' = l + 1 /\ UNCHANGED tid

Pow2(n) == IF n = 0 THEN 1 ELSE 2 ^ n
Bits(w) == {b \in 0..31 : IF b < 16 THEN (w[2] \div Pow2(b)) % 2 = 1 ELSE (w[1] \div Pow2(b - 16)) % 2 = 1}
SeqSet(s) == {s[k] : k \in 1..Len(s)}
LayIdx == {Lay[k].idx : k \in 1..Len(Lay)}
LayOf(i) == Lay[CHOOSE k \in 1..Len(Lay) : Lay[k].idx = i]
Word(o, i) == IF i \in DOMAIN o THEN o[i] ELSE {}

\* ---- the device: protection
WProtIn(o, w, i) == \/ i \in w
                    \/ i \in LayIdx /\ LayOf(i).lk >= 0 /\ (Word(o, LayOf(i).lk) \cap Bits(LayOf(i).wm)) # {}
RProtIn(o, i) == i \in LayIdx /\ LayOf(i).lk >= 0 /\ (Word(o, LayOf(i).lk) \cap Bits(LayOf(i).rm)) # {}
Implicit(i) == i \in LayIdx /\ LayOf(i).iwl = "implicit"
LkOf(i) == IF i \in LayIdx THEN LayOf(i).lk ELSE -1

\* ---- the command grammar of the two back ends: what access a command is
Bad == [k |-> "bad", idx |-> 0, val |-> <<0, 0>>, lock |-> FALSE]
DecodeBlhost(e) ==
  IF e.tag = 14 /\ Len(e.p) = 3 /\ e.p[2] = <<0, 4>> /\ e.p[1][1] < 512
    THEN [k |-> "wr", idx |-> (e.p[1][1] % 256) * 65536 + e.p[1][2], val |-> e.p[3], lock |-> (e.p[1][1] \div 256) = 1]
  ELSE IF e.tag = 15 /\ Len(e.p) = 2 /\ e.p[2] = <<0, 4>> /\ e.p[1][1] < 256
    THEN [k |-> "rd", idx |-> e.p[1][1] * 65536 + e.p[1][2], val |-> <<0, 0>>, lock |-> FALSE]
  ELSE Bad
DecodeEle(e) ==
  IF Len(e.p) = 0 THEN Bad ELSE
  LET h == e.p[1]  ver == h[2] % 256  size == h[2] \div 256  cmd == h[1] % 256  tg == h[1] \div 256 IN
  IF ~(e.tag = 25 /\ tg = 23 /\ ver = 6 /\ size = Len(e.p)) THEN Bad
  ELSE IF cmd = 151 /\ Len(e.p) = 2 /\ e.p[2][1] = 0 /\ e.rn >= 3
    THEN [k |-> "rd", idx |-> e.p[2][2], val |-> <<0, 0>>, lock |-> FALSE]
  ELSE IF cmd = 214 /\ Len(e.p) = 3 /\ e.p[2][2] % 32 = 0 /\ (e.p[2][1] % 32768) = 32 /\ e.rn >= 2
    THEN [k |-> "wr", idx |-> e.p[2][2] \div 32, val |-> e.p[3], lock |-> (e.p[2][1] \div 32768) = 1]
  ELSE Bad
Decode(e) == IF e.be = "blhost" THEN DecodeBlhost(e) ELSE DecodeEle(e)

Dev0 == Traces[tid].dev0
Init == /\ tid \in 1..N /\ l = 1 /\ call = [op |-> "none"]
        /\ otp = [i \in {Dev0[k].idx : k \in 1..Len(Dev0)} |-> Bits(Dev0[CHOOSE k \in 1..Len(Dev0) : Dev0[k].idx = i].val)]
        /\ wl = SeqSet(Traces[tid].wl0)
        /\ done = <<>> /\ att = <<>> /\ readok = {} /\ failed = FALSE /\ garbled = FALSE /\ otp0 = <<>> /\ wl0 = {} /\ seen = <<>> /\ hopeless = FALSE
        /\ TLCSet(tid, 1) /\ TLCSet(N + tid, {})

Call == /\ Is("call") /\ call.op = "none" /\ call' = E
        /\ done' = <<>> /\ att' = <<>> /\ readok' = {} /\ failed' = FALSE /\ garbled' = FALSE /\ otp0' = otp /\ wl0' = wl /\ seen' = <<>> /\ hopeless' = FALSE
        /\ UNCHANGED <<otp, wl>> /\ Adv

\* one command at the device.  The twin's answer is re-derived here (a twin that departs from the reference device is not followed).
Acc == /\ Is("acc") /\ call.op # "none"
       /\ LET d == Decode(E) IN
          IF E.lost THEN                          \* the exchange never reached the ELE / its answer never reached the buffer: nothing happened
               /\ failed' = TRUE /\ UNCHANGED <<otp, wl, done, att, readok, garbled, seen, hopeless>>
          ELSE IF d.k = "bad" THEN
               /\ E.st # 0 /\ garbled' = TRUE /\ failed' = TRUE /\ UNCHANGED <<otp, wl, done, att, readok, seen, hopeless>>
          ELSE IF d.k = "rd" THEN
               LET ok == ~E.flt /\ ~RProtIn(otp, d.idx) IN
               /\ (E.st = 0) = ok
               /\ (ok => Bits(E.ret) = Word(otp, d.idx))
               /\ readok' = (IF ok THEN readok \cup {d.idx} ELSE readok \ {d.idx})        \* what counts is the last read of a word
               /\ failed' = (failed \/ ~ok)
               /\ seen' = (IF ok THEN [i \in DOMAIN seen \cup {d.idx} |-> IF i = d.idx THEN Word(otp, i) ELSE seen[i]] ELSE seen)   \* what the host was told in this call
               /\ UNCHANGED <<otp, wl, done, att, garbled, hopeless>>
          ELSE
               LET prot == WProtIn(otp, wl, d.idx)
                   ok == ~E.flt /\ ~prot
                   w == [idx |-> d.idx, val |-> d.val, lock |-> d.lock] IN
               /\ (E.st = 0) = (ok \/ (call.quiet /\ ~E.flt))          \* quiet: a ROM that does not report the refusal of a protected word
               /\ att' = Append(att, w)
               /\ IF ok THEN /\ otp' = [i \in DOMAIN otp \cup {d.idx} |-> IF i = d.idx THEN Word(otp, i) \cup Bits(d.val) ELSE otp[i]]
                             /\ wl' = (IF d.lock \/ Implicit(d.idx) THEN wl \cup {d.idx} ELSE wl)
                             /\ done' = Append(done, w)
                  ELSE UNCHANGED <<otp, wl, done>>
               /\ failed' = (failed \/ E.st # 0)
               /\ hopeless' = (hopeless \/ (LkOf(d.idx) >= 0 /\ LkOf(d.idx) \in DOMAIN seen /\ (seen[LkOf(d.idx)] \cap Bits(LayOf(d.idx).wm)) # {}))
               /\ UNCHANGED <<readok, garbled, seen>>
       /\ UNCHANGED <<call, otp0, wl0>> /\ Adv

\* ---- the contract of one call
Note(c) == TLCSet(N + tid, TLCGet(N + tid) \cup {<<l, c>>})
C(name, p) == IF p THEN TRUE ELSE Note(name)
Ok == E.kind = "ret"
Tgt == call.tgt
TgtIdx == {Tgt[k].idx : k \in 1..Len(Tgt)}
Rec(s) == [k \in 1..Len(s) |-> <<s[k].idx, s[k].val, s[k].lock>>]
Idxs(s) == [k \in 1..Len(s) |-> s[k].idx]
IsPrefix(a, b) == Len(a) <= Len(b) /\ \A k \in 1..Len(a) : a[k] = b[k]
ObjVal(i) == LET k == CHOOSE k \in 1..Len(E.obj) : E.obj[k].idx = i IN Bits(E.obj[k].val)
HasObj(i) == \E k \in 1..Len(E.obj) : E.obj[k].idx = i
Writable(i) == i \notin LayIdx \/ LayOf(i).acc \in {"RW", "WO"}
Readable(i) == i \notin LayIdx \/ LayOf(i).acc \in {"RW", "RO"}
\* nothing in the scenario stands in the way of the call
BenignW == /\ ~call.fault /\ (~failed \/ garbled)          \* (a refusal the host earned by a command outside the grammar is no excuse)
           /\ \A i \in TgtIdx : /\ ~WProtIn(otp0, wl0, i) /\ Writable(i)
                                /\ (LkOf(i) >= 0 /\ LkOf(i) # i => ~RProtIn(otp0, LkOf(i)) /\ Readable(LkOf(i)))
                                /\ (LayOf(i).iwl \in {"always_lock", "implicit"} => Word(otp0, i) = {} /\ ~RProtIn(otp0, i) /\ Readable(i))
BenignR == /\ ~call.fault /\ (~failed \/ garbled)
           /\ \A i \in TgtIdx : /\ ~RProtIn(otp0, i) /\ Readable(i)
                                /\ (LkOf(i) >= 0 /\ LkOf(i) # i => ~RProtIn(otp0, LkOf(i)) /\ Readable(LkOf(i)))
SameWrites(a, b) == IF call.freeorder THEN SeqSet(Rec(a)) = SeqSet(Rec(b)) /\ Len(a) = Len(b) ELSE Rec(a) = Rec(b)

ResWrite ==
  /\ C("Grammar", ~garbled)                                                      \* every command sent is a command of the back end's grammar
  /\ C("Documented", E.kind = "exc" => E.documented)
  /\ C("NoAttemptOnKnownLock", ~hopeless)             \* no program is sent to a word whose lock fuse, as read in this very call, write-protects it
  /\ C("Mirror", BenignW => Ok)
  /\ C("NoSwallowedRefusal", Ok => ~failed /\ ~garbled)
  /\ C("WriteCount", Ok => Len(done) = Len(Tgt))                               \* as many programs ACCEPTED by the device as words configured
  /\ C("WriteIndex", Ok /\ Len(done) = Len(Tgt) => SeqSet(Idxs(att)) = TgtIdx)
  /\ C("WriteValue", Ok => \A k \in 1..Len(att) : \A j \in 1..Len(Tgt) : Tgt[j].idx = att[k].idx => Tgt[j].val = att[k].val)
  /\ C("WriteLock", Ok => \A k \in 1..Len(att) : \A j \in 1..Len(Tgt) : Tgt[j].idx = att[k].idx => Tgt[j].lock = att[k].lock)
  /\ C("WriteOrder", Ok /\ ~call.freeorder /\ Len(att) = Len(Tgt) /\ SeqSet(Idxs(att)) = TgtIdx => Idxs(att) = Idxs(Tgt))
  /\ C("Burnt", Ok /\ SameWrites(done, Tgt) => \A j \in 1..Len(Tgt) : Bits(Tgt[j].val) \subseteq Word(otp, Tgt[j].idx))
  /\ C("RefusedUnchanged", ~Ok /\ ~call.fault => IsPrefix(Rec(done), Rec(Tgt)) /\ Len(done) < Len(Tgt))    \* nothing but configured words, never all of them
  /\ C("FailedOnlyConfigured", ~Ok /\ call.fault /\ ~call.freeorder => IsPrefix(Rec(done), Rec(Tgt)))          \* (an answer lost after the device acted cannot be helped)
  /\ C("ObjectKeepsConfigured", \A j \in 1..Len(Tgt) : HasObj(Tgt[j].idx) => ObjVal(Tgt[j].idx) = Bits(Tgt[j].val))

ResRead ==
  /\ C("Grammar", ~garbled)
  /\ C("Documented", E.kind = "exc" => E.documented)
  /\ C("ReadWritesNothing", att = <<>>)
  /\ C("Mirror", BenignR => Ok)
  /\ C("ReadFalseSuccess", Ok => TgtIdx \subseteq readok)
  /\ C("ReadValue", Ok /\ E.hasval /\ Len(Tgt) = 1 => Bits(E.val) = Word(otp, Tgt[1].idx))
  /\ C("ReadObject", Ok => \A i \in TgtIdx : HasObj(i) => ObjVal(i) = Word(otp, i))

ResReadAll ==
  /\ C("Grammar", ~garbled)
  /\ C("Documented", E.kind = "exc" => E.documented)
  /\ C("ReadWritesNothing", att = <<>>)
  /\ C("Mirror", ~call.fault => Ok)
  /\ C("ReadObject", Ok => \A i \in TgtIdx \cap readok : HasObj(i) => ObjVal(i) = Word(otp, i))
  /\ C("ContextOnlyRead", Ok => SeqSet(E.ctx) \cap TgtIdx \subseteq readok)
  /\ C("ContextComplete", Ok /\ ~call.fault => \A i \in TgtIdx \ SeqSet(call.grouped) : (i \in readok /\ Readable(i)) => i \in SeqSet(E.ctx))   \* (a group is listed as a whole or not at all)

\* the generated script, executed by the reference reader: the same writes as the configuration defines, and as the API made on a device like this one
ResScript ==
  /\ C("ScriptReadable", Ok)
  /\ C("ScriptCount", Ok => Len(att) = Len(Tgt))
  /\ C("ScriptIndex", Ok => SeqSet(Idxs(att)) = TgtIdx)
  /\ C("ScriptValue", Ok => \A k \in 1..Len(att) : \A j \in 1..Len(Tgt) : Tgt[j].idx = att[k].idx => Tgt[j].val = att[k].val)
  /\ C("ScriptLock", Ok => \A k \in 1..Len(att) : \A j \in 1..Len(Tgt) : Tgt[j].idx = att[k].idx => Tgt[j].lock = att[k].lock)
  /\ C("ScriptOrder", Ok /\ ~call.freeorder /\ Len(att) = Len(Tgt) /\ SeqSet(Idxs(att)) = TgtIdx => Idxs(att) = Idxs(Tgt))
  /\ C("ScriptAsApi", Ok /\ E.hasapi => Rec(att) = Rec(E.api))

Result == /\ Is("result") /\ call.op # "none"
          /\ CASE call.op = "write" -> ResWrite
               [] call.op = "read" -> ResRead
               [] call.op = "read_all" -> ResReadAll
               [] call.op = "script" -> ResScript
          /\ call' = [op |-> "none"]
          /\ UNCHANGED <<otp, wl, done, att, readok, failed, garbled, otp0, wl0, seen, hopeless>> /\ Adv

Next == Call \/ Acc \/ Result
Constr == IF TLCGet(tid) < l THEN TLCSet(tid, l) ELSE TRUE
Post == /\ \A i \in 1..N : \/ TLCGet(i) - 1 = Len(Traces[i].ev)
                           \/ PrintT(<<"REJ", Traces[i].id, TLCGet(i) - 1, Len(Traces[i].ev),
                                       Traces[i].ev[IF TLCGet(i) <= Len(Traces[i].ev) THEN TLCGet(i) ELSE Len(Traces[i].ev)].ev>>)
        /\ \A i \in 1..N : \A x \in TLCGet(N + i) : PrintT(<<"OBS", Traces[i].id, x[1], x[2]>>)
        /\ PrintT(<<"DONE", N>>)
=============================================================================
