SPECIFICATION Spec
CONSTANTS PrepareAgain = TRUE  DoUnlock = FALSE  MaxRefuse = 1
INVARIANT NoFalseSuccess
INVARIANT Mirror
CHECK_DEADLOCK FALSE
