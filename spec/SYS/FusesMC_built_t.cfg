SPECIFICATION Spec
CONSTANTS Host = "built" CheckStatus = TRUE Verify = FALSE Iwl2 = "implicit" StoreInsteadOfOr = FALSE Quiet = FALSE MaxCalls = 2 MaxFaults = 2
INVARIANT NoFalseSuccess
CHECK_DEADLOCK FALSE
