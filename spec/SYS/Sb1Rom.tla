------------------------------- MODULE Sb1Rom -------------------------------
(* Growth beyond the listed properties: Secure Binary 1.x (the legacy boot-image format, spsdk/sbfile/sb1).     *)
(* REFERENCE model: the acceptance automaton of a loader / reader of an UNENCRYPTED SB 1.x file, over a file of *)
(* 16-byte blocks.  Nothing in here is SPSDK's to change: the layout, which bytes each digest / checksum / CRC  *)
(* covers, how the loader finds the section to boot.                                                            *)
(*                                                                                                              *)
(*   block 0..5     image header (96 bytes): SHA-1 digest of bytes 20..95 | "STMP" | major.minor | flags |      *)
(*                  imageBlocks | firstBootTagBlock | firstBootableSectionID | keyCount | keyDictionaryBlock |  *)
(*                  headerBlocks | sectionCount | sectionHeaderSize | pad | "sgtl" | timestamp | product /     *)
(*                  component version (BCD) | driveTag | pad                                                    *)
(*   block 6..      section table: one block per section <identifier, offset, length, flags>; offset = the      *)
(*                  block where the section's DATA start (from the beginning of the image), length in blocks   *)
(*   (key dictionary: keyCount * 2 blocks - absent, keyCount = 0: unencrypted image)                            *)
(*   sections       each one = BOOT TAG (a TAG command: checksum, tag 1, flags bit 0 = LAST_TAG, address =      *)
(*                  section identifier, count = length of the section in blocks, data = section flags) followed *)
(*                  by `count` blocks of boot commands (16-byte header with checksum; LOAD carries its data,    *)
(*                  padded to whole blocks, and a CRC-32/MPEG-2 over the padded data)                           *)
(*   last 2 blocks  SHA-1 over everything in front of it (20 bytes) + 12 bytes of padding (don't care)          *)
(*                                                                                                              *)
(* Two consumers are defined by the format and both are in the automaton: the LOADER walks the chain of boot    *)
(* tags from firstBootTagBlock (skipping `count` blocks per section) until it finds the bootable section whose  *)
(* identifier is firstBootableSectionID or a tag that carries LAST_TAG (BootSearch); a READER (sbtool) seeks to *)
(* the offsets of the section table (TableOk: both must arrive at the same blocks).                             *)
(*                                                                                                              *)
(* Every action takes an EVENT e - the facts one step reads from the file: numeric fields as decoded and the    *)
(* facts TLA+ cannot compute (digestOk, chkOk, crcOk, ok).  The action RE-COMPUTES every position from the      *)
(* header fields / tags seen earlier and demands equality and every fact TRUE.  The same actions are driven by  *)
(* an ideal writer over all small layouts (Sb1RomMC) and by the events an independent executor logged on the    *)
(* bytes SPSDK exported (Sb1RomTrace).  32-bit words are pairs <<hi16, lo16>>; block numbers are integers.      *)
EXTENDS Naturals, Integers, Sequences, FiniteSets, TLC

VARIABLES st,      \* control state
          hdr,     \* the image header as read (event of ParseHeader)
          tab,     \* section table as read: sequence of [id, offset, length, flags]
          pos,     \* block cursor of the tag chain
          sec,     \* sections completed
          left,    \* blocks of the current section not yet consumed by commands
          cmdAt,   \* block of the next command
          tags,    \* boot tags seen: sequence of [at, id, count, sflags, last, cflags]
          dec,     \* decoded content: sequence of [id, sflags, cmds: sequence of raw command records]
          auth     \* [to: number of bytes the final digest was computed over, at: block of the digest]
rvars == <<st, hdr, tab, pos, sec, left, cmdAt, tags, dec, auth>>

HeaderBlocks == 6          \* 96 bytes
EntryBlocks  == 1          \* one section-table entry
AuthBlocks   == 2          \* SHA-1 (20 bytes) padded to the cipher block
AuthPad      == 12         \* ... by 12 bytes nothing covers
CmdTags      == {0, 2, 3, 4, 5, 6, 7, 8, 9, 10}    \* NOP LOAD FILL JUMP CALL MODE ERASE RESET MEM_ENABLE PROG (TAG = 1 only between sections)
TagLoad      == 2
Align16(n)   == ((n + 15) \div 16) * 16
Bootable(t)  == t.sflags[2] % 2 = 1                \* ROM_SECTION_BOOTABLE

RInit == /\ st = "Header" /\ hdr = [secCount |-> 0] /\ tab = <<>> /\ pos = 0 /\ sec = 0 /\ left = 0 /\ cmdAt = 0
         /\ tags = <<>> /\ dec = <<>> /\ auth = [to |-> 0, at |-> 0]

ParseHeader(e) ==
  /\ st = "Header"
  /\ e.longEnough /\ e.fileRem = 0                              \* whole blocks
  /\ e.sig1ok /\ e.digestOk                                     \* "STMP"; SHA-1 over bytes 20..95 = bytes 0..19
  /\ e.major = 1
  /\ (e.minor >= 2 => e.sig2ok)                                 \* "sgtl" (what version 1.1 carries there is not settled: not asserted)
  /\ e.hdrBlocks = HeaderBlocks /\ e.secHdrSize = EntryBlocks
  /\ e.keyCount = 0                                             \* unencrypted
  /\ e.secCount >= 1
  /\ e.keyDict = e.hdrBlocks + e.secCount * e.secHdrSize        \* the key dictionary follows the section table
  /\ e.firstTag = e.keyDict + 2 * e.keyCount                    \* the first boot tag follows the key dictionary
  /\ e.imageBlocks = e.fileBlocks                               \* the header describes the bytes emitted
  /\ e.imageBlocks >= e.firstTag + e.secCount + AuthBlocks      \* room for one boot tag per section and the digest
  /\ hdr' = e /\ st' = "Table"
  /\ UNCHANGED <<tab, pos, sec, left, cmdAt, tags, dec, auth>>

TableEntry(e) ==
  /\ st = "Table" /\ Len(tab) < hdr.secCount
  /\ e.i = Len(tab) /\ e.at = hdr.hdrBlocks + Len(tab) * hdr.secHdrSize
  /\ tab' = Append(tab, [id |-> e.id, offset |-> e.offset, length |-> e.length, flags |-> e.flags])
  /\ IF Len(tab) + 1 = hdr.secCount THEN st' = "Tag" /\ pos' = hdr.firstTag ELSE UNCHANGED <<st, pos>>
  /\ UNCHANGED <<hdr, sec, left, cmdAt, tags, dec, auth>>

BootTag(e) ==
  /\ st = "Tag" /\ sec < hdr.secCount
  /\ e.i = sec /\ e.at = pos
  /\ e.chkOk /\ e.tagIsTag
  /\ e.count >= 0 /\ pos + 1 + e.count <= hdr.imageBlocks - AuthBlocks      \* the section lies in front of the digest
  /\ tags' = Append(tags, [at |-> pos, id |-> e.id, count |-> e.count, sflags |-> e.sflags, last |-> e.last, cflags |-> e.cflags])
  /\ dec' = Append(dec, [id |-> e.id, sflags |-> e.sflags, cmds |-> <<>>])
  /\ left' = e.count /\ cmdAt' = pos + 1 /\ st' = "Cmd"
  /\ UNCHANGED <<hdr, tab, pos, sec, auth>>

Cmd(e) ==
  /\ st = "Cmd" /\ left > 0
  /\ e.sec = sec /\ e.i = Len(dec[Len(dec)].cmds) /\ e.at = cmdAt
  /\ e.chkOk /\ e.tag \in CmdTags
  /\ IF e.tag = TagLoad
     THEN /\ e.cnt[1] < 32768 /\ e.payloadLen = Align16(e.cnt[1] * 65536 + e.cnt[2]) /\ e.nBlk = 1 + e.payloadLen \div 16
          /\ e.nBlk <= left /\ e.crcOk                                       \* the data lie inside the section; CRC over the padded data
     ELSE e.nBlk = 1
  /\ cmdAt' = cmdAt + e.nBlk /\ left' = left - e.nBlk
  /\ dec' = [dec EXCEPT ![Len(dec)].cmds = Append(@, [tag |-> e.tag, flags |-> e.flags, addr |-> e.addr, cnt |-> e.cnt, dat |-> e.dat,
                                                       payloadLen |-> e.payloadLen, nBlk |-> e.nBlk])]
  /\ UNCHANGED <<st, hdr, tab, pos, sec, tags, auth>>

SectionEnd(e) ==
  /\ st = "Cmd" /\ left = 0
  /\ e.sec = sec /\ e.next = tags[Len(tags)].at + 1 + tags[Len(tags)].count /\ cmdAt = e.next
  /\ pos' = e.next /\ sec' = sec + 1
  /\ st' = IF sec + 1 = hdr.secCount THEN "Digest" ELSE "Tag"
  /\ UNCHANGED <<hdr, tab, left, cmdAt, tags, dec, auth>>

CheckDigest(e) ==
  /\ st = "Digest" /\ e.ok
  /\ e.at = pos /\ e.frm = 0 /\ e.to = pos * 16                              \* SHA-1 over everything in front of it
  /\ pos + AuthBlocks = hdr.imageBlocks                                      \* nothing between the last section and the digest, nothing behind it
  /\ auth' = [to |-> e.to, at |-> e.at] /\ st' = "Digested"
  /\ UNCHANGED <<hdr, tab, pos, sec, left, cmdAt, tags, dec>>

\* ---- the reader's side: the section table names the same blocks as the tag chain
EntryOk(i) == /\ tab[i].offset = tags[i].at + 1                              \* the section's data start behind its boot tag
              /\ tab[i].length = tags[i].count
              /\ tab[i].id = tags[i].id /\ tab[i].flags = tags[i].sflags
TableOk == Len(tab) = Len(tags) /\ \A i \in 1..Len(tab) : EntryOk(i)
\* "the last section header in an image always has its LAST_TAG flag set" - and no other one
LastTagOk == \A i \in 1..Len(tags) : tags[i].last = (i = Len(tags))

\* ---- the loader's side: the search for the section to boot
RECURSIVE Search(_, _)
Search(i, id) == IF i > Len(tags) THEN [r |-> "overrun", i |-> 0]            \* ran off the sections: reads the digest as a tag
                 ELSE IF Bootable(tags[i]) /\ tags[i].id = id THEN [r |-> "found", i |-> i]
                 ELSE IF tags[i].last THEN [r |-> "notfound", i |-> i]
                 ELSE Search(i + 1, id)
BootSearch(e) ==
  /\ st = "Digested"
  /\ e.result = Search(1, hdr.firstId).r /\ e.index = Search(1, hdr.firstId).i
  /\ st' = "Searched"
  /\ UNCHANGED <<hdr, tab, pos, sec, left, cmdAt, tags, dec, auth>>

Accept(e) ==
  /\ st = "Searched"
  /\ e.nSections = sec /\ sec = hdr.secCount
  /\ auth.to + 20 + AuthPad = hdr.fileBlocks * 16                            \* every byte but the 12 padding bytes lies under the digest
  /\ st' = "Accepted"
  /\ UNCHANGED <<hdr, tab, pos, sec, left, cmdAt, tags, dec, auth>>
=============================================================================
