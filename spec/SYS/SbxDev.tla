------------------------------- MODULE SbxDev -------------------------------
(* Device side of the DevHSM exchange for SB-X containers (MC56F818xx / MWCT2xD2: `nxpdevhsm generate`), in the form that is BOUND: one action   *)
(* per command the device receives, taking the event `e` the device twin (harness/lib/sbx_ref.Device) recorded with every number.  The automaton *)
(* recomputes the status of every command from ITS state - the twin is checked, too - and keeps what the loader will later need:                 *)
(*   dmem   the communication buffer: base address -> [len, sha] of what was last put there (by the host or by the device)                        *)
(*   sess   the provisioning session: open after DSC_HSM_CREATE_SESSION (at most once between resets), with the oem share input it was made of    *)
(*          and the TP HSM blob ("encrypted oem share") the device answered with                                                                  *)
(*   encs   every DSC_HSM_ENC_BLK carried out: block number, the header fields handed over with it, what went in, what came out                   *)
(*   signs  every DSC_HSM_ENC_SIGN carried out                                                                                                    *)
(* Sources: docstrings of McuBoot.dsc_hsm_create_session / dsc_hsm_enc_blk / dsc_hsm_enc_sign and of blhost's commands of the same name ("only    *)
(* supported after issuance of dsc_hsm_create_session", "SBx header ... Except for hash digest of block 0, all other fields should be valid"),    *)
(* `nxpdevhsm generate --help` ("The DevHSM operation can run only once between resets"), the sizes in spsdk/sbfile/devhsm.                        *)
(* Addresses are pairs of 16-bit limbs (TLC integers are 32 bit); contents are named by a hash prefix computed by the twin.                       *)
EXTENDS SbxFormat
VARIABLES dmem, sess, encs, signs, nfail, nfault, nbusy, ndev, firstDev, lastDev, signedAt
dvars == <<dmem, sess, encs, signs, nfail, nfault, nbusy, ndev, firstDev, lastDev, signedAt>>

SEED == 16          \* oem share input
BLOBLEN == 52       \* TP HSM blob: 20-byte header (version, type, size, encrypted oem share) || 32-byte MAC
MANLEN == 140       \* header(56) || blob(52) || H(block 1)(32): what is signed
SigLen(t) == IF t = 2 THEN 32 ELSE 64          \* OEM_PROVISIONING: MAC by the device; NXP_PROVISIONING / OEM: ECDSA P-256 by the image signing key
NoSess == [open |-> FALSE, seedSha |-> "", blobSha |-> ""]
DInit == /\ dmem = << >> /\ sess = NoSess /\ encs = << >> /\ signs = << >> /\ nfail = 0 /\ nfault = 0 /\ nbusy = 0 /\ ndev = 0 /\ firstDev = "none" /\ lastDev = "none"
         /\ signedAt = 0 - 1
Has(a, n) == a \in DOMAIN dmem /\ dmem[a].len >= n
Put(a, n, s) == (a :> [len |-> n, sha |-> s]) @@ dmem
Seen(e) == /\ ndev' = ndev + 1 /\ firstDev' = (IF ndev = 0 THEN e.ev ELSE firstDev) /\ lastDev' = e.ev
           /\ nfail' = nfail + (IF e.status # 0 THEN 1 ELSE 0) /\ nfault' = nfault + (IF e.fault # "none" THEN 1 ELSE 0)
           \* a session requested while one is open (no reset in between): the one refusal that is not a fault of the scenario and not a mistake of the host
           /\ nbusy' = nbusy + (IF e.ev = "CreateSession" /\ e.fault = "none" /\ sess.open THEN 1 ELSE 0)

\* a reset ends the session and clears the buffer; what was encrypted / signed before stays a fact of the run
DevReset(e) == /\ e.status = 0 /\ dmem' = << >> /\ sess' = NoSess /\ Seen(e) /\ UNCHANGED <<encs, signs, signedAt>>
DevWrite(e) == /\ IF e.fault = "none" THEN e.status = 0 /\ dmem' = Put(e.addr, e.len, e.sha) ELSE e.status # 0 /\ UNCHANGED dmem
               /\ Seen(e) /\ UNCHANGED <<sess, encs, signs, signedAt>>
\* a read returns what the buffer holds (a whole buffer is named by its hash; a prefix of it is not compared here - what the host does with it is)
DevRead(e) == /\ LET ok == e.fault = "none" /\ Has(e.addr, e.len) IN
                   /\ (e.status = 0) = ok
                   /\ (ok /\ dmem[e.addr].len = e.len => e.sha = dmem[e.addr].sha)
              /\ Seen(e) /\ UNCHANGED <<dmem, sess, encs, signs, signedAt>>
DevCreateSession(e) ==
  /\ LET ok == e.fault = "none" /\ ~sess.open /\ e.inSize = SEED /\ e.outSize = BLOBLEN /\ Has(e.inAddr, SEED) IN
       /\ (e.status = 0) = ok
       /\ IF ok THEN /\ (dmem[e.inAddr].len = SEED => e.seedSha = dmem[e.inAddr].sha)
                     /\ sess' = [open |-> TRUE, seedSha |-> e.seedSha, blobSha |-> e.blobSha]
                     /\ dmem' = Put(e.outAddr, BLOBLEN, e.blobSha)
          ELSE UNCHANGED <<sess, dmem>>
  /\ Seen(e) /\ UNCHANGED <<encs, signs, signedAt>>
DevEncBlk(e) ==
  /\ LET ok == /\ e.fault = "none" /\ sess.open /\ e.hdrOk /\ e.hdr.magicOk /\ e.hdr.imageType \in 1..3
               /\ e.hdrSize >= MANLEN /\ Has(e.hdrAddr, e.hdrSize)          \* header || blob || hash; what follows (a blank signature) is not read
               /\ e.dataSize = CHUNK /\ Has(e.dataAddr, CHUNK) /\ e.num >= 1 IN
       /\ (e.status = 0) = ok
       /\ IF ok THEN /\ (dmem[e.dataAddr].len = CHUNK => e.plainSha = dmem[e.dataAddr].sha)
                     /\ (dmem[e.hdrAddr].len = e.hdrSize => e.hdrSha = dmem[e.hdrAddr].sha)
                     /\ encs' = Append(encs, [num |-> e.num, hdr |-> e.hdr, blobSha |-> e.blobSha, plainSha |-> e.plainSha, cipherSha |-> e.cipherSha])
                     /\ dmem' = Put(e.dataAddr, CHUNK, e.cipherSha)
          ELSE UNCHANGED <<encs, dmem>>
  /\ Seen(e) /\ UNCHANGED <<sess, signs, signedAt>>
DevSign(e) ==
  /\ LET ok == e.fault = "none" /\ sess.open /\ e.inSize = MANLEN /\ e.outSize = 32 /\ Has(e.inAddr, MANLEN) IN
       /\ (e.status = 0) = ok
       /\ IF ok THEN /\ (dmem[e.inAddr].len = MANLEN => e.msgSha = dmem[e.inAddr].sha)
                     /\ signs' = Append(signs, [msgSha |-> e.msgSha, sigSha |-> e.sigSha]) /\ signedAt' = Len(encs)
                     /\ dmem' = Put(e.outAddr, 32, e.sigSha)
          ELSE UNCHANGED <<signs, signedAt, dmem>>
  /\ Seen(e) /\ UNCHANGED <<sess, encs>>
DevOther(e) == e.status # 0 /\ Seen(e) /\ UNCHANGED <<dmem, sess, encs, signs, signedAt>>
=============================================================================
