CONSTANT VARIANT = "ok"
INIT Init
NEXT Next
INVARIANT Reaches
CHECK_DEADLOCK FALSE
