SPECIFICATION Spec
CONSTANTS Variant = "sign_early"  MaxBlocks = 4  MaxRuns = 3  MaxFaults = 1
INVARIANT LoaderAccepts
CHECK_DEADLOCK FALSE
