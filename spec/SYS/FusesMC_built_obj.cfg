SPECIFICATION Spec
CONSTANTS Host = "built" CheckStatus = TRUE Verify = FALSE Iwl2 = "always_lock" StoreInsteadOfOr = FALSE Quiet = FALSE MaxCalls = 1 MaxFaults = 1
INVARIANT ObjectKeepsConfigured
CHECK_DEADLOCK FALSE
