SPECIFICATION Spec
CONSTANTS MaxChunks = 2  MaxFaults = 1  MaxCalls = 2  Host = "ideal"
INVARIANT Reach
CHECK_DEADLOCK FALSE
