----------------------------- MODULE Sb1RomMC -----------------------------
(* MC / GEN form of the SB 1.x lane.  A WRITER lays a file out from an abstract shape (sizes accumulate front  *)
(* to back) and states the facts a correct file offers; the automaton of Sb1Rom - which derives every position *)
(* from header fields and boot tags, from the reader's side - consumes them.  TLC checks over ALL shapes up to *)
(* the bounds:                                                                                                  *)
(*   Live       every file of the IDEAL writer is walked to Accepted (deadlock check),                          *)
(*   Complete   at Accepted the whole event list was consumed and the decoded structure equals the shape,       *)
(*   BootFinds  the loader's search ends at the FIRST bootable section that carries the identifier the header   *)
(*              names, or - if there is none - at a tag that carries LAST_TAG (never behind the sections),      *)
(*   Tamper     a file with ONE corrupted block (every check whose range contains it reports FALSE), a          *)
(*              TRUNCATED file (cut in front of any block) and an EXTENDED file are never accepted.             *)
(* Writer variants (constant Writer) are DESIGNS: "ideal" must pass; the others are the construction mistakes   *)
(* the lane is about and must be REFUTED by TLC (the harness demands the refutation):                           *)
(*   "tab_skips_tags"        section-table offsets accumulate the section lengths but not the boot tags between *)
(*   "last_on_last_bootable" LAST_TAG is put on the last BOOTABLE section (none if no section is bootable)      *)
(*   "blocks_without_auth"   imageBlocks does not count the two digest blocks                                   *)
(*   "count_with_tag"        the boot tag's count includes the tag itself                                       *)
(* Strict = FALSE: the table / LAST_TAG clauses are not demanded (what then still goes wrong is BootFinds).     *)
(* Reader variants (constant Reader): "reference" is the automaton of Sb1Rom; "as_built" is a READER DESIGN -    *)
(* the automaton behind a filter that hides what SecureBootV1.parse never looks at (header digest, imageBlocks,  *)
(* whether the commands of a section end AT the section end).  Against the RE-SEALED corruption classes (the     *)
(* file changed and the digests / checksums recomputed so that only ONE check can notice) the reference reader   *)
(* holds Tamper, the reader as built must be REFUTED (Sb1RomMC_reader.cfg).                                      *)
(* GEN (GenInit): the same shape space is printed as JSON; the harness builds real files of these shapes.       *)
EXTENDS Sb1Rom, Json, IOUtils
CONSTANTS MaxSecs, MaxCmds, MaxPay, Writer, Strict, Reader
VARIABLES shape, evs, i, tam
vars == <<st, hdr, tab, pos, sec, left, cmdAt, tags, dec, auth, shape, evs, i, tam>>
Gen == "GEN" \in DOMAIN IOEnv /\ IOEnv.GEN = "1"

SecShapes == [boot : BOOLEAN, cmds : UNION {[1..n -> 0..MaxPay] : n \in 0..MaxCmds}]       \* command = number of data blocks (0: plain command, k: LOAD)
\* first: the section whose identifier the header names (0: an identifier no section has)
Shapes == {s \in [secs : UNION {[1..n -> SecShapes] : n \in 1..MaxSecs}, first : 0..MaxSecs] : s.first <= Len(s.secs)}

SumTo(f, n) == LET S[k \in 0..n] == IF k = 0 THEN 0 ELSE S[k - 1] + f[k] IN S[n]
CmdBlocks(s) == [j \in 1..Len(s.cmds) |-> 1 + s.cmds[j]]
SecCount(s) == SumTo(CmdBlocks(s), Len(s.cmds))
N(sh) == Len(sh.secs)
FirstTag(sh) == HeaderBlocks + N(sh)
TagAt(sh, j) == FirstTag(sh) + SumTo([k \in 1..N(sh) |-> 1 + SecCount(sh.secs[k])], j - 1)
EndOfSections(sh) == TagAt(sh, N(sh) + 1)
FileBlocks(sh) == EndOfSections(sh) + AuthBlocks
Id(j) == <<0, j>>
SFlags(s) == <<0, IF s.boot THEN 1 ELSE 0>>
LastBootable(sh) == IF \E j \in 1..N(sh) : sh.secs[j].boot THEN CHOOSE j \in 1..N(sh) : sh.secs[j].boot /\ \A k \in (j + 1)..N(sh) : ~sh.secs[k].boot ELSE 0

\* ---- what the writer variants put into the fields
WImageBlocks(sh) == IF Writer = "blocks_without_auth" THEN EndOfSections(sh) ELSE FileBlocks(sh)
WOffset(sh, j) == IF Writer = "tab_skips_tags" THEN FirstTag(sh) + 1 + SumTo([k \in 1..N(sh) |-> SecCount(sh.secs[k])], j - 1) ELSE TagAt(sh, j) + 1
WLast(sh, j) == IF Writer = "last_on_last_bootable" THEN j = LastBootable(sh) ELSE j = N(sh)
WCount(sh, j) == SecCount(sh.secs[j]) + (IF Writer = "count_with_tag" THEN 1 ELSE 0)

\* ---- corruption classes.  t = [k, n]: "none" | "block" n corrupted | "cut" the file ends in front of block n | "ext" n blocks appended
\*      re-sealed: "reseal_hdr" a header byte changed, final digest recomputed (only the header digest notices)
\*                 "reseal_len" imageBlocks + 1, both digests recomputed (only the comparison with the file notices)
\*                 "short_count" boot tag n says one block less, checksum and digest recomputed (only the section end notices)
NoTam == [k |-> "none", n |-> 0]
Hit(t, a, b) == t.k = "block" /\ t.n >= a /\ t.n < b
Missing(t, b) == t.k = "cut" /\ b > t.n
Good(t, a, b) == ~Hit(t, a, b) /\ ~Missing(t, b)
SeenBlocks(sh, t) == CASE t.k = "cut" -> t.n [] t.k = "ext" -> FileBlocks(sh) + t.n [] OTHER -> FileBlocks(sh)

EvHeader(sh, t) == [ev |-> "ParseHeader", longEnough |-> ~Missing(t, HeaderBlocks), fileRem |-> 0, sig1ok |-> TRUE,
                    digestOk |-> Good(t, 0, HeaderBlocks) /\ t.k # "reseal_hdr",
                    major |-> 1, minor |-> 2, sig2ok |-> TRUE, flags |-> 0, imageBlocks |-> WImageBlocks(sh) + (IF t.k = "reseal_len" THEN 1 ELSE 0),
                    fileBlocks |-> SeenBlocks(sh, t),
                    firstTag |-> FirstTag(sh), firstId |-> Id(sh.first), keyCount |-> 0, keyDict |-> FirstTag(sh), hdrBlocks |-> HeaderBlocks,
                    secCount |-> N(sh), secHdrSize |-> 1]
EvTable(sh) == [j \in 1..N(sh) |-> [ev |-> "TableEntry", i |-> j - 1, at |-> HeaderBlocks + j - 1, id |-> Id(j), offset |-> WOffset(sh, j),
                                    length |-> SecCount(sh.secs[j]), flags |-> SFlags(sh.secs[j])]]
EvCmds(s, sno, b, t) ==
  LET cb == CmdBlocks(s) IN
  [j \in 1..Len(s.cmds) |->
     LET at == b + SumTo(cb, j - 1) IN
     [ev |-> "Cmd", sec |-> sno, i |-> j - 1, at |-> at, chkOk |-> Good(t, at, at + 1), nBlk |-> cb[j], tag |-> IF s.cmds[j] = 0 THEN 8 ELSE 2,
      crcOk |-> Good(t, at + 1, at + cb[j]), cnt |-> <<0, IF s.cmds[j] = 0 THEN 0 ELSE 16 * s.cmds[j] - 5>>, payloadLen |-> 16 * s.cmds[j],
      flags |-> 0, addr |-> <<0, 0>>, dat |-> <<0, 0>>]]
EvSection(sh, j, t) ==
  LET s == sh.secs[j]  at == TagAt(sh, j) IN
  <<[ev |-> "BootTag", i |-> j - 1, at |-> at, chkOk |-> Good(t, at, at + 1), tagIsTag |-> TRUE, id |-> Id(j),
     count |-> WCount(sh, j) - (IF t.k = "short_count" /\ t.n = j THEN 1 ELSE 0),
     sflags |-> SFlags(s), last |-> WLast(sh, j), cflags |-> 0]>>
  \o EvCmds(s, j - 1, at + 1, t)
  \o <<[ev |-> "SectionEnd", sec |-> j - 1, next |-> at + 1 + SecCount(s)]>>
EvSections(sh, t) == LET F[j \in 0..N(sh)] == IF j = 0 THEN <<>> ELSE F[j - 1] \o EvSection(sh, j, t) IN F[N(sh)]
\* the digest covers everything in front of it; the digest itself sits in the first 20 bytes of the two blocks behind
EvDigest(sh, t) == [ev |-> "CheckDigest", at |-> EndOfSections(sh), frm |-> 0, to |-> EndOfSections(sh) * 16,
                    ok |-> Good(t, 0, EndOfSections(sh)) /\ Good(t, EndOfSections(sh), FileBlocks(sh))]
\* what the loader's search does on the tags the writer wrote
RECURSIVE WSearch(_, _)
WSearch(sh, j) == IF j > N(sh) THEN [r |-> "overrun", i |-> 0]
                  ELSE IF sh.secs[j].boot /\ j = sh.first THEN [r |-> "found", i |-> j]
                  ELSE IF WLast(sh, j) THEN [r |-> "notfound", i |-> j]
                  ELSE WSearch(sh, j + 1)
Written(sh, t) ==
  <<EvHeader(sh, t)>> \o EvTable(sh) \o EvSections(sh, t) \o <<EvDigest(sh, t)>>
  \o <<[ev |-> "BootSearch", result |-> WSearch(sh, 1).r, index |-> WSearch(sh, 1).i], [ev |-> "Accept", nSections |-> N(sh)]>>

\* representative shapes are tampered with: every block corrupted, cut in front of every block, extended by 1..2 blocks
Representative(sh) == \A j \in 1..N(sh) : sh.secs[j].boot /\ sh.secs[j].cmds = [k \in 1..MaxCmds |-> k % (MaxPay + 1)]
Tampers(sh) ==
  {NoTam} \cup (IF Representative(sh) /\ Writer = "ideal"
                THEN {[k |-> "block", n |-> b] : b \in 0..(FileBlocks(sh) - 1)} \cup {[k |-> "cut", n |-> b] : b \in 0..(FileBlocks(sh) - 1)}
                     \cup {[k |-> "ext", n |-> x] : x \in 1..2}
                     \cup {[k |-> "reseal_hdr", n |-> 0], [k |-> "reseal_len", n |-> 0]}
                     \cup {[k |-> "short_count", n |-> j] : j \in {x \in 1..N(sh) : SecCount(sh.secs[x]) > 0}}
                ELSE {})

\* ---- the automaton driven by the writer's events
Ev == evs[i]
At(name) == i <= Len(evs) /\ Ev.ev = name
Step == i' = i + 1 /\ UNCHANGED <<shape, evs, tam>>
Init == /\ RInit /\ shape \in Shapes /\ i = 1 /\ tam \in Tampers(shape) /\ evs = Written(shape, tam)
\* ---- the reader as built: what SecureBootV1.parse does not look at is hidden from the automaton
AsBuilt == Reader = "as_built"
\* the parse loop of a section runs `while offset < count`: a last LOAD that starts inside the section is taken with all its data
Straddles(e) == /\ shape.secs[e.i + 1].cmds # <<>> /\ shape.secs[e.i + 1].cmds[Len(shape.secs[e.i + 1].cmds)] > 0
                /\ e.count < SecCount(shape.secs[e.i + 1]) /\ e.count > SecCount(shape.secs[e.i + 1]) - 1 - shape.secs[e.i + 1].cmds[Len(shape.secs[e.i + 1].cmds)]
Seen(e) == IF ~AsBuilt THEN e
           ELSE CASE e.ev = "ParseHeader" -> [e EXCEPT !.digestOk = TRUE, !.imageBlocks = e.fileBlocks]
                  [] e.ev = "BootTag" -> IF Straddles(e) THEN [e EXCEPT !.count = SecCount(shape.secs[e.i + 1])] ELSE e
                  [] OTHER -> e
DoParseHeader == At("ParseHeader") /\ ParseHeader(Seen(Ev)) /\ Step
DoTableEntry == At("TableEntry") /\ TableEntry(Ev) /\ Step
DoBootTag == At("BootTag") /\ BootTag(Seen(Ev)) /\ Step
DoCmd == At("Cmd") /\ Cmd(Ev) /\ Step
DoSectionEnd == At("SectionEnd") /\ SectionEnd(Ev) /\ Step
DoCheckDigest == At("CheckDigest") /\ CheckDigest(Ev) /\ Step
DoBootSearch == At("BootSearch") /\ BootSearch(Ev) /\ (Strict /\ ~AsBuilt => TableOk /\ LastTagOk) /\ Step
DoAccept == At("Accept") /\ Accept(Ev) /\ Step /\ (Gen => PrintT(ToJson(shape)))
\* terminal states: accepted, or - for a tampered file - stopped at the first false fact
Done == (st = "Accepted" \/ (tam.k # "none" /\ i <= Len(evs))) /\ UNCHANGED vars
Next == DoParseHeader \/ DoTableEntry \/ DoBootTag \/ DoCmd \/ DoSectionEnd \/ DoCheckDigest \/ DoBootSearch \/ DoAccept \/ Done

GenInit == RInit /\ shape \in Shapes /\ i = 1 /\ tam = NoTam /\ evs = <<>> /\ PrintT(ToJson(shape))
GenNext == UNCHANGED vars

\* ---- lemmas
Complete == st = "Accepted" =>
              /\ i = Len(evs) + 1
              /\ Len(dec) = N(shape)
              /\ \A s \in 1..Len(dec) : /\ [j \in 1..Len(dec[s].cmds) |-> dec[s].cmds[j].nBlk - 1] = shape.secs[s].cmds
                                        /\ dec[s].id = Id(s) /\ dec[s].sflags = SFlags(shape.secs[s])
              /\ (tam = NoTam => hdr.imageBlocks = FileBlocks(shape))
Target(sh) == sh.first > 0 /\ sh.secs[sh.first].boot
BootFinds == st \in {"Searched", "Accepted"} =>
               LET r == Search(1, hdr.firstId) IN
               IF Target(shape) THEN r.r = "found" /\ r.i = shape.first ELSE r.r = "notfound"
Tamper == tam.k # "none" => st # "Accepted"
TamperResealHdr == tam.k = "reseal_hdr" => st # "Accepted"        \* one invariant per re-sealed class: each is refuted on its own for the reader as built
TamperResealLen == tam.k = "reseal_len" => st # "Accepted"
TamperShortCount == tam.k = "short_count" => st # "Accepted"
Sound == pos <= EndOfSections(shape) /\ cmdAt <= EndOfSections(shape)
=============================================================================
