SPECIFICATION Spec
CONSTANTS Host = "ideal" CheckStatus = FALSE Verify = FALSE Iwl2 = "user" StoreInsteadOfOr = FALSE Quiet = FALSE MaxCalls = 1 MaxFaults = 1
INVARIANT NoFalseSuccess
CHECK_DEADLOCK FALSE
