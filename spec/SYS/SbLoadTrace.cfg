INIT LInit
NEXT LNext
CONSTRAINT Constr
POSTCONDITION Post
CHECK_DEADLOCK FALSE
