CONSTANT Variant = "ok"
INIT Init
NEXT Next
INVARIANT TypeOK
INVARIANT NeverRejected
INVARIANT EffLemma
INVARIANT SlotLemma
CHECK_DEADLOCK FALSE
