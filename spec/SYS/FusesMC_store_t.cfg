SPECIFICATION Spec
CONSTANTS Host = "ideal" CheckStatus = TRUE Verify = FALSE Iwl2 = "user" StoreInsteadOfOr = TRUE Quiet = FALSE MaxCalls = 2 MaxFaults = 2
PROPERTY Monotone
CHECK_DEADLOCK FALSE
