------------------------------- MODULE Dk6Dev -------------------------------
(* Reference model of the DK6 ISP device (K32W0x1 / JN518x / QN9090 boot ROM), the party SPSDK cannot change.                       *)
(* Sources: the frame and command tables of the ISP protocol (flash-programmer guide JN-UG-3099 that docs/apps/dk6prog.rst names;    *)
(* the command / response / status tables reproduced in spsdk/dk6/commands.py), the golden frames of tests/dk6 (anchors/SYS/dk6).   *)
(*                                                                                                                                    *)
(*   frame   = flag(1) = 0 | length(2, big endian, the whole frame) | type(1) | payload | CRC-32(4, big endian, over all before)      *)
(*   pairing = every request frame is answered by exactly one response frame of type request + 1; response payload[1] = status        *)
(*   memory  = open(memory id, access) -> handle 0; read / write / erase / blank check go through the open handle; close(handle)      *)
(*   unlock  = mode 0: only "get device info" works afterwards; mode 1 + 16-byte key: everything                                      *)
(* Numbers >= 2^31 never appear as integers: 32-bit fields are little-endian byte quadruples, the CRC is a pair of 16-bit halves.     *)
(* Not settled by anything available offline, fixed here as modelling decisions and kept OUT of what the contract asserts:            *)
(*   - the status of a close without an open handle (here 0xF0, marked "soft": it never counts against a call);                       *)
(*   - opening while a handle is open (here: the new open replaces the old);                                                          *)
(*   - access-mode semantics of open (any mode is accepted), alignment rules of erase / write (none), the status of a failed          *)
(*     blank check (here 0xF8), unlock modes 0x7F / 0x80 (answered NOT_SUPPORTED).                                                    *)
EXTENDS Integers, Sequences, Bitwise
\* ------------------------------------------------------------------ CRC-32/ISO-HDLC (reveng catalogue: poly 04C11DB7 reflected, init / xorout FFFFFFFF)
PolyHi == 60856  \* 0xEDB8
PolyLo == 33568  \* 0x8320
Shr1(r) == <<r[1] \div 2, (r[2] \div 2) + 32768 * (r[1] % 2)>>
CrcBit(r) == IF r[2] % 2 = 1 THEN <<Shr1(r)[1] ^^ PolyHi, Shr1(r)[2] ^^ PolyLo>> ELSE Shr1(r)
CrcEnt(i) == LET S[k \in 0..8] == IF k = 0 THEN <<0, i>> ELSE CrcBit(S[k - 1]) IN S[8]
CrcTab == [i \in 0..255 |-> CrcEnt(i)]
CrcStep(r, b) == LET e == CrcTab[(r[2] % 256) ^^ b] IN <<(r[1] \div 256) ^^ e[1], ((r[2] \div 256) + 256 * (r[1] % 256)) ^^ e[2]>>
RECURSIVE CrcRun(_, _, _)
CrcRun(r, m, j) == IF j > Len(m) THEN r ELSE CrcRun(CrcStep(r, m[j]), m, j + 1)
Crc32(m) == LET r == CrcRun(<<65535, 65535>>, m, 1)
                h == 65535 - r[1]
                w == 65535 - r[2]
            IN <<h \div 256, h % 256, w \div 256, w % 256>>              \* the four CRC bytes as they travel (big endian)
\* ------------------------------------------------------------------ frame grammar
HeaderSize == 8
Frame(type, payload) == LET body == <<0, (Len(payload) + HeaderSize) \div 256, (Len(payload) + HeaderSize) % 256, type>> \o payload IN body \o Crc32(body)
WellFormed(f) == /\ Len(f) >= HeaderSize /\ f[1] = 0 /\ f[2] * 256 + f[3] = Len(f)
                 /\ SubSeq(f, Len(f) - 3, Len(f)) = Crc32(SubSeq(f, 1, Len(f) - 4))
FType(f) == f[4]
FPayload(f) == SubSeq(f, 5, Len(f) - 4)
\* ------------------------------------------------------------------ numbers on the wire
Big == 2147483647                                                             \* stands for every value >= 2^31 (outside every memory)
LE32(p, i) == IF p[i + 3] >= 128 THEN Big ELSE p[i] + 256 * p[i + 1] + 65536 * p[i + 2] + 16777216 * p[i + 3]
ToLE32(v) == <<v % 256, (v \div 256) % 256, (v \div 65536) % 256, (v \div 16777216) % 256>>
\* ------------------------------------------------------------------ command / response / status tables
CReset == 20  CExecute == 33  CSetBaud == 39  CChipId == 50  COpen == 64  CErase == 66  CBlank == 68  CRead == 70  CWrite == 72  CClose == 74  CInfo == 76  CUnlock == 78
SOk == 0  SInvalidMode == 239  SBadState == 240  STooLong == 241  SOutOfRange == 242  SMemInvalid == 245  SAuth == 247  SNotBlank == 248  SNotSupported == 255
DefaultKey == <<17, 34, 51, 68, 85, 102, 119, 136, 17, 34, 51, 68, 85, 102, 119, 136>>
MaxLen == 512                                                                  \* the device's data buffer: one read / write moves at most this many bytes
\* ------------------------------------------------------------------ the memories
\* tab: function memory id -> [base, len, sector, type, access, name (bytes)];  bg: what a byte nobody wrote reads as;
\* log: the writes / erases so far, latest last: [k |-> "w" | "e", m, a, n, d]
Bg(m, a) == (a + 37 * m + (a \div 256)) % 256
RECURSIVE ValAt(_, _, _, _, _)
ValAt(log, k, m, a, er) == IF k = 0 THEN Bg(m, a)
                           ELSE IF log[k].m = m /\ a >= log[k].a /\ a < log[k].a + log[k].n THEN (IF log[k].k = "w" THEN log[k].d[a - log[k].a + 1] ELSE er)
                           ELSE ValAt(log, k - 1, m, a, er)
Val(log, m, a, er) == ValAt(log, Len(log), m, a, er)
Content(log, m, a, n, er) == [i \in 1..n |-> Val(log, m, a + i - 1, er)] \o <<>>
InRange(tab, m, a, n) == m \in DOMAIN tab /\ a # Big /\ n # Big /\ a >= tab[m].base /\ a - tab[m].base <= tab[m].len /\ n <= tab[m].len - (a - tab[m].base)
\* ------------------------------------------------------------------ the device: state [lvl, open, hmem] + log; one reaction per request frame
\* -> [rt: response type, pl: response payload, d: next state, log: next log, soft: status does not count, w: <<address, length>> of an accepted write or <<>>]
Re(rt, pl, d, log, soft, w) == [rt |-> rt, pl |-> pl, d |-> d, log |-> log, soft |-> soft, w |-> w]
Say(t, st, d, log) == Re(t + 1, <<st>>, d, log, FALSE, <<>>)
AccessHdr(p) == [h |-> p[1], mode |-> p[2], a |-> LE32(p, 3), n |-> LE32(p, 7)]
React(C, d, log, t, p) ==                                                      \* C: the device's constants [tab, chip (8 bytes), erased]
  IF t = CUnlock THEN
       IF Len(p) = 1 /\ p[1] = 0 THEN Say(t, SOk, [d EXCEPT !.lvl = IF d.lvl < 1 THEN 1 ELSE d.lvl], log)
       ELSE IF Len(p) = 17 /\ p[1] = 1 THEN (IF SubSeq(p, 2, 17) = DefaultKey THEN Say(t, SOk, [d EXCEPT !.lvl = 2], log) ELSE Say(t, SAuth, d, log))
       ELSE Say(t, SNotSupported, d, log)
  ELSE IF t = CChipId THEN
       IF d.lvl < 1 THEN Say(t, SAuth, d, log) ELSE IF Len(p) # 0 THEN Say(t, SNotSupported, d, log) ELSE Re(t + 1, <<SOk>> \o C.chip, d, log, FALSE, <<>>)
  ELSE IF t \notin {CReset, COpen, CErase, CBlank, CRead, CWrite, CClose, CInfo, CSetBaud} THEN Say(t, SNotSupported, d, log)
  ELSE IF d.lvl < 2 THEN Say(t, SAuth, d, log)
  ELSE IF t = CReset THEN (IF Len(p) # 0 THEN Say(t, SNotSupported, d, log) ELSE Say(t, SOk, [lvl |-> 0, open |-> FALSE, hmem |-> 0], log))
  ELSE IF t = CSetBaud THEN (IF Len(p) # 5 THEN Say(t, SNotSupported, d, log) ELSE Say(t, SOk, d, log))
  ELSE IF t = CInfo THEN
       IF Len(p) # 1 THEN Say(t, SNotSupported, d, log)
       ELSE IF p[1] \notin DOMAIN C.tab THEN Re(t + 1, <<SMemInvalid>>, d, log, TRUE, <<>>)          \* "no such memory" is an answer, not a failure
       ELSE LET m == C.tab[p[1]] IN Re(t + 1, <<SOk, p[1]>> \o ToLE32(m.base) \o ToLE32(m.len) \o ToLE32(m.sector) \o <<m.type, m.access>> \o m.name, d, log, FALSE, <<>>)
  ELSE IF t = COpen THEN
       IF Len(p) # 2 THEN Say(t, SNotSupported, d, log)
       ELSE IF p[1] \notin DOMAIN C.tab THEN Say(t, SMemInvalid, d, log)
       ELSE Re(t + 1, <<SOk, 0>>, [d EXCEPT !.open = TRUE, !.hmem = p[1]], log, FALSE, <<>>)
  ELSE IF t = CClose THEN
       IF Len(p) # 1 THEN Say(t, SNotSupported, d, log)
       ELSE IF d.open /\ p[1] = 0 THEN Say(t, SOk, [d EXCEPT !.open = FALSE], log)
       ELSE Re(t + 1, <<SBadState>>, d, log, TRUE, <<>>)
  ELSE \* CRead, CWrite, CErase, CBlank: handle, mode, address, length [, data]
       IF Len(p) < 10 \/ (t # CWrite /\ Len(p) # 10) THEN Say(t, SNotSupported, d, log)
       ELSE LET h == AccessHdr(p) IN
            IF ~d.open \/ h.h # 0 THEN Say(t, SBadState, d, log)
            ELSE IF h.mode # 0 THEN Say(t, SInvalidMode, d, log)
            ELSE IF t \in {CRead, CWrite} /\ (h.n = Big \/ h.n > MaxLen) THEN Say(t, STooLong, d, log)
            ELSE IF ~InRange(C.tab, d.hmem, h.a, h.n) THEN Say(t, SOutOfRange, d, log)
            ELSE IF t = CRead THEN Re(t + 1, <<SOk>> \o Content(log, d.hmem, h.a, h.n, C.erased), d, log, FALSE, <<>>)
            ELSE IF t = CWrite THEN
                 IF Len(p) - 10 # h.n THEN Say(t, SNotSupported, d, log)
                 ELSE Re(t + 1, <<SOk>>, d, Append(log, [k |-> "w", m |-> d.hmem, a |-> h.a, n |-> h.n, d |-> SubSeq(p, 11, Len(p))]), FALSE, <<h.a, h.n>>)
            ELSE IF t = CErase THEN Re(t + 1, <<SOk>>, d, Append(log, [k |-> "e", m |-> d.hmem, a |-> h.a, n |-> h.n, d |-> <<>>]), FALSE, <<>>)
            ELSE IF \A i \in 0..(h.n - 1) : Val(log, d.hmem, h.a + i, C.erased) = C.erased THEN Say(t, SOk, d, log) ELSE Say(t, SNotBlank, d, log)
=============================================================================
