CONSTANTS MaxSecs = 1
 MaxCmds = 1
 MaxPay = 1
 Writer = "ideal"
 Strict = TRUE
 Reader = "as_built"
INIT Init
NEXT Next
INVARIANT TamperShortCount
CHECK_DEADLOCK FALSE
