SPECIFICATION Spec
CONSTANTS MaxChunks = 2  MaxFaults = 1  MaxCalls = 2  Host = "built"
INVARIANT NoFalseSuccess
CHECK_DEADLOCK FALSE
