SPECIFICATION Spec
CONSTANTS N = 3  MaxFaults = 2  Flush = FALSE  MatchEcho = TRUE
INVARIANT AsSent
INVARIANT NoFalseSuccess
CHECK_DEADLOCK FALSE
