----------------------------- MODULE SignedMsgGen -----------------------------
(* GEN form of the signed-message lane: TLC enumerates the abstract cases the harness has to execute on the real code.                  *)
(*   kind   command (return life cycle / write secure fuse / key store reprovisioning / key exchange / key import / debug authentication) *)
(*   cver   container format of the family (1: tag 0x89 version 0, SHA-256 SRK hash; 2: version 2, SRK table array)                      *)
(*   kt     key type of the SRK set            route  api (message object built by its constructor) / cfg (load_from_config) / cli        *)
(*   enc    an IV is supplied (descriptor flag) cls    value class of the numeric fields: typ / zero / top (largest that fits) /           *)
(*                                                     over (one field one beyond its width - the export has to be refused)               *)
(*   used, revoke   selected SRK and revocation mask   uuid16  128-bit unique id (version 2)   n  fuse words   wrap  1 RFC 3394 / 2 CBC   *)
(* One initial state per case; the case is printed as JSON.  MC_FULL=1 (thorough tier) lifts the pairing restrictions.                   *)
EXTENDS Integers, Sequences, FiniteSets, TLC, Json, IOUtils
Full == IF "MC_FULL" \in DOMAIN IOEnv THEN IOEnv.MC_FULL = "1" ELSE FALSE
Kinds == {"rlc", "fuse", "ksr", "kex", "kimp", "dat"}
Kts == {"ecc256", "ecc384", "ecc521", "rsa2048", "rsa3072", "rsa4096"}
Pow2(i) == IF i = 0 THEN 1 ELSE IF i = 1 THEN 2 ELSE IF i = 2 THEN 4 ELSE 8
Revoked(used, mask) == (mask \div Pow2(used)) % 2 = 1
Plain(c) == c.kt = "ecc256" /\ c.used = 0 /\ c.revoke = 0
Routes == {"api", "cfg", "cli"}
Classes == {"typ", "zero", "top", "over"}
(* the plain container (ECC P-256, SRK 0, nothing revoked): every command x format x route x value class ... *)
PlainCases ==
  { c \in [kind : Kinds, cver : {1, 2}, kt : {"ecc256"}, route : Routes, enc : BOOLEAN, cls : Classes, used : {0}, revoke : {0}, uuid16 : BOOLEAN, n : 1..3,
           wrap : {1, 2}] :
      /\ (c.n # 1 => c.kind = "fuse") /\ (c.wrap = 2 => c.kind = "kimp") /\ (c.uuid16 => c.cver = 2)
      /\ (c.enc => c.route = "api" \/ (c.route = "cfg" /\ c.kind = "rlc" /\ c.cls = "typ"))          \* cfg: the IV file of the configuration
      /\ (~Full /\ c.route = "cli" => c.cls \in {"typ", "over"} /\ ~c.uuid16 /\ c.n = 1)
      /\ (~Full /\ c.uuid16 => c.kind \in {"rlc", "fuse", "kimp"} /\ c.cls = "typ")
      /\ (~Full /\ c.n # 1 => c.cls \in {"typ", "top"})
      /\ (~Full /\ c.wrap = 2 => c.cls = "typ") }
(* ... the other key types and the SRK selection x revocation pairs on the plainest message *)
KeyCases ==
  { c \in [kind : {"rlc"}, cver : {1, 2}, kt : Kts, route : {"cfg"}, enc : {FALSE}, cls : {"typ"}, used : 0..3, revoke : {0, 1, 2, 4, 8, 15}, uuid16 : {FALSE},
           n : {1}, wrap : {1}] :
      /\ ~Plain(c) /\ (c.kt # "ecc256" => c.used = 0 /\ c.revoke = 0)
      /\ (c.used # 0 \/ c.revoke # 0 => c.cver = 1 \/ Full) }
Cases == PlainCases \cup KeyCases
VARIABLE cs
Init == cs \in Cases /\ PrintT(ToJson(cs))
Next == UNCHANGED cs
(* lemmas over the case space (checked as ASSUME when the module is loaded) *)
ASSUME \A k \in Kinds : \A v \in {1, 2} : \A r \in {"api", "cfg", "cli"} : \E c \in Cases : c.kind = k /\ c.cver = v /\ c.route = r /\ c.cls = "over"
ASSUME \A t \in Kts : \A v \in {1, 2} : \E c \in Cases : c.kt = t /\ c.cver = v
ASSUME \A u \in 0..3 : \E c \in Cases : c.used = u /\ Revoked(u, c.revoke)
=============================================================================
