------------------------------- MODULE SbxRom -------------------------------
(* Reference model of the SB-X loader (the SB 3.1 relative of MC56F818xx / MWCT2xD2) and of the contract of one DevHSM run, written to be bound.   *)
(*                                                                                                                                                *)
(*   file    = header(56) || TP HSM blob(52) || H(block 1)(32) || signature(32 | 64)  ||  block 1 .. block n                                       *)
(*             \_____________ block 0, `totalLen` = 140 + signature bytes ___________/                                                              *)
(*   header  = "sbvx", minor 0, major 1, flags, block count, block size 292, timestamp (64 bit), firmware version, totalLen, image type,            *)
(*             description(16)                       (golden header of tests/sbfile/sbx: anchors/SYS/sbx/golden.json)                                *)
(*   block i = number(4) || H(block i+1) (zero in the last one) || 256-byte chunk i   - AES-128-CBC, zero IV, key_i = KDF(KDF(session, ts), i)       *)
(*   chunks  = section header(16) || commands of the SB 3.1 command format, zero padded to 256                                                      *)
(*   image type 2 (OEM_PROVISIONING): signature = MAC by the device; 1 / 3 (NXP_PROVISIONING / OEM): ECDSA P-256 by the image signing key           *)
(*                                                                                                                                                *)
(* inp.mode = "devhsm": the container `nxpdevhsm generate` produced against the device twin - everything is demanded.                               *)
(* inp.mode = "plain" : the form SecureBinaryX.export() produces off line (`signature kept blank`, chunks not encrypted: only a device can do        *)
(*                      both): the loader of this mode holds no key, demands the blank signature field of the declared length and the blob it was    *)
(*                      given, and everything else as above.                                                                                        *)
(* One action per loader step; every action takes the event the independent executor (harness/lib/sbx_ref.walk) logged and RECOMPUTES every offset;   *)
(* every demand is a NAMED clause C("Name", p): inp.waive lists clauses that are switched off - used only to carry a trace that was already           *)
(* rejected past its first deviation (diagnosis: which clause, and is there another one behind it), and for tampered files ("= input" clauses).       *)
EXTENDS SbxDev
VARIABLES st, inp, h, ts, b0Len, covTo, blk, secLen, cur, ncmd
rvars == <<st, inp, h, ts, b0Len, covTo, blk, secLen, cur, ncmd>>
HDRLEN == 56
BLOCKSZ == 4 + 32 + CHUNK
NoHeader == [blockCount |-> 0, totalLen |-> 0, fileLen |-> 0, imageType |-> 0]
Waived(c) == \E i \in 1..Len(inp.waive) : inp.waive[i] = c
C(c, p) == Waived(c) \/ p
Dev == inp.mode = "devhsm"
RInit(i) == /\ st = (IF i.mode = "devhsm" THEN "Exchange" ELSE "Header") /\ inp = i /\ h = NoHeader /\ ts = <<0, 0, 0, 0>> /\ b0Len = 0 /\ covTo = 0
            /\ blk = 0 /\ secLen = 0 /\ cur = 0 /\ ncmd = 0
Keep == UNCHANGED <<inp, h, ts, b0Len, covTo, blk, secLen, cur, ncmd>>

\* ------------------------------------------------------------ the contract of one DevHSM run (host || device)
\* e = what `DevHsmSBx.create_sb` / `nxpdevhsm generate` ended with: kind "ret" (a container was returned / written) or "exc"
Nums == [k \in 1..Len(encs) |-> encs[k].num]
Result(e) ==
  /\ st = "Exchange"
  /\ C("Documented", e.kind = "exc" => e.documented)                                 \* failures surface as SPSDK errors
  /\ C("Mirror", nfault = 0 /\ nbusy = 0 => e.kind = "ret" /\ nfail = 0)               \* without a fault of the scenario the run succeeds and the device had
                                                                                     \* nothing to refuse (a refusal would be the host's doing)
  /\ e.kind = "ret" =>
       /\ C("NoFalseSuccess", nfail = 0)                                             \* no command the device refused is passed over
       /\ C("EveryBlockOnce", Nums = [k \in 1..Len(encs) |-> k])                     \* blocks 1 .. n, each once, in order
       /\ C("SignedLast", inp.type = 2 => Len(signs) = 1 /\ signedAt = Len(encs))    \* the device signs once, after the last block went through
       /\ C("NotSignedByDevice", inp.type # 2 => Len(signs) = 0)                      \* ISK-signed types are signed by the host's signature provider
       /\ C("ResetsAsRequested", /\ (inp.resets.init => firstDev = "Reset")
                                 /\ (inp.resets.final = (lastDev = "Reset")))
  /\ st' = (IF e.kind = "ret" THEN "Header" ELSE "End")
  /\ Keep
\* the oem share input of the session is the caller's (checked where the session is made, so that a reset afterwards does not hide it)
CreateSessionBound(e) == C("SeedIsInput", e.status = 0 => e.seedSha = inp.seedSha)

\* ------------------------------------------------------------ header
ParseHeader(e) ==
  /\ st = "Header"
  /\ C("Magic", e.magicOk) /\ C("Version", e.major = 1 /\ e.minor = 0)
  /\ C("BlockSize", e.blockSize = BLOCKSZ)
  /\ C("BlockCount", e.blockCount >= 1) /\ e.fileLen >= HDRLEN
  /\ h' = [blockCount |-> e.blockCount, totalLen |-> e.totalLen, fileLen |-> e.fileLen, imageType |-> 0]
  /\ st' = "HeaderFields"
  /\ UNCHANGED <<inp, ts, b0Len, covTo, blk, secLen, cur, ncmd>>

\* the informative fields are the ones supplied; in a DevHSM run the header handed to the device with every block is this header
Handed(k) == encs[k].hdr
HeaderFields(e) ==
  /\ st = "HeaderFields"
  /\ C("ImageTypeKnown", e.imageType \in 1..3)
  /\ C("TypeAsSupplied", e.imageType = inp.type)
  /\ C("FlagsAsSupplied", e.flags = inp.flags)
  /\ C("FwAsSupplied", e.fw = inp.fw)
  /\ C("TsAsSupplied", inp.tsGiven => e.ts = inp.ts)
  /\ C("DescAsSupplied", e.desc = DescField(inp.desc))                              \* 16 bytes, truncated / zero padded
  /\ C("HandedHeaderFields", Dev => \A k \in 1..Len(encs) :
         /\ Handed(k).flags = e.flags /\ Handed(k).fw = e.fw /\ Handed(k).ts = e.ts /\ Handed(k).imageType = e.imageType /\ Handed(k).desc = e.desc
         /\ Handed(k).major = 1 /\ Handed(k).minor = 0 /\ Handed(k).blockSize = BLOCKSZ /\ Handed(k).totalLen = h.totalLen)
  /\ C("HandedBlockCount", Dev => \A k \in 1..Len(encs) : Handed(k).blockCount = h.blockCount)   \* "all other fields should be valid"
  /\ ts' = e.ts /\ h' = [h EXCEPT !.imageType = e.imageType] /\ st' = "Layout"
  /\ UNCHANGED <<inp, b0Len, covTo, blk, secLen, cur, ncmd>>

\* block 0 is as long as the header says and as its image type implies; nothing lies behind the last block
Layout(e) ==
  /\ st = "Layout" /\ e.fileLen = h.fileLen /\ h.blockCount <= h.fileLen \div BLOCKSZ
  /\ e.sigLen = SigLen(h.imageType)
  /\ C("Block0Len", h.totalLen = MANLEN + SigLen(h.imageType))
  /\ C("FileLen", h.fileLen = h.totalLen + h.blockCount * BLOCKSZ)
  /\ e.ok = (h.totalLen = MANLEN + SigLen(h.imageType) /\ h.fileLen = h.totalLen + h.blockCount * BLOCKSZ)
  /\ b0Len' = h.fileLen - h.blockCount * BLOCKSZ /\ b0Len' >= MANLEN
  /\ st' = "Blob"
  /\ UNCHANGED <<inp, h, ts, covTo, blk, secLen, cur, ncmd>>

\* TP HSM blob: version 1, type 0, size 52, MAC of the device; it is the blob of THIS session (plain mode: the blob the builder was given)
Blob(e) ==
  /\ st = "Blob" /\ e.at = HDRLEN
  /\ C("BlobHeader", e.version = 1 /\ e.type = 0 /\ e.size = BLOBLEN)
  /\ C("BlobMac", Dev => e.macOk)
  /\ C("BlobOfSession", Dev => \A k \in 1..Len(encs) : encs[k].blobSha = e.sha)
  /\ C("BlobAsSupplied", ~Dev => e.asSupplied)
  /\ st' = "Block0"
  /\ Keep

\* ONE signature over header || blob || H(block 1) - the anchor of the hash chain; block 0 ends with it
VerifyBlock0(e) ==
  /\ st = "Block0" /\ e.frm = 0 /\ e.to = MANLEN /\ e.sigAt = MANLEN /\ e.sigLen = b0Len - MANLEN /\ e.end = b0Len
  /\ C("Signature", Dev => e.ok)
  /\ C("SignatureBlank", ~Dev => e.sigZero)
  /\ covTo' = b0Len /\ blk' = 1
  /\ st' = IF Dev THEN "Kdk" ELSE "Chain"
  /\ UNCHANGED <<inp, h, ts, b0Len, secLen, cur, ncmd>>

KdfOk(f, const, mode) == /\ f.const = const /\ f.rightsByte = 0 /\ f.modeByte = mode /\ f.keyBits = 128 /\ f.opt = 32 /\ f.iters = 1
DeriveKdk(e) ==
  /\ st = "Kdk" /\ KdfOk(e, <<0, 0>> \o ts, 1)                                        \* constant = the header's timestamp
  /\ st' = "Chain"
  /\ Keep

Block(e) ==
  /\ st = "Chain" /\ blk <= h.blockCount
  /\ e.i = blk /\ e.at = covTo /\ e.at = b0Len + (blk - 1) * BLOCKSZ
  /\ C("BlockNumber", e.num = blk)
  /\ C("ChainHash", e.hashOk)                                                         \* H(whole block) = hash carried by the predecessor
  /\ e.last = (blk = h.blockCount)
  /\ C("ChainEndsZero", e.last => e.nextZero)
  /\ e.enc = Dev /\ e.cipherAt = e.at + 4 + 32 /\ e.cipherLen = CHUNK
  /\ (Dev => KdfOk(e.kdf, <<0, 0, 0, 0>> \o LenW(blk), 16) /\ e.ivZero)
  /\ C("CipherOfDevice", Dev => blk <= Len(encs) /\ encs[blk].cipherSha = e.cipherSha)   \* the chunk is what the device handed back for this block
  /\ covTo' = e.at + BLOCKSZ /\ blk' = blk + 1
  /\ st' = IF blk = h.blockCount THEN "Section" ELSE "Chain"
  /\ UNCHANGED <<inp, h, ts, b0Len, secLen, cur, ncmd>>

Section(e) ==
  /\ st = "Section"
  /\ C("SectionHeader", e.uid = 1 /\ e.type = 1)
  /\ e.streamLen = CHUNK * h.blockCount
  /\ C("SectionLen", e.len <= e.streamLen - 16 /\ e.streamLen - 16 - e.len < CHUNK)       \* the section ends in the last block
  /\ C("EveryBlockFromDevice", Dev => Len(encs) = h.blockCount)
  /\ secLen' = e.len /\ cur' = 16 /\ st' = "Cmd"
  /\ UNCHANGED <<inp, h, ts, b0Len, covTo, blk, ncmd>>

Cmd(e) ==
  /\ st = "Cmd" /\ cur < 16 + secLen
  /\ e.i = ncmd + 1 /\ e.at = cur /\ e.tagOk /\ e.cmd \in 1..14
  /\ (e.cmd \in DataCmds => e.w2[1] \in 0..4095 /\ e.w2[2] \in 0..65535)
  /\ e.hasX = HasX(e.cmd) /\ e.dataLen = DataLenOf(e.cmd, e.w2) /\ e.tail = TailLen(e.cmd)
  /\ e.size = Size(e.cmd, e.dataLen) /\ cur + e.size <= 16 + secLen
  /\ C("CmdAsSupplied", /\ e.i <= Len(inp.cmds)
                        /\ LET c == inp.cmds[e.i] IN
                             /\ e.cmd = c.t /\ e.w1 = WireW1(c) /\ e.w2 = WireW2(c) /\ e.x = WireX(c)
                             /\ e.dataLen = c.dlen /\ e.dsha = c.dsha)
  /\ C("CmdPadding", e.dataPadZero /\ (e.tail > 0 => e.tailZero))
  /\ cur' = cur + e.size /\ ncmd' = ncmd + 1
  /\ UNCHANGED <<st, inp, h, ts, b0Len, covTo, blk, secLen>>

Accept(e) ==
  /\ st = "Cmd" /\ cur = 16 + secLen /\ e.end = cur
  /\ C("AllCommands", ncmd = Len(inp.cmds)) /\ e.nCmds = ncmd
  /\ C("Coverage", covTo = h.fileLen) /\ e.covEnd = covTo
  /\ st' = "Accepted"
  /\ Keep

\* SPSDK reads its own header back (SecureBinaryXHeader.parse on the exported bytes): same fields, valid, and it exports the same 56 bytes
ParseBack(e) ==
  /\ st = "Accepted"
  /\ C("ParsedDocumented", e.kind = "exc" => e.documented)
  /\ C("ParsedFields", e.kind = "ret" /\ e.fields.blockCount = h.blockCount /\ e.fields.totalLen = h.totalLen /\ e.fields.imageType = h.imageType
                       /\ e.fields.ts = ts /\ e.fields.fw = inp.fw /\ e.fields.flags = inp.flags)
  /\ C("ParsedValid", e.validOk)
  /\ C("ParsedReexport", e.reexportSame)
  /\ st' = "Read"
  /\ Keep

\* the next run on the same device (and, on the API route, the same DevHsmSBx object): the device keeps its buffer and its session, the run-level
\* records start over
\* the end of a run: the container was walked to Accept (or the call ended with an error)
Fin(e) == st \in {"Accepted", "Read", "End"} /\ st' = "Fin" /\ Keep
NextRun(e) ==
  /\ st = "Fin" /\ Dev
  /\ st' = "Exchange" /\ h' = NoHeader /\ ts' = <<0, 0, 0, 0>> /\ b0Len' = 0 /\ covTo' = 0 /\ blk' = 0 /\ secLen' = 0 /\ cur' = 0 /\ ncmd' = 0
  /\ encs' = << >> /\ signs' = << >> /\ nfail' = 0 /\ nfault' = 0 /\ nbusy' = 0 /\ ndev' = 0 /\ firstDev' = "none" /\ lastDev' = "none" /\ signedAt' = 0 - 1
  /\ UNCHANGED <<inp, dmem, sess>>

RomStep(e) == CASE e.ev = "ParseHeader"  -> ParseHeader(e)
                [] e.ev = "HeaderFields" -> HeaderFields(e)
                [] e.ev = "Layout"       -> Layout(e)
                [] e.ev = "Blob"         -> Blob(e)
                [] e.ev = "VerifyBlock0" -> VerifyBlock0(e)
                [] e.ev = "DeriveKdk"    -> DeriveKdk(e)
                [] e.ev = "Block"        -> Block(e)
                [] e.ev = "Section"      -> Section(e)
                [] e.ev = "Cmd"          -> Cmd(e)
                [] e.ev = "Accept"       -> Accept(e)
                [] e.ev = "ParseBack"    -> ParseBack(e)
                [] e.ev = "Result"       -> Result(e)
                [] e.ev = "Fin"          -> Fin(e)
                [] OTHER                 -> FALSE
DevStep(e) == /\ st = "Exchange"
              /\ CASE e.ev = "Reset"         -> DevReset(e)
                   [] e.ev = "Write"         -> DevWrite(e)
                   [] e.ev = "Read"          -> DevRead(e)
                   [] e.ev = "CreateSession" -> DevCreateSession(e) /\ CreateSessionBound(e)
                   [] e.ev = "EncBlk"        -> DevEncBlk(e)
                   [] e.ev = "Sign"          -> DevSign(e)
                   [] e.ev = "Other"         -> DevOther(e)
                   [] OTHER                  -> FALSE
DevEvents == {"Reset", "Write", "Read", "CreateSession", "EncBlk", "Sign", "Other"}
Step(e) == IF e.ev = "NextRun" THEN NextRun(e)
           ELSE IF e.ev \in DevEvents THEN DevStep(e) /\ UNCHANGED rvars ELSE RomStep(e) /\ UNCHANGED dvars
=============================================================================
