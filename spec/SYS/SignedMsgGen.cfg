INIT Init
NEXT Next
CHECK_DEADLOCK FALSE
