SPECIFICATION Spec
CONSTANTS NMsg = 3  MaxFaults = 3  CmdException = TRUE  SizeRule = "exact"  CrcRule = "raise"  DevFaults = {"short", "tag", "cmd", "version", "big", "corrupt"}
INVARIANT NoFalseSuccess
INVARIANT ExecutedAtMostOnce
CHECK_DEADLOCK FALSE
