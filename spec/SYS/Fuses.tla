--------------------------- MODULE Fuses ---------------------------
(* REFERENCE model of what SPSDK cannot change: the one-time-programmable fuse array of the device.                                           *)
(*   - a word is the set of its one-bits; a program ORs (bits only ever go 0 -> 1); nothing ever clears a bit or a lock                      *)
(*   - a word is write-protected when its own write lock is set (a program that carries the lock flag sets it after programming; a word the  *)
(*     fuse map calls "implicit" sets it with every program), or when the lock fuse the fuse map names holds a bit of the word's write mask   *)
(*   - a word is read-protected when the lock fuse holds a bit of the word's read mask                                                       *)
(*   - a protected access and an access that fails in the device are answered with an error status and change nothing;                        *)
(*     Quiet: a ROM that answers SUCCESS to the program of a protected word (documented in mboot.efuse_program_once: "It may happen that ROM    *)
(*     will not report error when attempting to write into locked OTP")                                                                        *)
(* Command grammar of the two back ends (concrete numbers: FusesTrace.tla):                                                                   *)
(*   blhost  FlashProgramOnce(index | lock << 24, 4, data)   FlashReadOnce(index, 4)                                                           *)
(*   nxpele  WRITE_FUSE(bit position = 32 * index, bit length = 32, lock, data)   READ_COMMON_FUSE(index)                                      *)
EXTENDS Naturals, FiniteSets
CONSTANTS Words, Bits, NoLock,
          LockOf,        \* [Words -> [lk : Words \cup {NoLock}, wm : SUBSET Bits, rm : SUBSET Bits]]   the fuse map
          ImplicitWords, \* words that lock themselves with every program
          StoreInsteadOfOr,  \* FALSE in the reference; TRUE = the deliberately wrong device (refuted by Monotone)
          Quiet
VARIABLES otp, wl
dev == <<otp, wl>>
WProt(w) == w \in wl \/ (LockOf[w].lk # NoLock /\ (otp[LockOf[w].lk] \cap LockOf[w].wm) # {})
RProt(w) == LockOf[w].lk # NoLock /\ (otp[LockOf[w].lk] \cap LockOf[w].rm) # {}
\* the device executes a program; answered = the status the host sees
ProgramOk(w, fails) == ~fails /\ ~WProt(w)
ProgramAnswer(w, fails) == ProgramOk(w, fails) \/ (Quiet /\ ~fails)
DoProgram(w, v, lock, fails) ==
  IF ProgramOk(w, fails)
    THEN /\ otp' = [otp EXCEPT ![w] = IF StoreInsteadOfOr THEN v ELSE @ \cup v]
         /\ wl' = (IF lock \/ w \in ImplicitWords THEN wl \cup {w} ELSE wl)
    ELSE UNCHANGED dev
ReadOk(w, fails) == ~fails /\ ~RProt(w)
Monotone == [][\A w \in Words : otp[w] \subseteq otp'[w] /\ (w \in wl => w \in wl')]_dev
=============================================================================
