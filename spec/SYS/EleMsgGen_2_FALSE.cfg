CONSTANTS NMsg = 2  MaxFaults = 1  CmdException = FALSE  SizeRule = "exact"  CrcRule = "raise"  DevFaults = {"short", "tag", "cmd", "version", "big", "corrupt"}
INIT GInit
NEXT GNext
CHECK_DEADLOCK FALSE
