CONSTANT VARIANT = "uuid"
INIT Init
NEXT Next
INVARIANT GoodAccepted
INVARIANT TamperRejected
INVARIANT CoverageTotal
INVARIANT RoundTrip
CHECK_DEADLOCK FALSE
