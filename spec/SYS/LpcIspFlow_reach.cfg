SPECIFICATION Spec
CONSTANTS PrepareAgain = TRUE  DoUnlock = TRUE  MaxRefuse = 0
INVARIANT Reach
CHECK_DEADLOCK FALSE
