SPECIFICATION Spec
CONSTANTS MaxChunks = 3  MaxFaults = 2  MaxCalls = 3  Host = "ideal"
INVARIANT NoFalseSuccess
INVARIANT WrittenOnce
INVARIANT ClosedAfterwards
INVARIANT OpenBeforeAccess
INVARIANT Mirror
CHECK_DEADLOCK FALSE
