CONSTANTS MaxSecs = 2
 MaxCmds = 2
 MaxPay = 1
 Writer = "ideal"
 Strict = TRUE
 Reader = "reference"
INIT GenInit
NEXT GenNext
CHECK_DEADLOCK FALSE
