SPECIFICATION Spec
CONSTANTS Host = "ideal" CheckStatus = TRUE Verify = FALSE Iwl2 = "user" StoreInsteadOfOr = TRUE Quiet = FALSE MaxCalls = 1 MaxFaults = 1
PROPERTY Monotone
CHECK_DEADLOCK FALSE
