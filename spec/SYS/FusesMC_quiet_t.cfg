SPECIFICATION Spec
CONSTANTS Host = "ideal" CheckStatus = TRUE Verify = FALSE Iwl2 = "user" StoreInsteadOfOr = FALSE Quiet = TRUE MaxCalls = 2 MaxFaults = 2
INVARIANT NoFalseSuccess
CHECK_DEADLOCK FALSE
