SPECIFICATION Spec
CONSTANTS Variant = "no_reset"  MaxBlocks = 4  MaxRuns = 3  MaxFaults = 1
INVARIANT SecondRunNeedsReset
CHECK_DEADLOCK FALSE
