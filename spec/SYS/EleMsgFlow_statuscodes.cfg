SPECIFICATION Spec
CONSTANTS NMsg = 2  MaxFaults = 2  CmdException = FALSE  SizeRule = "exact"  CrcRule = "raise"  DevFaults = {"short", "tag", "cmd", "version", "big", "corrupt"}
INVARIANT NoFalseSuccess
CHECK_DEADLOCK FALSE
