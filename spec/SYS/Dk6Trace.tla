----------------------------- MODULE Dk6Trace -----------------------------
(* Trace form of the DK6 ISP model: the reference device of Dk6Dev.tla re-derived from the frames the real host code wrote, the faulty        *)
(* device-to-host link, and the contract of every DK6Device call.  A trace is one session on ONE DK6Device object:                           *)
(*   call, then per exchange  h2d (the request frame as the device received it) and d2h (the response frame as the device emitted it,          *)
(*   the fault that hit it, the bytes that reached the host), result.                                                                        *)
(* The device part is what the executable twin in harness/sys_dk6.py must do (a twin that departs is rejected: the spec is normative);        *)
(* the contract part is what the lane observes.  Every byte of every frame is recomputed here (length field, type pairing, payload, CRC-32). *)
(* Fault kinds on a response:  none | flip (one byte changed on the link) | trunc (the frame ends early) | drop (nothing arrives)             *)
(*   | type (a well-formed frame of another response type) | err (the device refuses: status E.st, nothing is carried out)                    *)
(*   | short (a read answers with fewer bytes than asked, status OK) | late (the whole frame arrives, but only after the host's time-out:    *)
(*   it is what the host finds first when it reads the next time).                                                                            *)
EXTENDS Dk6Dev, FiniteSets, TLC, Json, IOUtils
Traces == ndJsonDeserialize(IOEnv.TRACE_FILE)
VARIABLES tid, l,
          C,        \* the device's constants of this trace: [tab, chip, erased]
          call,     \* the call in flight or [op |-> "none"]
          d, log,   \* device state and memory log (Dk6Dev)
          pend,     \* the reaction to the request just received (its response is still to be emitted) or [k |-> "none"]
          strict,   \* a fault hit a response of this call
          allok,    \* every response the device emitted in this call said OK (soft statuses apart)
          stats,    \* <<request type, status>> of every exchange of this call the device carried out
          wlog,     \* <<address, length>> of every write the device accepted in this call
          clean,    \* the host had read everything the device sent when this call began
          openAt,   \* the handle was open when this call began (left behind by a failed call)
          reqs,     \* <<type, payload>> of every request frame of this call
          lastpl,   \* payload of the last response the device emitted
          lvlAt     \* unlock level when this call began
vars == <<tid, l, C, call, d, log, pend, strict, allok, stats, wlog, clean, openAt, reqs, lastpl, lvlAt>>
T == Traces[tid].ev
E == T[l]
Is(e) == l <= Len(T) /\ E.ev = e
Adv == l' = l + 1 /\ UNCHANGED <<tid, C>>
NoPend == [k |-> "none"]
MkTab(rows) == [m \in {rows[i].id : i \in 1..Len(rows)} |-> LET r == rows[CHOOSE i \in 1..Len(rows) : rows[i].id = m] IN
                  [base |-> r.base, len |-> r.len, sector |-> r.sector, type |-> r.type, access |-> r.access, name |-> r.name]]
Preset(rows) == [i \in 1..Len(rows) |-> [k |-> "w", m |-> rows[i].m, a |-> rows[i].a, n |-> Len(rows[i].d), d |-> rows[i].d]] \o <<>>
\* (dev.lvl = 2: a session that starts on an unlocked device whose memory table the host object was given; 0: a locked device, the session starts with init)
Init == /\ tid \in 1..Len(Traces) /\ l = 1 /\ call = [op |-> "none"]
        /\ C = [tab |-> MkTab(Traces[tid].dev.tab), chip |-> Traces[tid].dev.chip, erased |-> Traces[tid].dev.erased]
        /\ d = [lvl |-> Traces[tid].dev.lvl, open |-> FALSE, hmem |-> 0] /\ log = Preset(Traces[tid].dev.preset) /\ pend = NoPend
        /\ strict = FALSE /\ allok = TRUE /\ stats = <<>> /\ wlog = <<>> /\ clean = TRUE /\ openAt = FALSE /\ reqs = <<>> /\ lastpl = <<>> /\ lvlAt = 0 /\ TLCSet(tid, 1)
Call == /\ Is("call") /\ call.op = "none" /\ call' = E /\ strict' = FALSE /\ allok' = TRUE /\ stats' = <<>> /\ wlog' = <<>> /\ openAt' = d.open /\ reqs' = <<>> /\ lvlAt' = d.lvl
        /\ UNCHANGED <<d, log, pend, clean, lastpl>> /\ Adv
\* ---------------------------------------------------------------- a request frame reaches the device (host -> device is reliable)
H2d == /\ Is("h2d") /\ call.op # "none" /\ pend.k = "none"
       /\ WellFormed(E.b)                                                                      \* the host keeps to the frame grammar
       /\ pend' = [k |-> "resp", t |-> FType(E.b), r |-> React(C, d, log, FType(E.b), FPayload(E.b))]
       /\ reqs' = Append(reqs, <<FType(E.b), FPayload(E.b)>>)
       /\ UNCHANGED <<call, d, log, strict, allok, stats, wlog, clean, openAt, lastpl, lvlAt>> /\ Adv
\* ---------------------------------------------------------------- the device answers; the link may damage the answer
\* (r, pl, out are passed as arguments so that TLC evaluates the frame and its CRC once per event)
Emit(r, refuse, pl, out) ==
             /\ E.b = out                                                                      \* the twin emitted what the reference device emits
             /\ CASE E.fault \in {"none", "err", "short", "late"} -> E.got = out
                  [] E.fault = "flip"  -> Len(E.got) = Len(out) /\ E.fpos < Len(out) /\ \A i \in 1..Len(out) : (i = E.fpos + 1) # (E.got[i] = out[i])
                  [] E.fault = "trunc" -> E.fpos < Len(out) /\ E.got = SubSeq(out, 1, E.fpos)
                  [] E.fault = "drop"  -> E.got = <<>>
                  [] E.fault = "type"  -> E.ftype # r.rt /\ E.got = Frame(E.ftype, pl)
                  [] OTHER -> FALSE
             /\ d' = (IF refuse THEN d ELSE r.d) /\ log' = (IF refuse THEN log ELSE r.log)
             /\ strict' = (strict \/ (E.fault # "none" /\ ~(call.op = "proto" /\ E.fault \in {"err", "short"})))   \* (the protocol layer hands status and data on as they are)
             /\ lastpl' = pl
             /\ allok' = (allok /\ (pl[1] = SOk \/ (r.soft /\ ~refuse)))
             /\ stats' = Append(stats, <<pend.t, pl[1]>>)
             /\ wlog' = (IF ~refuse /\ r.w # <<>> THEN Append(wlog, r.w) ELSE wlog)
Pl(r) == IF E.fault = "err" THEN <<E.st>> ELSE IF E.fault = "short" THEN SubSeq(r.pl, 1, 1 + E.fpos) ELSE r.pl
D2h == /\ Is("d2h") /\ pend.k = "resp"
       /\ (E.fault = "err" => E.st \in 1..255 /\ pend.r.pl[1] = SOk)
       /\ (E.fault = "short" => pend.t = CRead /\ pend.r.pl[1] = SOk /\ E.fpos < Len(pend.r.pl) - 1)
       /\ Emit(pend.r, E.fault = "err", Pl(pend.r), Frame(pend.r.rt, Pl(pend.r)))
       /\ pend' = NoPend /\ UNCHANGED <<call, clean, openAt, reqs, lvlAt>> /\ Adv
\* ---------------------------------------------------------------- the contract of a call
MemOp == call.op \in {"read", "write", "erase"}
Abs == IF call.relative /\ call.mem \in DOMAIN C.tab THEN C.tab[call.mem].base + call.addr ELSE call.addr
Valid == IF MemOp THEN InRange(C.tab, call.mem, Abs, call.len) ELSE TRUE
Succ == E.kind = "ret"
Proto == call.op = "proto"
\* the request a call of the protocol layer stands for, field by field (little-endian numbers)
ProtoReq == CASE call.cmd \in {CRead, CErase, CBlank} -> <<call.h, call.mode>> \o ToLE32(call.addr) \o ToLE32(call.len)
              [] call.cmd = CWrite -> <<call.h, call.mode>> \o ToLE32(call.addr) \o ToLE32(call.len) \o call.data
              [] call.cmd = COpen -> <<call.mem, call.acc>>
              [] call.cmd = CClose -> <<call.h>>
              [] call.cmd = CInfo -> <<call.mem>>
              [] call.cmd = CUnlock -> <<call.mode>> \o call.data
              [] OTHER -> <<>>
\* what the typed response object must expose of the payload the device sent (status OK)
ProtoData(pl) == CASE call.cmd = CRead -> SubSeq(pl, 2, Len(pl))
                   [] call.cmd = CChipId -> SubSeq(pl, 2, 9)
                   [] call.cmd = CInfo -> SubSeq(pl, 2, 16)
                   [] call.cmd = COpen -> SubSeq(pl, 2, 2)
                   [] OTHER -> <<>>
RECURSIVE Chain(_, _, _)
Chain(w, k, a) == IF k > Len(w) THEN a ELSE IF w[k][1] = a THEN Chain(w, k + 1, a + w[k][2]) ELSE Big
HasStat(t, s) == \E i \in 1..Len(stats) : stats[i] = <<t, s>>
RECURSIVE AscRows(_, _, _)
AscRows(tab, S, acc) == IF S = {} THEN acc ELSE LET m == CHOOSE x \in S : \A y \in S : x <= y IN
                        AscRows(tab, S \ {m}, Append(acc, [id |-> m, base |-> tab[m].base, len |-> tab[m].len, sector |-> tab[m].sector,
                                                          type |-> tab[m].type, access |-> tab[m].access, name |-> tab[m].name]))
NoNames(rows) == [i \in 1..Len(rows) |-> [rows[i] EXCEPT !.name = <<>>]] \o <<>>
Names(rows) == [i \in 1..Len(rows) |-> rows[i].name] \o <<>>
TabSeq == AscRows(C.tab, DOMAIN C.tab, <<>>)
ConfigMem == 3
MacAddr == 654448    \* 0x9FC70
TypeAddr == 654432   \* 0x9FC60
KnownTypes == {5188, 5189, 9030, 9090, 32041, 32061}
DevType == LET v == LE32(Content(log, ConfigMem, TypeAddr, 4, C.erased), 1) IN IF v \in KnownTypes THEN v ELSE 0
MaxReads == 20000
Cl(name, holds) == IF holds THEN {} ELSE {name}
Broken ==
  Cl("Bounded", E.kind # "unbounded" /\ E.reads <= MaxReads)
  \cup Cl("Documented", E.kind = "exc" => E.documented)                              \* only SPSDK errors / time-outs are raised
  \cup Cl("Mirror", (clean /\ ~strict /\ (Proto \/ ~openAt) /\ Valid /\ (MemOp => call.via = "cli" \/ lvlAt = 2)) => Succ)       \* a fault-free valid call succeeds
  \cup Cl("ProtoRequest", Proto => reqs = << <<call.cmd, ProtoReq>> >>)              \* one request, every field as given
  \cup Cl("ProtoResponse", (Proto /\ Succ /\ ~strict) => /\ E.status = lastpl[1] /\ E.raw = lastpl     \* status and payload are the device's
                                                         /\ (lastpl[1] = SOk => E.data = ProtoData(lastpl)))
  \cup Cl("InvalidRejected", ~Valid => ~Succ)                                       \* a range outside the memory is not reported as done
  \cup Cl("StrictFaults", strict => ~Succ)                                          \* a damaged / missing / refused response ends the call in failure
  \cup Cl("StatusReported", (~allok /\ ~Proto) => ~Succ)                                        \* a status other than OK is not swallowed
  \cup Cl("ReadExact", (Succ /\ call.op = "read" /\ Valid) => E.data = Content(log, call.mem, Abs, call.len, C.erased))
  \cup Cl("WrittenOnce", (Succ /\ call.op = "write" /\ Valid) => /\ Chain(wlog, 1, Abs) = Abs + call.len
                                                               /\ Content(log, call.mem, Abs, call.len, C.erased) = call.data)
  \cup Cl("Erased", (Succ /\ call.op = "erase" /\ Valid) => /\ \A i \in 0..(call.len - 1) : Val(log, call.mem, Abs + i, C.erased) = C.erased
                                                          /\ HasStat(CErase, SOk) /\ (call.verify => HasStat(CBlank, SOk)))
  \cup Cl("HandleClosed", (Succ /\ call.op # "reset" /\ ~Proto) => ~d.open)                    \* the handle is closed afterwards
  \cup Cl("Paired", Succ => E.left = 0)                                             \* every response was read: nothing is left for the next call to trip over
  \cup Cl("ResetDone", (Succ /\ (call.op = "reset" \/ (call.op = "write" /\ call.via = "cli"))) => HasStat(CReset, SOk) /\ d.lvl = 0)
  \cup Cl("InitUnlocked", (Succ /\ call.op = "init") => d.lvl = 2)
  \cup Cl("InitChip", (Succ /\ call.op = "init" /\ call.via = "api") => E.view.chip = C.chip)
  \cup Cl("InitMemories", (Succ /\ call.op = "init" /\ call.via = "api") => NoNames(E.view.mems) = NoNames(TabSeq))
  \cup Cl("InitMac", (Succ /\ call.op = "init" /\ call.via = "api") => E.view.mac = Content(log, ConfigMem, MacAddr, 8, C.erased))
  \cup Cl("InitDevType", (Succ /\ call.op = "init" /\ call.via = "api") => E.view.devtype = DevType)
\* observations that do not end the validation of a session (the trace goes on after them)
Soft ==
  Cl("HandleLeftOpen", (~Succ /\ ~openAt /\ ~Proto) => ~d.open)                               \* a failed call does not leave the memory open
  \cup Cl("InitMemoryNames", (Succ /\ call.op = "init" /\ call.via = "api") => Names(E.view.mems) = Names(TabSeq))    \* the names are the device's
Result == /\ Is("result") /\ call.op # "none" /\ pend.k = "none"
          /\ IF Broken = {} THEN (IF Soft = {} THEN TRUE ELSE PrintT(<<"SOFT", Traces[tid].id, l, Soft>>))
             ELSE PrintT(<<"WHY", Traces[tid].id, l, Broken>>) /\ FALSE
          /\ call' = [op |-> "none"] /\ clean' = (E.left = 0)
          /\ UNCHANGED <<d, log, pend, strict, allok, stats, wlog, openAt, reqs, lastpl, lvlAt>> /\ Adv
Next == Call \/ H2d \/ D2h \/ Result
Constr == IF TLCGet(tid) < l THEN TLCSet(tid, l) ELSE TRUE
Post == /\ \A i \in 1..Len(Traces) : \/ TLCGet(i) - 1 = Len(Traces[i].ev)
             \/ PrintT(<<"REJ", Traces[i].id, TLCGet(i) - 1, Len(Traces[i].ev), Traces[i].ev[IF TLCGet(i) <= Len(Traces[i].ev) THEN TLCGet(i) ELSE Len(Traces[i].ev)].ev>>)
        /\ PrintT(<<"DONE", Len(Traces)>>)
=============================================================================
