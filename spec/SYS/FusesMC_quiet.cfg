SPECIFICATION Spec
CONSTANTS Host = "ideal" CheckStatus = TRUE Verify = FALSE Iwl2 = "user" StoreInsteadOfOr = FALSE Quiet = TRUE MaxCalls = 1 MaxFaults = 1
INVARIANT NoFalseSuccess
CHECK_DEADLOCK FALSE
