-------------------------------- MODULE Dk6 --------------------------------
(* Design model of the DK6 ISP protocol at frame granularity: reference device || device-to-host link that may damage a response || host.   *)
(* A session is a history of calls (read / write / erase a window of MaxChunks cells of one memory, reset); every call is                    *)
(*   open, one exchange per chunk (erase: erase + blank check), close - each exchange = Send (the device reacts at once), Fault?, Recv.       *)
(* Device (abstract Dk6Dev.tla): a handle that must be open for every access; a refused request changes nothing; a cell holds                *)
(*   0 (never touched), 1 (erased) or 10 * call + chunk (written).                                                                            *)
(* Faults: flip (bad CRC), drop (nothing arrives), type (well-formed frame of another type) on the link; err (the device refuses, status     *)
(*   other than OK) and short (a read answers with fewer bytes) at the device.                                                                *)
(* Hosts:  "ideal"   checks frame, type, status and length of every response, closes the handle on every way out;                            *)
(*         "built"   DK6Device as it is on the tree: the status is looked at for write / erase / blank check / reset only, the response     *)
(*                   type and the number of bytes read never, an error leaves through an exception without closing;                           *)
(*         "resend"  (deliberately wrong) the ideal host, but a write whose response did not arrive is sent again;                            *)
(*         "noclose" (deliberately wrong) the ideal host without the close on the error path.                                                 *)
EXTENDS Naturals, Sequences, FiniteSets, TLC
CONSTANTS MaxChunks, MaxFaults, MaxCalls, Host
VARIABLES calls,   \* calls begun
          api,     \* the call in flight [op, n] or NoApi
          hpc,     \* host: "open" | "xfer" | "blank" | "close" | "abort" | "reset" | "done"
          hi,      \* host: chunks done
          hsent,   \* host: the request of the current exchange is out (waiting for its response)
          hgot,    \* host: values read
          hres,    \* "none" | "ok" | "error"
          retried, \* host "resend": the current chunk was already sent twice
          wire,    \* the response in flight
          dopen,   \* device: handle open
          cells,   \* device: the window
          dwr,     \* device: chunks written in this call, in order of arrival
          bad,     \* device: an access arrived without an open handle
          nf,      \* faults so far
          hit,     \* a fault hit this call
          fhist,   \* [kind, at] of the faults (at = index of the exchange within its call)
          nx,      \* exchanges begun in this call
          hist,    \* operations completed successfully (GEN)
          crefused \* the device refused the close of this call (then nobody can close the handle)
vars == <<calls, api, hpc, hi, hsent, hgot, hres, retried, wire, dopen, cells, dwr, bad, nf, hit, fhist, nx, hist, crefused>>
NoApi == [op |-> "none", n |-> 0]
NoWire == [k |-> "none", st |-> "ok", crc |-> TRUE, ty |-> TRUE, full |-> TRUE, c |-> 0]
Ideal == Host \in {"ideal", "resend", "noclose"}
Init == /\ calls = 0 /\ api = NoApi /\ hpc = "done" /\ hi = 0 /\ hsent = FALSE /\ hgot = <<>> /\ hres = "none" /\ retried = FALSE /\ wire = NoWire
        /\ dopen = FALSE /\ cells = [i \in 1..MaxChunks |-> 0] /\ dwr = <<>> /\ bad = FALSE /\ nf = 0 /\ hit = FALSE /\ fhist = <<>> /\ nx = 0 /\ hist = <<>> /\ crefused = FALSE
Begin == /\ api.op = "none" /\ calls < MaxCalls /\ (hist # <<>> => hist[Len(hist)] # "reset")
         /\ \E op \in {"read", "write", "erase", "reset"}, n \in 1..MaxChunks :
              /\ (op \in {"erase", "reset"} => n = 1)
              /\ api' = [op |-> op, n |-> n] /\ hpc' = (IF op = "reset" THEN "reset" ELSE "open")
         /\ calls' = calls + 1 /\ hi' = 0 /\ hsent' = FALSE /\ hgot' = <<>> /\ hres' = "none" /\ retried' = FALSE /\ dwr' = <<>> /\ hit' = FALSE /\ nx' = 0 /\ crefused' = FALSE
         /\ UNCHANGED <<wire, dopen, cells, bad, nf, fhist, hist>>
\* ---- the device reacts to the request of the current exchange; it may refuse (err) or answer a read short - both count as faults
Req == IF hpc \in {"open", "close", "abort", "blank", "reset"} THEN hpc ELSE api.op          \* "xfer" stands for read / write / erase
Resp(st, full, c) == [k |-> "resp", st |-> st, crc |-> TRUE, ty |-> TRUE, full |-> full, c |-> c]
Send == /\ api.op # "none" /\ hres = "none" /\ ~hsent /\ hpc # "done"
        /\ hsent' = TRUE /\ nx' = nx + 1
        /\ \E dev \in {"do", "err", "short"} :
             /\ (dev # "do" => nf < MaxFaults) /\ (dev = "short" => Req = "read" /\ dopen)
             /\ nf' = (IF dev = "do" THEN nf ELSE nf + 1) /\ hit' = (hit \/ dev # "do")
             /\ fhist' = (IF dev = "do" THEN fhist ELSE Append(fhist, [kind |-> dev, at |-> nx]))
             /\ crefused' = (crefused \/ (dev = "err" /\ Req \in {"close", "abort"}))
             /\ IF dev = "err" THEN wire' = Resp("err", TRUE, 0) /\ UNCHANGED <<dopen, cells, dwr, bad>>
                ELSE CASE Req = "open"  -> dopen' = TRUE /\ wire' = Resp("ok", TRUE, 0) /\ UNCHANGED <<cells, dwr, bad>>
                       [] Req \in {"close", "abort"} -> dopen' = FALSE /\ wire' = Resp(IF dopen THEN "ok" ELSE "err", TRUE, 0) /\ UNCHANGED <<cells, dwr, bad>>
                       [] Req = "reset" -> dopen' = FALSE /\ wire' = Resp("ok", TRUE, 0) /\ UNCHANGED <<cells, dwr, bad>>
                       [] ~dopen        -> bad' = TRUE /\ wire' = Resp("err", TRUE, 0) /\ UNCHANGED <<dopen, cells, dwr>>
                       [] Req = "read"  -> wire' = Resp("ok", dev # "short", cells[hi + 1]) /\ UNCHANGED <<dopen, cells, dwr, bad>>
                       [] Req = "write" -> cells' = [cells EXCEPT ![hi + 1] = 10 * calls + hi + 1] /\ dwr' = Append(dwr, hi + 1)
                                           /\ wire' = Resp("ok", TRUE, 0) /\ UNCHANGED <<dopen, bad>>
                       [] Req = "erase" -> cells' = [i \in 1..MaxChunks |-> 1] /\ wire' = Resp("ok", TRUE, 0) /\ UNCHANGED <<dopen, dwr, bad>>
                       [] Req = "blank" -> wire' = Resp(IF \A i \in 1..MaxChunks : cells[i] = 1 THEN "ok" ELSE "err", TRUE, 0) /\ UNCHANGED <<dopen, cells, dwr, bad>>
        /\ UNCHANGED <<calls, api, hpc, hi, hgot, hres, retried, hist>>
\* ---- the link damages the response in flight
Fault == /\ wire.k = "resp" /\ nf < MaxFaults /\ hsent
         /\ \E kind \in {"flip", "drop", "type"} :
              /\ wire' = (IF kind = "flip" THEN [wire EXCEPT !.crc = FALSE] ELSE IF kind = "drop" THEN NoWire ELSE [wire EXCEPT !.ty = FALSE])
              /\ fhist' = Append(fhist, [kind |-> kind, at |-> nx - 1])
         /\ nf' = nf + 1 /\ hit' = TRUE
         /\ UNCHANGED <<calls, api, hpc, hi, hsent, hgot, hres, retried, dopen, cells, dwr, bad, nx, hist, crefused>>
\* ---- the host takes the response of the current exchange
Arrived == wire.k = "resp" /\ wire.crc                                  \* otherwise: time-out or CRC error (every host raises)
Good == Arrived /\ wire.ty /\ wire.st = "ok" /\ wire.full               \* what the ideal host demands
NextPc == CASE hpc = "open" -> (IF api.op = "erase" THEN "xfer" ELSE IF api.n = 0 THEN "close" ELSE "xfer")
            [] hpc = "xfer" -> (IF api.op = "erase" THEN "blank" ELSE IF hi + 1 < api.n THEN "xfer" ELSE "close")
            [] hpc = "blank" -> "close"
            [] OTHER -> "done"
Accepts ==                                                              \* the host goes on with the call
  IF Ideal THEN Good
  ELSE /\ Arrived
       /\ (hpc \in {"blank", "reset"} \/ (hpc = "xfer" /\ api.op \in {"write", "erase"}) => wire.st = "ok")    \* built: the statuses it looks at
       /\ (hpc = "xfer" /\ api.op = "read" => wire.ty)                                                        \* built: a response object of another class has no data: it crashes
Recv == /\ hsent /\ hres = "none" /\ api.op # "none"
        /\ wire' = NoWire /\ hsent' = FALSE
        /\ IF hpc = "abort" THEN hpc' = "done" /\ hres' = "error" /\ UNCHANGED <<hi, hgot, retried>>          \* the close on the error path: its outcome does not matter
           ELSE IF Accepts THEN
                /\ hgot' = (IF hpc = "xfer" /\ api.op = "read" /\ wire.st = "ok" /\ wire.full THEN Append(hgot, wire.c)
                            ELSE IF hpc = "xfer" /\ api.op = "read" /\ wire.st = "ok" THEN Append(hgot, 99) ELSE hgot)     \* 99: fewer bytes than asked, taken as they are
                /\ hi' = (IF hpc = "xfer" THEN hi + 1 ELSE hi) /\ retried' = FALSE
                /\ hpc' = NextPc /\ hres' = (IF NextPc = "done" THEN "ok" ELSE "none")
           ELSE IF Host = "resend" /\ hpc = "xfer" /\ api.op = "write" /\ wire.k = "none" /\ ~retried
                THEN retried' = TRUE /\ UNCHANGED <<hpc, hi, hgot, hres>>                                      \* send the same chunk again
           ELSE IF Host \in {"ideal", "resend"} /\ hpc # "reset"
                THEN hpc' = "abort" /\ UNCHANGED <<hi, hgot, hres, retried>>                                   \* close, then report the failure
           ELSE hpc' = "done" /\ hres' = "error" /\ UNCHANGED <<hi, hgot, retried>>
        /\ UNCHANGED <<calls, api, dopen, cells, dwr, bad, nf, hit, fhist, nx, hist, crefused>>
Finish == /\ api.op # "none" /\ hres # "none"
          /\ hist' = (IF hres = "ok" THEN Append(hist, api.op) ELSE hist) /\ api' = NoApi
          /\ UNCHANGED <<calls, hpc, hi, hsent, hgot, hres, retried, wire, dopen, cells, dwr, bad, nf, hit, fhist, nx, crefused>>
Next == Begin \/ Send \/ Fault \/ Recv \/ Finish
Spec == Init /\ [][Next]_vars
\* ---- the contract
Ended == api.op # "none" /\ hres # "none"
Succ == Ended /\ hres = "ok"
Chunks(n) == [i \in 1..n |-> i]
NoFalseSuccess == Succ => /\ ~hit                                                                  \* no damaged / refused / short response behind a success
                          /\ (api.op = "write" => dwr = Chunks(api.n) /\ \A i \in 1..api.n : cells[i] = 10 * calls + i)
                          /\ (api.op = "read"  => hgot = [i \in 1..api.n |-> cells[i]])
                          /\ (api.op = "erase" => \A i \in 1..MaxChunks : cells[i] = 1)
WrittenOnce == \A i, j \in 1..Len(dwr) : i # j => dwr[i] # dwr[j]                                   \* no byte reaches the memory twice
ClosedAfterwards == Ended => ~dopen \/ crefused                                                    \* whatever the outcome, the handle is closed afterwards (unless the device refuses to)
OpenBeforeAccess == ~bad                                                                           \* the device never sees an access without an open handle
Mirror == (Ended /\ ~hit) => hres = "ok"
Reach == ~(Succ /\ api.op = "write" /\ api.n = MaxChunks /\ calls = MaxCalls)                      \* must be violated: success is reachable
=============================================================================
