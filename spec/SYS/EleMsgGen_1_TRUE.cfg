CONSTANTS NMsg = 1  MaxFaults = 1  CmdException = TRUE  SizeRule = "exact"  CrcRule = "raise"  DevFaults = {"short", "tag", "cmd", "version", "big", "corrupt"}
INIT GInit
NEXT GNext
CHECK_DEADLOCK FALSE
