--------------------------- MODULE DbgMboxTrace ---------------------------
(* Trace form of the debug-mailbox model (DbgMbox.tla): the device automaton over concrete words, the register accesses the real            *)
(* DebugMailboxCommand.run made through a probe twin, and the contract of one command.  A 32-bit word is a pair <<hi16, lo16>>.             *)
(*   request word  <<number of parameters, command id>>          device ACK   <<words still expected, 0xA5A5>>                              *)
(*   response word <<32768 + number of data words, status>>      host ACK     <<words still expected, 0xA5A5>>                              *)
(* Events: call | wr (REQUEST; took = the word reached the device, whatever the probe reported) | rd (RETURN; stall = nothing there)        *)
(*         | exec (the twin's own record of an execution - re-derived here, so the twin is checked, too) | result                           *)
EXTENDS Naturals, Sequences, TLC, Json, IOUtils
Traces == ndJsonDeserialize(IOEnv.TRACE_FILE)
VARIABLES tid, l, call, dst, dleft, dpar, dcmd, execs, ret, hazard
vars == <<tid, l, call, dst, dleft, dpar, dcmd, execs, ret, hazard>>
T == Traces[tid].ev
E == T[l]
Is(e) == l <= Len(T) /\ E.ev = e
Adv == l' = l + 1 /\ UNCHANGED tid
Tok == 42405                                   \* 0xA5A5
NoRet == [valid |-> FALSE, w |-> <<0, 0>>]
Put(w) == [valid |-> ~call.silent, w |-> w]                 \* a silent device never answers
DataWord(i) == <<8192 + i, 12288 + i>>          \* what the twin's device answers (word i of the response)
Init == /\ tid \in 1..Len(Traces) /\ l = 1 /\ call = [op |-> "none"] /\ dst = "idle" /\ dleft = 0 /\ dpar = <<>> /\ dcmd = 0
        /\ execs = <<>> /\ ret = NoRet /\ hazard = FALSE /\ TLCSet(tid, 1)
Call == /\ Is("call") /\ call.op = "none" /\ call' = E /\ execs' = <<>> /\ hazard' = (dst # "idle" \/ ret.valid)    \* an earlier call left the mailbox out of step
        /\ UNCHANGED <<dst, dleft, dpar, dcmd, ret>> /\ Adv                     \* the device keeps its state between calls (history)
\* the device of this scenario: status and number of data words it answers with, how it acknowledges
Execute(cmd, p) == /\ execs' = Append(execs, [cmd |-> cmd, p |-> p])
                   /\ ret' = Put(<<32768 + call.devResp, call.devStatus>>)
                   /\ dst' = (IF call.devResp > 0 /\ call.devStatus = 0 THEN "ack0" ELSE "idle") /\ dleft' = call.devResp /\ dpar' = <<>>
AckWord(n) == IF call.ackBad = "token" THEN <<n, 23130>> ELSE IF call.ackBad = "count" THEN <<n + 1, Tok>> ELSE <<n, Tok>>
DevTake(w) ==
  CASE dst = "idle" ->
         IF w[1] = 0 THEN Execute(w[2], <<>>) /\ dcmd' = w[2]
         ELSE /\ dst' = "params" /\ dleft' = w[1] /\ dpar' = <<>> /\ dcmd' = w[2] /\ ret' = Put(AckWord(w[1])) /\ UNCHANGED execs
    [] dst = "params" ->
         IF dleft = 1 THEN Execute(dcmd, Append(dpar, w)) /\ UNCHANGED dcmd
         ELSE /\ dpar' = Append(dpar, w) /\ dleft' = dleft - 1 /\ ret' = Put(AckWord(dleft - 1)) /\ UNCHANGED <<dst, dcmd, execs>>
    [] dst = "ack0" /\ w = <<call.devResp, Tok>> ->
         /\ ret' = Put(DataWord(1)) /\ dst' = "data" /\ dleft' = call.devResp - 1 /\ UNCHANGED <<dpar, dcmd, execs>>
    [] dst = "data" /\ w = <<dleft, Tok>> ->
         IF dleft = 0 THEN dst' = "idle" /\ ret' = NoRet /\ UNCHANGED <<dleft, dpar, dcmd, execs>>
         ELSE /\ ret' = Put(DataWord(call.devResp - dleft + 1)) /\ dleft' = dleft - 1 /\ UNCHANGED <<dst, dpar, dcmd, execs>>
    [] OTHER -> /\ dst' = "idle" /\ ret' = Put(<<32768, 65535>>) /\ UNCHANGED <<dleft, dpar, dcmd, execs>>    \* unexpected word: error response, back to idle
Wr == /\ Is("wr") /\ call.op # "none"
      /\ IF E.took THEN DevTake(E.val) ELSE UNCHANGED <<dst, dleft, dpar, dcmd, execs, ret>>
      /\ hazard' = (hazard \/ (E.took /\ E.err))            \* the word reached the device AND the probe reported an error: the host will write it again
      /\ UNCHANGED call /\ Adv
Rd == /\ Is("rd") /\ call.op # "none"
      /\ IF E.stall THEN ~ret.valid /\ UNCHANGED ret
         ELSE ret.valid /\ E.val = ret.w /\ ret' = (IF E.kept THEN ret ELSE NoRet)     \* kept: the probe lost the value on the way (error), the register still holds it
      /\ hazard' = (hazard \/ (~E.stall /\ ~E.kept /\ E.err))     \* the value left the register and was lost on the way: nobody can recover it
      /\ UNCHANGED <<call, dst, dleft, dpar, dcmd, execs>> /\ Adv
Exec == /\ Is("exec") /\ execs # <<>> /\ E.cmd = execs[Len(execs)].cmd /\ E.p = execs[Len(execs)].p                          \* the twin agrees with the automaton
        /\ UNCHANGED <<call, dst, dleft, dpar, dcmd, execs, ret, hazard>> /\ Adv
Benign == ~hazard /\ call.devStatus = 0 /\ call.devResp = call.nresp /\ call.ackBad = "none" /\ ~call.silent
Ok == E.kind = "ret"
WantData == [i \in 1..call.nresp |-> DataWord(i)]
Result ==
  /\ Is("result") /\ call.op # "none"
  /\ (E.kind = "exc" => E.documented)                                                          \* Documented: SPSDK errors / time-outs only
  /\ (Benign => Ok)                                                                            \* Mirror
  /\ (Ok => /\ execs = << [cmd |-> call.cmd, p |-> call.params] >>                             \* NoFalseSuccess: executed once, with the caller's parameters,
            /\ call.devStatus = 0 /\ call.devResp = call.nresp                                 \*   the device said success,
            /\ (call.nresp > 0 => E.data = WantData)                                           \*   the data are the device's,
            /\ dst = "idle" /\ ~ret.valid)                                                     \*   nothing is left over for the next command
  /\ call' = [op |-> "none"] /\ UNCHANGED <<dst, dleft, dpar, dcmd, execs, ret, hazard>> /\ Adv
Next == Call \/ Wr \/ Rd \/ Exec \/ Result
Constr == IF TLCGet(tid) < l THEN TLCSet(tid, l) ELSE TRUE
Post == \A i \in 1..Len(Traces) : \/ TLCGet(i) - 1 = Len(Traces[i].ev)
          \/ PrintT(<<"REJ", Traces[i].id, TLCGet(i) - 1, Len(Traces[i].ev), Traces[i].ev[IF TLCGet(i) <= Len(Traces[i].ev) THEN TLCGet(i) ELSE Len(Traces[i].ev)].ev>>)
=============================================================================
