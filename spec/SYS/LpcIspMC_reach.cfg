SPECIFICATION Spec
CONSTANTS N = 3  MaxFaults = 1  Flush = FALSE  MatchEcho = TRUE
INVARIANT Reach
CHECK_DEADLOCK FALSE
