----------------------------- MODULE EleMsgFlow -----------------------------
(* Design model of ELE messaging over a bootloader: host (EleMessageHandlerMBoot.send_message as built, with its variants as constants) ||     *)
(* bootloader whose commands may fail || ELE firmware || the shared communication buffer, which KEEPS what earlier messages left in it.        *)
(* NMsg messages of the same command are sent one after the other over one handler (the buffers are re-used from message to message).          *)
(* One message: write the request words - ele-message command - read the response words - check header - check status - (CRC) - decode.        *)
(*   CmdException  TRUE: a failing bootloader command raises (McuBoot(cmd_exception=True), what nxpele builds);                               *)
(*                 FALSE: it returns a status code, which send_message does not look at (any McuBoot handed to the handler)                    *)
(*   SizeRule      "exact": a success response must have the command's size;  "range": 2 .. the command's size is accepted (as built)          *)
(*   CrcRule       "raise": a wrong response CRC fails the call;  "log": it is logged only (get-events as built)                              *)
(*   DevFaults     what the firmware / the way back may do beyond success and failure: "short" (success, payload words missing),               *)
(*                 "tag", "cmd", "version", "big" (foreign header), "corrupt" (payload damaged, CRC does not match)                                             *)
EXTENDS Naturals, Sequences, FiniteSets, TLC
CONSTANTS NMsg, MaxFaults, CmdException, SizeRule, CrcRule, DevFaults
VARIABLES pc, k, res, val, req, resp, execs, ans, nf
vars == <<pc, k, res, val, req, resp, execs, ans, nf>>
Nom == 3                                            \* header, status word, one payload word
DevValue(i) == 100 + i                              \* what the firmware answers to message i
Garbage == [tag |-> FALSE, cmd |-> FALSE, ver |-> FALSE, size |-> 0, ok |-> FALSE, pay |-> 0, crc |-> FALSE]
Init == /\ pc = "wr" /\ k = 1 /\ res = <<>> /\ val = <<>> /\ req = 0 /\ resp = Garbage /\ execs = <<>> /\ ans = <<>> /\ nf = 0
Fail == /\ res' = Append(res, "error") /\ val' = Append(val, 0) /\ pc' = "next"
Same == UNCHANGED <<k, req, resp, execs, ans, nf, res, val>>
\* ---- the bootloader command fails: raises (the call ends) or returns a status code nobody looks at (the call goes on)
BootFail(next) == /\ nf < MaxFaults /\ nf' = nf + 1
                  /\ IF CmdException THEN Fail ELSE pc' = next /\ UNCHANGED <<res, val>>
HostWrite == pc = "wr" /\ req' = k /\ pc' = "mu" /\ UNCHANGED <<k, resp, execs, ans, nf, res, val>>
HostWriteFails == pc = "wr" /\ BootFail("mu") /\ UNCHANGED <<k, req, resp, execs, ans>>
HostMu == pc = "mu" /\ pc' = "dev" /\ execs' = Append(execs, req) /\ UNCHANGED <<k, req, resp, ans, nf, res, val>>      \* the firmware executes what the buffer holds
HostMuFails == pc = "mu" /\ BootFail("rd") /\ UNCHANGED <<k, req, resp, execs, ans>>
\* ---- the firmware answers into the response buffer (a short answer leaves the payload word as it was)
Answer(r, a) == resp' = r /\ ans' = Append(ans, a) /\ pc' = "rd" /\ UNCHANGED <<k, req, execs, nf, res, val>>
Full(i) == [tag |-> TRUE, cmd |-> TRUE, ver |-> TRUE, size |-> Nom, ok |-> TRUE, pay |-> DevValue(i), crc |-> TRUE]
DevSuccess == pc = "dev" /\ Answer(Full(req), "success")
DevFailure == pc = "dev" /\ Answer([Full(req) EXCEPT !.size = 2, !.ok = FALSE, !.pay = resp.pay], "failure")
DevShort == pc = "dev" /\ "short" \in DevFaults /\ Answer([Full(req) EXCEPT !.size = 2, !.pay = resp.pay], "short")
DevBadTag == pc = "dev" /\ "tag" \in DevFaults /\ Answer([Full(req) EXCEPT !.tag = FALSE], "tag")
DevBadCmd == pc = "dev" /\ "cmd" \in DevFaults /\ Answer([Full(req) EXCEPT !.cmd = FALSE], "cmd")
DevBadVersion == pc = "dev" /\ "version" \in DevFaults /\ Answer([Full(req) EXCEPT !.ver = FALSE], "version")
DevTooBig == pc = "dev" /\ "big" \in DevFaults /\ Answer([Full(req) EXCEPT !.size = Nom + 1], "big")
DevCorrupt == pc = "dev" /\ "corrupt" \in DevFaults /\ Answer([Full(req) EXCEPT !.pay = 999, !.crc = FALSE], "corrupt")
HostRead == pc = "rd" /\ pc' = "chk" /\ Same
HostReadFails == pc = "rd" /\ BootFail("chk") /\ UNCHANGED <<k, req, resp, execs, ans>>
\* ---- decode_response + the status check of send_message
Accept == /\ resp.tag /\ resp.cmd /\ resp.ver
          /\ (IF SizeRule = "exact" THEN resp.size = (IF resp.ok THEN Nom ELSE 2) ELSE resp.size \in 2..Nom)
          /\ resp.ok
          /\ (CrcRule = "raise" => resp.crc)
HostCheck == /\ pc = "chk"
             /\ IF Accept THEN res' = Append(res, "ok") /\ val' = Append(val, resp.pay) /\ pc' = "next" ELSE Fail
             /\ UNCHANGED <<k, req, resp, execs, ans, nf>>
NextMsg == /\ pc = "next" /\ IF k < NMsg THEN k' = k + 1 /\ pc' = "wr" ELSE pc' = "done" /\ UNCHANGED k
           /\ UNCHANGED <<req, resp, execs, ans, nf, res, val>>
Done == pc = "done" /\ UNCHANGED vars
Next == HostWrite \/ HostWriteFails \/ HostMu \/ HostMuFails \/ DevSuccess \/ DevFailure \/ DevShort \/ DevBadTag \/ DevBadCmd \/ DevBadVersion \/ DevTooBig \/ DevCorrupt
        \/ HostRead \/ HostReadFails \/ HostCheck \/ NextMsg \/ Done
Spec == Init /\ [][Next]_vars
\* ---- the contract of every message
Count(s, x) == Cardinality({i \in 1..Len(s) : s[i] = x})
NoFalseSuccess == \A i \in 1..Len(res) : res[i] = "ok" => /\ Count(execs, i) = 1                \* executed once,
                                                           /\ val[i] = DevValue(i)                \* the value is the firmware's answer to THIS message
ExecutedAtMostOnce == \A i \in 1..NMsg : Count(execs, i) <= 1
Reach == ~(pc = "done" /\ \A i \in 1..NMsg : res[i] = "ok")                                        \* must be violated (non-vacuity): success is reachable
=============================================================================
