------------------------------ MODULE BimgRomMC ------------------------------
(* MC + GEN forms of the composition  bootable image || boot ROM.                                                    *)
(*                                                                                                                   *)
(* MC (INIT Init / NEXT Next): a DESIGN model at cell granularity with small constants.  A host (I-spec: the merge    *)
(* as documented - every supplied segment at its table offset minus the effective start, the rest erased pattern -   *)
(* and a container builder that derives the addresses it writes into the container from the device) produces an      *)
(* image; the image is programmed at the device offset it starts at; the ROM of BimgRom.tla (R-spec) reads the       *)
(* device: header segments at ITS offsets, the container at ITS image offset, then the address clauses.  Invariant:  *)
(* the ROM never rejects what the host made (NeverRejected) and boots it (action RBoot fires).  The constant Variant *)
(* selects a deliberately wrong host; TLC must REFUTE NeverRejected for each of them:                                *)
(*    "filerel"  the container addresses are derived from the offset of the container IN THE FILE (imgOff - eff)     *)
(*               instead of its offset on the device: right for a full image, wrong for every image that starts later *)
(*    "late"     every segment lands one cell late when the image does not start at 0 (the "dynamic offset marker     *)
(*               leaks into the start" defect of C14)                                                               *)
(*    "nosnap"   the image starts at the requested offset itself, not at the closest table offset behind it           *)
(*    "ramzero"  a load-to-RAM container is built as if the device were mapped (start = base)                        *)
(* GEN (INIT GInit / NEXT GNext): the same case space over the REAL classes of the ROM view (ROM_FILE), no cells:     *)
(* every case is printed with the numbers the reference model prescribes for it (effective start, file offset of      *)
(* every header segment and of the container, the addresses a container has to name) - the inputs of the harness.     *)
EXTENDS BimgRom, Json, IOUtils
CONSTANT Variant
Rom == JsonDeserialize(IOEnv.ROM_FILE)

VARIABLES cls, k, ph, img, adr, b, ri,
          gd, gk, gdone          \* GEN form only
vars == <<cls, k, ph, img, adr, b, ri>>

(* ------------------------------------------------------------------ small classes of the design model (cells instead of bytes) *)
Small == << [kind |-> "hab",  cname |-> "hab_container",  pat |-> 0, imgOff |-> 6,
             segs |-> << [name |-> "fcb", off |-> 0, size |-> 2], [name |-> "bee_header_0", off |-> 2, size |-> 2] >>],
            [kind |-> "mbi",  cname |-> "mbi",            pat |-> 255, imgOff |-> 5,
             segs |-> << [name |-> "fcb", off |-> 1, size |-> 2], [name |-> "keystore", off |-> 3, size |-> 1] >>],
            [kind |-> "ahab", cname |-> "ahab_container", pat |-> 0, imgOff |-> 3,
             segs |-> << [name |-> "xmcd", off |-> 1, size |-> 2] >>],
            [kind |-> "hab",  cname |-> "hab_container",  pat |-> 0, imgOff |-> 2, segs |-> << >>] >>
CLen == 3                        \* cells of a container: header cell, entry cell, one more
Base == <<0, 1000>>
Load == <<0, 5000>>

Bools(n) == [1..n -> BOOLEAN]
\* payload length classes of a header segment: nominal, and one cell short where the slot has more than one cell
PLens(C, p) == { l \in [DOMAIN C.segs -> 0..2] : \A i \in DOMAIN C.segs :
                   IF p[i] THEN l[i] \in {C.segs[i].size, C.segs[i].size - 1} \ {0} ELSE l[i] = 0 }
SCases(C) == { [present |-> p, plen |-> l, req |-> r, xip |-> x, reread |-> FALSE, base |-> Base, load |-> Load] :
               p \in Bools(Len(C.segs)), l \in [DOMAIN C.segs -> 0..2], r \in 0..(C.imgOff + 1), x \in BOOLEAN }

(* ------------------------------------------------------------------ the host (design under test) *)
HEff(C, c) == IF Variant = "nosnap" THEN c.req ELSE Eff(C, c.req)
Late(C, c) == IF Variant = "late" /\ HEff(C, c) > 0 THEN 1 ELSE 0
HFile(C, c, devOff) == devOff - HEff(C, c) + Late(C, c)                          \* where the host puts what belongs at devOff
HTotal(C, c) == HFile(C, c, C.imgOff) + CLen
\* the cell the host writes at file offset p
HCell(C, c, p) ==
  IF \E j \in 0..(CLen - 1) : p = HFile(C, c, C.imgOff) + j
    THEN <<"c", p - HFile(C, c, C.imgOff)>>
  ELSE IF \E i \in DOMAIN C.segs : c.present[i] /\ C.segs[i].off >= HEff(C, c) /\ p >= HFile(C, c, C.segs[i].off) /\ p < HFile(C, c, C.segs[i].off) + c.plen[i]
    THEN LET i == CHOOSE i \in DOMAIN C.segs : c.present[i] /\ C.segs[i].off >= HEff(C, c) /\ p >= HFile(C, c, C.segs[i].off) /\ p < HFile(C, c, C.segs[i].off) + c.plen[i]
         IN <<"h", i, p - HFile(C, c, C.segs[i].off)>>
  ELSE <<"pat">>
\* the addresses the builder writes into the container
HOrigin(C, c) == IF c.xip \/ Variant = "ramzero" THEN c.base ELSE c.load         \* address of device offset 0
HContOff(C, c) == IF Variant = "filerel" THEN C.imgOff - HEff(C, c) ELSE C.imgOff
\* (HAB: the ROM copies the device from offset 0 to `start`; MBI: it copies the container to its load address; AHAB: image by image)
HSelf(C, c) == IF C.kind = "mbi" /\ ~c.xip /\ Variant # "ramzero" THEN c.load ELSE AddTo(HOrigin(C, c), HContOff(C, c))
HAdr(C, c) == [start |-> HOrigin(C, c), self |-> HSelf(C, c), entry |-> AddTo(HSelf(C, c), 32)]

(* ------------------------------------------------------------------ the device after programming the image at the offset it starts at *)
C == Small[cls]
DevCell(o) == LET p == o - b.eff IN IF p >= 0 /\ p < Len(img) THEN img[p + 1] ELSE <<"pat">>      \* erased elsewhere
\* facts the ROM reads (the events of the trace form, computed from the cells)
HdrFacts(i) ==
  LET o == C.segs[i].off
      n == k.plen[i]
      e == SlotEnd(C, i)
  IN [i |-> i, devOff |-> o, at |-> o - b.eff, slotEnd |-> e - b.eff, len |-> n,
      same |-> \A j \in 0..(n - 1) : DevCell(o + j) = <<"h", i, j>>,
      tagOk |-> n > 0 /\ DevCell(o) = <<"h", i, 0>>,
      restBlank |-> \A q \in (o + n)..(e - 1) : DevCell(q) = <<"pat">>,
      blank |-> \A q \in o..(e - 1) : DevCell(q) = <<"pat">>]

Init == /\ cls \in DOMAIN Small /\ k \in { c \in SCases(Small[cls]) : c.plen \in PLens(Small[cls], c.present) /\ ~Refused(Small[cls], c.req) }
        /\ ph = "host" /\ img = <<>> /\ adr = [x |-> 0] /\ b = B0 /\ ri = 0
        /\ gd = 0 /\ gk = 0 /\ gdone = TRUE
HostBuild == /\ UNCHANGED <<gd, gk, gdone>> /\ ph = "host" /\ ph' = "built" /\ adr' = HAdr(C, k) /\ UNCHANGED <<cls, k, img, b, ri>>
HostMerge == /\ UNCHANGED <<gd, gk, gdone>> /\ ph = "built" /\ ph' = "rom"
             /\ img' = [p \in 1..HTotal(C, k) |-> HCell(C, k, p - 1)]
             /\ UNCHANGED <<cls, k, adr, b, ri>>
\* ---- the ROM (R-spec).  Every step has its guard from BimgRom.tla; where the guard fails the ROM rejects.
MergeEv == [refused |-> FALSE, eff |-> HEff(C, k), total |-> Len(img)]
RMerge == /\ UNCHANGED <<gd, gk, gdone>> /\ ph = "rom" /\ b.st = "Merge" /\ UNCHANGED <<cls, k, ph, img, adr, ri>>
          /\ IF MergeOK(C, k, b, MergeEv) THEN b' = MergeNx(C, k, b, MergeEv) ELSE b' = [b EXCEPT !.st = "Rejected"]
RHdr == /\ UNCHANGED <<gd, gk, gdone>> /\ ph = "rom" /\ b.st = "Hdr" /\ b.nx \in DOMAIN C.segs /\ UNCHANGED <<cls, k, ph, img, adr, ri>>
        /\ IF HdrOK(C, k, b, HdrFacts(b.nx)) THEN b' = HdrNx(C, k, b, HdrFacts(b.nx)) ELSE b' = [b EXCEPT !.st = "Rejected"]
LocEv == [devOff |-> C.imgOff, at |-> C.imgOff - b.eff, fileLen |-> Len(img), addr |-> AddTo(k.base, C.imgOff)]
RLocate == /\ UNCHANGED <<gd, gk, gdone>> /\ ph = "rom" /\ b.st = "Hdr" /\ b.nx = Len(C.segs) + 1 /\ UNCHANGED <<cls, k, ph, img, adr>>
           /\ IF LocateOK(C, k, b, LocEv) THEN b' = LocateNx(C, k, b, LocEv) /\ ri' = 0 ELSE b' = [b EXCEPT !.st = "Rejected"] /\ ri' = ri
\* the container automaton, abstracted: the ROM reads the cells of the container one after the other at the image offset of ITS table
RCont == /\ UNCHANGED <<gd, gk, gdone>> /\ ph = "rom" /\ b.st = "Cont" /\ UNCHANGED <<cls, k, ph, img, adr>>
         /\ IF DevCell(C.imgOff + ri) # <<"c", ri>> THEN b' = [b EXCEPT !.st = "Rejected"] /\ ri' = ri
            ELSE IF ri = CLen - 1 THEN b' = [b EXCEPT !.st = "Boot"] /\ ri' = ri
            ELSE b' = b /\ ri' = ri + 1
AddrOK == CASE C.kind = "hab"  -> HabAddrOK(C, k, [self |-> adr.self, entry |-> adr.entry], [start |-> adr.start, len |-> C.imgOff + 40])
            [] C.kind = "mbi"  -> MbiAddrOK(C, k, CLen, [total |-> CLen, pc |-> AddTo(adr.self, 1), load |-> IF k.xip THEN <<0, 0>> ELSE adr.self])
            [] C.kind = "ahab" -> AhabAddrOK(C, k, [imgAbs |-> 1, size |-> 2, type |-> 3, load |-> W4(AddTo(adr.self, 1)), entry |-> W4(AddTo(adr.self, 1))])
RBoot == /\ UNCHANGED <<gd, gk, gdone>> /\ ph = "rom" /\ b.st = "Boot" /\ UNCHANGED <<cls, k, ph, img, adr, ri>>
         /\ b' = [b EXCEPT !.st = IF AddrOK THEN "Done" ELSE "Rejected"]
Next == HostBuild \/ HostMerge \/ RMerge \/ RHdr \/ RLocate \/ RCont \/ RBoot

NeverRejected == b.st # "Rejected"
\* a load-to-RAM MBI of the abstract model is loaded to its load address: the builder of the small model writes self = load there
TypeOK == ph \in {"host", "built", "rom"} /\ b.st \in {"Merge", "Hdr", "Cont", "Boot", "Done", "Rejected"}
\* lemmas of the reference model itself (every case of the small classes)
EffLemma == /\ Eff(C, k.req) \in Starts(C) \cup {0} /\ (k.req > 0 => Eff(C, k.req) >= k.req)
            /\ \A o \in Starts(C) : o >= k.req /\ k.req > 0 => Eff(C, k.req) <= o
            /\ ContAt(C, Eff(C, k.req)) >= 0
SlotLemma == \A i \in DOMAIN C.segs : SlotEnd(C, i) > C.segs[i].off /\ SlotEnd(C, i) <= C.imgOff

(* ------------------------------------------------------------------ GEN: the case space over the real classes of the ROM view *)
gvars == <<gd, gk, gdone>>
RC(d) == Rom.classes[Rom.devs[d].cls]
\* supplied header segments: none, all, every single one, all but one
Presents(Cx) == LET n == Len(Cx.segs) IN
                { p \in Bools(n) : \/ (\A i \in 1..n : ~p[i])
                                   \/ (\A i \in 1..n : p[i])
                                   \/ Cardinality({ i \in 1..n : p[i] }) = 1
                                   \/ Cardinality({ i \in 1..n : ~p[i] }) = 1 }
\* requested starts: 0, every table offset, one byte behind the first header segment (snaps to the next table offset)
Reqs(Cx) == {0} \cup Starts(Cx) \cup (IF Cx.segs = <<>> THEN {} ELSE { Cx.segs[1].off + 1 })
GLens(Cx, p) == [i \in DOMAIN Cx.segs |-> IF p[i] THEN Cx.segs[i].size ELSE 0]
\* not mapped (the ROM copies) on every device; mapped at every address the device appears at
Maps(d) == { [xip |-> FALSE, base |-> <<0, 0>>] } \cup { [xip |-> TRUE, base |-> Rom.devs[d].bases[i]] : i \in DOMAIN Rom.devs[d].bases }
GCases(d) == LET Cx == RC(d)
             IN { [present |-> p, plen |-> GLens(Cx, p), req |-> r, xip |-> m.xip, reread |-> FALSE, base |-> m.base, load |-> <<8192, 32768>>] :
                  p \in Presents(Cx), r \in Reqs(Cx), m \in Maps(d) }
GInit == /\ gd \in DOMAIN Rom.devs /\ gk \in GCases(gd) /\ gdone = FALSE
         /\ cls = 1 /\ k = 0 /\ ph = "gen" /\ img = <<>> /\ adr = 0 /\ b = B0 /\ ri = 0
Expect == LET Cx == RC(gd)
              eff == Eff(Cx, gk.req)
          IN [dev |-> gd, cls |-> Rom.devs[gd].cls, kind |-> Cx.kind, present |-> gk.present, plen |-> gk.plen, req |-> gk.req, xip |-> gk.xip,
              base |-> gk.base, refused |-> Refused(Cx, gk.req), eff |-> eff, contAt |-> ContAt(Cx, eff),
              hdrAt |-> [i \in DOMAIN Cx.segs |-> IF Cx.segs[i].off >= eff THEN Cx.segs[i].off - eff ELSE 0 - 1],
              contAddr |-> IF gk.xip THEN AddTo(gk.base, Cx.imgOff) ELSE <<0, 0>>,
              origin |-> IF gk.xip THEN gk.base ELSE gk.load]
GEmit == ~gdone /\ gdone' = TRUE /\ PrintT(ToJson(Expect)) /\ UNCHANGED <<gd, gk>> /\ UNCHANGED vars
GNext == GEmit
\* lemmas over the real tables: the start snaps to a table offset, the container is reachable, header slots end before the container,
\* an included header segment lies in front of the container in the file
GLemmas == LET Cx == RC(gd)
               eff == Eff(Cx, gk.req)
           IN /\ ~Refused(Cx, gk.req)
              /\ eff \in Starts(Cx) \cup {0} /\ eff >= 0 /\ ContAt(Cx, eff) >= 0
              /\ \A i \in DOMAIN Cx.segs : /\ SlotEnd(Cx, i) <= Cx.imgOff /\ Cx.segs[i].off + Cx.segs[i].size <= SlotEnd(Cx, i)
                                           /\ (Cx.segs[i].off >= eff => Cx.segs[i].off - eff + Cx.segs[i].size <= ContAt(Cx, eff))
              /\ (gk.xip => Off(AddTo(gk.base, Cx.imgOff), gk.base) = Cx.imgOff)
=============================================================================
