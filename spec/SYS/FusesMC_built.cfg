SPECIFICATION Spec
CONSTANTS Host = "built" CheckStatus = TRUE Verify = FALSE Iwl2 = "implicit" StoreInsteadOfOr = FALSE Quiet = FALSE MaxCalls = 1 MaxFaults = 1
INVARIANT NoFalseSuccess
CHECK_DEADLOCK FALSE
