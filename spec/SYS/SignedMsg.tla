------------------------------- MODULE SignedMsg -------------------------------
(* Growth lane: AHAB SIGNED MESSAGES.  Reference model of what SPSDK cannot change: the procedure by which the EdgeLock enclave      *)
(* accepts a signed message, as an automaton over the file.  The SRK table / signature / certificate / blob steps are those of the   *)
(* AHAB container automaton of C06 (module AhabRom, extended UNCHANGED); this module adds what a signed message has in place of the   *)
(* image array: container header with tag 0x89, message descriptor (flags, IV), message header (issue date, permission, certificate  *)
(* version, command, unique id) and the payload of the command.                                                                       *)
(*   <Step>OK(x, s, e) - the clause of a step over the facts e read from the file;  <Step>Nx - the registers after it.                *)
(* x = the case: what the device expects and what the caller supplied ("decoded = supplied"):                                          *)
(*   [cver (1 | 2), cont (one container in the shape of AhabRom: srkSet, used, revoke, gdet, sw, fuse, kt, blob, keyBits, keyId, cert, *)
(*    img = <<>>), enc, iv (32 bytes), msg [certVer, perm, month, year : 3 limbs; uuid : bytes as printed], pl [kind, f ...]]          *)
(* A request value is three 16-bit limbs <<h2, h1, h0>> (48 bits) so that values that do NOT fit their field can be stated:            *)
(* the contract is `Carried`: an export is refused, or the emitted field is the request.                                              *)
(* Bytes computed here: every payload byte that is not the output of a cipher.  Crypto appears as facts (ok, srkHashOk, keysOk,        *)
(* unwrapOk, cmacOk) evaluated by the executor with a trusted base independent of SPSDK.                                              *)
EXTENDS AhabRom

MsgTag     == 137        \* 0x89
DescLen    == 36         \* descriptor: flags, 3 reserved, IV (32)
MsgHeadLen == 8          \* issue date (2) permission certificate-version reserved (2) command reserved ; the unique id follows
MsgAt      == HdrLen + DescLen

CmdOf(kind) == CASE kind = "ksr" -> 63 [] kind = "kex" -> 71 [] kind = "kimp" -> 79 [] kind = "fuse" -> 145 [] kind = "rlc" -> 160
                 [] kind = "dat" -> 200 [] OTHER -> 0

(* ---- numbers and bytes *)
B6(v) == <<v[3] % 256, v[3] \div 256, v[2] % 256, v[2] \div 256, v[1] % 256, v[1] \div 256>>
LE(v, n) == SubSeq(B6(v), 1, n)
Rev(s) == [i \in 1..Len(s) |-> s[Len(s) + 1 - i]]
BE(v, n) == Rev(LE(v, n)) \o <<>>
Fits(v, n) == \A i \in (n + 1)..6 : B6(v)[i] = 0
Small(v) == v[3] + 65536 * v[2]          \* only used under Fits(v, 2) or for small values
RECURSIVE Cat(_)
Cat(ss) == IF ss = <<>> THEN <<>> ELSE Head(ss) \o Cat(Tail(ss))
Zeros(n) == [i \in 1..n |-> 0] \o <<>>
(* the unique id travels as 32-bit words: every group of four bytes of the printed form reversed *)
WordSwap(u) == [i \in 1..Len(u) |-> u[4 * ((i - 1) \div 4) + 4 - ((i - 1) % 4)]] \o <<>>

(* ---- TLV of the key-import blob: application class, primitive; short / long (0x81, 0x82) definite length *)
TlvHead(num, n) == <<64 + num>> \o (IF n < 128 THEN <<n>> ELSE IF n < 256 THEN <<129, n>> ELSE <<130, n \div 256, n % 256>>)
Tlv(num, val) == TlvHead(num, Len(val)) \o val
KiMagic == <<101,100,103,101,108,111,99,107,101,110,99,108,97,118,101,105,109,112,111,114,116>>    \* "edgelockenclaveimport"

(* ---- the payload of a command from the supplied fields; e = the Payload event (cipher outputs are taken from it, under facts) *)
PayloadOf(pl, e) ==
  LET f == pl.f IN
  CASE pl.kind = "rlc"  -> LE(f.life_cycle, 4)
    [] pl.kind = "fuse" -> LE(f.id, 2) \o <<Len(f.data) % 256>> \o LE(f.flags, 1) \o Cat([i \in 1..Len(f.data) |-> LE(f.data[i], 4)])
    [] pl.kind = "ksr"  -> <<0, 0, 0, 0>> \o LE(f.monotonic_counter, 4) \o LE(f.user_sab_id, 4)
    [] pl.kind = "dat"  -> f.challenge \o LE(f.beacon, 2)
    [] pl.kind = "kex"  -> <<71, 7, 0, 0>> \o LE(f.key_store_id, 4) \o LE(f.key_exchange_algorithm, 4) \o LE(f.derived_key_grp, 2) \o LE(f.salt_flags, 2)
                           \o LE(f.derived_key_type, 2) \o LE(f.derived_key_size_bits, 2) \o LE(f.derived_key_lifetime, 4) \o LE(f.derived_key_usage, 4)
                           \o LE(f.derived_key_permitted_algorithm, 4) \o LE(f.derived_key_lifecycle, 4) \o LE(f.derived_key_id, 4)
                           \o LE(f.private_key_id, 4) \o f.peer_digest \o f.info_digest
    [] pl.kind = "kimp" -> Tlv(0, KiMagic) \o Tlv(1, BE(f.key_id, 4)) \o Tlv(2, BE(f.alg, 4)) \o Tlv(3, BE(f.usage, 4)) \o Tlv(4, BE(f.type, 2))
                           \o Tlv(5, BE(f.bits, 4)) \o Tlv(6, BE(f.lifetime, 4)) \o Tlv(7, BE(f.lifecycle, 4)) \o Tlv(16, BE(f.mk_id, 4))
                           \o Tlv(17, BE(f.wrap, 4)) \o (IF Small(f.wrap) = 2 THEN Tlv(18, f.iv) ELSE <<>>) \o Tlv(20, BE(<<0, 0, 1>>, 4))
                           \o Tlv(21, e.wrapped) \o Tlv(30, e.sig)
    [] OTHER -> <<>>
PayloadValid(pl) ==
  LET f == pl.f IN
  CASE pl.kind = "rlc"  -> Fits(f.life_cycle, 4)
    [] pl.kind = "fuse" -> Fits(f.id, 2) /\ Fits(f.flags, 1) /\ Len(f.data) \in 1..255 /\ \A i \in 1..Len(f.data) : Fits(f.data[i], 4)
    [] pl.kind = "ksr"  -> Fits(f.monotonic_counter, 4) /\ Fits(f.user_sab_id, 4)
    [] pl.kind = "dat"  -> Len(f.challenge) = 32 /\ Fits(f.beacon, 2)
    [] pl.kind = "kex"  -> /\ \A n \in {"key_store_id", "key_exchange_algorithm", "derived_key_lifetime", "derived_key_usage", "derived_key_permitted_algorithm",
                                        "derived_key_lifecycle", "derived_key_id", "private_key_id"} : Fits(f[n], 4)
                           /\ \A n \in {"derived_key_grp", "salt_flags", "derived_key_type", "derived_key_size_bits"} : Fits(f[n], 2)
                           /\ Len(f.peer_digest) = 32 /\ Len(f.info_digest) = 32
    [] pl.kind = "kimp" -> /\ \A n \in {"key_id", "alg", "usage", "bits", "lifetime", "lifecycle", "mk_id"} : Fits(f[n], 4)
                           /\ Fits(f.type, 2) /\ Small(f.wrap) \in {1, 2} /\ Fits(f.wrap, 1) /\ (Small(f.wrap) = 2 => Len(f.iv) = 16)
                           /\ f.keyLen % 8 = 0 /\ f.keyLen >= 16
    [] OTHER -> FALSE
(* cipher outputs of the key-import blob: RFC 3394 adds one 64-bit block, CBC keeps the length (or adds one padding block); CMAC = 16 bytes *)
KimpFacts(pl, e) ==
  pl.kind = "kimp" => /\ e.unwrapOk /\ e.cmacOk /\ Len(e.sig) = 16
                      /\ Len(e.wrapped) \in (IF Small(pl.f.wrap) = 1 THEN {pl.f.keyLen + 8} ELSE {pl.f.keyLen, pl.f.keyLen + 16})

MsgValid(m, cver) == /\ Fits(m.certVer, 1) /\ Fits(m.perm, 1) /\ Fits(m.month, 1) /\ Small(m.month) \in 1..12
                     /\ Fits(m.year, 2) /\ Small(m.year) < 4096
                     /\ Len(m.uuid) \in (IF cver = 2 THEN {8, 16} ELSE {8})
ContValid(c) == /\ c.srkSet # 0 /\ ~Revoked(c.used, c.revoke)            \* a signed message is authenticated; the selected key is not revoked
                /\ ~WrongSigner(c)                                      \* a certificate is signed by the selected SRK
                /\ c.sw < 65536 /\ c.fuse < 256
Valid(x) == ContValid(x.cont) /\ MsgValid(x.msg, x.cver) /\ PayloadValid(x.pl) /\ (x.enc => Len(x.iv) = 32)

Rom(x) == [cver |-> x.cver, maxImg |-> 0, cont |-> <<x.cont>>, refuse |-> FALSE]
M0 == [S0 EXCEPT !.st = "MHdr"]

(* ------------------------------------------------------------------ container header of a signed message *)
MHdrOK(x, s, e) ==
  /\ s.st = "MHdr" /\ e.ci = 0 /\ e.at = 0
  /\ e.tagOk /\ e.version = ContVersion(x.cver) /\ e.reserved = 0 /\ e.nImages = 0
  /\ e.srkSet = x.cont.srkSet /\ e.used = x.cont.used /\ e.revoke = x.cont.revoke        \* decoded = supplied
  /\ e.flagsOther = <<0, 0>>
  /\ e.sw = x.cont.sw /\ e.fuse = x.cont.fuse
  /\ e.sigBlockOff >= MsgAt + MsgHeadLen + 8
  /\ e.length >= e.sigBlockOff + SbHdrLen
MHdrNx(x, s, e) == [s EXCEPT !.c = e, !.st = "Desc"]

(* ------------------------------------------------------------------ message descriptor *)
DescOK(x, s, e) ==
  /\ s.st = "Desc" /\ e.at = HdrLen /\ e.rsvZero
  /\ e.flags = (IF x.enc THEN 1 ELSE 0)                     \* bit 0: the payload is encrypted and the IV is given
  /\ e.iv = (IF x.enc THEN x.iv ELSE Zeros(32))
DescNx(x, s, e) == [s EXCEPT !.st = "MsgHead"]

(* ------------------------------------------------------------------ message header *)
MsgHeadOK(x, s, e) ==
  /\ s.st = "MsgHead" /\ e.at = MsgAt /\ e.rsvZero
  /\ e.month = Small(x.msg.month) /\ e.year = Small(x.msg.year)
  /\ e.perm = Small(x.msg.perm) /\ e.certVer = Small(x.msg.certVer)
  /\ e.cmd = CmdOf(x.pl.kind)
  /\ e.uuidLen \in (IF x.cver = 2 THEN {8, 16} ELSE {8})   \* 64 bits; the version-2 format also knows 128 bits
  /\ Len(e.uuid) = e.uuidLen /\ e.uuid = WordSwap(x.msg.uuid)
MsgHeadNx(x, s, e) == [s EXCEPT !.k = MsgAt + MsgHeadLen + e.uuidLen, !.st = "Payload"]

(* ------------------------------------------------------------------ payload of the command *)
PayloadOK(x, s, e) ==
  /\ s.st = "Payload" /\ e.at = s.k
  /\ e.len = Len(e.bytes) /\ e.at + e.len = s.c.sigBlockOff         \* the signature block follows the payload
  /\ e.declared = e.len                                              \* ... and the payload's own length (fixed / counted / self-delimiting) says the same
  /\ KimpFacts(x.pl, e)
  /\ e.bytes = PayloadOf(x.pl, e)
PayloadNx(x, s, e) == [s EXCEPT !.st = "SigBlk", !.hp = {<<MsgAt, e.at + e.len>>}]

(* ------------------------------------------------------------------ end: nothing but zero padding up to the 64-bit boundary behind the container *)
MAcceptOK(x, s, e) ==
  /\ s.st = "Hdr" /\ s.ci = 1
  /\ e.fileLen >= s.c.length /\ e.fileLen < s.c.length + 8 /\ e.padZero
MAcceptNx(x, s, e) == [s EXCEPT !.st = "Accepted"]

(* ------------------------------------------------------------------ the walk as a function *)
MStepOK(x, s, e) ==
  CASE e.ev = "MsgContainerHeader" -> MHdrOK(x, s, e)        [] e.ev = "Descriptor"      -> DescOK(x, s, e)
    [] e.ev = "MessageHeader"      -> MsgHeadOK(x, s, e)     [] e.ev = "Payload"         -> PayloadOK(x, s, e)
    [] e.ev = "SignatureBlock"     -> SigBlkOK(Rom(x), s, e) [] e.ev = "SrkTable"        -> SrkOK(Rom(x), s, e)
    [] e.ev = "Certificate"        -> CertOK(Rom(x), s, e)   [] e.ev = "VerifySignature" -> SigOK(Rom(x), s, e)
    [] e.ev = "Blob"               -> BlobOK(Rom(x), s, e)   [] e.ev = "ContainerEnd"    -> EndOK(Rom(x), s, e)
    [] e.ev = "MsgAccept"          -> MAcceptOK(x, s, e)
    [] OTHER -> FALSE
MStepNx(x, s, e) ==
  CASE e.ev = "MsgContainerHeader" -> MHdrNx(x, s, e)        [] e.ev = "Descriptor"      -> DescNx(x, s, e)
    [] e.ev = "MessageHeader"      -> MsgHeadNx(x, s, e)     [] e.ev = "Payload"         -> PayloadNx(x, s, e)
    [] e.ev = "SignatureBlock"     -> SigBlkNx(Rom(x), s, e) [] e.ev = "SrkTable"        -> SrkNx(Rom(x), s, e)
    [] e.ev = "Certificate"        -> CertNx(Rom(x), s, e)   [] e.ev = "VerifySignature" -> SigNx(Rom(x), s, e)
    [] e.ev = "Blob"               -> BlobNx(Rom(x), s, e)   [] e.ev = "ContainerEnd"    -> EndNx(Rom(x), s, e)
    [] OTHER                       -> MAcceptNx(x, s, e)
RECURSIVE MRun(_, _, _, _)
MRun(x, s, evs, i) ==
  IF i > Len(evs) \/ s.st = "Accepted" THEN s
  ELSE IF MStepOK(x, s, evs[i]) THEN MRun(x, MStepNx(x, s, evs[i]), evs, i + 1) ELSE [s EXCEPT !.st = "Rejected"]
=============================================================================
