SPECIFICATION Spec
CONSTANTS Variant = "stale_count"  MaxBlocks = 4  MaxRuns = 3  MaxFaults = 1
INVARIANT HandedHeaderValid
CHECK_DEADLOCK FALSE
