SPECIFICATION Spec
CONSTANTS N = 3  MaxFaults = 2  Flush = TRUE  MatchEcho = FALSE
INVARIANT AsSent
INVARIANT NoFalseSuccess
CHECK_DEADLOCK FALSE
