--------------------------- MODULE FusesMC ---------------------------
(* DESIGN model: the reference device (Fuses.tla) || the host flow of Fuses.write_single / read_single (I-spec) || device accesses that may fail. *)
(* Small constants (stated in the .cfg files): 3 words of 2 bits.  word 0 = lock fuse (bit 0 write-protects word 1, bit 1 read-protects word 1),  *)
(* word 1 = plain word guarded by word 0, word 2 = a word with an individual write lock of kind Iwl2 ("implicit" | "always_lock" | "user").         *)
(* Host variants:  Host = "ideal" | "built" (the pre-check of an implicit / always-locked word reads the word INTO the object: the value to be       *)
(* burnt is replaced by what the device holds), CheckStatus (FALSE = the deliberately wrong design that ignores the status of the program),        *)
(* Verify (the host reads the word back after programming and compares as a bit mask).                                                             *)
EXTENDS Naturals, Sequences, FiniteSets, TLC
CONSTANTS Host, CheckStatus, Verify, Iwl2, MaxCalls, MaxFaults, StoreInsteadOfOr, Quiet
MCWords == 0..2
MCBits == 0..1
NoLock == 99
MCLock == [w \in MCWords |-> IF w = 1 THEN [lk |-> 0, wm |-> {0}, rm |-> {1}] ELSE [lk |-> NoLock, wm |-> {}, rm |-> {}]]
MCImplicit == IF Iwl2 = "implicit" THEN {2} ELSE {}
VARIABLES otp, wl,                 \* the device
          pc, op, w, cfg, lockArg, \* the call: operation, word, configured value, lock argument
          obj, known,              \* the host object: value per word, what it believes about the lock fuse
          writes, snap, snapwl, res, ret, calls, faults
D == INSTANCE Fuses WITH Words <- MCWords, Bits <- MCBits, LockOf <- MCLock, ImplicitWords <- MCImplicit
vars == <<otp, wl, pc, op, w, cfg, lockArg, obj, known, writes, snap, snapwl, res, ret, calls, faults>>
Values == (SUBSET MCBits) \ {{}}
Policy(x, l) == IF x = 2 /\ Iwl2 = "always_lock" THEN TRUE ELSE IF x = 2 /\ Iwl2 = "implicit" THEN FALSE ELSE l
NeedsOwnCheck(x) == x = 2 /\ Iwl2 \in {"implicit", "always_lock"}

Init == /\ otp \in [MCWords -> SUBSET MCBits] /\ wl \in SUBSET {1, 2}        \* any earlier life of the device
        /\ pc = "idle" /\ op = "none" /\ w = 0 /\ cfg = {} /\ lockArg = FALSE
        /\ obj = [x \in MCWords |-> {}] /\ known = {}
        /\ writes = <<>> /\ snap = otp /\ snapwl = wl /\ res = "none" /\ ret = {} /\ calls = 0 /\ faults = 0

StartWrite == /\ pc = "idle" /\ calls < MaxCalls
              /\ \E x \in MCWords, v \in Values, l \in BOOLEAN :
                   /\ (x = 2 /\ Iwl2 # "user" => ~l)
                   /\ op' = "write" /\ w' = x /\ cfg' = v /\ lockArg' = l /\ obj' = [obj EXCEPT ![x] = v]
              /\ pc' = "chkLock" /\ writes' = <<>> /\ snap' = otp /\ snapwl' = wl /\ res' = "none" /\ calls' = calls + 1
              /\ UNCHANGED <<otp, wl, known, ret, faults>>
StartRead == /\ pc = "idle" /\ calls < MaxCalls
             /\ \E x \in MCWords : op' = "read" /\ w' = x
             /\ pc' = "chkLock" /\ writes' = <<>> /\ snap' = otp /\ snapwl' = wl /\ res' = "none" /\ calls' = calls + 1
             /\ UNCHANGED <<otp, wl, cfg, lockArg, obj, known, ret, faults>>
Raise == pc' = "idle" /\ res' = "exc"
\* the lock fuse is read first (both operations)
ChkLockNone == /\ pc = "chkLock" /\ MCLock[w].lk = NoLock
               /\ pc' = (IF op = "write" THEN "chkOwn" ELSE "doRead")
               /\ UNCHANGED <<otp, wl, op, w, cfg, lockArg, obj, known, writes, snap, snapwl, res, ret, calls, faults>>
ChkLockRead == /\ pc = "chkLock" /\ MCLock[w].lk # NoLock
               /\ \E fails \in BOOLEAN :
                    /\ (fails => faults < MaxFaults) /\ faults' = faults + (IF fails THEN 1 ELSE 0)
                    /\ IF ~D!ReadOk(MCLock[w].lk, fails) THEN Raise /\ UNCHANGED <<obj, known>>
                       ELSE LET v == otp[MCLock[w].lk] IN
                            /\ obj' = [obj EXCEPT ![MCLock[w].lk] = v] /\ known' = v
                            /\ IF (op = "write" /\ (v \cap MCLock[w].wm) # {}) \/ (op = "read" /\ (v \cap MCLock[w].rm) # {})
                                 THEN Raise ELSE pc' = (IF op = "write" THEN "chkOwn" ELSE "doRead") /\ UNCHANGED res
               /\ UNCHANGED <<otp, wl, op, w, cfg, lockArg, writes, snap, snapwl, ret, calls>>
\* a word that locks itself / is always locked must still hold its reset value
ChkOwnSkip == /\ pc = "chkOwn" /\ ~NeedsOwnCheck(w) /\ pc' = "prog"
              /\ UNCHANGED <<otp, wl, op, w, cfg, lockArg, obj, known, writes, snap, snapwl, res, ret, calls, faults>>
ChkOwnRead == /\ pc = "chkOwn" /\ NeedsOwnCheck(w)
              /\ \E fails \in BOOLEAN :
                   /\ (fails => faults < MaxFaults) /\ faults' = faults + (IF fails THEN 1 ELSE 0)
                   /\ IF ~D!ReadOk(w, fails) THEN Raise /\ UNCHANGED obj
                      ELSE /\ obj' = (IF Host = "built" THEN [obj EXCEPT ![w] = otp[w]] ELSE obj)     \* as built: read_single stores what it read
                           /\ IF otp[w] # {} THEN Raise ELSE pc' = "prog" /\ UNCHANGED res
              /\ UNCHANGED <<otp, wl, op, w, cfg, lockArg, known, writes, snap, snapwl, ret, calls>>
Prog == /\ pc = "prog"
        /\ \E fails \in BOOLEAN :
             /\ (fails => faults < MaxFaults) /\ faults' = faults + (IF fails THEN 1 ELSE 0)
             /\ LET v == obj[w]  l == Policy(w, lockArg) IN
                /\ D!DoProgram(w, v, l, fails)
                /\ writes' = (IF D!ProgramOk(w, fails) THEN Append(writes, <<w, v, l>>) ELSE writes)
                /\ IF CheckStatus /\ ~D!ProgramAnswer(w, fails) THEN Raise
                   ELSE IF Verify THEN pc' = "verify" /\ UNCHANGED res
                   ELSE pc' = "idle" /\ res' = "done"
        /\ UNCHANGED <<op, w, cfg, lockArg, obj, known, snap, snapwl, ret, calls>>
VerifyRead == /\ pc = "verify"
              /\ \E fails \in BOOLEAN :
                   /\ (fails => faults < MaxFaults) /\ faults' = faults + (IF fails THEN 1 ELSE 0)
                   /\ IF D!ReadOk(w, fails) /\ obj[w] \subseteq otp[w] THEN pc' = "idle" /\ res' = "done" ELSE Raise
              /\ UNCHANGED <<otp, wl, op, w, cfg, lockArg, obj, known, writes, snap, snapwl, ret, calls>>
DoRead == /\ pc = "doRead"
          /\ \E fails \in BOOLEAN :
               /\ (fails => faults < MaxFaults) /\ faults' = faults + (IF fails THEN 1 ELSE 0)
               /\ IF ~D!ReadOk(w, fails) THEN Raise /\ UNCHANGED <<obj, ret>>
                  ELSE obj' = [obj EXCEPT ![w] = otp[w]] /\ ret' = otp[w] /\ pc' = "idle" /\ res' = "done"
          /\ UNCHANGED <<otp, wl, op, w, cfg, lockArg, known, writes, snap, snapwl, calls>>
Next == StartWrite \/ StartRead \/ ChkLockNone \/ ChkLockRead \/ ChkOwnSkip \/ ChkOwnRead \/ Prog \/ VerifyRead \/ DoRead
Spec == Init /\ [][Next]_vars

Returned == pc = "idle" /\ res # "none"
\* every write the API reports as done reached the device once, with the configured value, at the word asked for, with the lock flag the map asks for
NoFalseSuccess == Returned /\ res = "done" /\ op = "write" => writes = << <<w, cfg, Policy(w, lockArg)>> >> /\ cfg \subseteq otp[w]
\* what is left of it under a ROM that does not report refusals (a word that already held the bits cannot be told from one just programmed)
DoneMeansBurnt == Returned /\ res = "done" /\ op = "write" => cfg \subseteq otp[w] /\ \A k \in 1..Len(writes) : writes[k] = <<w, cfg, Policy(w, lockArg)>>
\* a refused operation leaves the device as it was
RefusedUnchanged == Returned /\ res = "exc" => writes = <<>> /\ otp = snap /\ wl = snapwl
ReadsWriteNothing == op = "read" => writes = <<>> /\ otp = snap
MirrorRead == Returned /\ res = "done" /\ op = "read" => ret = otp[w] /\ obj[w] = otp[w] /\ ~D!RProt(w)
\* the object still holds what the caller configured (a retry burns the same value)
ObjectKeepsConfigured == Returned /\ op = "write" => obj[w] = cfg
Monotone == D!Monotone
\* reachability (must be REFUTED): a write can succeed, a write can be refused, a read can be refused
NeverDone == ~(Returned /\ res = "done" /\ op = "write" /\ w = 2)
NeverRefused == ~(Returned /\ res = "exc" /\ op = "write" /\ faults = 0)
=============================================================================
