SPECIFICATION Spec
CONSTANTS Host = "ideal" CheckStatus = TRUE Verify = TRUE Iwl2 = "user" StoreInsteadOfOr = FALSE Quiet = TRUE MaxCalls = 2 MaxFaults = 2
INVARIANT DoneMeansBurnt
INVARIANT ReadsWriteNothing
INVARIANT MirrorRead
PROPERTY Monotone
CHECK_DEADLOCK FALSE
