SPECIFICATION Spec
CONSTANTS Variant = "ideal"  MaxBlocks = 4  MaxRuns = 3  MaxFaults = 1
INVARIANT LoaderAccepts
INVARIANT ChainEndsWithZero
INVARIANT HandedHeaderValid
INVARIANT NoFalseSuccess
INVARIANT SecondRunNeedsReset
CHECK_DEADLOCK FALSE
