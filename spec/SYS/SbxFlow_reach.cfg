SPECIFICATION Spec
CONSTANTS Variant = "ideal"  MaxBlocks = 4  MaxRuns = 3  MaxFaults = 1
INVARIANT Reach
CHECK_DEADLOCK FALSE
