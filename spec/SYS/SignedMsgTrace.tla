---------------------------- MODULE SignedMsgTrace ----------------------------
(* TRACE form of the signed-message automaton (SignedMsg.tla): batch validation of what the executor logged while walking the real     *)
(* bytes SPSDK exported.  A trace = the case x (what the caller supplied / the device expects) + one event per step.                   *)
(*   export traces    walk of a real export ... MsgAccept;  or the single event ExportRefused (only for a case that is not Valid;        *)
(*                    with an exception SPSDK documents);                                                                            *)
(*   tamper traces    walk of the export with one flipped bit - they have to be REJECTED here (counted by the harness);                *)
(*   observer traces  Resume (the accepted walk of the export trace they refer to), then                                              *)
(*                    SpsdkRoundTrip (parse(export(x)) = x, equal re-export, verify() clean), SpsdkConfigRoundTrip (create_config ->   *)
(*                    load_from_config -> same bytes in front of the signature), or Tamper(at) inside the authenticated intervals      *)
(*                    accumulated by the walk followed by SpsdkTamperVerdict (SPSDK's parse / verify must have reported it).           *)
(* A trace is accepted when it is consumed to its end.                                                                               *)
EXTENDS SignedMsg, Json, IOUtils
Traces == ndJsonDeserialize(IOEnv.TRACE_FILE)
VARIABLES tid, l, s
tvars == <<tid, l, s>>
T == Traces[tid].ev
E == T[l]
x == Traces[tid].exp
Is(e) == l <= Len(T) /\ E.ev = e
Adv == l' = l + 1 /\ UNCHANGED tid
TInit == tid \in 1..Len(Traces) /\ l = 1 /\ s = M0 /\ TLCSet(tid, 1)

MsgContainerHeader == Is("MsgContainerHeader") /\ MHdrOK(x, s, E)        /\ s' = MHdrNx(x, s, E)        /\ Adv
Descriptor         == Is("Descriptor")         /\ DescOK(x, s, E)        /\ s' = DescNx(x, s, E)        /\ Adv
MessageHeader      == Is("MessageHeader")      /\ MsgHeadOK(x, s, E)     /\ s' = MsgHeadNx(x, s, E)     /\ Adv
Payload            == Is("Payload")            /\ PayloadOK(x, s, E)     /\ s' = PayloadNx(x, s, E)     /\ Adv
SignatureBlock     == Is("SignatureBlock")     /\ SigBlkOK(Rom(x), s, E) /\ s' = SigBlkNx(Rom(x), s, E) /\ Adv
SrkTable           == Is("SrkTable")           /\ SrkOK(Rom(x), s, E)    /\ s' = SrkNx(Rom(x), s, E)    /\ Adv
Certificate        == Is("Certificate")        /\ CertOK(Rom(x), s, E)   /\ s' = CertNx(Rom(x), s, E)   /\ Adv
VerifySignature    == Is("VerifySignature")    /\ SigOK(Rom(x), s, E)    /\ s' = SigNx(Rom(x), s, E)    /\ Adv
Blob               == Is("Blob")               /\ BlobOK(Rom(x), s, E)   /\ s' = BlobNx(Rom(x), s, E)   /\ Adv
ContainerEnd       == Is("ContainerEnd")       /\ EndOK(Rom(x), s, E)    /\ s' = EndNx(Rom(x), s, E)    /\ Adv
MsgAccept          == Is("MsgAccept")          /\ Valid(x) /\ MAcceptOK(x, s, E) /\ s' = MAcceptNx(x, s, E) /\ Adv     \* Carried: what is not Valid must not be exported
(* the export was refused: only for a case that is not Valid, with an exception of SPSDK's own hierarchy, and nothing follows *)
ExportRefused == /\ Is("ExportRefused") /\ s.st = "MHdr" /\ l = Len(T) /\ ~Valid(x) /\ E.documented
                 /\ s' = [s EXCEPT !.st = "Refused"] /\ Adv
Resume == /\ Is("Resume") /\ l = 1 /\ E.ref \in 1..Len(Traces)
          /\ LET r == MRun(Traces[E.ref].exp, M0, Traces[E.ref].ev, 1) IN r.st = "Accepted" /\ s' = r
          /\ Adv
SpsdkRoundTrip == /\ Is("SpsdkRoundTrip") /\ s.st = "Accepted"
                  /\ E.crash = "" /\ E.parseOk /\ E.equalObj /\ E.reexportEq /\ E.verifyClean
                  /\ s' = [s EXCEPT !.st = "Observed"] /\ Adv
SpsdkConfigRoundTrip == /\ Is("SpsdkConfigRoundTrip") /\ s.st = "Accepted"
                        /\ E.crash = "" /\ E.loaded /\ E.sameSigned
                        /\ s' = [s EXCEPT !.st = "Observed"] /\ Adv
Tamper == /\ Is("Tamper") /\ s.st = "Accepted" /\ InCov(s, E.at)
          /\ s' = [s EXCEPT !.st = "Tampered"] /\ Adv
SpsdkTamperVerdict == /\ Is("SpsdkTamperVerdict") /\ s.st = "Tampered"
                      /\ E.crash = "" /\ E.reported
                      /\ s' = [s EXCEPT !.st = "Observed"] /\ Adv
TNext == MsgContainerHeader \/ Descriptor \/ MessageHeader \/ Payload \/ SignatureBlock \/ SrkTable \/ Certificate \/ VerifySignature \/ Blob
         \/ ContainerEnd \/ MsgAccept \/ ExportRefused \/ Resume \/ SpsdkRoundTrip \/ SpsdkConfigRoundTrip \/ Tamper \/ SpsdkTamperVerdict
Constr == IF TLCGet(tid) < l THEN TLCSet(tid, l) ELSE TRUE
Post == /\ \A i \in 1..Len(Traces) :
             \/ TLCGet(i) - 1 = Len(Traces[i].ev)
             \/ PrintT(<<"REJ", Traces[i].id, TLCGet(i) - 1, Len(Traces[i].ev),
                         Traces[i].ev[IF TLCGet(i) <= Len(Traces[i].ev) THEN TLCGet(i) ELSE Len(Traces[i].ev)].ev>>)
        /\ PrintT(<<"DONE", Len(Traces)>>)
=============================================================================
