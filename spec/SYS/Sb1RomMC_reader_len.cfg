CONSTANTS MaxSecs = 1
 MaxCmds = 2
 MaxPay = 1
 Writer = "ideal"
 Strict = TRUE
 Reader = "as_built"
INIT Init
NEXT Next
INVARIANT TamperResealLen
CHECK_DEADLOCK FALSE
