SPECIFICATION Spec
CONSTANTS MaxChunks = 2  MaxFaults = 1  MaxCalls = 2  Host = "resend"
INVARIANT WrittenOnce
CHECK_DEADLOCK FALSE
