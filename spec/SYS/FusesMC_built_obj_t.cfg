SPECIFICATION Spec
CONSTANTS Host = "built" CheckStatus = TRUE Verify = FALSE Iwl2 = "always_lock" StoreInsteadOfOr = FALSE Quiet = FALSE MaxCalls = 2 MaxFaults = 2
INVARIANT ObjectKeepsConfigured
CHECK_DEADLOCK FALSE
