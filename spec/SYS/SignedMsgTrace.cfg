INIT TInit
NEXT TNext
CONSTRAINT Constr
POSTCONDITION Post
CHECK_DEADLOCK FALSE
