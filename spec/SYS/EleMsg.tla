------------------------------ MODULE EleMsg ------------------------------
(* EdgeLock Enclave messaging: the FIRMWARE side of the messaging unit (reference model; growth beyond the listed properties).               *)
(* Sources: the ELE baseline API as the other hosts of the same firmware use it (U-Boot drivers/misc/imx_ele/ele_api.c: header word          *)
(* version 0x06 | size in words | command | tag 0x17, response tag 0xE1, response word 1 = status 0xD6 / 0x29 | indication | abort code;     *)
(* addresses as two words upper / lower; XOR-of-words CRC as last word of generate-key-blob / derive-key / dump-debug-buffer / get-events),  *)
(* the docstrings of spsdk/ele/ele_message.py for the argument meaning, tests/ele (golden words of write-fuse / read-common-fuse).           *)
(* A 32-bit word is a sequence of 4 bytes (little endian), an address a pair <<hi16, lo16>>; all sizes are plain integers.                    *)
EXTENDS Integers, Sequences, FiniteSets, Bitwise, TLC

Zero == <<0, 0, 0, 0>>
U16(n) == <<n % 256, (n \div 256) % 256>>
H2(a, b) == U16(a) \o U16(b)
RECURSIVE SumSeq(_)
SumSeq(s) == IF s = <<>> THEN 0 ELSE s[1] + SumSeq(Tail(s))
RECURSIVE Flat(_)
Flat(ws) == IF ws = <<>> THEN <<>> ELSE ws[1] \o Flat(Tail(ws))
RECURSIVE XorW(_)
XorW(ws) == IF ws = <<>> THEN Zero ELSE LET r == XorW(Tail(ws)) IN <<ws[1][1] ^^ r[1], ws[1][2] ^^ r[2], ws[1][3] ^^ r[3], ws[1][4] ^^ r[4]>>
Min(a, b) == IF a < b THEN a ELSE b
Limbs(w) == <<w[3] + 256 * w[4], w[1] + 256 * w[2]>>             \* address word -> <<hi16, lo16>>
HalfLo(w) == w[1] + 256 * w[2]

(* ---- CRC-32/MPEG-2 (poly 0x04C11DB7, init 0xFFFFFFFF, no reflection, no final xor) over bytes; register = <<hi16, lo16>> *)
CrcShift(r) == LET top == r[1] >= 32768
                   h == ((r[1] % 32768) * 2) + (r[2] \div 32768)
                   l == (r[2] % 32768) * 2
               IN IF top THEN <<h ^^ 1217, l ^^ 7607>> ELSE <<h, l>>       \* 0x04C1, 0x1DB7
CrcByte(r, b) == LET r0 == <<r[1] ^^ (b * 256), r[2]>> IN CrcShift(CrcShift(CrcShift(CrcShift(CrcShift(CrcShift(CrcShift(CrcShift(r0))))))))
RECURSIVE CrcRun(_, _, _)
CrcRun(r, s, i) == IF i > Len(s) THEN r ELSE CrcRun(CrcByte(r, s[i]), s, i + 1)
Crc32Mpeg(s) == LET r == CrcRun(<<65535, 65535>>, s, 1) IN U16(r[2]) \o U16(r[1])          \* as a little-endian word

(* ---- the message table: command id, request words (header included), nominal response words, CRC as last request / response word,       *)
(*      payload word (1 = first word after the header) holding the command-data / response-data address and the declared response-data size *)
OpTab == [
  ping              |-> [cmd |-> 1,   req |-> 1, resp |-> 2,  crc |-> FALSE, rcrc |-> FALSE, cslot |-> 0, rslot |-> 0, zslot |-> 0],
  enable_apc        |-> [cmd |-> 210, req |-> 1, resp |-> 2,  crc |-> FALSE, rcrc |-> FALSE, cslot |-> 0, rslot |-> 0, zslot |-> 0],
  enable_rtc        |-> [cmd |-> 211, req |-> 1, resp |-> 2,  crc |-> FALSE, rcrc |-> FALSE, cslot |-> 0, rslot |-> 0, zslot |-> 0],
  reset_apc_ctx     |-> [cmd |-> 216, req |-> 1, resp |-> 2,  crc |-> FALSE, rcrc |-> FALSE, cslot |-> 0, rslot |-> 0, zslot |-> 0],
  start_trng        |-> [cmd |-> 163, req |-> 1, resp |-> 2,  crc |-> FALSE, rcrc |-> FALSE, cslot |-> 0, rslot |-> 0, zslot |-> 0],
  release_container |-> [cmd |-> 137, req |-> 1, resp |-> 2,  crc |-> FALSE, rcrc |-> FALSE, cslot |-> 0, rslot |-> 0, zslot |-> 0],
  reset             |-> [cmd |-> 199, req |-> 1, resp |-> 0,  crc |-> FALSE, rcrc |-> FALSE, cslot |-> 0, rslot |-> 0, zslot |-> 0],
  get_fw_status     |-> [cmd |-> 197, req |-> 1, resp |-> 3,  crc |-> FALSE, rcrc |-> FALSE, cslot |-> 0, rslot |-> 0, zslot |-> 0],
  get_fw_version    |-> [cmd |-> 157, req |-> 1, resp |-> 4,  crc |-> FALSE, rcrc |-> FALSE, cslot |-> 0, rslot |-> 0, zslot |-> 0],
  get_trng_state    |-> [cmd |-> 164, req |-> 1, resp |-> 3,  crc |-> FALSE, rcrc |-> FALSE, cslot |-> 0, rslot |-> 0, zslot |-> 0],
  dump_debug        |-> [cmd |-> 33,  req |-> 1, resp |-> 23, crc |-> FALSE, rcrc |-> TRUE,  cslot |-> 0, rslot |-> 0, zslot |-> 0],
  get_events        |-> [cmd |-> 162, req |-> 1, resp |-> 12, crc |-> FALSE, rcrc |-> TRUE,  cslot |-> 0, rslot |-> 0, zslot |-> 0],
  read_common_fuse  |-> [cmd |-> 151, req |-> 2, resp |-> 3,  crc |-> FALSE, rcrc |-> FALSE, cslot |-> 0, rslot |-> 0, zslot |-> 0],
  read_shadow_fuse  |-> [cmd |-> 243, req |-> 2, resp |-> 3,  crc |-> FALSE, rcrc |-> FALSE, cslot |-> 0, rslot |-> 0, zslot |-> 0],
  write_fuse        |-> [cmd |-> 214, req |-> 3, resp |-> 3,  crc |-> FALSE, rcrc |-> FALSE, cslot |-> 0, rslot |-> 0, zslot |-> 0],
  write_shadow_fuse |-> [cmd |-> 242, req |-> 3, resp |-> 2,  crc |-> FALSE, rcrc |-> FALSE, cslot |-> 0, rslot |-> 0, zslot |-> 0],
  commit            |-> [cmd |-> 168, req |-> 2, resp |-> 3,  crc |-> FALSE, rcrc |-> FALSE, cslot |-> 0, rslot |-> 0, zslot |-> 0],
  verify_image      |-> [cmd |-> 136, req |-> 2, resp |-> 4,  crc |-> FALSE, rcrc |-> FALSE, cslot |-> 0, rslot |-> 0, zslot |-> 0],
  fwd_lifecycle     |-> [cmd |-> 149, req |-> 2, resp |-> 2,  crc |-> FALSE, rcrc |-> FALSE, cslot |-> 0, rslot |-> 0, zslot |-> 0],
  fw_auth           |-> [cmd |-> 2,   req |-> 4, resp |-> 2,  crc |-> FALSE, rcrc |-> FALSE, cslot |-> 0, rslot |-> 0, zslot |-> 0],
  oem_cntn_auth     |-> [cmd |-> 135, req |-> 3, resp |-> 2,  crc |-> FALSE, rcrc |-> FALSE, cslot |-> 0, rslot |-> 0, zslot |-> 0],
  get_info          |-> [cmd |-> 218, req |-> 4, resp |-> 2,  crc |-> FALSE, rcrc |-> FALSE, cslot |-> 0, rslot |-> 2, zslot |-> 3],
  derive_key        |-> [cmd |-> 169, req |-> 7, resp |-> 2,  crc |-> TRUE,  rcrc |-> FALSE, cslot |-> 4, rslot |-> 2, zslot |-> 5],
  keyblob_dek       |-> [cmd |-> 175, req |-> 8, resp |-> 2,  crc |-> TRUE,  rcrc |-> FALSE, cslot |-> 3, rslot |-> 5, zslot |-> 6],
  keyblob_otfad     |-> [cmd |-> 175, req |-> 8, resp |-> 2,  crc |-> TRUE,  rcrc |-> FALSE, cslot |-> 3, rslot |-> 5, zslot |-> 6],
  keyblob_iee       |-> [cmd |-> 175, req |-> 8, resp |-> 2,  crc |-> TRUE,  rcrc |-> FALSE, cslot |-> 3, rslot |-> 5, zslot |-> 6],
  load_keyblob      |-> [cmd |-> 167, req |-> 4, resp |-> 2,  crc |-> FALSE, rcrc |-> FALSE, cslot |-> 3, rslot |-> 0, zslot |-> 0],
  signed            |-> [cmd |-> 0,   req |-> 3, resp |-> 2,  crc |-> FALSE, rcrc |-> FALSE, cslot |-> 2, rslot |-> 0, zslot |-> 0] ]
Ops == DOMAIN OpTab
KeyBlobOps == {"keyblob_dek", "keyblob_otfad", "keyblob_iee"}
T(c) == OpTab[c.op]
Cmd(c) == IF c.op = "signed" THEN c.cmd ELSE T(c).cmd            \* a signed message travels under the command its container names
Loaded(c) == c.op \in {"fw_auth", "oem_cntn_auth"} /\ Len(c.blob) > 0       \* the tool loads the container itself and names the place it chose
CSlot(c) == IF Loaded(c) THEN (IF c.op = "fw_auth" THEN 1 ELSE 2) ELSE T(c).cslot
HasCData(c) == CSlot(c) > 0 /\ (c.op = "derive_key" => Len(c.ctx) > 0)
HasRData(c) == T(c).rslot > 0

(* ---- the command data the firmware expects behind the command-data address *)
\* IEE region attribute: bypass bit 7, mode bits 4..6 (XTS = 1, CTR = the CTR mode), key size bit 0 (512-bit XTS / 256-bit CTR)
IeeAttr(c) == LET xts == c.n[1] = 55 IN
              (IF c.n[4] = 1 THEN 128 ELSE 0) + 16 * (IF xts THEN 1 ELSE c.n[2]) + (IF (xts /\ Len(c.key) = 64) \/ (~xts /\ Len(c.key) = 32) THEN 1 ELSE 0)
Pad32(s) == s \o [i \in 1..(32 - Len(s)) |-> 0]
IeeCfg(c) == LET xts == c.n[1] = 55
                 k1 == IF xts THEN SubSeq(c.key, 1, Len(c.key) \div 2) ELSE c.key
                 k2 == IF xts THEN SubSeq(c.key, Len(c.key) \div 2 + 1, Len(c.key)) ELSE c.ctr
             IN <<IeeAttr(c), 0, 0, 0>> \o c.w[2] \o Pad32(k1) \o Pad32(k2) \o <<c.n[3], c.n[5], 0, 0>>
\* OTFAD: key 16, counter 8, start address, end address | read-only 4 | decryption enabled 2 | valid 1, reserved word
OtfadCfg(c) == c.key \o c.ctr \o c.w[2] \o <<c.w[3][1] + c.n[2], c.w[3][2], c.w[3][3], c.w[3][4]>> \o Zero
ExpCData(c) ==
  CASE c.op = "derive_key" -> c.ctx
    [] c.op \in {"load_keyblob", "signed", "fw_auth", "oem_cntn_auth"} -> c.blob
    [] c.op = "keyblob_dek" -> <<0>> \o U16(8 + Len(c.key)) \o <<129>> \o <<1, Len(c.key), c.n[1], 0>> \o c.key
    [] c.op = "keyblob_otfad" -> <<0, 48, 0, 129>> \o <<2, 40, c.n[1], 0>> \o OtfadCfg(c) \o Crc32Mpeg(OtfadCfg(c))
    [] c.op = "keyblob_iee" -> <<0, 88, 0, 129>> \o <<3, Len(c.key), c.n[1], 0>> \o IeeCfg(c) \o Crc32Mpeg(IeeCfg(c))
    [] OTHER -> <<>>

(* ---- the request words the firmware expects for a call; W = the words found at the command address (only the address / size slots are   *)
(*      taken from it - they are the host's choice and are constrained separately)                                                        *)
Payload(c, W) ==
  LET n == c.n  w == c.w IN
  CASE c.op = "read_common_fuse" -> << H2(n[1], 0) >>
    [] c.op = "read_shadow_fuse" -> << w[1] >>
    [] c.op = "write_fuse" -> << H2(n[1], n[2] + (IF n[3] = 1 THEN 32768 ELSE 0)), w[1] >>
    [] c.op = "write_shadow_fuse" -> << w[1], w[2] >>
    [] c.op = "commit" -> << H2(SumSeq(n), 0) >>
    [] c.op = "verify_image" -> << w[1] >>
    [] c.op = "fwd_lifecycle" -> << H2(n[1], 0) >>
    [] c.op = "fw_auth" -> IF Loaded(c) THEN << W[2], Zero, W[2] >> ELSE << w[1], Zero, w[1] >>
    [] c.op = "oem_cntn_auth" -> IF Loaded(c) THEN << Zero, W[3] >> ELSE << Zero, w[1] >>
    [] c.op = "get_info" -> << Zero, W[3], <<W[4][1], W[4][2], 0, 0>> >>
    [] c.op = "derive_key" -> << Zero, W[3], Zero, IF Len(c.ctx) > 0 THEN W[5] ELSE Zero, H2(n[1], Len(c.ctx)) >>
    [] c.op \in KeyBlobOps -> << w[1], Zero, W[4], Zero, W[6], <<W[7][1], W[7][2], 0, 0>> >>
    [] c.op = "load_keyblob" -> << w[1], Zero, W[4] >>
    [] c.op = "signed" -> << Zero, W[3] >>
    [] OTHER -> <<>>
ReqHdr(c) == <<6, T(c).req, Cmd(c), 23>>
ExpReq(c, W) == LET body == <<ReqHdr(c)>> \o Payload(c, W) IN IF T(c).crc THEN body \o <<XorW(body)>> ELSE body
DeclSize(c, W) == IF T(c).zslot > 0 THEN HalfLo(W[T(c).zslot + 1]) ELSE 0       \* declared size of the response-data buffer

(* ---- what the firmware answers in the scenario of the call *)
Flip(w) == <<w[1] ^^ 1, w[2], w[3], w[4]>>
Success(c) == c.scen.status = 214
FullPay(c) == Len(c.rwords) + (IF T(c).rcrc THEN 1 ELSE 0)
NoFault(c) == c.scen.fault = "none" \/ (c.scen.fault = "short1" /\ FullPay(c) < 2)        \* nothing to drop: not a fault
NPay(c) == IF ~Success(c) \/ c.scen.fault = "short" THEN 0
           ELSE LET full == Len(c.rwords) + (IF T(c).rcrc THEN 1 ELSE 0) IN IF c.scen.fault = "short1" /\ full >= 2 THEN full - 1 ELSE full
RespHdr(c) == << IF c.scen.fault = "version" THEN 7 ELSE 6, 2 + NPay(c) + (IF c.scen.fault = "size_big" THEN 1 ELSE 0),
                 IF c.scen.fault = "cmd" THEN (Cmd(c) + 1) % 256 ELSE Cmd(c), IF c.scen.fault = "tag" THEN 23 ELSE 225 >>
RespWords(c) ==
  LET head == <<RespHdr(c), <<c.scen.status, c.scen.ind, c.scen.abort[1], c.scen.abort[2]>> >>
      body == head \o c.rwords
      all == IF T(c).rcrc THEN body \o << IF c.scen.fault = "crc" THEN Flip(XorW(body)) ELSE XorW(body) >> ELSE body
      cut == SubSeq(all, 1, 2 + NPay(c))
  IN IF c.scen.fault = "payload" /\ Len(cut) > 2 THEN [cut EXCEPT ![3] = Flip(cut[3])] ELSE cut
GivesData(c) == Success(c) /\ c.scen.fault = "none" /\ HasRData(c)

(* ---- the decoded values a host must hand to its caller after a successful exchange *)
ExpFw(c) ==
  LET rw == c.rwords IN
  CASE c.op \in {"read_common_fuse", "read_shadow_fuse"} -> <<rw[1]>>
    [] c.op \in {"get_fw_version", "verify_image"} -> <<rw[1], rw[2]>>
    [] c.op = "get_fw_status" -> << <<rw[1][1], 0, 0, 0>> >>
    [] c.op \in {"get_trng_state", "write_fuse"} -> << <<rw[1][1], rw[1][2], 0, 0>> >>
    [] c.op = "get_events" -> << <<rw[1][1], rw[1][2], 0, 0>> >> \o SubSeq(rw, 2, 9)
    [] c.op = "dump_debug" -> rw
    [] OTHER -> <<>>
\* get-info data (struct ele_get_info_data): cmd, version, length; soc id, soc revision; life cycle, SSSM state, reserved; UID 16; SHA-256 of the
\* ROM patch; SHA-256 of the firmware; version 2: OEM SRKH (64 bytes, a SHA-256 uses the first 32), TRNG / CSAL / IMEM state, reserved
ExpData(c) ==
  LET r == c.rdata IN
  CASE c.op = "get_info" -> SubSeq(r, 1, 11) \o SubSeq(r, 13, 92) \o (IF r[2] = 2 THEN SubSeq(r, 93, 124) \o SubSeq(r, 157, 159) ELSE <<>>)
    [] c.op = "derive_key" -> SubSeq(r, 1, c.n[1])
    [] c.op \in KeyBlobOps -> SubSeq(r, 1, r[2] + 256 * r[3])
    [] OTHER -> <<>>
=============================================================================
