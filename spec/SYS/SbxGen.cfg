INIT GInit
NEXT GNext
CHECK_DEADLOCK FALSE
