---------------------------- MODULE EleMsgTrace ----------------------------
(* Trace form of the ELE messaging model: what a real host did to a bootloader twin with an ELE behind it, decided against EleMsg.tla.       *)
(* Events (one per step):                                                                                                                    *)
(*   call    the host call: message class, arguments, declared communication buffer, the scenario (what the firmware / bootloader will do)  *)
(*   wr      a write-memory command reached the twin (ok = the data are in memory)                                                          *)
(*   mu      the ele-message command: command address / words, response address / words; ok = the bootloader passed it to the firmware;     *)
(*           dev = what the twin's firmware wrote to memory - RE-DERIVED here from the scenario, so the twin is checked, too                 *)
(*   rd      a read-memory command (d = what the twin returned - re-derived from the memory model)                                          *)
(*   result  what the host call returned / raised, the status word it surfaces, the decoded values                                          *)
(* The memory is a log of writes (offset relative to the declared buffer, bytes); a byte nobody wrote is undefined (-1).                    *)
EXTENDS EleMsg, Json, IOUtils
Traces == ndJsonDeserialize(IOEnv.TRACE_FILE)
VARIABLES tid, l, call, mem, execs, why, lastdev
vars == <<tid, l, call, mem, execs, why, lastdev>>
Tr == Traces[tid].ev
E == Tr[l]
Is(e) == l <= Len(Tr) /\ E.ev = e
Adv == l' = l + 1 /\ UNCHANGED tid
NoCall == [op |-> "none"]
Init == tid \in 1..Len(Traces) /\ l = 1 /\ call = NoCall /\ mem = <<>> /\ execs = 0 /\ why = "ok" /\ lastdev = <<>> /\ TLCSet(tid, 1) /\ TLCSet(tid + 20000, "ok")

\* offset of an address inside the declared buffer, -1 when it is below it or far away
Off(a) == LET dh == a[1] - call.base[1] IN IF dh < 0 - 1 \/ dh > 8000 THEN 0 - 1 ELSE LET o == dh * 65536 + a[2] - call.base[2] IN IF o < 0 THEN 0 - 1 ELSE o
Inside(o, n) == o >= 0 /\ o + n <= call.size
Disjoint(o1, n1, o2, n2) == n1 = 0 \/ n2 = 0 \/ o1 + n1 <= o2 \/ o2 + n2 <= o1
ByteAt(m, x) == LET is == {i \in 1..Len(m) : m[i].o <= x /\ x < m[i].o + Len(m[i].d)} IN
                IF is = {} THEN 0 - 1 ELSE LET i == CHOOSE j \in is : \A k \in is : k <= j IN m[i].d[x - m[i].o + 1]
Read(m, o, n) == [k \in 1..n |-> ByteAt(m, o + k - 1)] \o <<>>
Words(bs) == [i \in 1..(Len(bs) \div 4) |-> SubSeq(bs, 4 * i - 3, 4 * i)] \o <<>>

Ok == why = "ok"
Call == /\ Ok /\ Is("call") /\ call.op = "none" /\ E.op \in Ops /\ call' = E /\ execs' = 0 /\ UNCHANGED <<mem, why, lastdev>> /\ Adv      \* the memory keeps what earlier calls left
Wr == /\ Ok /\ Is("wr") /\ call.op # "none"
      /\ IF E.ok THEN IF Inside(Off(E.a), Len(E.d))                                        \* the host writes inside the buffer it declared
                      THEN mem' = Append(mem, [o |-> Off(E.a), d |-> E.d]) /\ UNCHANGED why /\ Adv
                      ELSE why' = "write-outside-declared-buffer" /\ UNCHANGED <<mem, l, tid>>
         ELSE call.scen.mbfail = "wr" /\ UNCHANGED <<mem, why>> /\ Adv
      /\ UNCHANGED <<call, execs, lastdev>>
\* the firmware takes the request: every word is the documented encoding of the call, every buffer lies inside the declared one
FirstDiff(A, B) == CHOOSE k \in 1..Len(A) : A[k] # B[k] /\ \A j \in 1..(k - 1) : A[j] = B[j]
ReqWhy(W, ca, cn, ra, rn) ==
  LET t == T(call)
      co == Off(ca)  ro == Off(ra)
      cd == IF HasCData(call) THEN Off(Limbs(W[CSlot(call) + 1])) ELSE 0
      cdn == IF HasCData(call) THEN Len(ExpCData(call)) ELSE 0
      rd == IF HasRData(call) THEN Off(Limbs(W[t.rslot + 1])) ELSE 0
      rdn == IF HasRData(call) THEN DeclSize(call, W) ELSE 0
  IN IF cn # t.req THEN "command-word-count"
     ELSE IF rn < t.resp \/ (t.resp = 0 /\ rn # 0) THEN "response-word-count"
     ELSE IF ca[2] % 4 # 0 \/ ~Inside(co, 4 * cn) THEN "command-address"
     ELSE IF ra[2] % 4 # 0 \/ ~Inside(ro, 4 * rn) THEN "response-address"
     ELSE IF Len(W) # t.req THEN "command-words-never-written"
     ELSE IF W # ExpReq(call, W) THEN "word-" \o ToString(FirstDiff(W, ExpReq(call, W)) - 1)           \* word 0 = header
     ELSE IF HasCData(call) /\ (Limbs(W[CSlot(call) + 1])[2] % 4 # 0 \/ ~Inside(cd, cdn)) THEN "command-data-address"
     ELSE IF HasCData(call) /\ Read(mem, cd, cdn) # ExpCData(call) THEN "command-data"
     ELSE IF HasRData(call) /\ (Limbs(W[t.rslot + 1])[2] % 4 # 0 \/ ~Inside(rd, rdn)) THEN "response-data-address"
     ELSE IF HasRData(call) /\ rdn < Len(call.rdata) THEN "response-data-size"
     ELSE IF HasRData(call) /\ ~Disjoint(rd, rdn, ro, 4 * rn) THEN "response-data-overlaps-response-words"
     ELSE "ok"
DevWrites(W, ra, rn) ==
  IF T(call).resp = 0 THEN <<>>
  ELSE LET rw == RespWords(call) IN
       << [a |-> ra, d |-> Flat(SubSeq(rw, 1, Min(rn, Len(rw))))] >> \o
       (IF GivesData(call) THEN << [a |-> Limbs(W[T(call).rslot + 1]), d |-> SubSeq(call.rdata, 1, Min(DeclSize(call, W), Len(call.rdata)))] >> ELSE <<>>)
RECURSIVE Apply(_, _)
Apply(m, ws) == IF ws = <<>> THEN m ELSE Apply(Append(m, [o |-> Off(ws[1].a), d |-> ws[1].d]), Tail(ws))
Mu == /\ Ok /\ Is("mu") /\ call.op # "none"
      /\ IF E.ok
         THEN LET W == IF Off(E.ca) >= 0 /\ E.cn <= 64 THEN Words(Read(mem, Off(E.ca), 4 * E.cn)) ELSE <<>>
                  y == IF E.sub # 0 THEN "bootloader-subcommand" ELSE ReqWhy(W, E.ca, E.cn, E.ra, E.rn) IN
              /\ why' = y
              /\ IF y = "ok" THEN /\ lastdev' = DevWrites(W, E.ra, E.rn) /\ mem' = Apply(mem, lastdev') /\ execs' = execs + 1 /\ Adv
                 ELSE UNCHANGED <<mem, execs, lastdev, l, tid>>
         ELSE call.scen.mbfail = "mu" /\ UNCHANGED <<mem, execs, why, lastdev>> /\ Adv
      /\ UNCHANGED call
\* the twin did what the firmware of this scenario does (a disagreement here is a failure of the machinery, not an observation)
Dev == /\ Ok /\ Is("dev") /\ E.w = lastdev /\ UNCHANGED <<call, mem, execs, why, lastdev>> /\ Adv
Rd == /\ Ok /\ Is("rd") /\ call.op # "none"
      /\ IF E.ok THEN /\ Len(E.d) = E.nn /\ Off(E.a) >= 0
                      /\ \A k \in 1..E.nn : LET b == ByteAt(mem, Off(E.a) + k - 1) IN b = 0 - 1 \/ b = E.d[k]
         ELSE call.scen.mbfail \in {"rd", "rd_short"}
      /\ UNCHANGED <<call, mem, execs, why, lastdev>> /\ Adv
Benign == Success(call) /\ NoFault(call) /\ call.scen.mbfail = "none"
ProperFailure == ~Success(call) /\ call.scen.fault = "none" /\ call.scen.mbfail = "none"
Refused == call.tight /\ E.kind = "exc" /\ E.exc = "SPSDKValueError" /\ execs = 0        \* a buffer too small for the message may be refused before anything is sent
SameStatus == E.status = call.scen.status /\ E.ind = call.scen.ind /\ E.abort = call.scen.abort
ResWhy ==
  IF E.kind = "exc" /\ ~E.documented THEN "undocumented-exception"                         \* Documented
  ELSE IF Benign /\ E.kind # "ret" /\ ~Refused THEN "fails-without-cause"                  \* Mirror
  ELSE IF E.kind = "ret" /\ ~Benign /\ T(call).resp > 0 THEN "false-success"                                   \* NoFalseSuccess: the firmware said success, nothing was malformed,
  ELSE IF E.kind = "ret" /\ execs # 1 /\ T(call).resp > 0 THEN "false-success-not-executed-once"               \*   executed once,
  ELSE IF E.kind = "ret" /\ T(call).resp > 0 /\ ~SameStatus THEN "status-word-not-the-firmware's"
  ELSE IF E.kind = "ret" /\ T(call).resp > 0 /\ E.fw # ExpFw(call) THEN "values-not-the-firmware's"       \*   the values are the firmware's,
  ELSE IF E.kind = "ret" /\ T(call).resp > 0 /\ E.data # ExpData(call) THEN "data-not-the-firmware's"     \*   exact and complete
  ELSE IF ProperFailure /\ execs = 1 /\ ~SameStatus THEN "failure-status-not-surfaced"     \* Surfaced
  ELSE "ok"
Result ==
  /\ Ok /\ Is("result") /\ call.op # "none"
  /\ why' = ResWhy
  /\ IF why' = "ok" THEN call' = NoCall /\ Adv ELSE UNCHANGED <<call, l, tid>>
  /\ UNCHANGED <<mem, execs, lastdev>>
Next == Call \/ Wr \/ Mu \/ Dev \/ Rd \/ Result
Constr == (IF TLCGet(tid) < l THEN TLCSet(tid, l) ELSE TRUE) /\ (IF why # "ok" THEN TLCSet(tid + 20000, why) ELSE TRUE)
Post == /\ \A i \in 1..Len(Traces) : \/ TLCGet(i) - 1 = Len(Traces[i].ev)
          \/ PrintT(<<"REJ", Traces[i].id, TLCGet(i) - 1, Len(Traces[i].ev), Traces[i].ev[IF TLCGet(i) <= Len(Traces[i].ev) THEN TLCGet(i) ELSE Len(Traces[i].ev)].ev, TLCGet(i + 20000)>>)
        /\ PrintT(<<"DONE", Len(Traces)>>)
=============================================================================
