CONSTANTS MaxSecs = 2
 MaxCmds = 1
 MaxPay = 1
 Writer = "last_on_last_bootable"
 Strict = TRUE
 Reader = "reference"
INIT Init
NEXT Next
INVARIANT Complete
INVARIANT BootFinds
INVARIANT Tamper
INVARIANT Sound
CHECK_DEADLOCK TRUE
