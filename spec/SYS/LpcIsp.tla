------------------------------ MODULE LpcIsp ------------------------------
(* Reference model of the UART ISP command handler of the LPC8xx boot ROM (growth beyond the listed properties).                           *)
(* Sources: the protocol description SPSDK ships (examples/lpcprog/lpcprog.ipynb 1.2 "Synchronization", the doc strings of               *)
(* spsdk/lpcprog/protocol.py that quote the user manual, spsdk/lpcprog/error_codes.py for the numeric return codes) and the ISP chapter   *)
(* of the LPC8xx user manuals / AN13815 those texts come from.  This module is the DEVICE only, written as functions over a device        *)
(* record so that the design model (LpcIspMC), the generator (LpcIspGen) and the trace form (LpcIspTrace) all use the same automaton.     *)
(*                                                                                                                                         *)
(*  synchronisation : "?" -> "Synchronized" ; line "Synchronized" -> (echo) "OK" ; line <crystal kHz> -> (echo) "OK" ; command handler     *)
(*                    a line that is not "Synchronized" sends the auto-baud routine back to waiting for "?"                                *)
(*  command line    : <letter> <decimal arguments> CR LF ; echoed when echo is on ; answered with <return code> CR LF [+ lines / data]     *)
(*  U code | A 0/1 (echo) | B baud stop | W addr n + n raw bytes -> "OK" | R addr n -> n raw bytes | P s e | C flash ram n | G addr [T]     *)
(*  E s e | X p e (pages) | I s e | J | K | M a1 a2 n | N | S addr n                                                                       *)
(*  flash rule      : C / E / X need the Unlock code first (CMD_LOCKED) and every sector they touch prepared by P (SECTOR_NOT_PREPARED...);  *)
(*                    a successful C / E / X protects the sectors again.                                                                  *)
(* Geometry record g = [pb (page bytes), sb (sector bytes), ns (sectors), rbase, rsize] ; flash starts at 0.  A memory word is a signed    *)
(* 32-bit integer (0xFFFFFFFF = -1).  Memories are SPARSE maps word index -> word over an initial pattern the spec computes.               *)
(* Where the manual gives no order between two error causes the model has one, and the generated cases carry a single cause each.         *)
EXTENDS Integers, Sequences, FiniteSets
Blank == -1
InitF(i) == ((i * 40503) + 12345) % 1000003            \* a flash that holds something (word index -> word)
InitR(i) == ((i * 7919) + 17) % 999983                 \* RAM is never blank
UnlockCode == 23130
Bauds == {9600, 19200, 38400, 57600, 115200, 230400, 460800}
\* return codes (spsdk/lpcprog/error_codes.py = table "ISP return codes" of the manual)
RcOk == 0   RcInvalidCommand == 1   RcSrcAddr == 2   RcDstAddr == 3   RcSrcMap == 4   RcDstMap == 5   RcCount == 6   RcSector == 7
RcNotBlank == 8   RcNotPrepared == 9   RcCompare == 10   RcBusy == 11   RcParam == 12   RcAddr == 13   RcAddrMap == 14   RcLocked == 15
RcCode == 16   RcBaud == 17   RcStop == 18

Empty == [i \in {} |-> 0]
NewDev(fini, ids) == [st |-> "auto", echo |-> TRUE, unl |-> FALSE, prep |-> {}, fl |-> Empty, rm |-> Empty, fini |-> fini,
                      dleft |-> 0, dcnt |-> 0, daddr |-> 0, freq |-> -2, ids |-> ids]
\* ---- memory
FAt(d, i) == IF i \in DOMAIN d.fl THEN d.fl[i] ELSE IF d.fini = "blank" THEN Blank ELSE InitF(i)
RAt(d, i) == IF i \in DOMAIN d.rm THEN d.rm[i] ELSE InitR(i)
InFlash(g, a, n) == a >= 0 /\ n >= 0 /\ a + n <= g.sb * g.ns
InRam(g, a, n) == a >= g.rbase /\ n >= 0 /\ a + n <= g.rbase + g.rsize
Mapped(g, a, n) == InFlash(g, a, n) \/ InRam(g, a, n)
\* the word at byte address a (a mapped, word aligned)
At(g, d, a) == IF a >= g.rbase THEN RAt(d, (a - g.rbase) \div 4) ELSE FAt(d, a \div 4)
Words(g, d, a, n) == [k \in 1..(n \div 4) |-> At(g, d, a + 4 * (k - 1))]
PutW(m, base, ws) == [i \in (DOMAIN m) \cup (base..(base + Len(ws) - 1)) |-> IF i >= base /\ i < base + Len(ws) THEN ws[i - base + 1] ELSE m[i]]
Fill(m, lo, hi, v) == [i \in (DOMAIN m) \cup (lo..hi) |-> IF i >= lo /\ i <= hi THEN v ELSE m[i]]
SectorsOf(g, a, n) == (a \div g.sb)..((a + n - 1) \div g.sb)
CopyCounts(g) == {g.pb * k : k \in {1, 2, 4, 8, 16}} \cap (1..g.sb)       \* 64 | 128 | 256 | 512 | 1024 on the real parts
Pages(g) == (g.sb * g.ns) \div g.pb
MinOf(S) == CHOOSE x \in S : \A y \in S : x <= y

\* ---- one command line in the command handler:  -> [d |-> device afterwards, rc |-> return code, x |-> values that follow the return code]
Ret(d, rc) == [d |-> d, rc |-> rc, x |-> <<>>]
RetX(d, rc, x) == [d |-> d, rc |-> rc, x |-> x]
\* f = what only the silicon knows (the CRC engine's word for S)
Cmd(g, d, c, a, f) ==
  LET n == Len(a) IN
  CASE c = "U" -> IF n # 1 THEN Ret(d, RcParam) ELSE IF a[1] = UnlockCode THEN Ret([d EXCEPT !.unl = TRUE], RcOk) ELSE Ret(d, RcCode)
    [] c = "A" -> IF n # 1 \/ (n = 1 /\ a[1] \notin {0, 1}) THEN Ret(d, RcParam) ELSE Ret([d EXCEPT !.echo = (a[1] = 1)], RcOk)
    [] c = "B" -> IF n # 2 THEN Ret(d, RcParam) ELSE IF a[1] \notin Bauds THEN Ret(d, RcBaud) ELSE IF a[2] \notin {1, 2} THEN Ret(d, RcStop) ELSE Ret(d, RcOk)
    [] c = "W" -> IF n # 2 THEN Ret(d, RcParam)
                  ELSE IF a[1] % 4 # 0 THEN Ret(d, RcAddr)
                  ELSE IF ~InRam(g, a[1], a[2]) THEN Ret(d, RcAddrMap)
                  ELSE IF a[2] % 4 # 0 \/ a[2] = 0 THEN Ret(d, RcCount)
                  ELSE Ret([d EXCEPT !.dleft = a[2], !.dcnt = a[2], !.daddr = a[1]], RcOk)
    [] c = "R" -> IF n # 2 THEN Ret(d, RcParam)
                  ELSE IF a[1] % 4 # 0 THEN Ret(d, RcAddr)
                  ELSE IF ~Mapped(g, a[1], a[2]) THEN Ret(d, RcAddrMap)
                  ELSE IF a[2] % 4 # 0 \/ a[2] = 0 THEN Ret(d, RcCount)
                  ELSE Ret(d, RcOk)                                            \* followed by a[2] raw bytes = Words(g, d, a[1], a[2])
    [] c = "P" -> IF n # 2 THEN Ret(d, RcParam)
                  ELSE IF ~(0 <= a[1] /\ a[1] <= a[2] /\ a[2] < g.ns) THEN Ret(d, RcSector)
                  ELSE Ret([d EXCEPT !.prep = d.prep \cup (a[1]..a[2])], RcOk)
    [] c = "C" -> IF n # 3 THEN Ret(d, RcParam)
                  ELSE IF ~d.unl THEN Ret(d, RcLocked)
                  ELSE IF a[2] % 4 # 0 THEN Ret(d, RcSrcAddr)
                  ELSE IF a[1] % g.pb # 0 THEN Ret(d, RcDstAddr)
                  ELSE IF a[3] \notin CopyCounts(g) THEN Ret(d, RcCount)
                  ELSE IF ~InRam(g, a[2], a[3]) THEN Ret(d, RcSrcMap)
                  ELSE IF ~InFlash(g, a[1], a[3]) THEN Ret(d, RcDstMap)
                  ELSE IF ~(SectorsOf(g, a[1], a[3]) \subseteq d.prep) THEN Ret(d, RcNotPrepared)
                  ELSE Ret([d EXCEPT !.fl = PutW(d.fl, a[1] \div 4, Words(g, d, a[2], a[3])), !.prep = d.prep \ SectorsOf(g, a[1], a[3])], RcOk)
    [] c = "E" -> IF n # 2 THEN Ret(d, RcParam)
                  ELSE IF ~d.unl THEN Ret(d, RcLocked)
                  ELSE IF ~(0 <= a[1] /\ a[1] <= a[2] /\ a[2] < g.ns) THEN Ret(d, RcSector)
                  ELSE IF ~((a[1]..a[2]) \subseteq d.prep) THEN Ret(d, RcNotPrepared)
                  ELSE Ret([d EXCEPT !.fl = Fill(d.fl, (a[1] * g.sb) \div 4, (((a[2] + 1) * g.sb) \div 4) - 1, Blank), !.prep = d.prep \ (a[1]..a[2])], RcOk)
    [] c = "X" -> IF n # 2 THEN Ret(d, RcParam)
                  ELSE IF ~d.unl THEN Ret(d, RcLocked)
                  ELSE IF ~(0 <= a[1] /\ a[1] <= a[2] /\ a[2] < Pages(g)) THEN Ret(d, RcSector)
                  ELSE IF ~(SectorsOf(g, a[1] * g.pb, (a[2] - a[1] + 1) * g.pb) \subseteq d.prep) THEN Ret(d, RcNotPrepared)
                  ELSE Ret([d EXCEPT !.fl = Fill(d.fl, (a[1] * g.pb) \div 4, (((a[2] + 1) * g.pb) \div 4) - 1, Blank),
                                     !.prep = d.prep \ SectorsOf(g, a[1] * g.pb, (a[2] - a[1] + 1) * g.pb)], RcOk)
    [] c = "I" -> IF n # 2 THEN Ret(d, RcParam)
                  ELSE IF ~(0 <= a[1] /\ a[1] <= a[2] /\ a[2] < g.ns) THEN Ret(d, RcSector)
                  ELSE LET lo == (a[1] * g.sb) \div 4   hi == (((a[2] + 1) * g.sb) \div 4) - 1
                           \* only words that were ever written, or all of them when the initial flash holds something
                           nb == IF d.fini = "blank" THEN {i \in (DOMAIN d.fl) \cap (lo..hi) : d.fl[i] # Blank} ELSE {i \in lo..hi : FAt(d, i) # Blank}
                       IN IF nb = {} THEN Ret(d, RcOk) ELSE RetX(d, RcNotBlank, <<4 * (MinOf(nb) - lo), FAt(d, MinOf(nb))>>)
    [] c = "M" -> IF n # 3 THEN Ret(d, RcParam)
                  ELSE IF a[1] % 4 # 0 \/ a[2] % 4 # 0 THEN Ret(d, RcAddr)
                  ELSE IF ~Mapped(g, a[1], a[3]) \/ ~Mapped(g, a[2], a[3]) THEN Ret(d, RcAddrMap)
                  ELSE IF a[3] % 4 # 0 \/ a[3] = 0 THEN Ret(d, RcCount)
                  ELSE LET df == {k \in 0..((a[3] \div 4) - 1) : At(g, d, a[1] + 4 * k) # At(g, d, a[2] + 4 * k)}
                       IN IF df = {} THEN Ret(d, RcOk) ELSE RetX(d, RcCompare, <<4 * MinOf(df)>>)
    [] c = "G" -> IF n \notin {1, 2} THEN Ret(d, RcParam)
                  ELSE IF ~d.unl THEN Ret(d, RcLocked)
                  ELSE IF ~Mapped(g, a[1], 4) THEN Ret(d, RcAddrMap)
                  ELSE Ret(d, RcOk)
    [] c = "J" -> RetX(d, RcOk, <<d.ids.part>>)
    [] c = "K" -> RetX(d, RcOk, <<d.ids.minor, d.ids.major>>)
    [] c = "N" -> RetX(d, RcOk, d.ids.uid)
    [] c = "S" -> IF n # 2 THEN Ret(d, RcParam)
                  ELSE IF a[1] % 4 # 0 THEN Ret(d, RcAddr)
                  ELSE IF ~Mapped(g, a[1], a[2]) THEN Ret(d, RcAddrMap)
                  ELSE IF a[2] % 4 # 0 \/ a[2] = 0 THEN Ret(d, RcCount)
                  ELSE RetX(d, RcOk, <<f>>)
    [] OTHER -> Ret(d, RcInvalidCommand)

\* ---- the data phase of W: nb raw bytes arrive; with the last one the words ws are in RAM and the handler says "OK"
DataIn(g, d, nb, ws) == IF nb < d.dleft THEN [d EXCEPT !.dleft = d.dleft - nb]
                        ELSE [d EXCEPT !.dleft = 0, !.rm = PutW(d.rm, (d.daddr - g.rbase) \div 4, ws)]
\* ---- synchronisation: k = what arrived ("q" the character ?, "sync" the line Synchronized, "num" a line of digits, "other" any other line)
SyncIn(d, k, v) == CASE d.st = "auto" -> IF k = "q" THEN [d EXCEPT !.st = "sent"] ELSE d
                     [] d.st = "sent" -> IF k = "sync" THEN [d EXCEPT !.st = "freq"] ELSE [d EXCEPT !.st = "auto"]
                     [] d.st = "freq" -> [d EXCEPT !.st = "cmd", !.freq = (IF k = "num" THEN v ELSE -1)]
                     [] OTHER -> d
=============================================================================
