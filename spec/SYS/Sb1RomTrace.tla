---------------------------- MODULE Sb1RomTrace ----------------------------
(* TV form of the SB 1.x lane (batch trace validation).  Kinds of traces, one initial state per trace:          *)
(*                                                                                                              *)
(*  kind "rom"   : given = what was handed to SPSDK's builder (SecureBootV1 / BootSectionV1 / the command        *)
(*                 classes: header values - the time stamp as the calendar value supplied, given.tsc, see       *)
(*                 Sb2Time - sections, abstract commands); ev = the events the independent executor logged on   *)
(*                 the exported bytes, one per step of Sb1Rom, interleaved with clause markers {ev:"Field",     *)
(*                 name} that ask for one "this field carries the value supplied / the table names the blocks   *)
(*                 of the chain" clause each.  A behaviour iff the automaton accepts the file AND decodes,      *)
(*                 section for section and command for command, what was given.                                 *)
(*  kind "ref"   : the same for a file laid out by the harness' own writer (no SPSDK): canary, and the files    *)
(*                 SPSDK's parse() is asked to read although SPSDK cannot write them.                           *)
(*  kind "anchor": a golden file, walked by the automaton alone (no builder input to compare with).            *)
(*  kind "parse" : ref = the content the executor decoded from the untampered file; ev = what SPSDK's own       *)
(*                 SecureBootV1.parse did with the file (mode clean), with a corrupted file (mode tamper: one   *)
(*                 flipped bit per field class, truncation, extension) or with a file that was changed and      *)
(*                 re-sealed so that only ONE of the checks of the format can notice (mode mustraise): it       *)
(*                 returned content (projected field by field, command by command) or raised.  A behaviour iff  *)
(*                 returned /\ content = ref (clean, tamper) or raised (tamper, mustraise).                     *)
(*  SOFT clauses (field clauses, table clauses, LAST_TAG, exception type) are evaluated, their NAMES recorded   *)
(*  per trace and printed by Post (<<"SOFT", id, name>>), and the walk goes on; everything else is HARD.        *)
EXTENDS Sb1Rom, Sb2Operands, Sb2Time, Json, IOUtils
Traces == ndJsonDeserialize(IOEnv.TRACE_FILE)
VARIABLES tid, l, pend, psec, pcmd
tvars == <<st, hdr, tab, pos, sec, left, cmdAt, tags, dec, auth, tid, l, pend, psec, pcmd>>
Tr == Traces[tid]
T == Tr.ev
E == T[l]
G == Tr.given
Ref == Tr.ref
Bound == Tr.kind \in {"rom", "ref"}
Is(e) == l <= Len(T) /\ E.ev = e /\ pend = <<>>
SoftBase == 1000000
Soft(name, ok) == IF ok THEN TRUE ELSE TLCSet(SoftBase + tid, TLCGet(SoftBase + tid) \cup {name})
Adv == l' = l + 1 /\ UNCHANGED tid
NoP == UNCHANGED <<psec, pcmd>>

\* MODE (tag 6) is a command of the format SPSDK has no class for: only the harness' own writer produces it
Matches1(r, c) == IF c.k = "mode" THEN r.tag = 6 /\ r.dat = c.x ELSE Matches(r, c)

HeaderMarkers == <<"version", "flags", "product_version", "component_version", "drive_tag", "timestamp", "first_boot_section_id">>
SectionMarkers == <<"section_id", "section_flags">>
EndMarkers == <<"table", "last_tag">>
FirstTarget == IF \E j \in 1..Len(G.secs) : G.secs[j].sflags % 2 = 1 /\ G.secs[j].id = G.firstId
               THEN CHOOSE j \in 1..Len(G.secs) : /\ G.secs[j].sflags % 2 = 1 /\ G.secs[j].id = G.firstId
                                                   /\ \A k \in 1..(j - 1) : ~(G.secs[k].sflags % 2 = 1 /\ G.secs[k].id = G.firstId)
               ELSE 0
BadEntries == {i \in 1..Len(tab) : i > Len(tags) \/ ~EntryOk(i)}
FieldOk(n) ==
  CASE n = "version"               -> hdr.major = 1 /\ hdr.minor = G.minor
    [] n = "flags"                 -> hdr.flags = G.flags
    [] n = "product_version"       -> hdr.pv = G.pv
    [] n = "component_version"     -> hdr.cv = G.cv
    [] n = "drive_tag"             -> hdr.driveTag = G.driveTag
    [] n = "timestamp"             -> InDomain(G.tsc) /\ HeaderCarries(hdr.ts, G.tsc)
    [] n = "first_boot_section_id" -> hdr.firstId = G.firstId
    [] n = "section_id"            -> Len(dec) <= Len(G.secs) /\ dec[Len(dec)].id = G.secs[Len(dec)].id
    [] n = "section_flags"         -> Len(dec) <= Len(G.secs) /\ dec[Len(dec)].sflags = <<0, G.secs[Len(dec)].sflags>>
    [] n = "table"                 -> Len(tab) = Len(tags) /\ BadEntries = {}
    [] n = "last_tag"              -> LastTagOk
    \* the loader finds the first bootable section that carries the identifier supplied; if there is none its search ends at a LAST_TAG
    [] n = "boot_target"           -> LET r == Search(1, hdr.firstId) IN IF FirstTarget > 0 THEN r.r = "found" /\ r.i = FirstTarget ELSE r.r = "notfound"
    [] OTHER -> FALSE
\* the name under which a failed clause is reported: the table clause names the first entry that disagrees and what disagrees
FieldName(n) ==
  IF n = "table" /\ BadEntries # {} /\ Len(tab) = Len(tags)
  THEN LET i == CHOOSE k \in BadEntries : \A m \in BadEntries : k <= m IN
       "table/entry" \o ToString(i) \o (IF tab[i].offset # tags[i].at + 1 THEN "/offset" \o (IF tab[i].offset = tags[i].at THEN "=boot-tag" ELSE "") ELSE "")
                     \o (IF tab[i].length # tags[i].count THEN "/length" ELSE "") \o (IF tab[i].id # tags[i].id THEN "/id" ELSE "")
                     \o (IF tab[i].flags # tags[i].sflags THEN "/flags" ELSE "")
  ELSE IF n = "last_tag" THEN "last_tag/" \o (IF \E i \in 1..Len(tags) : tags[i].last THEN "not-on-final-section" ELSE "none")
  ELSE IF n = "boot_target" THEN "boot_target/" \o Search(1, hdr.firstId).r
  ELSE n

TInit == /\ tid \in 1..Len(Traces) /\ l = 1 /\ RInit /\ pend = <<>> /\ psec = 0 /\ pcmd = 0 /\ TLCSet(tid, 1) /\ TLCSet(SoftBase + tid, {})

TField == /\ l <= Len(T) /\ E.ev = "Field" /\ pend # <<>> /\ E.name = Head(pend)
          /\ Soft(FieldName(E.name), FieldOk(E.name))
          /\ pend' = Tail(pend) /\ UNCHANGED rvars /\ NoP /\ Adv
\* the builder handed the file over (a refusal of an input of the asserted domain is not a behaviour); size = what the object says its export is long
TBuild == /\ Is("BuildOutcome") /\ Tr.kind = "rom" /\ st = "Header" /\ l = 1 /\ E.outcome = "built"
          /\ Soft("size", E.sizeOk) /\ Soft("size_before_export", E.sizeBeforeOk) /\ UNCHANGED rvars /\ UNCHANGED pend /\ NoP /\ Adv
TParseHeader == /\ Is("ParseHeader") /\ Tr.kind \in {"rom", "ref", "anchor"} /\ E.longEnough /\ ParseHeader(E)
                /\ pend' = (IF Bound THEN HeaderMarkers ELSE <<>>) /\ NoP /\ Adv
TTableEntry == Is("TableEntry") /\ TableEntry(E) /\ UNCHANGED pend /\ NoP /\ Adv
TBootTag == /\ Is("BootTag") /\ BootTag(E) /\ (Bound => sec < Len(G.secs))
            /\ pend' = (IF Bound THEN SectionMarkers ELSE <<>>) /\ NoP /\ Adv
TCmd == /\ Is("Cmd") /\ Cmd(E)
        /\ (Bound => /\ Len(dec) <= Len(G.secs) /\ E.i + 1 <= Len(G.secs[Len(dec)].cmds)
                      /\ Matches1(E, G.secs[Len(dec)].cmds[E.i + 1]))                          \* command for command
        /\ UNCHANGED pend /\ NoP /\ Adv
TSecEnd == /\ Is("SectionEnd") /\ SectionEnd(E)
           /\ (Bound => Len(dec[Len(dec)].cmds) = Len(G.secs[Len(dec)].cmds))                  \* no command missing
           /\ UNCHANGED pend /\ NoP /\ Adv
TDigest == Is("CheckDigest") /\ CheckDigest(E) /\ pend' = EndMarkers /\ NoP /\ Adv
TSearch == Is("BootSearch") /\ BootSearch(E) /\ pend' = (IF Bound THEN <<"boot_target">> ELSE <<>>) /\ NoP /\ Adv
TAccept == Is("Accept") /\ Accept(E) /\ (Bound => sec = Len(G.secs)) /\ UNCHANGED pend /\ NoP /\ Adv     \* section for section

\* ---- second observer: SPSDK's parse()
PFieldOk(n, got) ==
  CASE n = "version"               -> got = Ref.minor
    [] n = "flags"                 -> got = Ref.flags
    [] n = "product_version"       -> got = Ref.pv
    [] n = "component_version"     -> got = Ref.cv
    [] n = "drive_tag"             -> got = Ref.driveTag
    [] n = "timestamp"             -> got = Ref.ts
    [] n = "first_boot_section_id" -> got = Ref.firstId
    [] OTHER -> FALSE
RStay == UNCHANGED <<hdr, tab, pos, sec, left, cmdAt, tags, dec, auth, pend>>
TPOutcome == /\ Is("ParseOutcome") /\ Tr.kind = "parse" /\ st = "Header"
             /\ \/ E.outcome = "returned" /\ Tr.mode \in {"clean", "tamper"} /\ st' = "PContent"
                \/ E.outcome = "raised" /\ Tr.mode \in {"tamper", "mustraise"} /\ st' = "PRaised" /\ Soft("parse:exception:" \o E.exc, E.documented)
             /\ RStay /\ NoP /\ Adv
TPField == Is("PField") /\ st = "PContent" /\ psec = 0 /\ Soft("parse:" \o E.name, PFieldOk(E.name, E.got)) /\ UNCHANGED st /\ RStay /\ NoP /\ Adv
TPSection == /\ Is("PSection") /\ st = "PContent" /\ pcmd = 0
             /\ psec + 1 <= Len(Ref.secs) /\ E.id = Ref.secs[psec + 1].id /\ E.sflags = Ref.secs[psec + 1].sflags
             /\ psec' = psec + 1 /\ pcmd' = 0 /\ st' = "PSection" /\ RStay /\ Adv
TPCmd == /\ Is("PCmd") /\ st = "PSection"
         /\ pcmd + 1 <= Len(Ref.secs[psec].cmds) /\ Matches1(Ref.secs[psec].cmds[pcmd + 1], E.c)
         /\ pcmd' = pcmd + 1 /\ UNCHANGED <<psec, st>> /\ RStay /\ Adv
TPSectionEnd == /\ Is("PSectionEnd") /\ st = "PSection" /\ pcmd = Len(Ref.secs[psec].cmds)
                /\ pcmd' = 0 /\ UNCHANGED psec /\ st' = "PContent" /\ RStay /\ Adv
TPEnd == Is("PEnd") /\ st = "PContent" /\ E.nsec = psec /\ psec = Len(Ref.secs) /\ st' = "PDone" /\ RStay /\ NoP /\ Adv

TNext == TBuild \/ TField \/ TParseHeader \/ TTableEntry \/ TBootTag \/ TCmd \/ TSecEnd \/ TDigest \/ TSearch \/ TAccept
         \/ TPOutcome \/ TPField \/ TPSection \/ TPCmd \/ TPSectionEnd \/ TPEnd
Constr == IF TLCGet(tid) < l THEN TLCSet(tid, l) ELSE TRUE
Post == /\ \A i \in 1..Len(Traces) :
             /\ \/ TLCGet(i) - 1 = Len(Traces[i].ev)
                \/ PrintT(<<"REJ", Traces[i].id, TLCGet(i) - 1, Len(Traces[i].ev),
                            Traces[i].ev[IF TLCGet(i) <= Len(Traces[i].ev) THEN TLCGet(i) ELSE Len(Traces[i].ev)].ev>>)
             /\ \/ TLCGet(SoftBase + i) = {}
                \/ \A n \in TLCGet(SoftBase + i) : PrintT(<<"SOFT", Traces[i].id, n>>)
        /\ PrintT(<<"DONE", Len(Traces)>>)
=============================================================================
