CONSTANT Variant = "nosnap"
INIT Init
NEXT Next
INVARIANT TypeOK
INVARIANT NeverRejected
INVARIANT EffLemma
INVARIANT SlotLemma
CHECK_DEADLOCK FALSE
