------------------------------ MODULE DbgMbox ------------------------------
(* Debug mailbox of the LPC55 / MCX / RW61x parts (growth beyond the listed properties: the channel the debug authentication of C15 runs over). *)
(* Design model: device automaton || host as built (DebugMailboxCommand.run over spin_write / spin_read) || a debug probe whose register      *)
(* accesses may fail.  Protocol (user manuals, chapter "Debug mailbox"):                                                                       *)
(*   request  : REQUEST <- command id | number of parameter words << 16; the device answers every word it still needs with the ACK token       *)
(*              0xA5A5 | words still expected << 16 in RETURN; the host then writes the next parameter word;                                    *)
(*   response : RETURN <- status | number of data words << 16 (| bit 31); the host acknowledges with 0xA5A5 | words still expected << 16 in     *)
(*              REQUEST, the device then puts the next data word into RETURN.                                                                   *)
(* Register model: a write to REQUEST is consumed by the device at once; a read of RETURN takes the value (a second read without a new value    *)
(* stalls = the probe reports an error).  The probe may report an error for an access that did NOT reach the device (lost) or - the hazard     *)
(* this model is about - for one that DID (the write went through, the read-back of the status word failed).  spin_write retries the whole     *)
(* write on any error.                                                                                                                         *)
EXTENDS Naturals, Sequences, TLC
CONSTANTS NPar,        \* number of parameter words of the command under study
          NResp,       \* number of response data words
          MaxFaults,   \* probe errors per run
          RetryAfterEffect   \* TRUE: host as built (an error AFTER the write took effect makes spin_write write again); FALSE: a host that can tell
VARIABLES hpc,         \* host program counter
          hi,          \* host index (parameter / response word)
          hres,        \* what the call returned: "none" | "ok" | "error"
          hdata,       \* response words the host collected
          dst,         \* device state: "idle" | "params" | "ack0" | "data" | "confused"
          dleft,       \* words the device still expects / still has to send
          dpar,        \* parameter words the device collected
          execs,       \* sequence of parameter lists the device executed the command with
          ret,         \* RETURN register: <<valid, kind, n>>   kind: "ack" | "resp" | "data" | "junk"
          nf           \* probe errors so far
vars == <<hpc, hi, hres, hdata, dst, dleft, dpar, execs, ret, nf>>
Params == [i \in 1..NPar |-> 100 + i]            \* what the caller passes
RespData == [i \in 1..NResp |-> 200 + i]         \* what the device answers
NoRet == <<FALSE, "none", 0>>
Init == /\ hpc = "wr_req" /\ hi = 0 /\ hres = "none" /\ hdata = <<>>
        /\ dst = "idle" /\ dleft = 0 /\ dpar = <<>> /\ execs = <<>> /\ ret = NoRet /\ nf = 0

\* ---- the device consumes one word written to REQUEST
Execute(p) == /\ execs' = Append(execs, p)
              /\ ret' = <<TRUE, "resp", NResp>>
              /\ dst' = (IF NResp > 0 THEN "ack0" ELSE "idle") /\ dleft' = NResp /\ dpar' = <<>>
DevTake(kind, val) ==
  CASE dst = "idle" /\ kind = "req" ->
         IF NPar = 0 THEN Execute(<<>>)
         ELSE /\ dst' = "params" /\ dleft' = NPar /\ dpar' = <<>> /\ ret' = <<TRUE, "ack", NPar>> /\ UNCHANGED execs
    [] dst = "params" /\ kind \in {"par", "req"} ->             \* the device cannot tell a repeated request word from a parameter
         IF dleft = 1 THEN Execute(Append(dpar, val))
         ELSE /\ dpar' = Append(dpar, val) /\ dleft' = dleft - 1 /\ ret' = <<TRUE, "ack", dleft - 1>> /\ UNCHANGED <<dst, execs>>
    [] dst = "ack0" /\ kind = "ack" /\ val = NResp ->
         /\ ret' = <<TRUE, "data", 1>> /\ dst' = "data" /\ dleft' = NResp - 1 /\ UNCHANGED <<dpar, execs>>
    [] dst = "data" /\ kind = "ack" /\ val = dleft ->
         IF dleft = 0 THEN dst' = "idle" /\ ret' = NoRet /\ UNCHANGED <<dleft, dpar, execs>>
         ELSE /\ ret' = <<TRUE, "data", NResp - dleft + 1>> /\ dleft' = dleft - 1 /\ UNCHANGED <<dst, dpar, execs>>
    [] OTHER -> dst' = "confused" /\ ret' = <<TRUE, "junk", 0>> /\ UNCHANGED <<dleft, dpar, execs>>   \* a word the protocol does not expect here

\* ---- host as built: one spin_write = write the word (+ read the status word back); on a probe error the whole write is repeated
HostWrite(kind, val, next) ==
  \/ /\ DevTake(kind, val) /\ hpc' = next /\ UNCHANGED <<nf, hres>>                                   \* went through
  \/ /\ nf < MaxFaults /\ nf' = nf + 1 /\ UNCHANGED <<hpc, hres, dst, dleft, dpar, execs, ret>>       \* lost before the device: retried, harmless
  \/ /\ nf < MaxFaults /\ nf' = nf + 1 /\ RetryAfterEffect /\ DevTake(kind, val)                      \* took effect, error reported: written AGAIN
     /\ UNCHANGED <<hpc, hres>>
\* one spin_read of RETURN (a stalled read is retried; here: enabled only when a value is there)
HostRead == ret[1]
Fail == hpc' = "done" /\ hres' = "error"
Next ==
  \/ /\ hpc = "wr_req" /\ HostWrite("req", NPar, IF NPar > 0 THEN "rd_ack" ELSE "rd_resp") /\ UNCHANGED <<hi, hdata>>
  \/ /\ hpc = "rd_ack" /\ HostRead /\ ret' = NoRet
     /\ IF ret[2] = "ack" /\ ret[3] = NPar - hi THEN hpc' = "wr_par" /\ UNCHANGED hres ELSE Fail
     /\ UNCHANGED <<hi, hdata, dst, dleft, dpar, execs, nf>>
  \/ /\ hpc = "wr_par" /\ HostWrite("par", Params[hi + 1], "wr_par_done") /\ UNCHANGED <<hi, hdata>>
  \/ /\ hpc = "wr_par_done" /\ hi' = hi + 1 /\ hpc' = (IF hi + 1 < NPar THEN "rd_ack" ELSE "rd_resp")
     /\ UNCHANGED <<hres, hdata, dst, dleft, dpar, execs, ret, nf>>
  \/ /\ hpc = "rd_resp" /\ HostRead /\ ret' = NoRet
     /\ IF ret[2] = "resp" /\ ret[3] = NResp
        THEN IF NResp = 0 THEN hpc' = "done" /\ hres' = "ok" /\ UNCHANGED hi ELSE hpc' = "wr_ack" /\ hi' = 0 /\ UNCHANGED hres
        ELSE Fail /\ UNCHANGED hi
     /\ UNCHANGED <<hdata, dst, dleft, dpar, execs, nf>>
  \/ /\ hpc = "wr_ack" /\ HostWrite("ack", NResp - hi, IF hi = NResp THEN "fin" ELSE "rd_data") /\ UNCHANGED <<hi, hdata>>
  \/ /\ hpc = "rd_data" /\ HostRead /\ ret' = NoRet
     /\ hdata' = Append(hdata, IF ret[2] = "data" THEN RespData[ret[3]] ELSE 999)                     \* the host cannot tell a data word from anything else
     /\ hi' = hi + 1 /\ hpc' = "wr_ack" /\ UNCHANGED <<hres, dst, dleft, dpar, execs, nf>>
  \/ /\ hpc = "fin" /\ hpc' = "done" /\ hres' = "ok" /\ UNCHANGED <<hi, hdata, dst, dleft, dpar, execs, ret, nf>>
  \/ /\ hpc = "done" /\ UNCHANGED vars
Spec == Init /\ [][Next]_vars
\* ---- the contract of one command
NoFalseSuccess == hres = "ok" => /\ execs = <<Params>>                     \* executed once, with the caller's parameters
                                 /\ (NResp > 0 => hdata = RespData)         \* the data are the device's
                                 /\ dst = "idle"                            \* the exchange is complete on the device, too
ExecutedAtMostOnce == Len(execs) <= 1
Reach == ~(hres = "ok")                                                      \* must be violated (non-vacuity): success is reachable
=============================================================================
