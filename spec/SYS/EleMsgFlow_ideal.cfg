SPECIFICATION Spec
CONSTANTS NMsg = 2  MaxFaults = 2  CmdException = TRUE  SizeRule = "exact"  CrcRule = "raise"  DevFaults = {"short", "tag", "cmd", "version", "big", "corrupt"}
INVARIANT NoFalseSuccess
INVARIANT ExecutedAtMostOnce
CHECK_DEADLOCK FALSE
