CONSTANTS MaxChunks = 3  MaxFaults = 1  MaxCalls = 3  Host = "ideal"
INIT GInit
NEXT GNext
CHECK_DEADLOCK FALSE
