SPECIFICATION Spec
CONSTANTS MaxChunks = 2  MaxFaults = 1  MaxCalls = 2  Host = "ideal"
INVARIANT NoFalseSuccess
INVARIANT WrittenOnce
INVARIANT ClosedAfterwards
INVARIANT OpenBeforeAccess
INVARIANT Mirror
CHECK_DEADLOCK FALSE
