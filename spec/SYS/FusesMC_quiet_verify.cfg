SPECIFICATION Spec
CONSTANTS Host = "ideal" CheckStatus = TRUE Verify = TRUE Iwl2 = "user" StoreInsteadOfOr = FALSE Quiet = TRUE MaxCalls = 1 MaxFaults = 1
INVARIANT DoneMeansBurnt
INVARIANT ReadsWriteNothing
INVARIANT MirrorRead
PROPERTY Monotone
CHECK_DEADLOCK FALSE
