----------------------------- MODULE SbxRomTrace -----------------------------
(* TRACE form (batch trace validation).  A trace = { id, inp, ev }: `inp` = what the builder / the DevHSM run was asked for, `ev` = for a DevHSM run  *)
(* the commands the device twin received (SbxDev) and the Result of the call, then - for every container - the events the independent executor logged  *)
(* on the bytes (SbxRom).  A trace consumed to its end is a behaviour of the reference model; the others are printed from the POSTCONDITION.           *)
EXTENDS SbxRom, Json, IOUtils
Traces == ndJsonDeserialize(IOEnv.TRACE_FILE)
VARIABLES tid, l
T == Traces[tid].ev
E == T[l]
TInit == tid \in 1..Len(Traces) /\ l = 1 /\ RInit(Traces[tid].inp) /\ DInit /\ TLCSet(tid, 1)
TNext == l <= Len(T) /\ Step(E) /\ l' = l + 1 /\ UNCHANGED tid
Constr == IF TLCGet(tid) < l THEN TLCSet(tid, l) ELSE TRUE
Post == /\ \A i \in 1..Len(Traces) :
             \/ TLCGet(i) - 1 = Len(Traces[i].ev)
             \/ PrintT(<<"REJ", Traces[i].id, TLCGet(i) - 1, Len(Traces[i].ev),
                         Traces[i].ev[IF TLCGet(i) <= Len(Traces[i].ev) THEN TLCGet(i) ELSE Len(Traces[i].ev)].ev>>)
        /\ PrintT(<<"DONE", Len(Traces)>>)
=============================================================================
