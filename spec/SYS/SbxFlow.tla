------------------------------- MODULE SbxFlow -------------------------------
(* Design model of the whole DevHSM flow for SB-X containers: host (DevHsmSBx.create_sb) || device (session, block encryption, signature) || loader.    *)
(* Values are symbolic terms: chunk k of the command stream <<"P", k>>, its cipher text under the session <<"E", k, s>>, hashes <<"H", x>>,            *)
(* the device's signature <<"S", s, manifest>>.  ONE host object is used for Runs runs (the run-level registers the implementation keeps on the object   *)
(* - block count of the header, hash-chain register - survive from run to run); the device may refuse any one of its commands (MaxFaults).               *)
(* The host's program is a sequence of step names (Order); the variants are the documented order and four wrong designs:                                 *)
(*   ideal       reset, oem share in, create session, blob out, header brought up to date, (header + chunk in, cipher text out) x n, chain from the        *)
(*               zero hash, sign, assemble, reset                                                                                                        *)
(*   stale_count the header is brought up to date only after the blocks were encrypted (as built: export_header() before update_header())                 *)
(*   stale_hash  the chain register is not set back to zero at the start of a run (as built: SecureBinaryXCommands.final_hash)                            *)
(*   sign_early  the manifest is signed before the chain exists                                                                                          *)
(*   no_reset    no reset between two runs (initial and final reset both disabled)                                                                       *)
(* TLC must find every invariant true for `ideal` and refute the named one for each of the others.                                                       *)
EXTENDS Naturals, Sequences, TLC
CONSTANTS Variant, MaxBlocks, MaxRuns, MaxFaults
VARIABLES pc, run, n, runs, k, phase, hcount, hreg, blob, ciph, blocks, sig, file, dsess, dsid, handed, dsigned, nfault, failed, acc
vars == <<pc, run, n, runs, k, phase, hcount, hreg, blob, ciph, blocks, sig, file, dsess, dsid, handed, dsigned, nfault, failed, acc>>
ZERO == <<"0">>
NONE == <<"none">>
NoFile == [man |-> [count |-> 0, blob |-> NONE, hash1 |-> ZERO], sig |-> NONE, blocks |-> << >>]
IsFile(f) == f.blocks # << >>
H(x) == <<"H", x>>
Order == CASE Variant = "ideal"       -> <<"reset", "share", "create", "blob", "update", "enc", "chain", "sign", "dsign", "assemble", "walk", "freset", "end">>
           [] Variant = "stale_count" -> <<"reset", "share", "create", "blob", "enc", "chain", "update", "sign", "dsign", "assemble", "walk", "freset", "end">>
           [] Variant = "stale_hash"  -> <<"reset", "share", "create", "blob", "update", "enc", "chain", "sign", "dsign", "assemble", "walk", "freset", "end">>
           [] Variant = "sign_early"  -> <<"reset", "share", "create", "blob", "update", "enc", "sign", "dsign", "chain", "assemble", "walk", "freset", "end">>
           [] Variant = "no_reset"    -> <<"share", "create", "blob", "update", "enc", "chain", "sign", "dsign", "assemble", "walk", "end">>
At(s) == pc <= Len(Order) /\ Order[pc] = s /\ failed = "no"
Go == pc' = pc + 1
Init == /\ pc = 1 /\ run = 1 /\ n \in 1..MaxBlocks /\ runs \in 1..MaxRuns /\ k = 1 /\ phase = "hand" /\ hcount = 1 /\ hreg = ZERO /\ blob = NONE /\ ciph = << >>
        /\ blocks = << >> /\ sig = NONE /\ file = NoFile /\ dsess = FALSE /\ dsid = 0 /\ handed = << >> /\ dsigned = NONE /\ nfault = 0 /\ failed = "no" /\ acc = "none"
\* the device may refuse a command it would otherwise carry out (at most MaxFaults times); the host then gives up with an error
Refused == /\ nfault < MaxFaults /\ nfault' = nfault + 1 /\ failed' = "fault"
           /\ UNCHANGED <<pc, run, n, runs, k, phase, hcount, hreg, blob, ciph, blocks, sig, file, dsess, dsid, handed, dsigned, acc>>
HostReset == /\ (At("reset") \/ At("freset")) /\ dsess' = FALSE /\ Go
             /\ UNCHANGED <<run, n, runs, k, phase, hcount, hreg, blob, ciph, blocks, sig, file, dsid, handed, dsigned, nfault, failed, acc>>
HostGenShare == /\ At("share") /\ Go
                /\ UNCHANGED <<run, n, runs, k, phase, hcount, hreg, blob, ciph, blocks, sig, file, dsess, dsid, handed, dsigned, nfault, failed, acc>>
\* at most one session between resets
DevCreate == /\ At("create")
             /\ \/ /\ ~dsess /\ dsess' = TRUE /\ dsid' = dsid + 1 /\ Go /\ UNCHANGED <<failed, nfault>>
                \/ /\ dsess /\ failed' = "refused" /\ UNCHANGED <<dsess, dsid, pc, nfault>>
             /\ UNCHANGED <<run, n, runs, k, phase, hcount, hreg, blob, ciph, blocks, sig, file, handed, dsigned, acc>>
DevCreateRefused == At("create") /\ ~dsess /\ Refused
HostLoadBlob == /\ At("blob") /\ blob' = <<"B", dsid>> /\ Go
                /\ UNCHANGED <<run, n, runs, k, phase, hcount, hreg, ciph, blocks, sig, file, dsess, dsid, handed, dsigned, nfault, failed, acc>>
HostUpdateHeader == /\ At("update") /\ hcount' = n /\ Go
                    /\ UNCHANGED <<run, n, runs, k, phase, hreg, blob, ciph, blocks, sig, file, dsess, dsid, handed, dsigned, nfault, failed, acc>>
\* the header goes to the device with every chunk
HostHandHeader == /\ At("enc") /\ phase = "hand" /\ handed' = Append(handed, [count |-> hcount, blob |-> blob]) /\ phase' = "enc"
                  /\ UNCHANGED <<pc, run, n, runs, k, hcount, hreg, blob, ciph, blocks, sig, file, dsess, dsid, dsigned, nfault, failed, acc>>
DevEnc == /\ At("enc") /\ phase = "enc" /\ dsess
          /\ ciph' = Append(ciph, <<"E", k, dsid>>) /\ phase' = "hand"
          /\ IF k = n THEN k' = 1 /\ Go ELSE k' = k + 1 /\ UNCHANGED pc
          /\ UNCHANGED <<run, n, runs, hcount, hreg, blob, blocks, sig, file, dsess, dsid, handed, dsigned, nfault, failed, acc>>
DevEncRefused == At("enc") /\ phase = "enc" /\ Refused
\* the chain is built from the last block to the first, through the register on the host object
RECURSIVE Chain(_, _, _)
Chain(i, reg, acc_) == IF i = 0 THEN <<acc_, reg>>
                       ELSE LET b == [num |-> i, next |-> reg, data |-> ciph[i]] IN Chain(i - 1, H(b), <<b>> \o acc_)
HostChain == /\ At("chain")
             /\ LET r == Chain(n, IF Variant = "stale_hash" THEN hreg ELSE ZERO, << >>) IN blocks' = r[1] /\ hreg' = r[2]
             /\ Go
             /\ UNCHANGED <<run, n, runs, k, phase, hcount, blob, ciph, sig, file, dsess, dsid, handed, dsigned, nfault, failed, acc>>
Manifest == [count |-> hcount, blob |-> blob, hash1 |-> IF blocks = << >> THEN ZERO ELSE H(blocks[1])]
HostSign == /\ At("sign") /\ dsigned' = Manifest /\ Go
            /\ UNCHANGED <<run, n, runs, k, phase, hcount, hreg, blob, ciph, blocks, sig, file, dsess, dsid, handed, nfault, failed, acc>>
DevSign == /\ At("dsign") /\ dsess /\ sig' = <<"S", dsid, dsigned>> /\ Go
           /\ UNCHANGED <<run, n, runs, k, phase, hcount, hreg, blob, ciph, blocks, file, dsess, dsid, handed, dsigned, nfault, failed, acc>>
DevSignRefused == At("dsign") /\ Refused
HostAssemble == /\ At("assemble") /\ file' = [man |-> Manifest, sig |-> sig, blocks |-> blocks] /\ Go
                /\ UNCHANGED <<run, n, runs, k, phase, hcount, hreg, blob, ciph, blocks, sig, dsess, dsid, handed, dsigned, nfault, failed, acc>>
\* ---- the loader: signature over the manifest, chain from the manifest's hash to the last block, every chunk the session's cipher text of its number
Sid(f) == f.man.blob[2]
ChainOk(f) == /\ Len(f.blocks) >= 1 /\ f.man.hash1 = H(f.blocks[1])
              /\ \A i \in 1..Len(f.blocks) : /\ f.blocks[i].num = i /\ f.blocks[i].data = <<"E", i, Sid(f)>>
                                              /\ (i < Len(f.blocks) => f.blocks[i].next = H(f.blocks[i + 1]))
Accepts(f) == f.man.count = Len(f.blocks) /\ f.sig = <<"S", Sid(f), f.man>> /\ ChainOk(f)
LoaderWalk == /\ At("walk") /\ acc' = (IF Accepts(file) THEN "accept" ELSE "reject") /\ Go
              /\ UNCHANGED <<run, n, runs, k, phase, hcount, hreg, blob, ciph, blocks, sig, file, dsess, dsid, handed, dsigned, nfault, failed>>
\* the next run on the same host object and the same device: what a run leaves on the object stays there
NextRun == /\ At("end") /\ run < runs /\ run' = run + 1 /\ pc' = 1 /\ k' = 1 /\ phase' = "hand" /\ ciph' = << >> /\ blocks' = << >> /\ sig' = NONE /\ file' = NoFile
           /\ handed' = << >> /\ dsigned' = NONE /\ acc' = "none" /\ blob' = NONE
           /\ UNCHANGED <<n, runs, hcount, hreg, dsess, dsid, nfault, failed>>
Next == HostReset \/ HostGenShare \/ DevCreate \/ DevCreateRefused \/ HostLoadBlob \/ HostUpdateHeader \/ HostHandHeader \/ DevEnc \/ DevEncRefused \/ HostChain
        \/ HostSign \/ DevSign \/ DevSignRefused \/ HostAssemble \/ LoaderWalk \/ NextRun
Spec == Init /\ [][Next]_vars
\* ---- what the flow must guarantee
LoaderAccepts == acc # "reject"                                                     \* every container the host assembles walks to Accept
ChainEndsWithZero == IsFile(file) => file.blocks[Len(file.blocks)].next = ZERO         \* ... and its chain ends with the zero hash
HandedHeaderValid == \A i \in 1..Len(handed) : handed[i].count = n /\ handed[i].blob = <<"B", dsid>>   \* "all other fields should be valid"
NoFalseSuccess == IsFile(file) => failed = "no"                                       \* no container after a refused command
SecondRunNeedsReset == failed # "refused"                                            \* the host never meets a device whose session is still open
Reach == ~(run = MaxRuns /\ At("end") /\ acc = "accept" /\ n = MaxBlocks)            \* must be violated: full success is reachable
=============================================================================
