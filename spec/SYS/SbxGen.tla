------------------------------- MODULE SbxGen -------------------------------
(* GEN form of the SB-X / DevHSM lane: TLC enumerates (GEN_MODE = tour) or simulates (GEN_MODE = sim) ABSTRACT cases                               *)
(*   [route, type, dsc, tsc, fwc, flc, blobv, via, hist, cmds : Seq([t, dl]), fault : <<k, kind>>, ri, rf]                                         *)
(* route  "api" (SecureBinaryX built through its classes, export()), "cfg" (SecureBinaryX.load_from_config + load_tphsm + export()),               *)
(*        "dev" (DevHsmSBx.create_sb against the device twin), "cli" (`nxpdevhsm generate` against the device twin)                                *)
(* type   1 NXP_PROVISIONING, 2 OEM_PROVISIONING, 3 OEM;   dsc / tsc / fwc / flc: value classes of description, timestamp, firmware version, flags *)
(* blobv  how the TP HSM blob reaches the builder (api): header object + MAC key, raw header + signature, load_tphsm(bytes)                         *)
(* hist   number of exports / DevHSM runs on the SAME object;  fault = the k-th command the device receives fails in the given way (k = -1: none)   *)
(* ri/rf  initial / final reset requested (dev, cli)                                                                                                *)
(* The tours are computed with the format operators of the reference (SbxFormat!Size): data lengths are chosen so that the command stream ends at   *)
(* every 16-byte offset of the 256-byte chunk in block 1 .. MaxBlocks.                                                                               *)
EXTENDS SbxFormat, Json, IOUtils
VARIABLES case, done
Mode == IOEnv.GEN_MODE
Full == atoi(IOEnv.GEN_FULL) = 1
MaxBlocks == IF Full THEN 4 ELSE 3
MaxCmds == 5
NoFault == <<0 - 1, "none">>
Types == 1..3
Dscs == {"none", "empty", "text", "full", "long"}
Tscs == {"none", "zero", "one", "word", "wide", "top"}
Fwcs == {"zero", "one", "word", "top"}
AC(t, dl) == [t |-> t, dl |-> dl]
Std == <<AC(1, 0), AC(2, 300), AC(14, 0)>>
Base(r, ty) == [route |-> r, type |-> ty, dsc |-> "text", tsc |-> "word", fwc |-> "word", flc |-> "zero", blobv |-> "hmac", via |-> "add", hist |-> 1,
                cmds |-> Std, fault |-> NoFault, ri |-> FALSE, rf |-> TRUE]
With(c, cmds) == [c EXCEPT !.cmds = cmds]
CfgCmds == {1, 2, 3, 6, 14}                          \* what the SB-X configuration schema offers: erase, load, execute, programIFR, reset
DevRoutes == {"dev", "cli"}
OffRoutes == {"api", "cfg"}

\* ---- tour T: every route x image type x one / two runs on the same object (device routes: with / without the reset between the runs)
TourT == {[Base(r, ty) EXCEPT !.hist = hh, !.ri = i] : r \in {"api", "cfg", "dev", "cli"}, ty \in Types, hh \in 1..2, i \in BOOLEAN}
\* ---- tour H: value classes of the header fields (every class of every field, pairwise with the image type), off-line routes and the device
TourH == {[Base(r, ty) EXCEPT !.dsc = d, !.tsc = "word"] : r \in {"api", "cfg", "dev"}, ty \in Types, d \in Dscs}
    \cup {[Base(r, ty) EXCEPT !.tsc = t] : r \in {"api", "cfg", "dev"}, ty \in Types, t \in Tscs}
    \cup {[Base(r, 2) EXCEPT !.fwc = f, !.flc = fl] : r \in {"api", "cfg", "dev"}, f \in Fwcs, fl \in {"zero", "word"}}
\* ---- tour V: how the blob and the commands reach the builder
TourV == {[Base("api", ty) EXCEPT !.blobv = b, !.via = v] : ty \in Types, b \in {"hmac", "sig", "load"}, v \in {"add", "set", "insert"}}
\* ---- tour B: the stream (16 + commands) ends at offset 16*r of block b; the data command's last word is padded by q bytes
Fixed(t) == Size(t, 0)
Pads == IF Full THEN 0..15 ELSE {0, 1, 15}
Targets(t) == {p \in {CHUNK * (b - 1) + 16 * r - 16 - Fixed(t) : b \in 1..MaxBlocks, r \in 1..16} : p > 0}
DLens(t) == {p - q : p \in Targets(t), q \in Pads}
TourB == UNION {{With(Base(r, 2), <<AC(t, dl)>>) : dl \in {x \in DLens(t) : x > 0 /\ (r = "api" \/ Full \/ x % 16 \in {0, 15})}}
                : r \in {"api", "dev"}, t \in {2, 6}}
\* ---- tour C: every command type alone (data length menu), every ordered pair of command types (api); the configurable ones on the other routes
Lens == IF Full THEN 0..530 ELSE {0, 1, 4, 15, 16, 17, 100, 255, 256, 257, 512}
TourC1 == UNION {{With(Base("api", 2), <<AC(t, dl)>>) : dl \in {x \in Lens : t \in DataCmds \/ x = 0}} : t \in 1..14}
TourC2 == {With(Base("api", 2), <<AC(t, 20), AC(u, 8)>>) : t \in 1..14, u \in 1..14}
TourC3 == {With(Base(r, ty), <<AC(t, 20), AC(u, 8)>>) : r \in {"cfg", "dev"}, ty \in {2, 3}, t \in CfgCmds, u \in CfgCmds}
TourD == {With(Base(r, 2), << >>) : r \in {"api", "cfg", "dev"}}             \* no command at all
TourE == {With(Base(r, 2), <<AC(2, dl), AC(6, 36)>>) : r \in {"api", "dev"}, dl \in IF Full THEN {4096, 20000} ELSE {4096}}
\* ---- tour F: the k-th command the device receives fails (refused with a status / a write that fails while it is carried out / a read that ends
\*      early), for a container of one and of two blocks, device-signed and ISK-signed; the bound on k is generous - a k behind the last command
\*      of the run is a fault that never happens (the run must then succeed)
Faults == {"status", "statustp", "final", "short"}
TourF == {[With(Base(r, ty), cm) EXCEPT !.fault = <<k, f>>, !.ri = i] : r \in {"dev"}, ty \in {2, 3}, cm \in {Std, <<AC(14, 0)>>}, k \in 0..(IF Full THEN 16 ELSE 13),
                                                                         f \in Faults, i \in {FALSE}}
    \cup {[Base("cli", 2) EXCEPT !.fault = <<k, "status">>] : k \in {1, 2, 5, 8}}
\* ---- tour R: resets requested x one / two runs (a second run without a reset in between meets a device whose session is still open)
TourR == {[Base(r, ty) EXCEPT !.ri = i, !.rf = f, !.hist = hh] : r \in DevRoutes, ty \in {2, 3}, i \in BOOLEAN, f \in BOOLEAN, hh \in 1..2}
Tour == TourT \cup TourH \cup TourV \cup TourB \cup TourC1 \cup TourC2 \cup TourC3 \cup TourD \cup TourE \cup TourF \cup TourR

\* lemma of the tour: every 16-byte stream end x block 1..MaxBlocks is reached on the api route and on the device route
RECURSIVE SLen(_, _)
SLen(cmds, k) == IF k = 0 THEN 16 ELSE SLen(cmds, k - 1) + Size(cmds[k].t, IF cmds[k].t = 5 THEN cmds[k].dl - (cmds[k].dl % 4) ELSE cmds[k].dl)
StreamLen(cmds) == SLen(cmds, Len(cmds))
Ends(r) == {<<(StreamLen(c.cmds) - 1) \div CHUNK + 1, StreamLen(c.cmds) % CHUNK>> : c \in {x \in TourB : x.route = r}}
TourLemma == \A r \in {"api", "dev"} : \A b \in 1..MaxBlocks : \A q \in 0..15 : (b = 1 /\ q \in {0, 1, 2, 3}) \/ \E e \in Ends(r) : e[1] = b /\ e[2] = 16 * q
ASSUME TourLemma
\* every fault kind at every one of the first commands of a run, every reset combination with a second run, every header class on every route
CoverLemma == /\ \A k \in 0..13, f \in Faults : \E c \in TourF : c.fault = <<k, f>> /\ c.type = 2
              /\ \A i \in BOOLEAN, f \in BOOLEAN : \E c \in TourR : c.ri = i /\ c.rf = f /\ c.hist = 2 /\ c.route = "dev"
              /\ \A d \in Dscs, t \in Tscs, r \in {"api", "cfg", "dev"} : (\E c \in TourH : c.route = r /\ c.dsc = d) /\ (\E c \in TourH : c.route = r /\ c.tsc = t)
ASSUME CoverLemma

\* ---- simulation: random header classes, random command list, random route
SimLens == {0, 1, 3, 4, 16, 33, 100, 208, 240, 255, 256, 257, 300, 511, 512, 700, 1024}
Seeds == {[Base(r, ty) EXCEPT !.dsc = d, !.tsc = t, !.fwc = f, !.flc = fl, !.cmds = << >>, !.hist = hh, !.ri = (hh = 2)]
          : r \in {"api", "cfg", "dev"}, ty \in Types, d \in Dscs, t \in Tscs \ {"none"}, f \in Fwcs, fl \in {"zero", "word"}, hh \in 1..2}
Grow == /\ ~done /\ Mode = "sim" /\ Len(case.cmds) < MaxCmds
        /\ \E t \in (IF case.route = "api" THEN 1..14 ELSE CfgCmds) : \E dl \in SimLens :
             (t \in DataCmds \/ dl = 0) /\ (case.route = "api" \/ t \notin DataCmds \/ dl > 0) /\ case' = With(case, Append(case.cmds, AC(t, dl)))
        /\ UNCHANGED done
Finish == /\ ~done /\ (Mode = "tour" \/ Len(case.cmds) >= 1)
          /\ done' = TRUE /\ PrintT(ToJson(case)) /\ UNCHANGED case
GInit == done = FALSE /\ case \in (IF Mode = "tour" THEN Tour ELSE Seeds)
GNext == Grow \/ Finish
=============================================================================
