----------------------------- MODULE LpcIspGen -----------------------------
(* GEN form of the LPC ISP model.  The reference device of LpcIsp.tla on the geometry of a real part (LPC865: 64 sectors of 1 KiB, pages    *)
(* of 64 bytes, 8 KiB RAM at 0x10000000) is driven by an IDEAL host (one API operation = the one command line the protocol defines for     *)
(* it) through every operation of a menu of concrete requests.  Memory is sparse, so the real geometry costs nothing.                       *)
(*   tour   : VIEW = the device alone, so TLC visits every reachable device state once (breadth first = by a shortest history) and prints,   *)
(*            for every state and every menu entry, the history that leads there + the entry + the return code the model predicts.          *)
(*            The harness replays each printed history through the real LPCProgProtocol against the device twin.                            *)
(*   cases  : the fault plans (operation x direction x unit index x kind [x follow-up call]) and the program_flash requests, as sets.        *)
EXTENDS LpcIsp, TLC, Json
CONSTANTS Depth
VARIABLES d, hist
G == [pb |-> 64, sb |-> 1024, ns |-> 64, rbase |-> 268435456, rsize |-> 8192]
Buf == 268437504                                      \* 0x10000800, the RAM buffer the ISP documentation uses
Ids == [part |-> 34385, minor |-> 240, major |-> 0, uid |-> <<1, 2, 3, 4>>]
PatW(n) == [k \in 1..(n \div 4) |-> 1000 + k]         \* the words write_ram carries in the tour
Letter == [unlock |-> "U", set_echo |-> "A", prepare |-> "P", copy |-> "C", erase_sector |-> "E", erase_page |-> "X",
           blank_check |-> "I", compare |-> "M", go |-> "G", read_crc |-> "S", write_ram |-> "W", read_memory |-> "R"]
M(op, a) == [op |-> op, a |-> a]
Menu == { M("unlock", <<>>),
          M("prepare", <<1, 1>>), M("prepare", <<1, 2>>), M("prepare", <<64, 64>>), M("prepare", <<2, 1>>),
          M("erase_sector", <<1, 1>>), M("erase_sector", <<1, 2>>), M("erase_sector", <<64, 64>>),
          M("erase_page", <<16, 16>>), M("erase_page", <<47, 47>>), M("erase_page", <<1024, 1024>>),
          M("write_ram", <<Buf, 256>>),
          M("copy", <<1024, Buf, 256>>), M("copy", <<2816, Buf, 256>>), M("copy", <<1024, Buf, 192>>), M("copy", <<1028, Buf, 256>>),
          M("copy", <<1024, Buf + 2, 256>>), M("copy", <<65536, Buf, 256>>), M("copy", <<1024, 268443584, 256>>),
          M("blank_check", <<1, 1>>), M("blank_check", <<1, 2>>), M("compare", <<1024, Buf, 256>>),
          M("read_memory", <<1024, 64>>), M("read_crc", <<1024, 256>>), M("go", <<0>>), M("set_echo", <<0>>), M("set_echo", <<1>>) }
Args(m) == IF m.op = "unlock" THEN <<UnlockCode>> ELSE m.a
Init == d = [NewDev("pat", Ids) EXCEPT !.st = "cmd"] /\ hist = <<>>
Step(m) == LET r == Cmd(G, d, Letter[m.op], Args(m), 0)
               d2 == IF m.op = "write_ram" /\ r.rc = 0 THEN DataIn(G, r.d, m.a[2], PatW(m.a[2])) ELSE r.d
           IN /\ d' = d2 /\ hist' = Append(hist, m)
              /\ PrintT(ToJson([h |-> hist', rc |-> r.rc, c |-> Letter[m.op]]))
Tour == Len(hist) < Depth /\ \E m \in Menu : Step(m)
Next == Tour
View == d
\* every (letter, return code) pair the tour must reach (non-vacuity of the generator: checked by the harness on the printed edges)
\* ---- case sets
FaultOps == {"unlock", "prepare", "copy", "erase_sector", "write_ram", "read_memory", "read_memory_chunked", "read_crc", "read_uid", "read_part_id",
             "blank_check_dirty", "compare_differ", "program_flash", "sync"}
\* units of one exchange: h2d = writes of the host (command line, data block), d2h = lines / data blocks of the device
Kinds(dir) == IF dir = "h2d" THEN {"lost", "trunc", "flip"} ELSE {"lost", "trunc", "late", "garbage"}
Follow == {"none", "unlock", "read_memory", "copy_unprepared"}
FaultCases == {[op |-> o, dir |-> dr, k |-> k, kind |-> kd, follow |-> f, echo |-> e] :
                 o \in FaultOps, dr \in {"h2d", "d2h"}, k \in 0..5, kd \in {"lost", "trunc", "flip", "late", "garbage"}, f \in Follow, e \in BOOLEAN}
Admitted(c) == /\ c.kind \in Kinds(c.dir)
               /\ (c.kind = "late" \/ c.follow = "none" \/ c.k <= 1)                    \* follow-up calls matter after what leaves something behind
               /\ (c.kind = "flip" => c.op = "program_flash")                             \* a flipped byte is detectable only where the flow verifies
               /\ (c.op # "program_flash" => c.k <= 3)
PfCases == {[mode |-> m, start |-> s, len |-> n, erase |-> er, verify |-> v, fini |-> fi, famgiven |-> fg] :
              m \in {"sector", "page"}, s \in {"zero", "one", "lastfit", "overflow"}, n \in {"unit", "units2h", "padbad", "tiny", "empty", "big"},
              er \in BOOLEAN, v \in BOOLEAN, fi \in {"blank", "pat"}, fg \in BOOLEAN}
\* the part refuses (BUSY) the nth command line with a given letter while a two-unit program_flash runs: every step of the flow, both rounds
PfRefuse == {[mode |-> m, letter |-> c, nth |-> k] : m \in {"sector", "page"}, c \in {"U", "W", "R", "P", "E", "X", "C", "S"}, k \in 1..4}
RefuseAdmitted(c) == /\ (c.letter = "U" => c.nth = 1) /\ (c.letter # "P" => c.nth <= 2)
                     /\ (c.letter = "E" => c.mode = "sector") /\ (c.letter = "X" => c.mode = "page")
\* argument classes of single operations (every class alone, in both echo modes, on both routes where the tool has the command)
ArgOps == [ sync |-> {"ok"}, unlock |-> {"ok"}, set_echo |-> {"off", "on", "off_on"}, set_baud_rate |-> {"ok", "stop3"},
            prepare |-> {"ok", "invalid", "reversed", "last"}, erase_sector |-> {"ok", "locked", "unprepared", "invalid", "busy"},
            erase_page |-> {"ok", "locked", "unprepared", "invalid", "lastsector"}, copy |-> {"ok", "locked", "unprepared", "busy", "count192", "sector"},
            blank_check |-> {"blank", "dirty", "invalid"}, compare |-> {"equal", "differ", "count6", "align", "unmapped"},
            go |-> {"ok", "thumb", "locked", "unmapped"}, write_ram |-> {"ok", "word", "big", "align", "unmapped", "len6", "busy"},
            read_memory |-> {"flash", "ram", "chunked", "onepast", "align", "count6", "unmapped", "zero", "busy", "second_chunk_unmapped"},
            read_crc |-> {"ok", "crc0", "count6", "unmapped"}, read_part_id |-> {"ok"}, read_boot |-> {"ok"}, read_uid |-> {"ok", "topbit"},
            get_crp |-> {"nocrp", "crp1", "crp2", "crp3", "noisp"}, cli_erase_sector |-> {"ok", "invalid", "last"}, cli_erase_page |-> {"ok", "invalid", "lastsector"} ]
CliOps == {"sync", "unlock", "prepare", "blank_check", "compare", "go", "write_ram", "read_memory", "read_crc", "cli_erase_sector", "cli_erase_page"}
ArgCases == {[op |-> o, cls |-> c, echo |-> e, route |-> r] : o \in DOMAIN ArgOps, c \in UNION {ArgOps[x] : x \in DOMAIN ArgOps}, e \in BOOLEAN, r \in {"api", "cli"}}
ArgAdmitted(c) == /\ c.cls \in ArgOps[c.op] /\ (c.route = "cli" => c.op \in CliOps /\ c.echo) /\ (c.op \in {"cli_erase_sector", "cli_erase_page"} => c.route = "cli")
                  /\ (c.op \in {"sync", "set_echo"} => c.echo)
PrintCases(u) == /\ \A c \in {x \in ArgCases : ArgAdmitted(x)} : PrintT(ToJson([arg |-> c]))
                 /\ \A c \in {x \in FaultCases : Admitted(x)} : PrintT(ToJson([fault |-> c]))
                 /\ \A c \in PfCases : PrintT(ToJson([pf |-> c]))
                 /\ \A c \in {x \in PfRefuse : RefuseAdmitted(x)} : PrintT(ToJson([refuse |-> c]))
CInit == Init /\ PrintCases(0)
CNext == FALSE /\ UNCHANGED <<d, hist>>
=============================================================================
