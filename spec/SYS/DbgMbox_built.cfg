SPECIFICATION Spec
CONSTANTS NPar = 2  NResp = 2  MaxFaults = 2  RetryAfterEffect = TRUE
INVARIANT NoFalseSuccess
INVARIANT ExecutedAtMostOnce
CHECK_DEADLOCK FALSE
