SPECIFICATION Spec
CONSTANTS N = 3  MaxFaults = 2  Flush = FALSE  MatchEcho = FALSE
INVARIANT AsSent
INVARIANT NoFalseSuccess
CHECK_DEADLOCK FALSE
