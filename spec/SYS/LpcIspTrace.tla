---------------------------- MODULE LpcIspTrace ----------------------------
(* Trace form of the LPC ISP model: the device automaton of LpcIsp.tla run over what the device twin received from the real              *)
(* LPCProgProtocol / LPCProgInterface / lpcprog CLI, plus the contract of one API call.  One trace = one history of calls on ONE           *)
(* protocol object against ONE device.  Header of a trace: g (geometry), fini ("blank" | "pat"), ids, st (device state at the start).     *)
(* Events:  call | hit (the link applied its fault) | dsync | dcmd (a command line reached the command handler: letter, decimal            *)
(*          arguments, the return code and the values the twin answered - all re-derived here) | ddata (raw bytes of a W data phase)       *)
(*          | result.   Every event carries every field (type-stable), unused ones at their defaults.                                      *)
(* Clauses decided at `result` (ok = the call looks like a success to its caller):                                                         *)
(*   Documented      an exception is an SPSDK error or a time-out                                                                         *)
(*   NoFalseSuccess  ok => exactly the command(s) the call stands for reached the device with the caller's numbers, the device said        *)
(*                   CMD_SUCCESS, the data phase is complete, memory holds / the caller got exactly the bytes, nothing else changed        *)
(*   AsSent          a status / value handed to the caller is the one the device sent for THIS command                                     *)
(*   Mirror          no link fault so far, device in step, request legal => the call succeeds                                              *)
EXTENDS LpcIsp, TLC, Json, IOUtils
Traces == ndJsonDeserialize(IOEnv.TRACE_FILE)
VARIABLES tid, l, d, d0, call, seen, nh, nz
vars == <<tid, l, d, d0, call, seen, nh, nz>>
T == Traces[tid].ev
G == Traces[tid].g
E == T[l]
Is(e) == l <= Len(T) /\ E.ev = e
Adv == l' = l + 1 /\ UNCHANGED tid
NoCall == [op |-> "none"]
Start == [NewDev(Traces[tid].fini, Traces[tid].ids) EXCEPT !.st = Traces[tid].st, !.echo = Traces[tid].echo]
Init == /\ tid \in 1..Len(Traces) /\ l = 1 /\ d = Start /\ d0 = Start /\ call = NoCall /\ seen = <<>> /\ nh = 0 /\ nz = 0 /\ TLCSet(tid, 1)

Call == /\ Is("call") /\ call.op = "none" /\ call' = E /\ seen' = <<>> /\ d0' = d /\ nz' = 0 /\ UNCHANGED <<d, nh>> /\ Adv
Hit == /\ Is("hit") /\ nh' = nh + 1 /\ UNCHANGED <<d, d0, call, seen, nz>> /\ Adv
DSync == /\ Is("dsync") /\ d.st # "cmd" /\ d' = SyncIn(d, E.k, E.v) /\ UNCHANGED <<d0, call, seen, nh, nz>> /\ Adv
DCmd == /\ Is("dcmd") /\ d.st = "cmd" /\ d.dleft = 0
        /\ IF E.forced THEN E.rc # 0 /\ E.x = <<>> /\ d' = d                                   \* scenario: the part refuses once (BUSY ...), nothing happens
           ELSE IF E.bad THEN E.rc = (IF E.c = "?" THEN RcInvalidCommand ELSE RcParam) /\ E.x = <<>> /\ d' = d   \* not a command line of the grammar
           ELSE LET r == Cmd(G, d, E.c, E.a, IF E.c = "S" /\ Len(E.x) = 1 THEN E.x[1] ELSE 0)
                IN r.rc = E.rc /\ r.x = E.x /\ d' = r.d                                         \* the twin agrees with the automaton
        /\ seen' = Append(seen, [c |-> E.c, a |-> E.a, rc |-> E.rc, x |-> E.x])
        /\ nz' = (IF E.forced THEN nz + 1 ELSE nz)                                              \* refusals of the part during this call
        /\ UNCHANGED <<d0, call, nh>> /\ Adv
DData == /\ Is("ddata") /\ d.st = "cmd" /\ d.dleft > 0 /\ E.nb >= 1 /\ E.nb <= d.dleft /\ E.done = (E.nb = d.dleft)
         /\ (E.done => 4 * Len(E.w) = d.dcnt)
         /\ d' = DataIn(G, d, E.nb, E.w) /\ UNCHANGED <<d0, call, seen, nh, nz>> /\ Adv

\* ---------------------------------------------------------------- the contract
Letter == [unlock |-> "U", set_echo |-> "A", set_baud_rate |-> "B", prepare |-> "P", copy |-> "C", erase_sector |-> "E", erase_page |-> "X",
           blank_check |-> "I", compare |-> "M", go |-> "G", read_crc |-> "S", read_part_id |-> "J", read_boot |-> "K", read_uid |-> "N", write_ram |-> "W"]
StatusOps == {"unlock", "set_echo", "set_baud_rate", "prepare", "copy", "erase_sector", "erase_page", "blank_check", "compare"}
ValueOps == {"read_part_id", "read_boot", "read_uid"}
Args == IF call.op = "unlock" THEN <<UnlockCode>> ELSE call.a
One(rcok) == /\ Len(seen) = 1 /\ seen[1].c = Letter[call.op] /\ seen[1].a = Args /\ (seen[1].rc = 0) = rcok
InStep == d0.st = "cmd" /\ d0.dleft = 0
Benign == nh = 0 /\ nz = 0 /\ InStep                   \* no link fault so far, no refusal the scenario forced, device in step at the call
ExpRc == Cmd(G, d0, Letter[call.op], Args, 0).rc          \* what the part answers to the command the call stands for
FlashKept == d.fl = d0.fl
RamKept == d.rm = d0.rm
\* RAM outside [a, a+n) as it was
RamFrame(a, n) == LET lo == (a - G.rbase) \div 4   hi == lo + (n \div 4) - 1
                  IN \A i \in DOMAIN d.rm : (i < lo \/ i > hi) => d.rm[i] = RAt(d0, i)
\* program_flash: the words the request covers / may touch
PfBase == IF call.mode = "page" THEN call.a[1] * G.pb ELSE call.a[1] * G.sb
PfUnit == IF call.mode = "page" THEN G.pb ELSE G.sb
PfLen == 4 * Len(call.w)
PfLo == PfBase \div 4
PfHi == ((PfBase + (((PfLen + PfUnit - 1) \div PfUnit) * PfUnit)) \div 4) - 1           \* last word of the last sector / page the data reach into
PfContent == \A k \in 1..Len(call.w) : FAt(d, PfLo + k - 1) = call.w[k]
PfFrame == \A i \in DOMAIN d.fl : (i < PfLo \/ i > PfHi) => d.fl[i] = FAt(d0, i)
PfBlank == \A i \in PfLo..PfHi : FAt(d0, i) = Blank
PfLegal == /\ PfLen > 0 /\ PfBase + PfLen <= G.sb * G.ns /\ (call.erase \/ PfBlank)
           /\ G.sb <= G.rsize                                                          \* (the part has room for a sector in RAM at all)
\* the erase flows of the command line tool
ErLo == IF call.op = "cli_erase_page" THEN (call.a[1] * G.pb) \div 4 ELSE (call.a[1] * G.sb) \div 4
ErHi == IF call.op = "cli_erase_page" THEN (((call.a[2] + 1) * G.pb) \div 4) - 1 ELSE (((call.a[2] + 1) * G.sb) \div 4) - 1
ErUnits == IF call.op = "cli_erase_page" THEN Pages(G) ELSE G.ns
ErLegal == 0 <= call.a[1] /\ call.a[1] <= call.a[2] /\ call.a[2] < ErUnits
Result ==
  /\ Is("result") /\ call.op # "none"
  /\ (E.kind = "exc" => E.documented)
  /\ CASE call.op \in StatusOps ->
            /\ (E.kind = "ret" => E.rv \in {"true", "false"})
            /\ (E.rv = "true" => One(TRUE)) /\ (E.rv = "false" => One(FALSE))
            /\ (Benign /\ ExpRc = 0 => E.rv = "true")
            /\ (Benign /\ ExpRc # 0 => E.rv = "false" \/ (E.kind = "exc" /\ seen = <<>>))          \* refused by the part, or by the host before anything was sent
            /\ (nh = 0 /\ nz > 0 /\ InStep => E.rv = "false")                                        \* a refusal of the part is reported as such
            /\ (E.kind = "ret" => d.dleft = 0)
       [] call.op = "go" ->
            /\ (E.kind = "ret" => One(TRUE))                                                   \* a refusal of the part must not look like a started program
            /\ (Benign /\ Cmd(G, d0, "G", call.a, 0).rc = 0 => E.kind = "ret")
       [] call.op = "write_ram" ->
            /\ (E.kind = "ret" => E.rv = "true")
            /\ (E.rv = "true" => /\ One(TRUE) /\ d.dleft = 0 /\ Words(G, d, call.a[1], call.a[2]) = call.w
                                 /\ RamFrame(call.a[1], call.a[2]) /\ FlashKept)
            /\ (Benign /\ Cmd(G, d0, "W", call.a, 0).rc = 0 => E.rv = "true")
       [] call.op = "read_memory" ->
            /\ (E.kind = "ret" => /\ E.rv = "data" /\ E.n = call.a[2] /\ E.t = <<>>                     \* all the bytes asked for, or a failure
                                  /\ call.a[2] % 4 = 0 /\ E.w = Words(G, d, call.a[1], call.a[2])      \* ... and exactly the device's
                                  /\ \A i \in 1..Len(seen) : seen[i].c = "R" /\ seen[i].rc = 0)
            /\ (E.kind = "ret" => FlashKept /\ RamKept)
            /\ (Benign /\ call.a[1] % 4 = 0 /\ call.a[2] % 4 = 0 /\ call.a[2] > 0 /\ Mapped(G, call.a[1], call.a[2]) => E.kind = "ret")
       [] call.op = "read_crc" ->
            /\ (E.kind = "ret" => E.rv \in {"int", "null"})
            /\ (E.rv = "int" => One(TRUE) /\ E.vals = seen[1].x)                                  \* the checksum is the one the part sent
            /\ (E.rv = "null" => One(FALSE))
            /\ (Benign /\ ExpRc = 0 => E.rv = "int")
       [] call.op \in ValueOps ->
            /\ (E.kind = "ret" => E.rv = "vals" /\ One(TRUE) /\ E.vals = seen[1].x)
            /\ (Benign => E.kind = "ret")
       [] call.op = "sync" ->
            /\ (E.kind = "ret" => E.rv = "true")
            /\ (E.rv = "true" => d.st = "cmd" /\ d.freq = call.a[1] /\ seen = <<>>)            \* the crystal frequency arrived as the line the handshake asks for
            /\ (nh = 0 /\ d0.st = "auto" => E.rv = "true")
       [] call.op = "program_flash" ->
            /\ (E.kind = "ret" => E.rv \in {"true", "false"})
            /\ (E.rv = "true" => d.dleft = 0 /\ PfContent)
            /\ (E.kind = "ret" => PfFrame)                                                     \* whatever it says: flash outside the addressed sectors / pages is not its business
            /\ (Benign /\ PfLegal => E.rv = "true")
            /\ (nz > 0 => E.rv # "true")                                                       \* a command the part refused during the flow surfaces as a failure
       [] call.op \in {"cli_erase_sector", "cli_erase_page"} ->
            /\ (E.rv = "true" => \A i \in ErLo..ErHi : FAt(d, i) = Blank)
            /\ (E.kind = "ret" => \A i \in DOMAIN d.fl : (i < ErLo \/ i > ErHi) => d.fl[i] = FAt(d0, i))
            /\ (Benign /\ ErLegal => E.rv = "true")
       [] call.op = "get_crp" ->
            /\ (E.kind = "ret" => E.rv = "vals" /\ E.vals = <<FAt(d, 191)>>)                       \* the word at 0x2FC as the core reads it (little endian)
       [] OTHER -> FALSE
  /\ call' = NoCall /\ UNCHANGED <<d, d0, seen, nh, nz>> /\ Adv
Next == Call \/ Hit \/ DSync \/ DCmd \/ DData \/ Result
Constr == IF TLCGet(tid) < l THEN TLCSet(tid, l) ELSE TRUE
Post == /\ \A i \in 1..Len(Traces) : \/ TLCGet(i) - 1 = Len(Traces[i].ev)
          \/ PrintT(<<"REJ", Traces[i].id, TLCGet(i) - 1, Len(Traces[i].ev), Traces[i].ev[IF TLCGet(i) <= Len(Traces[i].ev) THEN TLCGet(i) ELSE Len(Traces[i].ev)].ev>>)
        /\ PrintT(<<"DONE", Len(Traces)>>)
=============================================================================
