SPECIFICATION Spec
CONSTANTS NPar = 2  NResp = 2  MaxFaults = 1  RetryAfterEffect = FALSE
INVARIANT Reach
CHECK_DEADLOCK FALSE
