SPECIFICATION Spec
CONSTANTS PrepareAgain = TRUE  DoUnlock = TRUE  MaxRefuse = 1
INVARIANT NoFalseSuccess
INVARIANT Mirror
CHECK_DEADLOCK FALSE
