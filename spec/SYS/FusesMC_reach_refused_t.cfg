SPECIFICATION Spec
CONSTANTS Host = "ideal" CheckStatus = TRUE Verify = FALSE Iwl2 = "implicit" StoreInsteadOfOr = FALSE Quiet = FALSE MaxCalls = 2 MaxFaults = 2
INVARIANT NeverRefused
CHECK_DEADLOCK FALSE
