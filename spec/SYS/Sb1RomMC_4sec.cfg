CONSTANTS MaxSecs = 4
 MaxCmds = 1
 MaxPay = 1
 Writer = "ideal"
 Strict = TRUE
 Reader = "reference"
INIT Init
NEXT Next
INVARIANT Complete
INVARIANT BootFinds
INVARIANT Tamper
INVARIANT Sound
CHECK_DEADLOCK TRUE
