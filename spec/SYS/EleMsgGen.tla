------------------------------ MODULE EleMsgGen ------------------------------
(* GEN form of EleMsgFlow.tla: TLC enumerates every history of NMsg messages over one handler - per message the bootloader command that        *)
(* failed (wr / mu / rd / none) and what the firmware answered (success / failure / short / tag / cmd / version / big / corrupt / none) -       *)
(* for the host mode given by CmdException.  Printed from an action, once per final state (duplicates are merged by the harness).               *)
EXTENDS EleMsgFlow, Json
VARIABLES hist, printed
GInit == Init /\ hist = [i \in 1..NMsg |-> [bf |-> "none", ans |-> "none"]] /\ printed = FALSE
GNext == \/ /\ Next /\ printed' = FALSE
            /\ hist' = [hist EXCEPT ![k] = [bf |-> IF nf' > nf THEN pc ELSE @.bf, ans |-> IF Len(ans') > Len(ans) THEN ans'[Len(ans')] ELSE @.ans]]
         \/ /\ ~printed /\ pc = "done" /\ printed' = TRUE /\ UNCHANGED vars /\ UNCHANGED hist
            /\ PrintT(ToJson([exc |-> CmdException, hist |-> hist]))
=============================================================================
