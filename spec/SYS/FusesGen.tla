--------------------------- MODULE FusesGen ---------------------------
(* GEN form of the fuse lane: the abstract cases the harness binds to concrete fuses of concrete families.                                    *)
(* A case = one history on ONE Fuses object / ONE device: an optional earlier call (hist), then the call under judgement.                      *)
(*   op    what is called:   write / write_lock (write_single, lock argument), write_cfg (load_config -> write_multiple), read, read_all,      *)
(*                           script (load_config -> create_fuse_script -> reference reader), cli_write / cli_single / cli_print / cli_script    *)
(*   kind  what the fuse map says about the word: individual write lock, lock fuse (none / another word / the word itself), member of a         *)
(*         group, access                                                                                                                        *)
(*   pre   what the device holds before: blank | val (bits already burnt) | wl (the word's own write lock is set) | lkw / lkr (the lock fuse     *)
(*         write- / read-protects the word)                                                                                                     *)
(*   fault the k-th device access of the call fails (0 = none); mf: the k-th McuBoot command of the call is answered with an error (ELE route)   *)
(*   quiet the ROM does not report the refusal of a protected word                                                                              *)
EXTENDS Naturals, Sequences, TLC, Json
VARIABLE c
Ops == {"write", "write_lock", "write_cfg", "read", "read_all", "script", "cli_write", "cli_single", "cli_print", "cli_script"}
WriteOps == {"write", "write_lock", "write_cfg", "cli_write", "cli_single"}
Kinds == [iwl : {"none", "user", "always_lock", "implicit"}, lk : {"no", "other", "self"}, grp : BOOLEAN, acc : {"RW", "WO", "RO"}]
Pres == {"blank", "val", "wl", "lkw", "lkr"}
Hists == {"fresh", "after_write", "after_read", "after_read_all"}
Cases == [op : Ops, kind : Kinds, pre : Pres, fault : 0..3, mf : 0..3, quiet : BOOLEAN, hist : Hists]
Valid(x) ==
  /\ (x.pre \in {"lkw", "lkr"} => x.kind.lk # "no")
  /\ (x.kind.lk = "self" => ~x.kind.grp)                                     \* a group is no lock fuse
  /\ (x.kind.acc # "RW" => x.kind.lk # "self")
  /\ (x.op = "write_lock" => x.kind.iwl \in {"none", "user"})                \* the lock flag on a word that locks itself / is always locked: not asserted
  /\ (x.quiet => x.op \in WriteOps /\ x.pre \in {"wl", "lkw"} /\ x.fault = 0 /\ x.mf = 0)
  /\ (x.fault > 0 => x.pre = "blank" /\ x.mf = 0 /\ x.op \notin {"script", "cli_script"})
  /\ (x.mf > 0 => x.pre = "blank" /\ x.op \in {"write", "read", "write_cfg"} /\ x.hist \in {"fresh", "after_write"})
  /\ (x.hist # "fresh" => x.fault = 0 /\ x.op \notin {"script", "cli_script"})
  /\ (x.op \in {"script", "cli_script"} => x.pre = "blank" /\ ~x.quiet)
  /\ (x.op = "read_all" => x.pre \in {"blank", "val", "lkr"} /\ x.fault \in {0, 2})
  /\ (x.pre = "wl" => x.kind.iwl # "none" \/ x.kind.lk = "no")                \* keeps the space small: one protection at a time
Init == c \in {x \in Cases : Valid(x)} /\ PrintT(ToJson(c))
Next == UNCHANGED c
=============================================================================
