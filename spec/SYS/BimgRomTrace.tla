---------------------------- MODULE BimgRomTrace ----------------------------
(* TV form of the composition  bootable image || boot ROM  (growth item 2 of DESIGN section 7; joins C14 with C02, C06, C07).  *)
(*                                                                                                                             *)
(* Four specifications are composed WITHOUT restating any of them:                                                              *)
(*   BimgRom (this lane)  where the ROM of the family reads its boot device, and the address clauses                             *)
(*   MbiRom (C02), AhabRom (C06), HabRom (C07)   the acceptance automaton of the container format the family boots               *)
(* A trace = the device (index into the frozen ROM view), the case, and the events of ONE reading of the merged image that the    *)
(* real code produced:  Merge (what the host call said), one Hdr event per header segment of the ROM's table, Locate, then the    *)
(* events of the UNCHANGED container executor (lib/mbi_rom2, lib/ahab_rom2, c07.execute) walking the bytes found at the ROM's     *)
(* image offset INSIDE THE MERGED IMAGE, then Boot.  It is a behaviour iff the ROM finds every supplied header block and the      *)
(* container where its table says, the container automaton accepts the bytes found there, and the addresses the container names   *)
(* agree with where its bytes sit on the device.                                                                                  *)
EXTENDS BimgRom, Json, IOUtils
Rom == JsonDeserialize(IOEnv.ROM_FILE)
Traces == ndJsonDeserialize(IOEnv.TRACE_FILE)
M == INSTANCE MbiRom
A == INSTANCE AhabRom
H == INSTANCE HabRom
VARIABLES tid, l, b, sm, sa, sh
tvars == <<tid, l, b, sm, sa, sh>>
T == Traces[tid].ev
E == T[l]
D == Rom.devs[Traces[tid].dev]
C == Rom.classes[D.cls]
K == Traces[tid].k
Is(e) == l <= Len(T) /\ E.ev = e
Adv == l' = l + 1 /\ UNCHANGED tid
TInit == tid \in 1..Len(Traces) /\ l = 1 /\ b = B0 /\ sm = M!S0 /\ sa = A!S0 /\ sh = H!S0 /\ TLCSet(tid, 1)
KeepRoms == UNCHANGED <<sm, sa, sh>>

\* the device is mapped at an address of ITS memory map (the case cannot invent one)
BaseOK == K.xip => \E i \in DOMAIN D.bases : D.bases[i] = K.base
(* ---- the ROM above the container *)
TMerge  == Is("Merge")  /\ BaseOK /\ MergeOK(C, K, b, E) /\ b' = MergeNx(C, K, b, E) /\ KeepRoms /\ Adv
THdr    == Is("Hdr")    /\ HdrOK(C, K, b, E)    /\ b' = HdrNx(C, K, b, E)    /\ KeepRoms /\ Adv
TLocate == Is("Locate") /\ LocateOK(C, K, b, E) /\ b' = LocateNx(C, K, b, E) /\ KeepRoms /\ Adv

(* ---- MBI: the automaton of C02 over the bytes at the image offset *)
rom == Traces[tid].rom
InM(e) == Is(e) /\ b.st = "Cont" /\ C.kind = "mbi" /\ UNCHANGED <<b, sa, sh>> /\ Adv
MReadIvt      == InM("ReadIvt")      /\ M!IvtOK(rom, sm, E)    /\ sm' = M!IvtNx(rom, sm, E)
MCheckCrc     == InM("CheckCrc")     /\ M!CrcOK(rom, sm, E)    /\ sm' = M!CrcNx(rom, sm, E)
MCheckHmac    == InM("CheckHmac")    /\ M!HmacOK(rom, sm, E)   /\ sm' = M!HmacNx(rom, sm, E)
MCertBlockV1  == InM("CertBlockV1")  /\ M!Cb1OK(rom, sm, E)    /\ sm' = M!Cb1Nx(rom, sm, E)
MCertV1       == InM("CertV1")       /\ M!Cert1OK(rom, sm, E)  /\ sm' = M!Cert1Nx(rom, sm, E)
MRkhTable     == InM("RkhTable")     /\ M!RkhOK(rom, sm, E)    /\ sm' = M!RkhNx(rom, sm, E)
MVerifySigV1  == InM("VerifySigV1")  /\ M!Sig1OK(rom, sm, E)   /\ sm' = M!Sig1Nx(rom, sm, E)
MDecrypt      == InM("Decrypt")      /\ M!DecOK(rom, sm, E)    /\ sm' = M!DecNx(rom, sm, E)
MCertBlockV21 == InM("CertBlockV21") /\ M!Cb21OK(rom, sm, E)   /\ sm' = M!Cb21Nx(rom, sm, E)
MRootKeyRecord == InM("RootKeyRecord") /\ M!RkrOK(rom, sm, E)  /\ sm' = M!RkrNx(rom, sm, E)
MIskCert      == InM("IskCert")      /\ M!IskOK(rom, sm, E)    /\ sm' = M!IskNx(rom, sm, E)
MCertBlockEnd == InM("CertBlockEnd") /\ M!CbEndOK(rom, sm, E)  /\ sm' = M!CbEndNx(rom, sm, E)
MManifest     == InM("Manifest")     /\ M!ManOK(rom, sm, E)    /\ sm' = M!ManNx(rom, sm, E)
MManifestCrc  == InM("ManifestCrc")  /\ M!ManCrcOK(rom, sm, E) /\ sm' = M!ManCrcNx(rom, sm, E)
MVerifySigV21 == InM("VerifySigV21") /\ M!Sig21OK(rom, sm, E)  /\ sm' = M!Sig21Nx(rom, sm, E)
MCheckDigest  == InM("CheckDigest")  /\ M!DigOK(rom, sm, E)    /\ sm' = M!DigNx(rom, sm, E)
MAccept == /\ Is("Accept") /\ b.st = "Cont" /\ C.kind = "mbi" /\ M!AcceptOK(rom, sm) /\ sm' = M!AcceptNx(rom, sm)
           /\ b' = [b EXCEPT !.st = "Boot"] /\ UNCHANGED <<sa, sh>> /\ Adv
MNext == MReadIvt \/ MCheckCrc \/ MCheckHmac \/ MCertBlockV1 \/ MCertV1 \/ MRkhTable \/ MVerifySigV1 \/ MDecrypt \/ MCertBlockV21
         \/ MRootKeyRecord \/ MIskCert \/ MCertBlockEnd \/ MManifest \/ MManifestCrc \/ MVerifySigV21 \/ MCheckDigest \/ MAccept

(* ---- AHAB: the automaton of C06; every image array entry is also bound to the device (AhabAddrOK) *)
exp == Traces[tid].exp
InA(e) == Is(e) /\ b.st = "Cont" /\ C.kind = "ahab" /\ UNCHANGED <<b, sm, sh>> /\ Adv
AContainerHeader == InA("ContainerHeader") /\ A!HdrOK(exp, sa, E)    /\ sa' = A!HdrNx(exp, sa, E)
AImageEntry      == InA("ImageEntry")      /\ A!ImgOK(exp, sa, E)    /\ sa' = A!ImgNx(exp, sa, E)
                    /\ (E.type = 3 => AhabAddrOK(C, K, E))                                     \* an executable image: load address / entry against the device
ASignatureBlock  == InA("SignatureBlock")  /\ A!SigBlkOK(exp, sa, E) /\ sa' = A!SigBlkNx(exp, sa, E)
ASrkTable        == InA("SrkTable")        /\ A!SrkOK(exp, sa, E)    /\ sa' = A!SrkNx(exp, sa, E)
ACertificate     == InA("Certificate")     /\ A!CertOK(exp, sa, E)   /\ sa' = A!CertNx(exp, sa, E)
AVerifySignature == InA("VerifySignature") /\ A!SigOK(exp, sa, E)    /\ sa' = A!SigNx(exp, sa, E)
ABlob            == InA("Blob")            /\ A!BlobOK(exp, sa, E)   /\ sa' = A!BlobNx(exp, sa, E)
AContainerEnd    == InA("ContainerEnd")    /\ A!EndOK(exp, sa, E)    /\ sa' = A!EndNx(exp, sa, E)
AAccept == /\ Is("Accept") /\ b.st = "Cont" /\ C.kind = "ahab" /\ A!AcceptOK(exp, sa, E) /\ sa' = A!AcceptNx(exp, sa, E)
           /\ b' = [b EXCEPT !.st = "Boot"] /\ UNCHANGED <<sm, sh>> /\ Adv
ANext == AContainerHeader \/ AImageEntry \/ ASignatureBlock \/ ASrkTable \/ ACertificate \/ AVerifySignature \/ ABlob \/ AContainerEnd \/ AAccept

(* ---- HAB: the automaton of C07.  The ROM knows ITS image offset and, on a mapped device, the address of the device: these two   *)
(*      inputs of HabRom come from the ROM view here, not from what the builder was told (pointers are resolved against them)     *)
inp == [Traces[tid].inp EXCEPT !.ivtOff = C.imgOff, !.start = IF K.xip THEN K.base ELSE @]
InH(e) == Is(e) /\ b.st = "Cont" /\ C.kind = "hab" /\ UNCHANGED <<b, sm, sa>> /\ Adv
HParseIvt         == InH("ParseIvt")     /\ H!IvtOK(inp, sh, E)       /\ sh' = H!IvtNx(inp, sh, E)
HBootData         == InH("BootData")     /\ H!BdOK(inp, sh, E)        /\ sh' = H!BdNx(inp, sh, E)
HDcd              == InH("Dcd")          /\ H!DcdOK(inp, sh, E)       /\ sh' = H!CfgNx(inp, sh, E)
HXmcd             == InH("Xmcd")         /\ H!XmcdOK(inp, sh, E)      /\ sh' = H!CfgNx(inp, sh, E)
HApp              == InH("App")          /\ H!AppOK(inp, sh, E)       /\ sh' = H!AppNx(inp, sh, E)
HCsfHeader        == InH("CsfHeader")    /\ H!CsfOK(inp, sh, E)       /\ sh' = H!CsfNx(inp, sh, E)
HInstallSrk       == InH("InstallKey")   /\ H!SrkOK(inp, sh, E)       /\ sh' = H!SrkNx(inp, sh, E)
HInstallCsfk      == InH("InstallKey")   /\ H!CsfkOK(inp, sh, E)      /\ sh' = H!CsfkNx(inp, sh, E)
HAuthenticateCsf  == InH("Authenticate") /\ H!AuthCsfOK(inp, sh, E)   /\ sh' = H!AuthCsfNx(inp, sh, E)
HInstallImgk      == InH("InstallKey")   /\ H!ImgkOK(inp, sh, E)      /\ sh' = H!ImgkNx(inp, sh, E)
HAuthenticateData == InH("Authenticate") /\ H!AuthDataOK(inp, sh, E)  /\ sh' = H!AuthDataNx(inp, sh, E)
HInstallSecretKey == InH("InstallKey")   /\ H!SecretOK(inp, sh, E)    /\ sh' = H!SecretNx(inp, sh, E)
HDecryptData      == InH("Authenticate") /\ H!DecryptOK(inp, sh, E)   /\ sh' = H!DecryptNx(inp, sh, E)
HOtherCmd         == InH("Cmd")          /\ H!OtherOK(inp, sh, E)     /\ sh' = H!OtherNx(inp, sh, E)
HCsfEnd           == InH("CsfEnd")       /\ H!EndOK(inp, sh, E)       /\ sh' = H!EndNx(inp, sh, E)
HAccept == /\ Is("Accept") /\ b.st = "Cont" /\ C.kind = "hab" /\ H!AcceptOK(inp, sh) /\ sh' = H!AcceptNx(inp, sh)
           /\ b' = [b EXCEPT !.st = "Boot"] /\ UNCHANGED <<sm, sa>> /\ Adv
HNext == HParseIvt \/ HBootData \/ HDcd \/ HXmcd \/ HApp \/ HCsfHeader \/ HInstallSrk \/ HInstallCsfk \/ HAuthenticateCsf \/ HInstallImgk
         \/ HAuthenticateData \/ HInstallSecretKey \/ HDecryptData \/ HOtherCmd \/ HCsfEnd \/ HAccept

(* ---- transfer of control: the addresses the accepted container names against where its bytes sit *)
TBoot == /\ Is("Boot") /\ b.st = "Boot" /\ l = Len(T)
         /\ CASE C.kind = "hab"  -> /\ E.self = sh.ivt.self /\ E.start = sh.bd.start /\ E.entry = sh.ivt.entry /\ E.len = sh.bd.len
                                    /\ HabAddrOK(C, K, sh.ivt, sh.bd)
              [] C.kind = "mbi"  -> MbiAddrOK(C, K, sm.h.totalLen, E)
              [] C.kind = "ahab" -> E.nImages > 0                           \* (every entry was bound when it was read)
         /\ b' = [b EXCEPT !.st = "Done"] /\ KeepRoms /\ Adv
TNext == TMerge \/ THdr \/ TLocate \/ MNext \/ ANext \/ HNext \/ TBoot
Constr == IF TLCGet(tid) < l THEN TLCSet(tid, l) ELSE TRUE
Post == /\ \A i \in 1..Len(Traces) :
             \/ TLCGet(i) - 1 = Len(Traces[i].ev)
             \/ PrintT(<<"REJ", Traces[i].id, TLCGet(i) - 1, Len(Traces[i].ev),
                         Traces[i].ev[IF TLCGet(i) <= Len(Traces[i].ev) THEN TLCGet(i) ELSE Len(Traces[i].ev)].ev>>)
        /\ PrintT(<<"DONE", Len(Traces)>>)
=============================================================================
