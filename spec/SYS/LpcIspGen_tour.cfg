CONSTANTS Depth = 4
INIT Init
NEXT Next
VIEW View
CHECK_DEADLOCK FALSE
