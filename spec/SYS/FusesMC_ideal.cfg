SPECIFICATION Spec
CONSTANTS Host = "ideal" CheckStatus = TRUE Verify = FALSE Iwl2 = "implicit" StoreInsteadOfOr = FALSE Quiet = FALSE MaxCalls = 1 MaxFaults = 1
INVARIANT NoFalseSuccess
INVARIANT RefusedUnchanged
INVARIANT ReadsWriteNothing
INVARIANT MirrorRead
INVARIANT ObjectKeepsConfigured
PROPERTY Monotone
CHECK_DEADLOCK FALSE
