------------------------------ MODULE SbxFormat ------------------------------
(* Constants and pure operators of the SB-X format shared by the loader automaton (SbxRom), the device model (SbxDev) and the case generator (SbxGen).  *)
(* The chunk size, the description field and the 14 command formats are those of SB 3.1: the operators below are the ones of spec/C05/Sb31Format.tla     *)
(* (kept word for word; a module of its own so that spec/SYS parses without the C05 directory on the library path).  No variables.                        *)
(* Words that may have bit 31 set are pairs of 16-bit limbs <<hi, lo>> (TLC integers are 32 bit).                                                         *)
EXTENDS Naturals, Sequences, FiniteSets, TLC
CHUNK == 256
Z == <<0, 0>>
Pad16(n) == ((n + 15) \div 16) * 16
LenW(n) == <<n \div 65536, n % 65536>>
DescField(d) == [i \in 1..16 |-> IF i <= Len(d) THEN d[i] ELSE 0]

\* Command = tag, w1, w2, cmd [, 4 more words] [, data padded to 16] [, 64 reserved bytes]
\* (which commands carry the extra words / the reserved tail is frozen-from-source, see harness assumptions)
DataCmds == {2, 5, 6, 7, 9, 10}
HasX(t) == t \in {1, 2, 7, 8, 9, 12}
TailLen(t) == IF t = 9 THEN 64 ELSE 0
DataLenOf(t, w2) == CASE t \in {2, 6, 7, 9, 10} -> w2[1] * 65536 + w2[2]
                      [] t = 5                  -> 4 * (w2[1] * 65536 + w2[2])        \* fuse words
                      [] OTHER                  -> 0
Size(t, dl) == 16 + (IF HasX(t) THEN 16 ELSE 0) + Pad16(dl) + TailLen(t)
\* abstract command [t, a, n, x1, x2, x3, dlen, dsha]  ->  its words on the wire
WireW1(c) == CASE c.t = 10 -> <<c.x1[2], c.a[2]>>          \* key blob: 16-bit offset, 16-bit wrapping key id
               [] c.t = 11 -> c.x1                           \* configure memory: memory id, then address
               [] c.t = 14 -> Z
               [] OTHER    -> c.a
WireW2(c) == CASE c.t \in {2, 6, 7, 9, 10} -> LenW(c.dlen)
               [] c.t = 5                  -> LenW(c.dlen \div 4)
               [] c.t = 11                 -> c.a
               [] c.t = 13                 -> c.x1           \* version check: value, counter id
               [] c.t \in {3, 4, 14}       -> Z
               [] OTHER                    -> c.n            \* erase, copy, fill: declared length
WireX(c) == CASE c.t \in {1, 2, 7, 9, 12} -> <<c.x1, Z, Z, Z>>          \* memory id (fill: pattern), reserved words zero
              [] c.t = 8                  -> <<c.x1, c.x2, c.x3, Z>>      \* copy: destination, memory id from / to
              [] OTHER                    -> <<Z, Z, Z, Z>>
=============================================================================
