CONSTANTS MaxSecs = 2
 MaxCmds = 1
 MaxPay = 1
 Writer = "blocks_without_auth"
 Strict = TRUE
 Reader = "reference"
INIT Init
NEXT Next
INVARIANT Complete
INVARIANT BootFinds
INVARIANT Tamper
INVARIANT Sound
CHECK_DEADLOCK TRUE
