------------------------------- MODULE BimgRom -------------------------------
(* Growth of the specification beyond the listed properties (item 2 of DESIGN section 7):                           *)
(*      bootable image  ||  boot ROM of the family                                                                   *)
(*                                                                                                                   *)
(* REFERENCE model of what SPSDK cannot change: the boot ROM of a family does not get "a container", it gets a boot  *)
(* DEVICE.  It reads that device at the offsets ITS table prescribes - flash configuration block, XMCD, key blobs,   *)
(* key store, image version - then it looks for the application container at the image offset of the table, runs    *)
(* the acceptance automaton of the container format of the family over THE BYTES IT FINDS THERE (MbiRom of C02,      *)
(* AhabRom of C06, HabRom of C07 - instantiated by the trace form, not restated) and finally transfers control using  *)
(* the addresses the container names.  Those addresses are only right when they agree with where the bytes sit:      *)
(*   memory-mapped device (XIP): byte at device offset o is seen at address  base + o                                *)
(*   other devices             : the ROM copies the image to the address the container names; the byte at device     *)
(*                               offset o arrives at  start + o  (HAB: boot-data start; the copy begins at offset 0)  *)
(*                                                                                                                   *)
(* This module is the normative part shared by every form (MC / GEN: BimgRomMC, TV: BimgRomTrace):                  *)
(*   C  = class of the device: [kind, cname, pat, segs : <<[name, off, size]>>, imgOff]   (frozen anchor, see       *)
(*        harness/lib/bimgrom_anchor.py - the ROM's tables, not the live database the host uses)                     *)
(*   k  = the case: [present : Seq(BOOLEAN) (which header segments were supplied), plen : Seq(Nat), req (requested   *)
(*        initial offset: the image starts at the closest table offset at or behind it and is programmed there),     *)
(*        xip : BOOLEAN, reread : BOOLEAN (the image was parsed and re-exported), base : <<hi16, lo16>> (address of device offset 0 when mapped), load : <<hi16, lo16>>]      *)
(*   b  = control state of the ROM above the container automaton: [st, nx]                                           *)
(*   <Step>OK(C, k, b, e) / <Step>Nx(...) as in the container specifications; e = facts read from the device.         *)
(* 32-bit addresses are pairs <<hi16, lo16>> (TLC integers are 32-bit signed).                                       *)
EXTENDS Integers, Sequences, FiniteSets, TLC

BIG == 1073741824
Off(a, base) == IF a[1] - base[1] \in (0 - 8192)..8192 THEN (a[1] - base[1]) * 65536 + (a[2] - base[2]) ELSE BIG   \* a - base
AddTo(base, n) == LET v == base[2] + n IN <<(base[1] + v \div 65536) % 65536, v % 65536>>                         \* base + n, n >= 0
MinOf(A) == CHOOSE x \in A : \A y \in A : x <= y

(* ---- the table of the device *)
Starts(C) == { C.segs[i].off : i \in DOMAIN C.segs } \cup { C.imgOff }        \* where a segment of the table begins
Refused(C, req) == req > 0 /\ { o \in Starts(C) : o >= req } = {}
Eff(C, req) == IF req = 0 \/ Refused(C, req) THEN 0 ELSE MinOf({ o \in Starts(C) : o >= req })   \* device offset of file offset 0
NextHdr(C, eff, i) == LET later == { j \in DOMAIN C.segs : j > i /\ C.segs[j].off >= eff } IN
                      IF later = {} THEN Len(C.segs) + 1 ELSE MinOf(later)
ContAt(C, eff) == C.imgOff - eff                                              \* file offset at which the ROM finds the container
\* header segment i occupies its slot up to the next table offset at most
SlotEnd(C, i) == LET later == { o \in Starts(C) : o > C.segs[i].off } IN MinOf(later \cup {C.imgOff})

VersionWords == {"image_version", "image_version_ap"}
B0 == [st |-> "Merge", nx |-> 0, eff |-> 0]

(* ------------------------------------------------------------------ the host delivers the image that is programmed at device offset Eff *)
MergeOK(C, k, b, e) ==
  /\ b.st = "Merge"
  /\ ~Refused(C, k.req) /\ ~e.refused                  \* a start at or in front of a table offset is served
  /\ IF ~k.reread THEN e.eff = Eff(C, k.req)           \* the image begins at the closest table offset
     \* an image that was read back and written out again may begin later, at a table offset, when nothing that was supplied is lost
     ELSE /\ e.eff \in Starts(C) \cup {0} /\ e.eff >= Eff(C, k.req) /\ e.eff <= C.imgOff
          /\ \A i \in DOMAIN C.segs : (C.segs[i].off >= Eff(C, k.req) /\ C.segs[i].off < e.eff) => ~k.present[i]
  /\ e.total > ContAt(C, e.eff)                        \* and reaches the container
MergeNx(C, k, b, e) == [b EXCEPT !.st = "Hdr", !.eff = e.eff, !.nx = NextHdr(C, e.eff, 0)]

(* ------------------------------------------------------------------ the ROM reads a header segment at ITS offset *)
\* e.at: file offset read; e.len: bytes of the supplied block found there; e.same: they are the supplied block; e.tagOk: the block
\* carries the tag the ROM looks for (FCB: "FCFB"; XMCD: tag nibble C, length field = block length; opaque blocks: TRUE);
\* e.blank: the whole slot holds the erased pattern of the device; e.restBlank: what follows the block up to the end of the slot does
HdrOK(C, k, b, e) ==
  /\ b.st = "Hdr" /\ b.nx \in DOMAIN C.segs /\ e.i = b.nx
  /\ e.devOff = C.segs[e.i].off /\ e.at = e.devOff - b.eff                          \* device offset -> file offset
  /\ e.slotEnd = SlotEnd(C, e.i) - b.eff
  /\ IF k.present[e.i] THEN e.len = k.plen[e.i] /\ e.same /\ e.tagOk /\ e.restBlank /\ e.at + e.len <= e.slotEnd
                       ELSE IF C.segs[e.i].name \in VersionWords THEN e.tagOk \/ e.blank   \* (no version, or the builder's default word)
                       ELSE e.blank                                                 \* nothing was supplied: nothing is there
HdrNx(C, k, b, e) == [b EXCEPT !.nx = NextHdr(C, b.eff, e.i)]

(* ------------------------------------------------------------------ the ROM looks for the application container *)
LocateOK(C, k, b, e) ==
  /\ b.st = "Hdr" /\ b.nx = Len(C.segs) + 1                                         \* every header segment of the table has been read
  /\ e.devOff = C.imgOff /\ e.at = ContAt(C, b.eff) /\ e.at >= 0 /\ e.at < e.fileLen
  /\ (k.xip => e.addr = AddTo(k.base, C.imgOff))                                    \* where the first byte of the container is seen
LocateNx(C, k, b, e) == [b EXCEPT !.st = "Cont"]

(* ------------------------------------------------------------------ address consistency: the container against the device *)
\* HAB: IVT self pointer, boot-data start / length, entry (numbers the container automaton has read: s.ivt, s.bd of HabRom)
HabAddrOK(C, k, ivt, bd) ==
  /\ Off(ivt.self, bd.start) = C.imgOff                           \* the copy starts at device offset 0: the IVT arrives at start + image offset
  /\ (k.xip => bd.start = k.base /\ ivt.self = AddTo(k.base, C.imgOff))             \* mapped device: nothing is copied, the bytes are where they are
  /\ Off(ivt.entry, bd.start) >= C.imgOff + 32 /\ Off(ivt.entry, bd.start) < bd.len  \* the entry lies in what the ROM has loaded
\* MBI: the reset vector (word 1 of the vector table) and the load address word (0x34)
MbiAddrOK(C, k, total, e) ==
  /\ e.total = total
  /\ IF k.xip THEN Off(e.pc, AddTo(k.base, C.imgOff)) \in 0..(total - 1)            \* executes in place: the vector points into the mapped bytes
              ELSE e.load = k.load /\ Off(e.pc, e.load) \in 0..(total - 1)           \* copied to the load address the header names
\* AHAB: an image array entry names the offset of its image RELATIVE TO THE CONTAINER and the address it is loaded to / executed at
W4(a) == <<0, 0, a[1], a[2]>>
AhabAddrOK(C, k, e) ==
  /\ (k.xip => e.load = W4(AddTo(k.base, C.imgOff + e.imgAbs)))                     \* mapped device: load address = where the bytes sit
  /\ e.load[1] = 0 /\ e.load[2] = 0 /\ e.entry[1] = 0 /\ e.entry[2] = 0
  /\ Off(<<e.entry[3], e.entry[4]>>, <<e.load[3], e.load[4]>>) \in 0..(e.size - 1)   \* the entry lies inside the image
=============================================================================
