SPECIFICATION Spec
CONSTANTS Host = "ideal" CheckStatus = TRUE Verify = FALSE Iwl2 = "implicit" StoreInsteadOfOr = FALSE Quiet = FALSE MaxCalls = 1 MaxFaults = 1
INVARIANT NeverRefused
CHECK_DEADLOCK FALSE
