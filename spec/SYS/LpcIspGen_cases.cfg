CONSTANTS Depth = 0
INIT CInit
NEXT CNext
CHECK_DEADLOCK FALSE
