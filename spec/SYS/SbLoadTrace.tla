---------------------------- MODULE SbLoadTrace ----------------------------
(* System-level composition (growth of the specification beyond the single properties; joins C19, C04 and C10):    *)
(*                                                                                                                   *)
(*   BD program --SPSDK: BD parser, command builder, SB 2.1 export--> file --McuBoot.receive_sb_file, link--> device  *)
(*   --boot ROM (Sb2Rom)--> decoded sections and commands                                                             *)
(*                                                                                                                   *)
(* Three specifications are composed WITHOUT restating any of them:                                                  *)
(*   BdProg (C19)   the program as a state machine: definitions, sections, one command record per statement          *)
(*   Sb2Rom (C04)   the boot ROM's acceptance automaton over the bytes (through its trace form Sb2RomTrace)           *)
(*   MbootTrace (C10) validates the link part of the same execution separately (same call, its own trace)            *)
(* A trace = the construct events of the program (as TLC generated it), one "Sent" event (what the host call said   *)
(* and what the device holds), then the events of the independent executor walking the bytes THE DEVICE received.    *)
(* It is a behaviour iff the ROM accepts those bytes and decodes, section for section and command for command,       *)
(* what the language semantics prescribe for the program - no SPSDK object is consulted anywhere on the way.         *)
EXTENDS Sb2RomTrace
VARIABLES env, iopts, sopts, secs, phase, kbs
B == INSTANCE BdProg
svars == <<tvars, env, iopts, sopts, secs, phase, kbs>>

Lim(x) == <<x \div 65536, x % 65536>>                          \* BD values stay below 2^27
MemSplit(m) == <<(m \div 256) % 16, m % 256>>                  \* memory id = group << 8 | device
Word4(b) == <<b[1] * 256 + b[2], b[3] * 256 + b[4]>>           \* 4 bytes, most significant first
\* command record of the language semantics (BdLang!Cmd) -> abstract command of the ROM's decoding table (Sb2RomTrace!Matches)
ToRom(c) ==
  LET z == [k |-> "?", a |-> Zero, n |-> Zero, x |-> Zero, f |-> 0, m |-> <<0, 0>>, d |-> <<>>] IN
  CASE c.t = "load"   -> [z EXCEPT !.k = "load", !.a = Lim(c.a), !.m = MemSplit(c.m), !.d = c.d]
    [] c.t = "fill"   -> [z EXCEPT !.k = "fill", !.a = Lim(c.a), !.n = Lim(c.n), !.x = Word4(c.d), !.f = 1]
    [] c.t = "prog"   -> [z EXCEPT !.k = "prog", !.a = Lim(c.a), !.m = MemSplit(c.m), !.n = <<c.d[4] * 256 + c.d[3], c.d[2] * 256 + c.d[1]>>,
                                   !.x = (IF Len(c.d) = 8 THEN <<c.d[8] * 256 + c.d[7], c.d[6] * 256 + c.d[5]>> ELSE Zero)]
    [] c.t = "erase"  -> [z EXCEPT !.k = "erase", !.a = Lim(c.a), !.n = Lim(c.n), !.f = c.f, !.m = MemSplit(c.m)]
    [] c.t = "enable" -> [z EXCEPT !.k = "enable", !.a = Lim(c.a), !.n = Lim(c.n), !.m = MemSplit(c.m)]
    [] c.t = "call"   -> [z EXCEPT !.k = "call", !.a = Lim(c.a), !.x = Lim(c.x)]
    [] c.t = "jump"   -> [z EXCEPT !.k = "jump", !.a = Lim(c.a), !.x = Lim(c.x), !.f = (IF c.s < 0 THEN 0 ELSE 1), !.n = (IF c.s < 0 THEN Zero ELSE Lim(c.s))]
    [] c.t = "reset"  -> [z EXCEPT !.k = "reset"]
    [] c.t = "version_check"    -> [z EXCEPT !.k = "vercheck", !.f = c.s, !.n = Lim(c.x)]
    [] c.t = "keystore_to_nv"   -> [z EXCEPT !.k = "ks_to_nv", !.a = Lim(c.a), !.m = MemSplit(c.m)]
    [] c.t = "keystore_from_nv" -> [z EXCEPT !.k = "ks_from_nv", !.a = Lim(c.a), !.m = MemSplit(c.m)]

LInit == TInit /\ B!PInit
KeepRom == UNCHANGED <<rvars, pend, psec, pcmd>>
KeepProg == UNCHANGED <<env, iopts, sopts, secs, phase, kbs>>
\* ---- the program (semantics of C19)
LDefOption    == Is("DefOption") /\ st = "Header" /\ B!DefOption(E.n, E.e) /\ KeepRom /\ Adv
LDefOptionStr == Is("DefOptionStr") /\ st = "Header" /\ B!DefOptionStr(E.n, E.v) /\ KeepRom /\ Adv
LDefConst     == Is("DefConst") /\ st = "Header" /\ B!DefConst(E.n, E.e) /\ KeepRom /\ Adv
LDefKeyblob   == Is("DefKeyblob") /\ st = "Header" /\ B!DefKeyblob(E.id, E.lo, E.hi, E.key, E.ctr) /\ KeepRom /\ Adv
LBeginSection == Is("BeginSection") /\ st = "Header" /\ B!BeginSection(E.id) /\ KeepRom /\ Adv
LStmt         == Is("Stmt") /\ st = "Header" /\ B!Stmt(E.st) /\ KeepRom /\ Adv
\* ---- the link (contract of C10, fault-free case): the call reports success and the device holds the file, once, in order
LSent == /\ Is("Sent") /\ st = "Header" /\ phase = "section"
         /\ E.built /\ E.ok /\ E.devGotExact /\ E.devBytes = E.fileLen
         /\ KeepRom /\ KeepProg /\ Adv
\* ---- the boot ROM on the bytes the device received (automaton of C04), bound to the program's semantics
SecIx == Len(dec)                                                \* boot section being decoded (1-based), also index into secs
LRom(A) == A /\ KeepProg
LTag  == /\ TTag /\ KeepProg
         /\ (~E.cert => Len(dec') <= Len(secs) /\ E.uid = Lim(secs[Len(dec')].id))                  \* section for section
LCmd  == /\ TCmd /\ KeepProg
         /\ SecIx <= Len(secs) /\ E.i + 1 <= Len(secs[SecIx].cmds)
         /\ Matches(E, ToRom(secs[SecIx].cmds[E.i + 1]))                                             \* command for command
LSecEnd == TSecEnd /\ KeepProg /\ (~needCert => SecIx <= Len(secs) /\ Len(dec[SecIx].cmds) = Len(secs[SecIx].cmds))    \* no command missing
LAccept == TAccept /\ KeepProg /\ sec = Len(secs)                                                   \* no section missing
LNext == LDefOption \/ LDefOptionStr \/ LDefConst \/ LDefKeyblob \/ LBeginSection \/ LStmt \/ LSent
         \/ LRom(TParseHeader) \/ LRom(TUnwrap) \/ LRom(THdrMac) \/ LRom(TCert) \/ LRom(TSig) \/ LRom(TSha) \/ LTag \/ LRom(THmac) \/ LCmd \/ LSecEnd \/ LAccept
=============================================================================
