SPECIFICATION Spec
CONSTANTS NMsg = 2  MaxFaults = 2  CmdException = TRUE  SizeRule = "range"  CrcRule = "raise"  DevFaults = {"short", "tag", "cmd", "version", "big", "corrupt"}
INVARIANT NoFalseSuccess
CHECK_DEADLOCK FALSE
