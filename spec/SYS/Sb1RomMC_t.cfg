CONSTANTS MaxSecs = 3
 MaxCmds = 2
 MaxPay = 2
 Writer = "ideal"
 Strict = TRUE
 Reader = "reference"
INIT Init
NEXT Next
INVARIANT Complete
INVARIANT BootFinds
INVARIANT Tamper
INVARIANT Sound
CHECK_DEADLOCK TRUE
