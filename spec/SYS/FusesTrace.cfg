INIT Init
NEXT Next
CONSTRAINT Constr
POSTCONDITION Post
CHECK_DEADLOCK FALSE
