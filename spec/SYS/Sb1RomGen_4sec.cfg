CONSTANTS MaxSecs = 4
 MaxCmds = 1
 MaxPay = 1
 Writer = "ideal"
 Strict = TRUE
 Reader = "reference"
INIT GenInit
NEXT GenNext
CHECK_DEADLOCK FALSE
