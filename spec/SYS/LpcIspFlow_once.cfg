SPECIFICATION Spec
CONSTANTS PrepareAgain = FALSE  DoUnlock = TRUE  MaxRefuse = 1
INVARIANT NoFalseSuccess
INVARIANT Mirror
CHECK_DEADLOCK FALSE
