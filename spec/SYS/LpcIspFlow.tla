----------------------------- MODULE LpcIspFlow -----------------------------
(* Design model of the documented write-to-flash flow (examples/lpcprog/lpcprog.ipynb 2.9: write data to RAM, prepare sector, erase sector,  *)
(* prepare sector again, copy RAM to flash; then verify by checksum) run against the reference device of LpcIsp.tla on the geometry of a    *)
(* real part.  The part may refuse any one command (BUSY).  Variants: PrepareAgain = FALSE (one prepare for erase and copy) and             *)
(* DoUnlock = FALSE must be REFUTED - the device protects the sector again after the erase, and erase / copy are locked commands.           *)
EXTENDS LpcIsp, TLC
CONSTANTS PrepareAgain, DoUnlock, MaxRefuse
VARIABLES d, pc, res, sec, cnt, refused
vars == <<d, pc, res, sec, cnt, refused>>
G == [pb |-> 64, sb |-> 1024, ns |-> 64, rbase |-> 268435456, rsize |-> 8192]
Buf == 268437504
Ids == [part |-> 34385, minor |-> 240, major |-> 0, uid |-> <<1, 2, 3, 4>>]
Data == [k \in 1..(cnt \div 4) |-> 5000 + k]
Init == /\ \E f \in {"blank", "pat"} : d = [NewDev(f, Ids) EXCEPT !.st = "cmd"]
        /\ pc = "unlock" /\ res = "none" /\ sec \in {1, 63} /\ cnt \in CopyCounts(G) /\ refused = 0
Run(c, a, next) == LET r == Cmd(G, d, c, a, 0)
                   IN IF r.rc = 0 THEN d' = r.d /\ pc' = next /\ UNCHANGED res
                      ELSE d' = r.d /\ pc' = "done" /\ res' = "error"
Keep == UNCHANGED <<sec, cnt, refused>>
Unlock == /\ pc = "unlock" /\ (IF DoUnlock THEN Run("U", <<UnlockCode>>, "write") ELSE pc' = "write" /\ UNCHANGED <<d, res>>) /\ Keep
WriteRam == /\ pc = "write" /\ Keep
            /\ LET r == Cmd(G, d, "W", <<Buf, cnt>>, 0)
               IN IF r.rc = 0 THEN d' = DataIn(G, r.d, cnt, Data) /\ pc' = "verify" /\ UNCHANGED res ELSE d' = r.d /\ pc' = "done" /\ res' = "error"
Verify == /\ pc = "verify" /\ Keep /\ UNCHANGED d
          /\ IF Cmd(G, d, "R", <<Buf, cnt>>, 0).rc = 0 /\ Words(G, d, Buf, cnt) = Data THEN pc' = "prepE" /\ UNCHANGED res ELSE pc' = "done" /\ res' = "error"
PrepareE == pc = "prepE" /\ Run("P", <<sec, sec>>, "erase") /\ Keep
Erase == pc = "erase" /\ Run("E", <<sec, sec>>, "prepC") /\ Keep
PrepareC == /\ pc = "prepC" /\ (IF PrepareAgain THEN Run("P", <<sec, sec>>, "copy") ELSE pc' = "copy" /\ UNCHANGED <<d, res>>) /\ Keep
Copy == pc = "copy" /\ Run("C", <<sec * G.sb, Buf, cnt>>, "crc") /\ Keep
\* the checksum of the flash range equals the checksum of the data exactly when the words are the same (collisions aside)
Crc == /\ pc = "crc" /\ Keep /\ UNCHANGED d /\ pc' = "fin"
       /\ res' = (IF Cmd(G, d, "S", <<sec * G.sb, cnt>>, 0).rc = 0 /\ Words(G, d, sec * G.sb, cnt) = Data THEN "ok" ELSE "error")
Finish == pc = "fin" /\ pc' = "done" /\ UNCHANGED <<d, res, sec, cnt, refused>>
Refuse == /\ pc \in {"unlock", "write", "prepE", "erase", "prepC", "copy", "crc"} /\ refused < MaxRefuse /\ refused' = refused + 1
          /\ pc' = "done" /\ res' = "error" /\ UNCHANGED <<d, sec, cnt>>                                         \* the part answers BUSY: nothing happens
Next == Unlock \/ WriteRam \/ Verify \/ PrepareE \/ Erase \/ PrepareC \/ Copy \/ Crc \/ Finish \/ Refuse
Spec == Init /\ [][Next]_vars
InSector(i) == i >= (sec * G.sb) \div 4 /\ i < ((sec + 1) * G.sb) \div 4
NoFalseSuccess == res = "ok" => /\ Words(G, d, sec * G.sb, cnt) = Data
                                /\ \A i \in DOMAIN d.fl : ~InSector(i) => d.fl[i] = (IF d.fini = "blank" THEN Blank ELSE InitF(i))
                                /\ d.prep = {}                                                                    \* the sector is protected again
Mirror == pc = "done" /\ refused = 0 => res = "ok"
Reach == ~(res = "ok")
=============================================================================
