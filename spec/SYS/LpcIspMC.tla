------------------------------ MODULE LpcIspMC ------------------------------
(* Design model of the LINE DISCIPLINE of the LPC ISP protocol: device || link || host, echo on.                                          *)
(* The host sends command i (all texts distinct), the device answers with two lines: the echo of the command and the return code.          *)
(* The link may lose the answer or deliver it late (after the host gave up waiting; any time later).  The host reads one line as the       *)
(* echo and one as the return code; when nothing arrives it gives up (time-out -> the call fails).                                         *)
(*   as built   (LPCProgInterface._get_return_code): the first line is discarded unseen, nothing is flushed between commands               *)
(*   Flush      the host empties its input before every command                                                                            *)
(*   MatchEcho  the host skips lines until it sees the echo of the command it just sent                                                    *)
(* Contract  AsSent : a status handed to the caller for command i is the return code the device gave to command i.                         *)
EXTENDS Naturals, Sequences, TLC
CONSTANTS N, MaxFaults, Flush, MatchEcho
VARIABLES pc, i, status, rcdev, inq, held, devq, nf
vars == <<pc, i, status, rcdev, inq, held, devq, nf>>
None == 100   Exc == 101                              \* status values besides return codes
Init == /\ pc = (IF Flush THEN "flush" ELSE "send") /\ i = 1 /\ status = [j \in 1..N |-> None] /\ rcdev \in [1..N -> {0, 9}]
        /\ inq = <<>> /\ held = <<>> /\ devq = <<>> /\ nf = 0
Answer(c) == << [t |-> "echo", c |-> c, v |-> 0], [t |-> "rc", c |-> c, v |-> rcdev[c]] >>
Advance == IF i = N THEN pc' = "done" /\ UNCHANGED i ELSE pc' = (IF Flush THEN "flush" ELSE "send") /\ i' = i + 1
HostFlushes == /\ pc = "flush" /\ inq' = <<>> /\ pc' = "send" /\ UNCHANGED <<i, status, rcdev, held, devq, nf>>
HostSend == /\ pc = "send" /\ devq' = Append(devq, i) /\ pc' = "echo" /\ UNCHANGED <<i, status, rcdev, inq, held, nf>>
DevAnswer == /\ devq # <<>> /\ inq' = inq \o Answer(Head(devq)) /\ devq' = Tail(devq) /\ UNCHANGED <<pc, i, status, rcdev, held, nf>>
LinkLate == /\ devq # <<>> /\ nf < MaxFaults /\ nf' = nf + 1 /\ held' = held \o Answer(Head(devq)) /\ devq' = Tail(devq)
            /\ UNCHANGED <<pc, i, status, rcdev, inq>>
LinkLose == /\ devq # <<>> /\ nf < MaxFaults /\ nf' = nf + 1 /\ devq' = Tail(devq) /\ UNCHANGED <<pc, i, status, rcdev, inq, held>>
LinkRelease == /\ held # <<>> /\ inq' = inq \o held /\ held' = <<>> /\ UNCHANGED <<pc, i, status, rcdev, devq, nf>>
HostReadEcho == /\ pc = "echo" /\ inq # <<>> /\ inq' = Tail(inq)
                /\ IF MatchEcho /\ ~(Head(inq).t = "echo" /\ Head(inq).c = i) THEN UNCHANGED pc ELSE pc' = "rc"
                /\ UNCHANGED <<i, status, rcdev, held, devq, nf>>
HostReadRc == /\ pc = "rc" /\ inq # <<>> /\ inq' = Tail(inq)
              /\ status' = [status EXCEPT ![i] = IF Head(inq).t = "rc" THEN Head(inq).v ELSE Exc]          \* a line that is no number: "cannot decode"
              /\ Advance /\ UNCHANGED <<rcdev, held, devq, nf>>
HostTimeout == /\ pc \in {"echo", "rc"} /\ inq = <<>> /\ devq = <<>>                                          \* nothing arrives: the call fails
               /\ status' = [status EXCEPT ![i] = Exc] /\ Advance /\ UNCHANGED <<rcdev, inq, held, devq, nf>>
Next == HostFlushes \/ HostSend \/ DevAnswer \/ LinkLate \/ LinkLose \/ LinkRelease \/ HostReadEcho \/ HostReadRc \/ HostTimeout
Spec == Init /\ [][Next]_vars
AsSent == \A j \in 1..N : status[j] \in {None, Exc, rcdev[j]}
NoFalseSuccess == \A j \in 1..N : status[j] = 0 => rcdev[j] = 0
Reach == ~(pc = "done" /\ \A j \in 1..N : status[j] = rcdev[j])
=============================================================================
