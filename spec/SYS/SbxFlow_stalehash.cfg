SPECIFICATION Spec
CONSTANTS Variant = "stale_hash"  MaxBlocks = 4  MaxRuns = 3  MaxFaults = 1
INVARIANT ChainEndsWithZero
CHECK_DEADLOCK FALSE
