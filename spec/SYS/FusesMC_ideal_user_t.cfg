SPECIFICATION Spec
CONSTANTS Host = "ideal" CheckStatus = TRUE Verify = FALSE Iwl2 = "user" StoreInsteadOfOr = FALSE Quiet = FALSE MaxCalls = 2 MaxFaults = 2
INVARIANT NoFalseSuccess
INVARIANT RefusedUnchanged
INVARIANT ReadsWriteNothing
INVARIANT MirrorRead
INVARIANT ObjectKeepsConfigured
PROPERTY Monotone
CHECK_DEADLOCK FALSE
