CONSTANT Variant = "ok"
INIT GInit
NEXT GNext
INVARIANT GLemmas
CHECK_DEADLOCK FALSE
