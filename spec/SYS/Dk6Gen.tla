------------------------------ MODULE Dk6Gen ------------------------------
(* GEN form of Dk6.tla (ideal host): TLC enumerates                                                                              *)
(*   - every reachable single-fault class of a call: operation, chunks, fault kind, index of the exchange the fault hit;          *)
(*   - every fault-free history of up to MaxCalls successful calls (what one call leaves in the memory the next one sees).        *)
(* Printed from an action, once per class / history (TLC's state graph merges the duplicates).                                    *)
EXTENDS Dk6, Json
VARIABLE printed
GInit == Init /\ printed = FALSE
GNext == \/ Next /\ printed' = FALSE
         \/ /\ ~printed /\ printed' = TRUE /\ UNCHANGED vars
            /\ \/ /\ Ended /\ calls = 1 /\ Len(fhist) = 1
                  /\ PrintT(ToJson([op |-> api.op, n |-> api.n, kind |-> fhist[1].kind, at |-> fhist[1].at]))
               \/ /\ api.op = "none" /\ nf = 0 /\ hist # <<>> /\ Len(hist) = calls
                  /\ PrintT(ToJson([hist |-> hist]))
=============================================================================
