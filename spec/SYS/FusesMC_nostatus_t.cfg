SPECIFICATION Spec
CONSTANTS Host = "ideal" CheckStatus = FALSE Verify = FALSE Iwl2 = "user" StoreInsteadOfOr = FALSE Quiet = FALSE MaxCalls = 2 MaxFaults = 2
INVARIANT NoFalseSuccess
CHECK_DEADLOCK FALSE
