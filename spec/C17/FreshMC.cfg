SPECIFICATION MSpec
INVARIANT TypeOK
INVARIANT NoSharedSecret
INVARIANT NoNonceReuse
INVARIANT ReconfiguredFresh
INVARIANT GeneratorFresh
CHECK_DEADLOCK FALSE
