SPECIFICATION MSpec
INVARIANT TypeOK
INVARIANT NoSharedSecret
INVARIANT NoNonceReuse
INVARIANT ReconfiguredFresh
INVARIANT PartsFresh
INVARIANT GeneratorFresh
CHECK_DEADLOCK FALSE
