SPECIFICATION MSpec
INVARIANT TypeOK
INVARIANT NoSharedSecret
INVARIANT NoNonceReuse
INVARIANT GeneratorFresh
CHECK_DEADLOCK FALSE
