------------------------------ MODULE FreshMC ------------------------------
(* MC form of the R-spec: Fresh driven by the ideal generator (every draw is a number never used before).   *)
(* TLC checks that the guards of Fresh keep NoSharedSecret / NoNonceReuse invariant and that the ideal       *)
(* generator is never blocked by them (FreshGen counts the histories).                                       *)
EXTENDS Fresh, IOUtils
VARIABLES draws,     \* the generator: next unused number
          nexp       \* number of exports so far (bound)
mvars == <<arts, old, proc, live, imported, draws, nexp>>
MaxArts == atoi(IOEnv.MC_ARTS)
MaxExp == atoi(IOEnv.MC_EXPORTS)
MaxProc == atoi(IOEnv.MC_PROCS)
UseMenu == IF IOEnv.MC_MENU = "base" THEN {m \in Menu : m.base} ELSE IF IOEnv.MC_MENU = "opts" THEN OptMenu ELSE Menu

KindSeq == <<"SB20", "SB21", "MBI", "OTFAD", "IEE", "IEECTR", "BEE", "HAB", "HABRT", "HEX", "SB21KW">>
KindNo(k) == CHOOSE i \in DOMAIN KindSeq : KindSeq[i] = k
FieldNo(k, f) == CHOOSE i \in DOMAIN FieldSeq(k) : FieldSeq(k)[i] = f
\* what the user supplies for a field: one value per (kind, field), used every time (the worst case for nonce reuse); SB2.0 and SB2.1
\* (with or without keywrap statements) share
UserVal(k, f) == (IF k \in {"SB20", "SB21KW"} THEN KindNo("SB21") ELSE KindNo(k)) * 8 + FieldNo(k, f)
\* a build for two engines with two user keys: the second engine gets another one (no kind with parts has more than 4 fields)
UserValOf(k, f, o, p) == UserVal(k, f) + (IF p > 1 /\ Len(o) > 1 /\ o[2] = "diff" THEN 4 ELSE 0)
Step == 8                                                    \* numbers reserved per draw burst (> number of fields of any kind)
Ideal(k, ex, o, p, F, at) == [f \in F |-> IF f \in ex THEN UserValOf(k, f, o, p) ELSE at + FieldNo(k, f)]
\* a field an option hands to the user (Fresh!Fixed: zero padding) has one value in every artefact built with that option
ZeroId == 1
WithFixed(k, h, o, vals) == [f \in DOMAIN vals |-> IF f \in Fixed(k, h, o) THEN ZeroId ELSE vals[f]]

MInit == Init /\ draws = 100 /\ nexp = 0
MImport == ~imported /\ \E n \in {0, 3} : Import(n) /\ draws' = draws + n /\ UNCHANGED nexp
\* part p of the build of menu item m (the ideal generator draws for every part of a build)
ConstructItem(m, p) == Construct(m.kind, m.how, ToSet(m.ex), m.opt, p,
                                 WithFixed(m.kind, m.how, m.opt, Ideal(m.kind, ToSet(m.ex), m.opt, p, Fields(m.kind) \ Late(m.kind), draws)), {})
                       /\ draws' = draws + Step /\ UNCHANGED nexp
\* a build that has begun is completed (Open > 0: the next part, whatever the bound); a new build only below the bound
MConstruct == imported /\ \E m \in UseMenu : \E p \in 1..MaxParts : (p > 1 \/ Len(arts) < MaxArts) /\ ConstructItem(m, p)
\* the object of a live artefact is configured again: any load_from_config item of its kind, whatever the object was built with before
ReconfItems(o) == IF Art(o).kind \in Reconf THEN {m \in UseMenu : m.kind = Art(o).kind /\ m.how = "config"} ELSE {}
ReconfigureItem(o, m) == Reconfigure(o, ToSet(m.ex), Ideal(m.kind, ToSet(m.ex), m.opt, 1, Fields(m.kind) \ Late(m.kind), draws), {})
                         /\ draws' = draws + Step /\ UNCHANGED nexp
MReconfigure == Len(arts) < MaxArts /\ \E o \in live : \E m \in ReconfItems(o) : ReconfigureItem(o, m)
\* an export keeps the values of construction time and draws the late fields anew
ExportVals(a) == WithFixed(Art(a).kind, Art(a).how, Art(a).opt,
                           [f \in Fields(Art(a).kind) |-> IF f \in Late(Art(a).kind) THEN draws + FieldNo(Art(a).kind, f) ELSE Art(a).val[f]])
ExportArt(a) == Export(a, ExportVals(a), {}, Seen(Art(a).kind, Art(a).how, Art(a).opt, Art(a).part), {}) /\ draws' = draws + Step /\ nexp' = nexp + 1
MExport == nexp < MaxExp /\ \E a \in live : ExportArt(a)
MRestart == proc < MaxProc /\ imported /\ Restart /\ UNCHANGED <<draws, nexp>>
MNext == MImport \/ MConstruct \/ MReconfigure \/ MExport \/ MRestart
MSpec == MInit /\ [][MNext]_mvars
\* generator values are never handed out twice, user values never come from the generator
GeneratorFresh == \A a \in DOMAIN arts : \A v \in Has(a) : v < draws
=============================================================================
