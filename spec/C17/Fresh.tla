------------------------------- MODULE Fresh -------------------------------
(* C17 - secrets SPSDK invents are fresh for every artefact.   R-spec.                                    *)
(*                                                                                                        *)
(* Secrets are compared only for equality, so a secret is an id: a natural number standing for a byte     *)
(* string (in traces: the index of the first occurrence of the byte string in the whole history, over all *)
(* interpreters).  0 means "not observed yet".  The world this spec describes is not SPSDK's to change:   *)
(* a generator that never hands out the same value twice, artefacts with secret-bearing fields, users who *)
(* may supply some of the fields themselves, interpreters that come and go.                               *)
(*                                                                                                        *)
(* The actions are parameterised by the VALUES the artefact carries (vals).  In the model-checking and    *)
(* generation forms (FreshMC, FreshGen) the values come from the ideal generator; in the trace form       *)
(* (FreshTrace) they are the ids observed on the real code.  The guards of Construct / Export are the     *)
(* property:                                                                                              *)
(*   NoSharedSecret  a value SPSDK chose itself is carried by no other artefact of the history            *)
(*   NoNonceReuse    no two artefacts combine the same AES-CTR key with the same nonce, unless the user   *)
(*                   supplied both                                                                        *)
(*                                                                                                        *)
(* Two further dimensions of a construction (besides kind, entry point and user-supplied fields):         *)
(*   opt   the OPTIONS of the entry point - the arguments that are not secrets (context flags of an OTFAD *)
(*         key blob, lock / key size / mode of an IEE key blob, engine selection of a BEE build, signed / *)
(*         SHA flags of an SB file ...).  "The user did not supply one" holds whatever the options say:   *)
(*         for EVERY option combination with which the artefact still protects data, the fields the user  *)
(*         left out are chosen anew (Opts, Construct).                                                    *)
(*   part  one BUILD (one call of an entry point) can emit SEVERAL artefacts, each a file of its own with *)
(*         its own self-chosen secrets (a BEE build for both engines: two region headers from two engine  *)
(*         configurations).  Every part is an artefact like any other: the clauses hold between the parts *)
(*         of one build exactly as between artefacts of different builds (Parts, PartsFresh).             *)
(*   cfg   the CONFIGURATION entry points (dictionary, YAML file, BD command file, the nxpimage command line) have an  *)
(*         options block in which EACH secret can be pinned or left out on its own, next to options that only sit    *)
(*         beside the secrets (SB2.1: zeroPadding, timestamp; MBI: hardware keys, values as hex strings / as files;   *)
(*         HAB: key length).  The menu has every subset of the pinnable secrets for these entry points, Opts has     *)
(*         every combination of the neighbouring options, and Fixed says which fields an option hands to the user    *)
(*         (zeroPadding: the PADDING - header padding, filler words - is zero because the user asked for it).        *)
(*         Whatever the combination: a secret that was not pinned is chosen anew for the artefact.                   *)
EXTENDS Naturals, Sequences, FiniteSets, TLC

\* ---------------------------------------------------------------------------------- what the property lists
ToSet(s) == {s[i] : i \in DOMAIN s}
SeqOf(order, S) == SelectSeq(order, LAMBDA x : x \in S)         \* a set of names as a sequence in a fixed order

\* ---- options of the entry points.  An option combination is a sequence of names; Opts(k, h) = the combinations of the case space,
\*      Dflt(k, h) = what the entry point does when its caller says nothing.  Entry points without such arguments: the one combination <<>>.
\* OTFAD key blob, key_flags: VLD = the context is valid, ADE = data fetched through the context are decrypted, RO = the context registers are
\* locked until the next reset.  The engine decrypts through a context iff VLD and ADE are both set; RO does not change that (a locked context is
\* what a production configuration asks for).  A context that does not decrypt protects nothing: outside the case space.
OtfadFlagOrder == <<"ro", "ade", "vld">>
OtfadDecrypts(F) == {"ade", "vld"} \subseteq F
OtfadOpts == {SeqOf(OtfadFlagOrder, F) : F \in {G \in SUBSET ToSet(OtfadFlagOrder) : OtfadDecrypts(G)}}
\* IEE key blob attribute: region lock x key size x AES mode.  Kind IEE = the XTS mode (two keys), kind IEECTR = the three counter modes
\* (key + initial counter); the bypass mode does not encrypt: outside the case space.
IeeLocks == {"unlock", "lock"}
IeeSizes == {"k128", "k256"}
IeeCtrModes == {"ctr_addr", "ctr_noaddr", "ctr_stream"}
\* BEE region header through the classes: BeeRegionHeader() alone ("hdr"), or composed by its caller from a BeeProtectRegionBlock (AES-CTR, the
\* lock options word zero / all ones) and a BeeKIB, both built without secrets ("parts").  Through load_from_config: the engine selection,
\* for both engines with one user key for the two engines or with two.
BeeCtorOpts == {<<"hdr">>, <<"parts", "lock0">>, <<"parts", "lockF">>}
BeeCfgOpts == {<<"engine0">>, <<"engine1">>, <<"both", "same">>, <<"both", "diff">>}
\* SB2 files through the classes: unsigned / signed (2.0), with / without the SHA-256 flag (2.1) x time stamp now / given (a given time stamp
\* travels in an advanced-parameters object that says nothing about the secrets)
Sb20Opts == {<<s, t>> : s \in {"unsigned", "signed"}, t \in {"now", "ts"}}
Sb21Opts == {<<s, t>> : s \in {"sha", "nosha"}, t \in {"now", "ts"}}
\* SB2.1 through a configuration - the dictionary load_from_config takes ("config"), a BD command file ("bd"), a YAML file handed to the
\* nxpimage command line ("cli"): the options block has, next to dek / mac / nonce, zeroPadding ("Zero padding instead of random padding",
\* sch_sb21.yaml: the padding, not the nonce - the nonce has an option of its own) and timestamp (overrides the time stamp of the header)
CfgHows == {"config", "bd", "cli"}
SbCfgOpts == {<<p, t>> : p \in {"rndpad", "zeropad"}, t \in {"now", "ts"}}
\* encrypted MBI through a configuration: enableHwUserModeKeys off / on x the user's values (image key, CtrInitVector) written into the
\* configuration as hex strings / as names of files
MbiCfgOpts == {<<w, v>> : w \in {"hwk0", "hwk1"}, v \in {"hex", "file"}}
Opts(k, h) == CASE k = "OTFAD" /\ h = "ctor" -> OtfadOpts
                [] k \in {"SB21", "SB21KW"} /\ h \in CfgHows -> SbCfgOpts
                [] k = "MBI" /\ h = "config" -> MbiCfgOpts
                [] k = "IEE" /\ h = "ctor" -> {<<l, z>> : l \in IeeLocks, z \in IeeSizes}
                [] k = "IEECTR" /\ h = "ctor" -> {<<l, z, m>> : l \in IeeLocks, z \in IeeSizes, m \in IeeCtrModes}
                [] k = "BEE" /\ h = "ctor" -> BeeCtorOpts
                [] k = "BEE" /\ h = "config" -> BeeCfgOpts
                [] k = "SB20" /\ h = "ctor" -> Sb20Opts
                [] k = "SB21" /\ h = "ctor" -> Sb21Opts
                [] k = "MBI" /\ h = "ctor" -> {<<"hwk0">>, <<"hwk1">>}            \* enableHwUserModeKeys off / on
                [] k = "HABRT" /\ h = "ctor" -> {<<"nor">>, <<"sd">>}              \* IVT offset of a NOR flash / of the other boot devices
                [] k = "HAB" /\ h = "config" -> {<<"k128">>, <<"k192">>, <<"k256">>} \* SecretKey_Length of the Install Secret Key command
                [] k = "HEX" /\ h = "call" -> {<<"n16">>, <<"n32">>, <<"n64">>}    \* size of the requested value
                [] OTHER -> {<<>>}
Dflt(k, h) == CASE k = "OTFAD" /\ h = "ctor" -> <<"ade", "vld">>
                [] k \in {"SB21", "SB21KW"} /\ h \in CfgHows -> <<"rndpad", "now">>
                [] k = "MBI" /\ h = "config" -> <<"hwk0", "hex">>
                [] k = "IEE" /\ h = "ctor" -> <<"unlock", "k256">>
                [] k = "IEECTR" /\ h = "ctor" -> <<"unlock", "k128", "ctr_addr">>
                [] k = "BEE" /\ h = "ctor" -> <<"hdr">>
                [] k = "BEE" /\ h = "config" -> <<"engine0">>
                [] k = "SB20" /\ h = "ctor" -> <<"unsigned", "now">>
                [] k = "SB21" /\ h = "ctor" -> <<"sha", "now">>
                [] k = "MBI" /\ h = "ctor" -> <<"hwk0">>
                [] k = "HABRT" /\ h = "ctor" -> <<"nor">>
                [] k = "HAB" /\ h = "config" -> <<"k256">>                          \* (a configuration entry point: what the configuration of the menu item says)
                [] k = "HEX" /\ h = "call" -> <<"n32">>
                [] OTHER -> <<>>
\* number of artefacts ONE build emits: a BEE build for both engines writes two region headers (bee_ehdr0.bin, bee_ehdr1.bin), each from its own
\* engine configuration (user key, regions) with its own PRDB counter, KIB key and KIB IV
Parts(k, h, o) == IF k = "BEE" /\ h = "config" /\ o # <<>> /\ o[1] = "both" THEN 2 ELSE 1
MaxParts == 2
\* what the exported bytes of part p must show of the options (the executor reads it back: the option reached the real entry point);
\* <<>> = nothing to be read there
Seen(k, h, o, p) == CASE k \in {"OTFAD", "IEE", "IEECTR"} -> o                                   \* flag bits of the end-address word / attribute bytes
                      [] k = "BEE" /\ h = "ctor" -> <<IF o = <<"hdr">> THEN "lock0" ELSE o[2]>>      \* lock options word of the PRDB
                      [] k = "BEE" /\ h = "config" -> <<IF o[1] = "engine1" \/ p = 2 THEN "slot1" ELSE "slot0">>  \* the header file the part was exported to
                      [] k \in {"SB20", "SB21"} /\ h = "ctor" -> <<o[1]>>                            \* flags word of the file header
                      [] k \in {"SB21", "SB21KW"} /\ h \in CfgHows -> o                               \* header padding all zero or not; time stamp of the header = the given one or not
                      [] k = "HEX" -> o                                                              \* length of the value
                      [] k = "HAB" /\ h = "config" -> o                                              \* length of the DEK file the build wrote
                      [] OTHER -> <<>>

\* fields an OPTION hands to the user: with zeroPadding the padding of an SB2.1 file (header padding, the filler word of wrapped key blobs) is
\* what the user asked for - zero, or whatever SPSDK does there: not asserted.  Nothing else: DEK, MAC key and nonce are no padding.
Fixed(k, h, o) == IF k \in {"SB21", "SB21KW"} /\ h \in CfgHows /\ o # <<>> /\ o[1] = "zeropad"
                  THEN (IF k = "SB21KW" THEN {"hpad", "filler1", "filler2"} ELSE {"hpad"}) ELSE {}

\* menu of constructions: kind of artefact, how it is built, which fields the user supplies (ex), with which options (opt; M: the default ones);
\* base = a member of the base menu (the variant with the fewest user-supplied fields of its (kind, how))
M(k, h, e, b) == [kind |-> k, how |-> h, ex |-> e, opt |-> Dflt(k, h), base |-> b]
MO(k, h, e, o, b) == [kind |-> k, how |-> h, ex |-> e, opt |-> o, base |-> b]
Menu == {
  M("SB20", "ctor", <<>>, TRUE),    M("SB20", "ctor", <<"dek", "mac">>, FALSE),    M("SB20", "ctor", <<"dek", "mac", "nonce">>, FALSE),
  M("SB21", "ctor", <<>>, TRUE),    M("SB21", "ctor", <<"dek", "mac">>, FALSE),    M("SB21", "ctor", <<"dek", "mac", "nonce">>, FALSE),
  M("SB21", "config", <<>>, TRUE),  M("SB21", "config", <<"dek", "mac">>, FALSE),  M("SB21", "config", <<"dek", "mac", "nonce">>, FALSE),
  \* configuration entry points: EVERY subset of the pinnable secrets (each of dek / mac / nonce pinned or left to SPSDK on its own)
  M("SB21", "config", <<"dek">>, FALSE),  M("SB21", "config", <<"mac">>, FALSE),  M("SB21", "config", <<"nonce">>, FALSE),
  M("SB21", "config", <<"dek", "nonce">>, FALSE),  M("SB21", "config", <<"mac", "nonce">>, FALSE),
  \* the nxpimage command line (`nxpimage sb21 export -c file.yaml`: YAML file, schema validation, cert-block and key files named in the file)
  M("SB21", "cli", <<>>, FALSE),  M("SB21", "cli", <<"dek">>, FALSE),  M("SB21", "cli", <<"mac">>, FALSE),  M("SB21", "cli", <<"nonce">>, FALSE),
  M("SB21", "cli", <<"dek", "mac">>, FALSE),  M("SB21", "cli", <<"dek", "nonce">>, FALSE),  M("SB21", "cli", <<"mac", "nonce">>, FALSE),
  M("SB21", "cli", <<"dek", "mac", "nonce">>, FALSE),
  \* SB2.1 file built from a COMMAND FILE with keyblob definitions and keywrap / encrypt statements ("bd": BD text, "config": the YAML form):
  \* every keywrap statement wraps an OTFAD key blob whose key, counter and range are the user's (mandatory in a keyblob definition) and
  \* whose filler word SPSDK chooses (without zeroPadding, see Fixed); the wrapped blob travels as the payload of a load command inside the encrypted section
  M("SB21KW", "bd", <<>>, TRUE),
  M("SB21KW", "config", <<>>, TRUE),  M("SB21KW", "config", <<"dek", "mac", "nonce">>, FALSE),
  M("SB21KW", "bd", <<"dek">>, FALSE),  M("SB21KW", "bd", <<"mac">>, FALSE),  M("SB21KW", "bd", <<"nonce">>, FALSE),  M("SB21KW", "bd", <<"dek", "mac">>, FALSE),
  M("SB21KW", "bd", <<"dek", "nonce">>, FALSE),  M("SB21KW", "bd", <<"mac", "nonce">>, FALSE),  M("SB21KW", "bd", <<"dek", "mac", "nonce">>, FALSE),
  M("SB21KW", "config", <<"dek">>, FALSE),  M("SB21KW", "config", <<"mac">>, FALSE),  M("SB21KW", "config", <<"nonce">>, FALSE),
  M("SB21KW", "config", <<"dek", "mac">>, FALSE),  M("SB21KW", "config", <<"dek", "nonce">>, FALSE),  M("SB21KW", "config", <<"mac", "nonce">>, FALSE),
  M("MBI", "ctor", <<"key">>, TRUE),    M("MBI", "ctor", <<"key", "ctr_iv">>, FALSE),
  M("MBI", "config", <<"key">>, TRUE),  M("MBI", "config", <<"key", "ctr_iv">>, FALSE),
  M("OTFAD", "ctor", <<>>, TRUE),   M("OTFAD", "ctor", <<"key">>, FALSE),          M("OTFAD", "ctor", <<"key", "ctr">>, FALSE),
  M("OTFAD", "ctor", <<"ctr">>, FALSE),                                            \* each optional secret alone: the other one is SPSDK's to choose
  M("IEE", "ctor", <<>>, TRUE),     M("IEE", "ctor", <<"key1">>, FALSE),           M("IEE", "ctor", <<"key2">>, FALSE),
  M("IEECTR", "ctor", <<>>, TRUE),  M("IEECTR", "ctor", <<"key1">>, FALSE),        M("IEECTR", "ctor", <<"key2">>, FALSE),
  M("BEE", "ctor", <<>>, TRUE),     M("BEE", "ctor", <<"sw_key">>, FALSE),
  M("BEE", "config", <<"sw_key">>, TRUE),
  MO("BEE", "config", <<"sw_key">>, <<"both", "same">>, TRUE),      \* one build, two artefacts (a member of the base menu: it takes part in every lane)
  M("HAB", "config", <<>>, TRUE),   M("HAB", "config", <<"dek">>, FALSE),          M("HAB", "config", <<"dek", "nonce">>, FALSE),
  M("HAB", "config", <<"nonce">>, FALSE),                                          \* the nonce pinned (Decrypt_Nonce), the DEK left to SPSDK
  M("HABRT", "ctor", <<>>, TRUE),   M("HABRT", "ctor", <<"dek">>, FALSE),
  M("HEX", "call", <<>>, TRUE) }
Kinds == {m.kind : m \in Menu}
ExOf(k, h) == {ToSet(m.ex) : m \in {x \in Menu : x.kind = k /\ x.how = h}}
\* the menu with every option combination of every entry point (the option lane of the generator)
OptMenu == UNION {{MO(m.kind, m.how, m.ex, o, FALSE) : o \in Opts(m.kind, m.how)} : m \in Menu}

\* secret-bearing fields of an artefact, in a fixed order
FieldSeq(k) == CASE k = "SB20"  -> <<"dek", "mac", "nonce", "hpad", "kpad">>      \* DEK, MAC key, header nonce, header padding, key-blob padding
                 [] k = "SB21"  -> <<"dek", "mac", "nonce", "hpad">>
                 [] k = "SB21KW" -> <<"dek", "mac", "nonce", "hpad", "filler1", "filler2">>   \* as SB21, plus the key-blob filler of EVERY keywrap load (the command file of this kind has two)
                 [] k = "MBI"   -> <<"key", "ctr_iv">>                            \* image encryption key (always the user's), counter IV
                 [] k = "OTFAD" -> <<"key", "ctr", "filler">>                     \* key blob: AES key, counter, filler word
                 [] k \in {"IEE", "IEECTR"} -> <<"key1", "key2">>                 \* XTS: two keys;  CTR: key and initial counter
                 [] k = "BEE"   -> <<"sw_key", "counter", "kib_key", "kib_iv">>
                 [] k \in {"HAB", "HABRT"} -> <<"dek", "nonce">>
                 [] k = "HEX"   -> <<"value">>                                    \* load_hex_string(None, n)
Fields(k) == ToSet(FieldSeq(k))
\* fields that come into being - or can be observed - only when the artefact is exported (the key blobs wrapped by keywrap statements sit
\* inside the encrypted section of the file)
Late(k) == CASE k = "SB20" -> {"hpad", "kpad"} [] k = "SB21" -> {"hpad"} [] k = "SB21KW" -> {"hpad", "filler1", "filler2"}
            [] k = "OTFAD" -> {"filler"} [] OTHER -> {}
\* fields narrower than 64 bits: a harness may leave them out of long histories (birthday bound), nothing else may be left out
Narrow(k) == CASE k = "OTFAD" -> {"filler"} [] k = "SB21KW" -> {"filler1", "filler2"} [] OTHER -> {}
\* <<key field, nonce field>> of the artefacts that run AES in counter mode (CTR, or CCM which is CTR + CBC-MAC)
CtrOf(k) == CASE k \in {"SB20", "SB21", "SB21KW", "HAB", "HABRT"} -> <<"dek", "nonce">>
              [] k = "MBI" -> <<"key", "ctr_iv">>
              [] k = "OTFAD" -> <<"key", "ctr">>
              [] k = "IEECTR" -> <<"key1", "key2">>
              [] k = "BEE" -> <<"sw_key", "counter">>
              [] OTHER -> <<>>

\* kinds whose configuration entry point is a method of the OBJECT (MasterBootImage.load_from_config(self, config)): the same object can be
\* configured again and then holds a NEW artefact.  Every other kind builds a new object per configuration (class / static methods), the
\* legacy BootImgRT refuses a second add_image: for them a history has no such step.
Reconf == {"MBI"}

\* ---------------------------------------------------------------------------------- state
VARIABLES arts,      \* sequence of artefacts: [kind, how, ex, opt, proc, of, build, part, val]  (val: field -> id, 0 = not observed yet;
                     \*   of = the artefact whose object was configured again to build this one, 0 = a new object;
                     \*   build = number of the build (call of an entry point) that emitted it, part = its number among the artefacts of that build)
          old,       \* old[a]: self-chosen ids artefact a carried before its latest export (an export may draw new padding)
          proc,      \* number of the running interpreter
          live,      \* artefacts that exist in the running interpreter
          imported   \* the running interpreter has imported SPSDK
vars == <<arts, old, proc, live, imported>>

Art(a) == arts[a]
Vals(r) == {r.val[f] : f \in Fields(r.kind)} \ {0}
Given(r) == r.ex \cup Fixed(r.kind, r.how, r.opt)                   \* the fields that are the user's: supplied, or determined by an option
SelfVals(r) == {r.val[f] : f \in Fields(r.kind) \ Given(r)} \ {0}
Has(a) == Vals(Art(a)) \cup old[a]                                   \* every id artefact a carries or carried
PairOf(r) == <<r.val[CtrOf(r.kind)[1]], r.val[CtrOf(r.kind)[2]]>>
HasPair(r) == CtrOf(r.kind) # <<>> /\ 0 \notin {PairOf(r)[1], PairOf(r)[2]}
UserPair(r) == CtrOf(r.kind)[1] \in r.ex /\ CtrOf(r.kind)[2] \in r.ex  \* key and nonce both supplied by the user: the user's business

\* builds: the last artefact tells which build is going on and how many of its parts are still to come (a build is one call: nothing else
\* happens before all its parts exist)
NBuilds == IF arts = <<>> THEN 0 ELSE Art(Len(arts)).build
Open == IF arts = <<>> THEN 0 ELSE Parts(Art(Len(arts)).kind, Art(Len(arts)).how, Art(Len(arts)).opt) - Art(Len(arts)).part
\* part p of a build (k, h, ex, o): the first part starts a new build, every further one continues the build of the last artefact
PartOk(k, h, ex, o, p) == /\ o \in Opts(k, h) /\ p \in 1..Parts(k, h, o)
                          /\ p = 1 => Open = 0
                          /\ p > 1 => /\ Open > 0
                                      /\ LET r == Art(Len(arts)) IN r.kind = k /\ r.how = h /\ r.ex = ex /\ r.opt = o /\ r.part = p - 1 /\ r.proc = proc

\* the two clauses of the property, for artefact number a with record r
FreshFor(a, v) == \A b \in DOMAIN arts : b # a => v \notin Has(b)
NoShared(a, r, asserted) == \A f \in asserted : r.val[f] # 0 => FreshFor(a, r.val[f])
NonceOk(a, r) == (HasPair(r) /\ ~UserPair(r)) =>
                   \A b \in DOMAIN arts : (b # a /\ HasPair(Art(b))) => PairOf(Art(b)) # PairOf(r)

Rec(k, h, ex, o, p, vals) == [kind |-> k, how |-> h, ex |-> ex, opt |-> o, proc |-> proc, of |-> 0,
                              build |-> IF p = 1 THEN NBuilds + 1 ELSE NBuilds, part |-> p,
                              val |-> [f \in Fields(k) |-> IF f \in DOMAIN vals THEN vals[f] ELSE 0]]
RecOf(o, ex, vals) == [Rec(Art(o).kind, "config", ex, Dflt(Art(o).kind, "config"), 1, vals) EXCEPT !.of = o]   \* the artefact a configured-again object holds

Init == arts = <<>> /\ old = <<>> /\ proc = 1 /\ live = {} /\ imported = FALSE

\* importing SPSDK may draw from the generator (n values); what is drawn there must still not end up in two artefacts
Import(n) == ~imported /\ n \in Nat /\ imported' = TRUE /\ UNCHANGED <<arts, old, proc, live>>

\* state updates without the guards (the implementation-shaped spec FreshImpl uses them: real code does not check anything)
RecordConstruct(k, h, ex, o, p, vals) ==
  /\ arts' = Append(arts, Rec(k, h, ex, o, p, vals)) /\ old' = Append(old, {}) /\ live' = live \cup {Len(arts) + 1}
  /\ UNCHANGED <<proc, imported>>
Exported(a, vals) == [Art(a) EXCEPT !.val = [f \in Fields(Art(a).kind) |-> IF f \in DOMAIN vals THEN vals[f] ELSE 0]]
RecordExport(a, vals) ==
  /\ arts' = [arts EXCEPT ![a] = Exported(a, vals)] /\ old' = [old EXCEPT ![a] = old[a] \cup SelfVals(Art(a))]
  /\ UNCHANGED <<proc, live, imported>>

\* a new artefact: part p of a build with the options o; vals = the fields observable right after construction; `excused` fields are
\* recorded but not asserted.  The guards do not look at o or p: whatever the options, and whether the other artefacts come from the same
\* build or from another one, what SPSDK chose for this artefact is carried by no other.
Construct(k, h, ex, o, p, vals, excused) ==
  LET a == Len(arts) + 1
      r == Rec(k, h, ex, o, p, vals) IN
  /\ imported
  /\ k \in Kinds /\ ex \in ExOf(k, h) /\ PartOk(k, h, ex, o, p)
  /\ DOMAIN vals \subseteq Fields(k) /\ DOMAIN vals # {} /\ \A f \in DOMAIN vals : vals[f] # 0
  /\ NoShared(a, r, (Fields(k) \ Given(r)) \ excused)
  /\ (NonceOk(a, r) \/ ToSet(CtrOf(k)) \cap excused # {})
  /\ RecordConstruct(k, h, ex, o, p, vals)

\* the object of live artefact o is configured AGAIN through its load_from_config (ex = what the user supplies this time): the object now
\* holds a new artefact, o is gone.  The new artefact is built as independently as any other: what SPSDK chooses for it is carried by no
\* other artefact of the history - in particular not by o, whether o got the value from SPSDK or from its user.
RecordReconfigure(o, ex, vals) ==
  /\ arts' = Append(arts, RecOf(o, ex, vals)) /\ old' = Append(old, {}) /\ live' = (live \ {o}) \cup {Len(arts) + 1}
  /\ UNCHANGED <<proc, imported>>
Reconfigure(o, ex, vals, excused) ==
  LET a == Len(arts) + 1
      k == Art(o).kind
      r == RecOf(o, ex, vals) IN
  /\ Open = 0
  /\ o \in live /\ k \in Reconf /\ ex \in ExOf(k, "config")
  /\ DOMAIN vals \subseteq Fields(k) /\ DOMAIN vals # {} /\ \A f \in DOMAIN vals : vals[f] # 0
  /\ NoShared(a, r, (Fields(k) \ Given(r)) \ excused)
  /\ (NonceOk(a, r) \/ ToSet(CtrOf(k)) \cap excused # {})
  /\ RecordReconfigure(o, ex, vals)

\* the artefact is serialised; vals = every field as found in the exported bytes (skip: narrow fields left out), seen = what the exported
\* bytes show of the options it was built with
Export(a, vals, skip, seen, excused) ==
  LET k == Art(a).kind
      r == Exported(a, vals) IN
  /\ Open = 0
  /\ a \in live
  /\ skip \subseteq Narrow(k) /\ DOMAIN vals = Fields(k) \ skip /\ \A f \in DOMAIN vals : vals[f] # 0
  /\ seen = Seen(k, Art(a).how, Art(a).opt, Art(a).part)
  /\ NoShared(a, r, (Fields(k) \ Given(r)) \ excused)
  /\ (NonceOk(a, r) \/ ToSet(CtrOf(k)) \cap excused # {})
  /\ RecordExport(a, vals)

\* the interpreter ends, a new one starts: its artefacts are gone, the values they carried are not forgotten
Restart == Open = 0 /\ proc' = proc + 1 /\ live' = {} /\ imported' = FALSE /\ UNCHANGED <<arts, old>>

\* ---------------------------------------------------------------------------------- the property as state invariants
GivenVals(r) == {r.val[f] : f \in Fields(r.kind) \cap Given(r)} \ {0}
AllSelf(a) == SelfVals(Art(a)) \cup old[a]
\* two artefacts never share a value SPSDK chose, and SPSDK never "chooses" a value an earlier artefact got from its user
\* (the other direction is legitimate: a user may feed the key SPSDK generated for one build into the next, e.g. HAB SecretKey_ReuseDek)
NoSharedSecret == \A a, b \in DOMAIN arts : a # b => /\ AllSelf(a) \cap AllSelf(b) = {}
                                                      /\ (b < a => AllSelf(a) \cap GivenVals(Art(b)) = {})
NoNonceReuse == \A a, b \in DOMAIN arts :
                  (a # b /\ HasPair(Art(a)) /\ HasPair(Art(b)) /\ ~UserPair(Art(a))) => PairOf(Art(a)) # PairOf(Art(b))
\* the clause of NoSharedSecret that a configured-again object can break on its own (implied by NoSharedSecret; kept as a separate, readable invariant):
\* nothing the object held before - self-chosen or explicit - is what SPSDK "chooses" for its next configuration
ReconfiguredFresh == \A a \in DOMAIN arts : Art(a).of # 0 => AllSelf(a) \cap Has(Art(a).of) = {}
\* the clause of NoSharedSecret a build that emits several artefacts can break on its own (implied by NoSharedSecret): drawing once per CALL
\* instead of once per artefact puts one value into two artefacts
PartsFresh == \A a, b \in DOMAIN arts : (a # b /\ Art(a).build = Art(b).build) => AllSelf(a) \cap AllSelf(b) = {}
TypeOK == /\ Len(old) = Len(arts) /\ live \subseteq DOMAIN arts
          /\ \A a \in DOMAIN arts : /\ Art(a).of \in 0..(a - 1)
                                    /\ Art(a).of # 0 => /\ Art(a).kind \in Reconf /\ Art(a).how = "config" /\ Art(a).of \notin live
                                                        /\ Art(Art(a).of).kind = Art(a).kind /\ Art(Art(a).of).proc = Art(a).proc
          /\ \A a \in DOMAIN arts : Art(a).kind \in Kinds /\ Art(a).ex \in ExOf(Art(a).kind, Art(a).how) /\ Art(a).proc <= proc
          /\ \A a \in DOMAIN arts : /\ Art(a).opt \in Opts(Art(a).kind, Art(a).how) /\ Art(a).part \in 1..Parts(Art(a).kind, Art(a).how, Art(a).opt)
                                    /\ Art(a).build = (IF a = 1 THEN 1 ELSE IF Art(a).part = 1 THEN Art(a - 1).build + 1 ELSE Art(a - 1).build)
                                    /\ Art(a).part > 1 => Art(a - 1).part = Art(a).part - 1 /\ Art(a - 1).proc = Art(a).proc
          /\ \A a \in live : Art(a).proc = proc
=============================================================================
