------------------------------- MODULE Fresh -------------------------------
(* C17 - secrets SPSDK invents are fresh for every artefact.   R-spec.                                    *)
(*                                                                                                        *)
(* Secrets are compared only for equality, so a secret is an id: a natural number standing for a byte     *)
(* string (in traces: the index of the first occurrence of the byte string in the whole history, over all *)
(* interpreters).  0 means "not observed yet".  The world this spec describes is not SPSDK's to change:   *)
(* a generator that never hands out the same value twice, artefacts with secret-bearing fields, users who *)
(* may supply some of the fields themselves, interpreters that come and go.                               *)
(*                                                                                                        *)
(* The actions are parameterised by the VALUES the artefact carries (vals).  In the model-checking and    *)
(* generation forms (FreshMC, FreshGen) the values come from the ideal generator; in the trace form       *)
(* (FreshTrace) they are the ids observed on the real code.  The guards of Construct / Export are the     *)
(* property:                                                                                              *)
(*   NoSharedSecret  a value SPSDK chose itself is carried by no other artefact of the history            *)
(*   NoNonceReuse    no two artefacts combine the same AES-CTR key with the same nonce, unless the user   *)
(*                   supplied both                                                                        *)
EXTENDS Naturals, Sequences, FiniteSets, TLC

\* ---------------------------------------------------------------------------------- what the property lists
\* menu of constructions: kind of artefact, how it is built, which fields the user supplies (ex);
\* base = the variant with the fewest user-supplied fields of its (kind, how)
M(k, h, e, b) == [kind |-> k, how |-> h, ex |-> e, base |-> b]
Menu == {
  M("SB20", "ctor", <<>>, TRUE),    M("SB20", "ctor", <<"dek", "mac">>, FALSE),    M("SB20", "ctor", <<"dek", "mac", "nonce">>, FALSE),
  M("SB21", "ctor", <<>>, TRUE),    M("SB21", "ctor", <<"dek", "mac">>, FALSE),    M("SB21", "ctor", <<"dek", "mac", "nonce">>, FALSE),
  M("SB21", "config", <<>>, TRUE),  M("SB21", "config", <<"dek", "mac">>, FALSE),  M("SB21", "config", <<"dek", "mac", "nonce">>, FALSE),
  \* SB2.1 file built from a COMMAND FILE with keyblob definitions and keywrap / encrypt statements ("bd": BD text, "config": the YAML form):
  \* every keywrap statement wraps an OTFAD key blob whose key, counter and range are the user's (mandatory in a keyblob definition) and
  \* whose filler word SPSDK chooses; the wrapped blob travels as the payload of a load command inside the encrypted section
  M("SB21KW", "bd", <<>>, TRUE),
  M("SB21KW", "config", <<>>, TRUE),  M("SB21KW", "config", <<"dek", "mac", "nonce">>, FALSE),
  M("MBI", "ctor", <<"key">>, TRUE),    M("MBI", "ctor", <<"key", "ctr_iv">>, FALSE),
  M("MBI", "config", <<"key">>, TRUE),  M("MBI", "config", <<"key", "ctr_iv">>, FALSE),
  M("OTFAD", "ctor", <<>>, TRUE),   M("OTFAD", "ctor", <<"key">>, FALSE),          M("OTFAD", "ctor", <<"key", "ctr">>, FALSE),
  M("IEE", "ctor", <<>>, TRUE),     M("IEE", "ctor", <<"key1">>, FALSE),
  M("IEECTR", "ctor", <<>>, TRUE),  M("IEECTR", "ctor", <<"key1">>, FALSE),
  M("BEE", "ctor", <<>>, TRUE),     M("BEE", "ctor", <<"sw_key">>, FALSE),
  M("BEE", "config", <<"sw_key">>, TRUE),
  M("HAB", "config", <<>>, TRUE),   M("HAB", "config", <<"dek">>, FALSE),          M("HAB", "config", <<"dek", "nonce">>, FALSE),
  M("HABRT", "ctor", <<>>, TRUE),   M("HABRT", "ctor", <<"dek">>, FALSE),
  M("HEX", "call", <<>>, TRUE) }
Kinds == {m.kind : m \in Menu}
ToSet(s) == {s[i] : i \in DOMAIN s}
ExOf(k, h) == {ToSet(m.ex) : m \in {x \in Menu : x.kind = k /\ x.how = h}}

\* secret-bearing fields of an artefact, in a fixed order
FieldSeq(k) == CASE k = "SB20"  -> <<"dek", "mac", "nonce", "hpad", "kpad">>      \* DEK, MAC key, header nonce, header padding, key-blob padding
                 [] k = "SB21"  -> <<"dek", "mac", "nonce", "hpad">>
                 [] k = "SB21KW" -> <<"dek", "mac", "nonce", "hpad", "filler1", "filler2">>   \* as SB21, plus the key-blob filler of EVERY keywrap load (the command file of this kind has two)
                 [] k = "MBI"   -> <<"key", "ctr_iv">>                            \* image encryption key (always the user's), counter IV
                 [] k = "OTFAD" -> <<"key", "ctr", "filler">>                     \* key blob: AES key, counter, filler word
                 [] k \in {"IEE", "IEECTR"} -> <<"key1", "key2">>                 \* XTS: two keys;  CTR: key and initial counter
                 [] k = "BEE"   -> <<"sw_key", "counter", "kib_key", "kib_iv">>
                 [] k \in {"HAB", "HABRT"} -> <<"dek", "nonce">>
                 [] k = "HEX"   -> <<"value">>                                    \* load_hex_string(None, n)
Fields(k) == ToSet(FieldSeq(k))
\* fields that come into being - or can be observed - only when the artefact is exported (the key blobs wrapped by keywrap statements sit
\* inside the encrypted section of the file)
Late(k) == CASE k = "SB20" -> {"hpad", "kpad"} [] k = "SB21" -> {"hpad"} [] k = "SB21KW" -> {"hpad", "filler1", "filler2"}
            [] k = "OTFAD" -> {"filler"} [] OTHER -> {}
\* fields narrower than 64 bits: a harness may leave them out of long histories (birthday bound), nothing else may be left out
Narrow(k) == CASE k = "OTFAD" -> {"filler"} [] k = "SB21KW" -> {"filler1", "filler2"} [] OTHER -> {}
\* <<key field, nonce field>> of the artefacts that run AES in counter mode (CTR, or CCM which is CTR + CBC-MAC)
CtrOf(k) == CASE k \in {"SB20", "SB21", "SB21KW", "HAB", "HABRT"} -> <<"dek", "nonce">>
              [] k = "MBI" -> <<"key", "ctr_iv">>
              [] k = "OTFAD" -> <<"key", "ctr">>
              [] k = "IEECTR" -> <<"key1", "key2">>
              [] k = "BEE" -> <<"sw_key", "counter">>
              [] OTHER -> <<>>

\* kinds whose configuration entry point is a method of the OBJECT (MasterBootImage.load_from_config(self, config)): the same object can be
\* configured again and then holds a NEW artefact.  Every other kind builds a new object per configuration (class / static methods), the
\* legacy BootImgRT refuses a second add_image: for them a history has no such step.
Reconf == {"MBI"}

\* ---------------------------------------------------------------------------------- state
VARIABLES arts,      \* sequence of artefacts: [kind, how, ex, proc, of, val]  (val: field -> id, 0 = not observed yet;
                     \*   of = the artefact whose object was configured again to build this one, 0 = a new object)
          old,       \* old[a]: self-chosen ids artefact a carried before its latest export (an export may draw new padding)
          proc,      \* number of the running interpreter
          live,      \* artefacts that exist in the running interpreter
          imported   \* the running interpreter has imported SPSDK
vars == <<arts, old, proc, live, imported>>

Art(a) == arts[a]
Vals(r) == {r.val[f] : f \in Fields(r.kind)} \ {0}
SelfVals(r) == {r.val[f] : f \in Fields(r.kind) \ r.ex} \ {0}
Has(a) == Vals(Art(a)) \cup old[a]                                   \* every id artefact a carries or carried
PairOf(r) == <<r.val[CtrOf(r.kind)[1]], r.val[CtrOf(r.kind)[2]]>>
HasPair(r) == CtrOf(r.kind) # <<>> /\ 0 \notin {PairOf(r)[1], PairOf(r)[2]}
UserPair(r) == CtrOf(r.kind)[1] \in r.ex /\ CtrOf(r.kind)[2] \in r.ex  \* key and nonce both supplied by the user: the user's business

\* the two clauses of the property, for artefact number a with record r
FreshFor(a, v) == \A b \in DOMAIN arts : b # a => v \notin Has(b)
NoShared(a, r, asserted) == \A f \in asserted : r.val[f] # 0 => FreshFor(a, r.val[f])
NonceOk(a, r) == (HasPair(r) /\ ~UserPair(r)) =>
                   \A b \in DOMAIN arts : (b # a /\ HasPair(Art(b))) => PairOf(Art(b)) # PairOf(r)

Rec(k, h, ex, vals) == [kind |-> k, how |-> h, ex |-> ex, proc |-> proc, of |-> 0,
                        val |-> [f \in Fields(k) |-> IF f \in DOMAIN vals THEN vals[f] ELSE 0]]
RecOf(o, ex, vals) == [Rec(Art(o).kind, "config", ex, vals) EXCEPT !.of = o]   \* the artefact a configured-again object holds

Init == arts = <<>> /\ old = <<>> /\ proc = 1 /\ live = {} /\ imported = FALSE

\* importing SPSDK may draw from the generator (n values); what is drawn there must still not end up in two artefacts
Import(n) == ~imported /\ n \in Nat /\ imported' = TRUE /\ UNCHANGED <<arts, old, proc, live>>

\* state updates without the guards (the implementation-shaped spec FreshImpl uses them: real code does not check anything)
RecordConstruct(k, h, ex, vals) ==
  /\ arts' = Append(arts, Rec(k, h, ex, vals)) /\ old' = Append(old, {}) /\ live' = live \cup {Len(arts) + 1}
  /\ UNCHANGED <<proc, imported>>
Exported(a, vals) == [Art(a) EXCEPT !.val = [f \in Fields(Art(a).kind) |-> IF f \in DOMAIN vals THEN vals[f] ELSE 0]]
RecordExport(a, vals) ==
  /\ arts' = [arts EXCEPT ![a] = Exported(a, vals)] /\ old' = [old EXCEPT ![a] = old[a] \cup SelfVals(Art(a))]
  /\ UNCHANGED <<proc, live, imported>>

\* a new artefact; vals = the fields observable right after construction; `excused` fields are recorded but not asserted
Construct(k, h, ex, vals, excused) ==
  LET a == Len(arts) + 1
      r == Rec(k, h, ex, vals) IN
  /\ imported
  /\ k \in Kinds /\ ex \in ExOf(k, h)
  /\ DOMAIN vals \subseteq Fields(k) /\ DOMAIN vals # {} /\ \A f \in DOMAIN vals : vals[f] # 0
  /\ NoShared(a, r, (Fields(k) \ ex) \ excused)
  /\ (NonceOk(a, r) \/ ToSet(CtrOf(k)) \cap excused # {})
  /\ RecordConstruct(k, h, ex, vals)

\* the object of live artefact o is configured AGAIN through its load_from_config (ex = what the user supplies this time): the object now
\* holds a new artefact, o is gone.  The new artefact is built as independently as any other: what SPSDK chooses for it is carried by no
\* other artefact of the history - in particular not by o, whether o got the value from SPSDK or from its user.
RecordReconfigure(o, ex, vals) ==
  /\ arts' = Append(arts, RecOf(o, ex, vals)) /\ old' = Append(old, {}) /\ live' = (live \ {o}) \cup {Len(arts) + 1}
  /\ UNCHANGED <<proc, imported>>
Reconfigure(o, ex, vals, excused) ==
  LET a == Len(arts) + 1
      k == Art(o).kind
      r == RecOf(o, ex, vals) IN
  /\ o \in live /\ k \in Reconf /\ ex \in ExOf(k, "config")
  /\ DOMAIN vals \subseteq Fields(k) /\ DOMAIN vals # {} /\ \A f \in DOMAIN vals : vals[f] # 0
  /\ NoShared(a, r, (Fields(k) \ ex) \ excused)
  /\ (NonceOk(a, r) \/ ToSet(CtrOf(k)) \cap excused # {})
  /\ RecordReconfigure(o, ex, vals)

\* the artefact is serialised; vals = every field as found in the exported bytes (skip: narrow fields left out)
Export(a, vals, skip, excused) ==
  LET k == Art(a).kind
      r == Exported(a, vals) IN
  /\ a \in live
  /\ skip \subseteq Narrow(k) /\ DOMAIN vals = Fields(k) \ skip /\ \A f \in DOMAIN vals : vals[f] # 0
  /\ NoShared(a, r, (Fields(k) \ r.ex) \ excused)
  /\ (NonceOk(a, r) \/ ToSet(CtrOf(k)) \cap excused # {})
  /\ RecordExport(a, vals)

\* the interpreter ends, a new one starts: its artefacts are gone, the values they carried are not forgotten
Restart == proc' = proc + 1 /\ live' = {} /\ imported' = FALSE /\ UNCHANGED <<arts, old>>

\* ---------------------------------------------------------------------------------- the property as state invariants
GivenVals(r) == {r.val[f] : f \in Fields(r.kind) \cap r.ex} \ {0}
AllSelf(a) == SelfVals(Art(a)) \cup old[a]
\* two artefacts never share a value SPSDK chose, and SPSDK never "chooses" a value an earlier artefact got from its user
\* (the other direction is legitimate: a user may feed the key SPSDK generated for one build into the next, e.g. HAB SecretKey_ReuseDek)
NoSharedSecret == \A a, b \in DOMAIN arts : a # b => /\ AllSelf(a) \cap AllSelf(b) = {}
                                                      /\ (b < a => AllSelf(a) \cap GivenVals(Art(b)) = {})
NoNonceReuse == \A a, b \in DOMAIN arts :
                  (a # b /\ HasPair(Art(a)) /\ HasPair(Art(b)) /\ ~UserPair(Art(a))) => PairOf(Art(a)) # PairOf(Art(b))
\* the clause of NoSharedSecret that a configured-again object can break on its own (implied by NoSharedSecret; kept as a separate, readable invariant):
\* nothing the object held before - self-chosen or explicit - is what SPSDK "chooses" for its next configuration
ReconfiguredFresh == \A a \in DOMAIN arts : Art(a).of # 0 => AllSelf(a) \cap Has(Art(a).of) = {}
TypeOK == /\ Len(old) = Len(arts) /\ live \subseteq DOMAIN arts
          /\ \A a \in DOMAIN arts : /\ Art(a).of \in 0..(a - 1)
                                    /\ Art(a).of # 0 => /\ Art(a).kind \in Reconf /\ Art(a).how = "config" /\ Art(a).of \notin live
                                                        /\ Art(Art(a).of).kind = Art(a).kind /\ Art(Art(a).of).proc = Art(a).proc
          /\ \A a \in DOMAIN arts : Art(a).kind \in Kinds /\ Art(a).ex \in ExOf(Art(a).kind, Art(a).how) /\ Art(a).proc <= proc
          /\ \A a \in live : Art(a).proc = proc
=============================================================================
