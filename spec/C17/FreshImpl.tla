----------------------------- MODULE FreshImpl -----------------------------
(* I-spec of C17: WHEN each kind draws its secrets, as SPSDK is built (table AsBuilt) - at import of the module, at     *)
(* construction, at export, or never (a constant).  The implementation checks nothing, so the steps are the unguarded  *)
(* state updates of Fresh; TLC checks the invariants of the R-spec on them and thereby PREDICTS reuse (two-step         *)
(* counterexamples).  A prediction is reported only after the real code has shown it (trace validation against Fresh).  *)
EXTENDS FreshMC, Json
VARIABLES imp        \* values drawn while the running interpreter imported SPSDK: <<kind, how, field>> -> id
ivars == <<arts, old, proc, live, imported, draws, nexp, imp>>
Table == IOEnv.IMPL_TABLE                                    \* "asbuilt" | "intended" | "percall"
\* "percall" is NOT how SPSDK is built: it is the intended table with one row changed - the key info block of a BEE region header drawn once
\* per CALL of load_from_config instead of once per header.  TLC must find PartsFresh violated on it (the clause is not vacuous).
When(k, h, f) ==
  IF Table = "intended" THEN (IF f \in Late(k) THEN "export" ELSE "construct")
  ELSE IF Table = "percall" THEN (IF k = "BEE" /\ h = "config" /\ f \in {"kib_key", "kib_iv"} THEN "call" ELSE IF f \in Late(k) THEN "export" ELSE "construct")
  ELSE CASE k = "SB20" /\ h = "ctor" /\ f \in {"dek", "mac", "nonce"} -> "import"           \* default argument SBV2xAdvancedParams() evaluated once
         [] k = "SB21" /\ h = "ctor" /\ f \in {"dek", "mac", "nonce", "hpad"} -> "import"   \* the same, padding included
         [] k = "MBI" /\ h = "ctor" /\ f = "ctr_iv" -> "import"                              \* class-level NEEDED_MEMBERS value
         [] k = "SB21" /\ h = "config" /\ f = "hpad" -> "construct"                         \* drawn with the advanced parameters, seen in the export
         [] k = "SB21KW" /\ f \in {"hpad", "filler1", "filler2"} -> "construct"              \* keywrap statements are executed by load_from_config; seen in the export
         [] k = "HABRT" /\ h = "ctor" /\ f = "dek" -> "const"                                \* "empty bytes = random key" is the all-zero key
         [] f \in Late(k) -> "export"
         [] OTHER -> "construct"
Slots == {<<m.kind, m.how, f>> : m \in Menu, f \in {"dek", "mac", "nonce", "hpad", "ctr_iv"}}
ImportSlots == {s \in Slots : s[3] \in Fields(s[1]) /\ When(s[1], s[2], s[3]) = "import"}
SlotNo(s) == KindNo(s[1]) * Step + FieldNo(s[1], s[3])
Const == 99
IInit == MInit /\ imp = [s \in {} |-> 0]
IImport == /\ ~imported /\ imported' = TRUE
           /\ imp' = [s \in ImportSlots |-> draws + SlotNo(s)]
           /\ draws' = draws + 100 /\ UNCHANGED <<arts, old, proc, live, nexp>>
PerCall(k, f) == 20000 + NBuilds * Step + FieldNo(k, f)       \* one value per build: the parts after the first find it again
Drawn(k, h, ex, f, at) == IF f \in ex THEN UserVal(k, f)
                          ELSE CASE When(k, h, f) = "import" -> imp[<<k, h, f>>]
                                 [] When(k, h, f) = "const" -> Const
                                 [] When(k, h, f) = "call" -> PerCall(k, f) + (IF Open = 0 THEN Step ELSE 0)
                                 [] OTHER -> at + FieldNo(k, f)
\* a late field that was drawn at construction: one value per artefact, stable over its exports
AtConstruction(a, f) == 10000 + a * Step + FieldNo(Art(a).kind, f)
\* every part of a build goes through the constructors of its own objects: what is drawn "at construction" is drawn per part
\* (PartOk: the structure of builds, not a check of values)
IConstruct == /\ imported
              /\ \E m \in UseMenu : \E p \in 1..MaxParts :
                   /\ (p > 1 \/ Len(arts) < MaxArts) /\ PartOk(m.kind, m.how, ToSet(m.ex), m.opt, p)
                   /\ RecordConstruct(m.kind, m.how, ToSet(m.ex), m.opt, p,
                                      [f \in Fields(m.kind) \ Late(m.kind) |->
                                         IF f \in ToSet(m.ex) THEN UserValOf(m.kind, f, m.opt, p) ELSE Drawn(m.kind, m.how, ToSet(m.ex), f, draws)])
              /\ draws' = draws + Step /\ UNCHANGED <<nexp, imp>>
\* load_from_config on an existing object runs the same code as on a new one: what is drawn "at construction" is drawn again
IReconfigure == /\ imported /\ Open = 0 /\ Len(arts) < MaxArts
                /\ \E o \in live : \E m \in ReconfItems(o) :
                     RecordReconfigure(o, ToSet(m.ex), [f \in Fields(m.kind) \ Late(m.kind) |-> Drawn(m.kind, m.how, ToSet(m.ex), f, draws)])
                /\ draws' = draws + Step /\ UNCHANGED <<nexp, imp>>
IExport == /\ nexp < MaxExp /\ Open = 0
           /\ \E a \in live :
                RecordExport(a, [f \in Fields(Art(a).kind) |->
                                   IF f \notin Late(Art(a).kind) THEN Art(a).val[f]
                                   ELSE IF When(Art(a).kind, Art(a).how, f) = "construct" THEN AtConstruction(a, f)
                                   ELSE Drawn(Art(a).kind, Art(a).how, Art(a).ex, f, draws)])
           /\ draws' = draws + Step /\ nexp' = nexp + 1 /\ UNCHANGED imp
IRestart == proc < MaxProc /\ imported /\ Restart /\ imp' = [s \in {} |-> 0] /\ UNCHANGED <<draws, nexp>>
INext == IImport \/ IConstruct \/ IReconfigure \/ IExport \/ IRestart
ISpec == IInit /\ [][INext]_ivars
\* the table itself, for the drift measurement of the harness
TableRows == UNION {{[kind |-> m.kind, how |-> m.how, field |-> f, when |-> When(m.kind, m.how, f)] : f \in Fields(m.kind)} : m \in {x \in Menu : x.base}}
ASSUME PrintT(ToJson(TableRows))
=============================================================================
