------------------------------ MODULE FreshGen ------------------------------
(* GEN form: FreshMC plus a history variable.  TLC enumerates (or simulates) construction histories over the menu:  *)
(*   fused : every build (Construct of all its parts / Reconfigure) is followed by the Export of every artefact it   *)
(*           emitted; histories = all sequences of <= GEN_DEPTH builds, each a menu item built as new object(s) or   *)
(*           a load_from_config item applied AGAIN to the object of a live artefact (kinds in Reconf), with at most  *)
(*           GEN_RESTARTS interpreter restarts between two of them (exhaustive)                                     *)
(*   free  : Construct / Reconfigure / Export of any live artefact / Restart in any order, GEN_LEN steps (-simulate) *)
(*   opts  : the OPTION LANE.  For every (kind, entry point, user-supplied fields) of the menu whose entry point has  *)
(*           option arguments, two histories that walk through ALL option combinations of Fresh!Opts, each built and *)
(*           exported twice: both passes in one interpreter / the second pass in a new interpreter (the latter for   *)
(*           the base items only unless GEN_RESTARTS > 0; exhaustive: one initial state per plan)                   *)
(* A build that emits several artefacts (Fresh!Parts) is a sequence of Construct steps, one per part, that nothing    *)
(* interrupts.  Import steps are forced (the only enabled step of an interpreter that has not imported), not logged.  *)
EXTENDS FreshMC, Json, SequencesExt
VARIABLES hist, done, pend, nres, plan
gvars == <<arts, old, proc, live, imported, draws, nexp, hist, done, pend, nres, plan>>
Depth == atoi(IOEnv.GEN_DEPTH)
MaxRestarts == atoi(IOEnv.GEN_RESTARTS)
Mode == IOEnv.GEN_MODE
Fused == Mode \in {"fused", "opts"}
MaxLen == atoi(IOEnv.GEN_LEN)
Log(x) == hist' = Append(hist, x)
LastOp == IF hist = <<>> THEN "none" ELSE hist[Len(hist)].op

\* ---- the option lane: plans
SweepKeys == {<<m.kind, m.how, m.ex>> : m \in {x \in Menu : Cardinality(Opts(x.kind, x.how)) > 1}}
OptSeq(key) == SetToSeq({MO(key[1], key[2], key[3], o, FALSE) : o \in Opts(key[1], key[2])})
Pass(key) == [i \in 1..Len(OptSeq(key)) |-> [op |-> "B", m |-> OptSeq(key)[i]]] \o <<>>
Sweep(key, restart) == Pass(key) \o (IF restart THEN <<[op |-> "R", m |-> OptSeq(key)[1]]>> ELSE <<>>) \o Pass(key)
BaseSweepKeys == {<<m.kind, m.how, m.ex>> : m \in {x \in Menu : x.base /\ Cardinality(Opts(x.kind, x.how)) > 1}}
Plans == IF Mode = "opts" THEN {Sweep(key, FALSE) : key \in SweepKeys} \cup {Sweep(key, TRUE) : key \in (IF MaxRestarts > 0 THEN SweepKeys ELSE BaseSweepKeys)}
         ELSE {<<>>}

GInit == MInit /\ hist = <<>> /\ done = FALSE /\ pend = 0 /\ nres = 0 /\ plan \in Plans
GImport == ~imported /\ Import(0) /\ UNCHANGED <<draws, nexp, hist, done, pend, nres, plan>>
LogBuild(m, p) == Log([op |-> "Construct", art |-> Len(arts) + 1, kind |-> m.kind, how |-> m.how, ex |-> m.ex, opt |-> m.opt, part |-> p,
                       parts |-> Parts(m.kind, m.how, m.opt)])
GConstruct == /\ Mode # "opts" /\ imported /\ Open = 0 /\ pend = 0 /\ NBuilds < Depth /\ (Fused \/ Len(hist) < MaxLen)
              /\ \E m \in (IF Fused THEN UseMenu ELSE {RandomElement(UseMenu)}) :      \* free mode is simulated: one candidate per step keeps the mix of step kinds balanced
                                    ConstructItem(m, 1) /\ LogBuild(m, 1)
              /\ pend' = (IF Fused THEN Len(arts) + 1 ELSE 0) /\ UNCHANGED <<done, nres, plan>>
\* the next part of the build that has begun: forced (nothing else is enabled while a build is open)
LastItem == {m \in UseMenu : /\ m.kind = Art(Len(arts)).kind /\ m.how = Art(Len(arts)).how /\ ToSet(m.ex) = Art(Len(arts)).ex
                             /\ m.opt = Art(Len(arts)).opt}
GPart == /\ imported /\ Open > 0
         /\ \E m \in {CHOOSE x \in LastItem : TRUE} : ConstructItem(m, Art(Len(arts)).part + 1) /\ LogBuild(m, Art(Len(arts)).part + 1)
         /\ UNCHANGED <<done, pend, nres, plan>>
GReconfigure == /\ Mode # "opts" /\ imported /\ Open = 0 /\ pend = 0 /\ NBuilds < Depth /\ (Fused \/ Len(hist) < MaxLen)
                /\ \E o \in live : \E m \in (IF Fused THEN ReconfItems(o) ELSE IF ReconfItems(o) = {} THEN {} ELSE {RandomElement(ReconfItems(o))}) :
                                    /\ ReconfigureItem(o, m)
                                    /\ Log([op |-> "Reconfigure", art |-> Len(arts) + 1, of |-> o, kind |-> m.kind, how |-> m.how, ex |-> m.ex])
                /\ pend' = (IF Fused THEN Len(arts) + 1 ELSE 0) /\ UNCHANGED <<done, nres, plan>>
\* fused: the artefacts of the last build are exported one after the other (pend = the first one that has not been exported)
GExport == /\ imported /\ Open = 0 /\ (IF Fused THEN pend # 0 ELSE Len(hist) < MaxLen)
           /\ \E a \in (IF Fused THEN {pend} ELSE live) : ExportArt(a) /\ Log([op |-> "Export", art |-> a])
           /\ pend' = (IF Fused /\ pend < Len(arts) THEN pend + 1 ELSE 0) /\ UNCHANGED <<done, nres, plan>>
GRestart == /\ Mode # "opts" /\ imported /\ pend = 0 /\ nres < MaxRestarts /\ live # {} /\ NBuilds < Depth /\ (Fused \/ Len(hist) < MaxLen)
            /\ Restart /\ Log([op |-> "Restart", art |-> 0]) /\ nres' = nres + 1 /\ UNCHANGED <<draws, nexp, done, pend, plan>>
\* the option lane follows its plan
GPlanBuild == /\ Mode = "opts" /\ imported /\ Open = 0 /\ pend = 0 /\ plan # <<>> /\ Head(plan).op = "B"
              /\ ConstructItem(Head(plan).m, 1) /\ LogBuild(Head(plan).m, 1)
              /\ pend' = Len(arts) + 1 /\ plan' = Tail(plan) /\ UNCHANGED <<done, nres>>
GPlanRestart == /\ Mode = "opts" /\ imported /\ pend = 0 /\ plan # <<>> /\ Head(plan).op = "R"
                /\ Restart /\ Log([op |-> "Restart", art |-> 0]) /\ nres' = nres + 1 /\ plan' = Tail(plan) /\ UNCHANGED <<draws, nexp, done, pend>>
Finish == /\ ~done /\ pend = 0 /\ Open = 0 /\ arts # <<>> /\ LastOp # "Restart"
          /\ (IF Mode = "opts" THEN plan = <<>> ELSE (Fused \/ Len(hist) >= MaxLen))
          /\ done' = TRUE /\ PrintT(ToJson(hist))
          /\ UNCHANGED <<arts, old, proc, live, imported, draws, nexp, hist, pend, nres, plan>>
GNext == ~done /\ (GImport \/ GConstruct \/ GPart \/ GReconfigure \/ GExport \/ GRestart \/ GPlanBuild \/ GPlanRestart \/ Finish)
\* the options table for the harness (finding keys name the option combination when it is not the default one)
OptTable == {[kind |-> m.kind, how |-> m.how, dflt |-> Dflt(m.kind, m.how), n |-> Cardinality(Opts(m.kind, m.how))] : m \in Menu}
ASSUME Mode = "opts" => PrintT(ToJson(OptTable))
\* the fields an option combination hands to the user (Fresh!Fixed), for the harness: finding keys never name such a field
FixedTable == {[kind |-> m.kind, how |-> m.how, opt |-> m.opt, fixed |-> SetToSeq(Fixed(m.kind, m.how, m.opt))] : m \in {x \in OptMenu : Fixed(x.kind, x.how, x.opt) # {}}}
ASSUME Mode = "opts" => PrintT(ToJson(FixedTable))
\* an option never hands a secret of the property's list to the user: only late padding fields, never a member of an AES-CTR pair
ASSUME \A m \in OptMenu : Fixed(m.kind, m.how, m.opt) \subseteq Late(m.kind) /\ Fixed(m.kind, m.how, m.opt) \cap ToSet(CtrOf(m.kind)) = {}
\* the configuration entry points of SB2.1 have every subset of the pinnable secrets
ASSUME \A k \in {"SB21", "SB21KW"} : \A h \in {x.how : x \in {y \in Menu : y.kind = k /\ y.how \in CfgHows}} : ExOf(k, h) = SUBSET {"dek", "mac", "nonce"}
ASSUME \A m \in Menu : Dflt(m.kind, m.how) \in Opts(m.kind, m.how) /\ m.opt \in Opts(m.kind, m.how)
\* the option lane reaches every option combination of every entry point (checked on the plans themselves)
ASSUME Mode = "opts" => \A key \in SweepKeys : {Pass(key)[i].m.opt : i \in DOMAIN Pass(key)} = Opts(key[1], key[2])
=============================================================================
