------------------------------ MODULE FreshGen ------------------------------
(* GEN form: FreshMC plus a history variable.  TLC enumerates (or simulates) construction histories over the menu:  *)
(*   fused : every Construct / Reconfigure is followed by the Export of that artefact; histories = all sequences of  *)
(*           <= GEN_DEPTH steps, each a menu item built as a new object or a load_from_config item applied AGAIN to  *)
(*           the object of a live artefact (kinds in Reconf), with at most GEN_RESTARTS interpreter restarts         *)
(*           between two of them (exhaustive)                                                                       *)
(*   free  : Construct / Reconfigure / Export of any live artefact / Restart in any order, GEN_LEN steps (-simulate) *)
(* Import steps are forced (the only enabled step of an interpreter that has not imported) and not logged.          *)
EXTENDS FreshMC, Json
VARIABLES hist, done, pend, nres
gvars == <<arts, old, proc, live, imported, draws, nexp, hist, done, pend, nres>>
Depth == atoi(IOEnv.GEN_DEPTH)
MaxRestarts == atoi(IOEnv.GEN_RESTARTS)
Fused == IOEnv.GEN_MODE = "fused"
MaxLen == atoi(IOEnv.GEN_LEN)
Log(x) == hist' = Append(hist, x)
LastOp == IF hist = <<>> THEN "none" ELSE hist[Len(hist)].op
GInit == MInit /\ hist = <<>> /\ done = FALSE /\ pend = 0 /\ nres = 0
GImport == ~imported /\ Import(0) /\ UNCHANGED <<draws, nexp, hist, done, pend, nres>>
GConstruct == /\ imported /\ pend = 0 /\ Len(arts) < Depth /\ (Fused \/ Len(hist) < MaxLen)
              /\ \E m \in (IF Fused THEN UseMenu ELSE {RandomElement(UseMenu)}) :      \* free mode is simulated: one candidate per step keeps the mix of step kinds balanced
                                    /\ ConstructItem(m)
                                    /\ Log([op |-> "Construct", art |-> Len(arts) + 1, kind |-> m.kind, how |-> m.how, ex |-> m.ex])
              /\ pend' = (IF Fused THEN Len(arts) + 1 ELSE 0) /\ UNCHANGED <<done, nres>>
GReconfigure == /\ imported /\ pend = 0 /\ Len(arts) < Depth /\ (Fused \/ Len(hist) < MaxLen)
                /\ \E o \in live : \E m \in (IF Fused THEN ReconfItems(o) ELSE IF ReconfItems(o) = {} THEN {} ELSE {RandomElement(ReconfItems(o))}) :
                                    /\ ReconfigureItem(o, m)
                                    /\ Log([op |-> "Reconfigure", art |-> Len(arts) + 1, of |-> o, kind |-> m.kind, how |-> m.how, ex |-> m.ex])
                /\ pend' = (IF Fused THEN Len(arts) + 1 ELSE 0) /\ UNCHANGED <<done, nres>>
GExport == /\ imported /\ (IF Fused THEN pend # 0 ELSE Len(hist) < MaxLen)
           /\ \E a \in (IF Fused THEN {pend} ELSE live) : ExportArt(a) /\ Log([op |-> "Export", art |-> a])
           /\ pend' = 0 /\ UNCHANGED <<done, nres>>
GRestart == /\ imported /\ pend = 0 /\ nres < MaxRestarts /\ live # {} /\ Len(arts) < Depth /\ (Fused \/ Len(hist) < MaxLen)
            /\ Restart /\ Log([op |-> "Restart", art |-> 0]) /\ nres' = nres + 1 /\ UNCHANGED <<draws, nexp, done, pend>>
Finish == /\ ~done /\ pend = 0 /\ arts # <<>> /\ LastOp # "Restart" /\ (Fused \/ Len(hist) = MaxLen)
          /\ done' = TRUE /\ PrintT(ToJson(hist))
          /\ UNCHANGED <<arts, old, proc, live, imported, draws, nexp, hist, pend, nres>>
GNext == ~done /\ (GImport \/ GConstruct \/ GReconfigure \/ GExport \/ GRestart \/ Finish)
=============================================================================
