INIT GInit
NEXT GNext
INVARIANT NoSharedSecret
INVARIANT NoNonceReuse
CHECK_DEADLOCK FALSE
