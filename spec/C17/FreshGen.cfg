INIT GInit
NEXT GNext
INVARIANT NoSharedSecret
INVARIANT NoNonceReuse
INVARIANT ReconfiguredFresh
CHECK_DEADLOCK FALSE
