INIT GInit
NEXT GNext
INVARIANT NoSharedSecret
INVARIANT NoNonceReuse
INVARIANT ReconfiguredFresh
INVARIANT PartsFresh
CHECK_DEADLOCK FALSE
