SPECIFICATION ISpec
INVARIANT TypeOK
INVARIANT NoSharedSecret
INVARIANT NoNonceReuse
INVARIANT ReconfiguredFresh
CHECK_DEADLOCK FALSE
