SPECIFICATION ISpec
INVARIANT TypeOK
INVARIANT NoSharedSecret
INVARIANT NoNonceReuse
CHECK_DEADLOCK FALSE
