SPECIFICATION ISpec
INVARIANT TypeOK
INVARIANT NoSharedSecret
INVARIANT NoNonceReuse
INVARIANT ReconfiguredFresh
INVARIANT PartsFresh
CHECK_DEADLOCK FALSE
