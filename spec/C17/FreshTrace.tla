----------------------------- MODULE FreshTrace -----------------------------
(* TV form: each trace is the id-canonicalised history of what real SPSDK interpreters produced:                     *)
(*   Import(n)                      an interpreter imported SPSDK (n = values drawn meanwhile, informative)           *)
(*   Construct(art, kind, how, ex, opt, part, f, x)   part `part` of a build with the options opt (Fresh!Opts, Fresh!Parts); *)
(*                                  f = ids read from the public attributes of the new object                         *)
(*   Reconfigure(art, of, kind, ex, f, x)  the object of artefact `of` went through load_from_config again and now holds  *)
(*                                  artefact art; f = ids read from the public attributes afterwards                  *)
(*   Export(art, f, skip, seen, x)  f = ids read from the exported bytes (every field; skip = narrow fields left out); *)
(*                                  seen = the options as the exported bytes show them (Fresh!Seen)                   *)
(*   Restart                        the interpreter ended, the next events come from a fresh one                      *)
(* x = fields whose freshness is not asserted in this event because this run already reported them under a key that   *)
(* known_findings.jsonl lists (they are still recorded, so that other artefacts sharing them are noticed).            *)
(* Every step must be the step of Fresh with the logged values; a trace that is not consumed to its end is rejected.  *)
EXTENDS Fresh, Json, IOUtils
Traces == ndJsonDeserialize(IOEnv.TRACE_FILE)
VARIABLES tid, l
T == Traces[tid].ev
E == T[l]
Is(e) == l <= Len(T) /\ E.ev = e
Adv == l' = l + 1 /\ UNCHANGED tid
TInit == tid \in 1..Len(Traces) /\ l = 1 /\ Init /\ TLCSet(tid, 1)
TImport == Is("Import") /\ Import(E.n) /\ Adv
TConstruct == Is("Construct") /\ E.art = Len(arts) + 1 /\ Construct(E.kind, E.how, ToSet(E.ex), E.opt, E.part, E.f, ToSet(E.x)) /\ Adv
TReconfigure == Is("Reconfigure") /\ E.art = Len(arts) + 1 /\ E.of \in DOMAIN arts /\ E.kind = Art(E.of).kind
                /\ Reconfigure(E.of, ToSet(E.ex), E.f, ToSet(E.x)) /\ Adv
TExport == Is("Export") /\ E.art \in DOMAIN arts /\ Export(E.art, E.f, ToSet(E.skip), E.seen, ToSet(E.x)) /\ Adv
TRestart == Is("Restart") /\ imported /\ Restart /\ Adv
TNext == TImport \/ TConstruct \/ TReconfigure \/ TExport \/ TRestart
Constr == IF TLCGet(tid) < l THEN TLCSet(tid, l) ELSE TRUE
Post == \A i \in 1..Len(Traces) :
          \/ TLCGet(i) - 1 = Len(Traces[i].ev)
          \/ PrintT(<<"REJ", Traces[i].id, TLCGet(i) - 1, Len(Traces[i].ev),
                      Traces[i].ev[IF TLCGet(i) <= Len(Traces[i].ev) THEN TLCGet(i) ELSE Len(Traces[i].ev)].ev>>)
=============================================================================
