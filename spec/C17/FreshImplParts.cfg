SPECIFICATION ISpec
INVARIANT TypeOK
INVARIANT PartsFresh
CHECK_DEADLOCK FALSE
