---------------------------- MODULE Sb31RomTrace ----------------------------
(* TV form of C05 (batch trace validation).  A trace = { id, inp, ev } : `inp` is what the builder was asked for   *)
(* and what the loader is provisioned with, `ev` the events the independent executor logged on the exported bytes. *)
(* Every event must be the next step of the loader automaton Sb31Rom; a trace consumed to its end (the last event   *)
(* is Accept) is a container the R-spec accepts.  Traces not consumed to the end are printed from the POSTCONDITION. *)
EXTENDS Sb31Rom, Json, IOUtils
Traces == ndJsonDeserialize(IOEnv.TRACE_FILE)
VARIABLES tid, l
T == Traces[tid].ev
E == T[l]
TInit == tid \in 1..Len(Traces) /\ l = 1 /\ RInit(Traces[tid].inp) /\ TLCSet(tid, 1)
TNext == l <= Len(T) /\ Step(E) /\ l' = l + 1 /\ UNCHANGED tid
Constr == IF TLCGet(tid) < l THEN TLCSet(tid, l) ELSE TRUE
Post == \A i \in 1..Len(Traces) :
          \/ TLCGet(i) - 1 = Len(Traces[i].ev)
          \/ PrintT(<<"REJ", Traces[i].id, TLCGet(i) - 1, Len(Traces[i].ev),
                      Traces[i].ev[IF TLCGet(i) <= Len(Traces[i].ev) THEN TLCGet(i) ELSE Len(Traces[i].ev)].ev>>)
=============================================================================
