------------------------------ MODULE Sb31Build ------------------------------
(* The DOCUMENTED construction of an SB 3.1 container as an event generator: Events(c, "none") is the sequence of   *)
(* events the loader sees on a file built as documented from the abstract input c (crypto facts hold because the   *)
(* builder computed them as documented).  Events(c, m) for m in Mistakes is the same for a builder that makes ONE    *)
(* construction mistake.  Used by Sb31RomMC: the loader automaton must accept every clean construction and reject   *)
(* every mistake that changes anything (soundness of the R-spec against the listed mistakes, and no false alarm on   *)
(* the documented construction).  No variables.                                                                     *)
EXTENDS Sb31Format

Mistakes == {"block_size_without_number", "cert_offset_without_hash", "total_length_accumulates", "total_length_without_signature",
             "block_count_plus_one", "description_15", "cert_size_field_without_header", "isk_signed_without_root_key_record",
             "signature_not_over_hash_of_block1", "block_number_from_zero", "chain_front_to_back", "last_block_hash_not_reset",
             "kdf_key_length_follows_pck", "kdf_256_one_iteration", "kdf_timestamp_big_endian", "kdf_block_number_from_zero",
             "kdf_rights_unshifted", "section_length_counts_header", "last_chunk_padded_to_16", "extra_padding_block",
             "fuses_length_in_bytes", "keyblob_halves_swapped", "configure_memory_swapped", "drop_last_command",
             "root_key_hash_over_minimal_numbers",
             "encrypts_when_key_material_supplied", "encrypts_when_pck_supplied", "isk_certificate_when_supplied"}
\* root_key_hash_over_minimal_numbers: the builder hashes the numbers of a root key at their minimal length (leading zero bytes
\* of X / Y dropped) when it fills the table of root key hashes, while the record carries - and the loader hashes - the key at
\* the fixed width.  It changes something only for a root set of more than one key in which a key has a short coordinate:
\* the used one -> its hash is not its table entry; any one -> the hash of the table is not the provisioned root-of-trust hash.
Short(cls) == cls \in ShortClasses
\* encrypts_when_key_material_supplied / encrypts_when_pck_supplied: the builder takes the decision "encrypt this chunk" from the
\* PRESENCE of key material (c.given: part-common key + access rights + timestamp / the part-common key alone, rights read as 0)
\* instead of from the request c.enc.  It changes something only for a container requested PLAIN with that material supplied as
\* well: signature and hash chain are made over the cipher text and hold, but the loader of a plain container reads the 256 bytes
\* of a block as they are and finds no section header in them (the cipher text of 16 known bytes: any value but uid = type = 1).
\* isk_certificate_when_supplied: the builder puts an ISK certificate into the certificate block whenever the material for one is
\* supplied, although no ISK is requested (root key record marked CA, container signed by the root key): the loader expects the
\* certificate block to end with the root key record - size field and signature position disagree.
EncryptsUnasked(c, m) == /\ ~c.enc
                         /\ \/ m = "encrypts_when_key_material_supplied" /\ KeyMaterial(c.given)
                            \/ m = "encrypts_when_pck_supplied" /\ c.given.pck # 0
IskUnasked(c, m) == ~c.isk /\ m = "isk_certificate_when_supplied" /\ c.given.isk

RECURSIVE CmdsLen(_, _)
CmdsLen(cs, k) == IF k = 0 THEN 0 ELSE CmdsLen(cs, k - 1) + Size(cs[k].t, cs[k].dlen)
Rev(s) == [i \in 1..Len(s) |-> s[Len(s) + 1 - i]]

Events(c, m) ==
  LET hl       == IF c.isk THEN c.iskCurve ELSE c.curve            \* digest (and block hash) follow the signing key
      bs       == 4 + hl + CHUNK
      certOff  == HDR + hl
      tableLen == IF c.nkeys > 1 THEN c.nkeys * c.curve ELSE 0
      rkrAt    == certOff + 12
      keyAt    == rkrAt + 4 + tableLen
      rkrE     == keyAt + 2 * c.curve
      sigOff   == 12 + 2 * c.iskCurve + c.udLen
      certE    == IF c.isk \/ IskUnasked(c, m) THEN rkrE + sigOff + 2 * c.curve ELSE rkrE      \* where the certificate block really ends
      certSeen == IF c.isk THEN certE ELSE rkrE                     \* where a loader that follows the CA flag of the record gets to
      sLen     == IF c.isk THEN 2 * c.iskCurve ELSE 2 * c.curve
      total    == certE + sLen
      cmds     == IF m = "drop_last_command" /\ Len(c.cmds) > 0 THEN SubSeq(c.cmds, 1, Len(c.cmds) - 1) ELSE c.cmds
      cl       == CmdsLen(cmds, Len(cmds))
      stream   == 16 + cl
      n0       == (stream + CHUNK - 1) \div CHUNK
      n        == IF m = "extra_padding_block" /\ stream % CHUNK = 0 THEN n0 + 1 ELSE n0
      rest     == stream - (n0 - 1) * CHUNK
      lastLen  == IF m = "last_chunk_padded_to_16" THEN 4 + hl + Pad16(rest) ELSE bs
      fileLen  == total + (n - 1) * bs + lastLen
      \* header fields as the builder writes them
      fBs      == IF m = "block_size_without_number" THEN hl + CHUNK ELSE bs
      fCertOff == IF m = "cert_offset_without_hash" THEN HDR ELSE certOff
      fTotal   == CASE m = "total_length_accumulates" -> total + (total - HDR)
                    [] m = "total_length_without_signature" -> certE
                    [] OTHER -> total
      fCount   == IF m = "block_count_plus_one" THEN n + 1 ELSE n
      fDesc    == IF m = "description_15" THEN [i \in 1..16 |-> IF i = 16 THEN 0 ELSE DescField(c.desc)[i]] ELSE DescField(c.desc)
      layOk    == fTotal <= fileLen /\ fileLen - fTotal = fCount * fBs
      kb       == KeyBits(hl)
      kdf(const, mode) ==
        [const |-> const, rightsByte |-> IF m = "kdf_rights_unshifted" THEN c.rights ELSE c.rights * 64, modeByte |-> mode,
         keyBits |-> IF m = "kdf_key_length_follows_pck" THEN c.pckBits ELSE kb,
         opt |-> IF (IF m = "kdf_key_length_follows_pck" THEN c.pckBits ELSE kb) = 128 THEN 32 ELSE 33,
         iters |-> IF m = "kdf_256_one_iteration" THEN 1 ELSE (IF m = "kdf_key_length_follows_pck" THEN c.pckBits ELSE kb) \div 128]
      hdr      == <<[ev |-> "ParseHeader", magicOk |-> TRUE, major |-> 3, minor |-> 1, blockCount |-> fCount, blockSize |-> fBs,
                     totalLen |-> fTotal, certOff |-> fCertOff, fileLen |-> fileLen],
                    [ev |-> "HeaderFields", flags |-> c.flags, fw |-> c.fw, ts |-> c.ts, imageType |-> IF c.nxp THEN 7 ELSE 6, desc |-> fDesc],
                    [ev |-> "Layout", fileLen |-> fileLen, ok |-> layOk]>>
      cert     == <<[ev |-> "CertHeader", at |-> certOff, magicOk |-> TRUE, major |-> 2, minor |-> 1],
                    [ev |-> "RootKeyRecord", at |-> rkrAt, ca |-> ~c.isk, used |-> c.used, nKeys |-> c.nkeys, ctype |-> IF c.curve = 32 THEN 1 ELSE 2,
                     curveLen |-> c.curve, tableLen |-> tableLen, keyAt |-> keyAt, end |-> rkrE, keyLz |-> Lz(c.rk[c.used + 1]),
                     keyInTable |-> ~(m = "root_key_hash_over_minimal_numbers" /\ c.nkeys > 1 /\ Short(c.rk[c.used + 1])),
                     rotkthOk |-> ~(m = "root_key_hash_over_minimal_numbers" /\ c.nkeys > 1 /\ \E i \in 1..c.nkeys : Short(c.rk[i]))]>>
                  \o (IF c.isk
                      THEN <<[ev |-> "IskCert", at |-> rkrE, sigOff |-> sigOff, constraints |-> c.constraints, iskType |-> IF c.iskCurve = 32 THEN 1 ELSE 2,
                              iskLen |-> c.iskCurve, iskLz |-> Lz(c.ik), hasUserData |-> c.udLen > 0, userDataLen |-> c.udLen, udSha |-> c.udSha,
                              signedFrom |-> rkrAt, signedTo |-> rkrE + sigOff, sigLen |-> 2 * c.curve,
                              ok |-> m # "isk_signed_without_root_key_record",       \* the loader verifies over record || certificate
                              end |-> rkrE + sigOff + 2 * c.curve]>>
                      ELSE <<>>)
                  \o <<[ev |-> "CertBlockEnd", end |-> certSeen, sizeField |-> IF m = "cert_size_field_without_header" THEN certE - certOff - 12 ELSE certE - certOff],
                       [ev |-> "VerifyBlock0", frm |-> 0, to |-> certSeen, sigAt |-> certSeen, sigLen |-> sLen, digestLen |-> sLen \div 2,
                        ok |-> m # "signature_not_over_hash_of_block1" /\ ~IskUnasked(c, m), end |-> certSeen + sLen]>>
      kdk      == IF c.enc
                  THEN <<[ev |-> "DeriveKdk", pckBits |-> c.pckBits]
                         @@ kdf(IF m = "kdf_timestamp_big_endian" THEN Rev(<<0, 0>> \o c.ts) ELSE <<0, 0>> \o c.ts, 1)>>
                  ELSE <<>>
      blocks   == [i \in 1..n |->
                    [ev |-> "Block", i |-> i, at |-> total + (i - 1) * bs,
                     num |-> IF m = "block_number_from_zero" THEN i - 1 ELSE i,
                     hashOk |-> ~(m = "chain_front_to_back" /\ n > 1),
                     last |-> i = fCount,                                    \* the loader counts with the header's block count
                     nextZero |-> (i = n) /\ ~(m = "chain_front_to_back" /\ n > 1) /\ m # "last_block_hash_not_reset",
                     enc |-> c.enc,
                     kdf |-> IF c.enc THEN kdf(<<0, 0, 0, 0>> \o LenW(IF m = "kdf_block_number_from_zero" THEN i - 1 ELSE i), 16)
                             ELSE [const |-> <<0, 0, 0, 0, 0, 0>>, rightsByte |-> 0, modeByte |-> 0, keyBits |-> 0, opt |-> 0, iters |-> 0],
                     cipherAt |-> total + (i - 1) * bs + 4 + hl, cipherLen |-> CHUNK, ivZero |-> TRUE]]
      plainHdr == IF EncryptsUnasked(c, m) THEN 0 ELSE 1            \* what the loader of a plain container finds where uid / type should be
      section  == <<[ev |-> "Section", uid |-> plainHdr, type |-> plainHdr, len |-> IF m = "section_length_counts_header" THEN cl + 16 ELSE cl,
                     rsvZero |-> TRUE, streamLen |-> CHUNK * n, padZero |-> TRUE]>>
      wire(j)  == LET x  == cmds[j]
                      w1 == CASE m = "keyblob_halves_swapped" /\ x.t = 10 -> <<x.a[2], x.x1[2]>>
                              [] m = "configure_memory_swapped" /\ x.t = 11 -> x.a
                              [] OTHER -> WireW1(x)
                      w2 == CASE m = "fuses_length_in_bytes" /\ x.t = 5 -> LenW(x.dlen)
                              [] m = "configure_memory_swapped" /\ x.t = 11 -> x.x1
                              [] OTHER -> WireW2(x)
                      dl == DataLenOf(x.t, w2)                                \* what the loader derives from the words
                  IN [ev |-> "Cmd", i |-> j, at |-> 16 + CmdsLen(cmds, j - 1), tagOk |-> TRUE, cmd |-> x.t, w1 |-> w1, w2 |-> w2,
                      hasX |-> HasX(x.t), x |-> WireX(x), dataLen |-> dl, dsha |-> x.dsha, dataPadZero |-> TRUE,
                      tail |-> TailLen(x.t), tailZero |-> TRUE, size |-> Size(x.t, dl)]
      cmdEvs   == [j \in 1..Len(cmds) |-> wire(j)]
      accept   == <<[ev |-> "Accept", end |-> 16 + cl, nCmds |-> Len(cmds), covEnd |-> total + n * bs]>>
  IN hdr \o cert \o kdk \o blocks \o section \o cmdEvs \o accept
=============================================================================
