---- MODULE Sb31Obj_TTrace_1790413605 ----
EXTENDS Sequences, TLCExt, Toolbox, Naturals, TLC, Sb31Obj

_expression ==
    LET Sb31Obj_TEExpression == INSTANCE Sb31Obj_TEExpression
    IN Sb31Obj_TEExpression!expression
----

_trace ==
    LET Sb31Obj_TETrace == INSTANCE Sb31Obj_TETrace
    IN Sb31Obj_TETrace!trace
----

_inv ==
    ~(
        TLCGet("level") = Len(_TETrace)
        /\
        hist = (<<"Export", "Export">>)
        /\
        file = ([blocks |-> <<[next |-> <<"h", 1, 1, <<"zero">>>>, n |-> 1]>>, hdrTotal |-> 852, hdrBlocks |-> 1, firstHash |-> <<"h", 2, 1, <<"h", 1, 1, <<"zero">>>>>>, block0Len |-> 456])
        /\
        finalHash = (<<"h", 2, 1, <<"h", 1, 1, <<"zero">>>>>>)
        /\
        totalLen = (852)
        /\
        nblocks = (1)
        /\
        nexp = (2)
    )
----

_init ==
    /\ file = _TETrace[1].file
    /\ finalHash = _TETrace[1].finalHash
    /\ hist = _TETrace[1].hist
    /\ nexp = _TETrace[1].nexp
    /\ totalLen = _TETrace[1].totalLen
    /\ nblocks = _TETrace[1].nblocks
----

_next ==
    /\ \E i,j \in DOMAIN _TETrace:
        /\ \/ /\ j = i + 1
              /\ i = TLCGet("level")
        /\ file  = _TETrace[i].file
        /\ file' = _TETrace[j].file
        /\ finalHash  = _TETrace[i].finalHash
        /\ finalHash' = _TETrace[j].finalHash
        /\ hist  = _TETrace[i].hist
        /\ hist' = _TETrace[j].hist
        /\ nexp  = _TETrace[i].nexp
        /\ nexp' = _TETrace[j].nexp
        /\ totalLen  = _TETrace[i].totalLen
        /\ totalLen' = _TETrace[j].totalLen
        /\ nblocks  = _TETrace[i].nblocks
        /\ nblocks' = _TETrace[j].nblocks

\* Uncomment the ASSUME below to write the states of the error trace
\* to the given file in Json format. Note that you can pass any tuple
\* to `JsonSerialize`. For example, a sub-sequence of _TETrace.
    \* ASSUME
    \*     LET J == INSTANCE Json
    \*         IN J!JsonSerialize("Sb31Obj_TTrace_1790413605.json", _TETrace)

=============================================================================

 Note that you can extract this module `Sb31Obj_TEExpression`
  to a dedicated file to reuse `expression` (the module in the 
  dedicated `Sb31Obj_TEExpression.tla` file takes precedence 
  over the module `Sb31Obj_TEExpression` below).

---- MODULE Sb31Obj_TEExpression ----
EXTENDS Sequences, TLCExt, Toolbox, Naturals, TLC, Sb31Obj

expression == 
    [
        \* To hide variables of the `Sb31Obj` spec from the error trace,
        \* remove the variables below.  The trace will be written in the order
        \* of the fields of this record.
        file |-> file
        ,finalHash |-> finalHash
        ,hist |-> hist
        ,nexp |-> nexp
        ,totalLen |-> totalLen
        ,nblocks |-> nblocks
        
        \* Put additional constant-, state-, and action-level expressions here:
        \* ,_stateNumber |-> _TEPosition
        \* ,_fileUnchanged |-> file = file'
        
        \* Format the `file` variable as Json value.
        \* ,_fileJson |->
        \*     LET J == INSTANCE Json
        \*     IN J!ToJson(file)
        
        \* Lastly, you may build expressions over arbitrary sets of states by
        \* leveraging the _TETrace operator.  For example, this is how to
        \* count the number of times a spec variable changed up to the current
        \* state in the trace.
        \* ,_fileModCount |->
        \*     LET F[s \in DOMAIN _TETrace] ==
        \*         IF s = 1 THEN 0
        \*         ELSE IF _TETrace[s].file # _TETrace[s-1].file
        \*             THEN 1 + F[s-1] ELSE F[s-1]
        \*     IN F[_TEPosition - 1]
    ]

=============================================================================



Parsing and semantic processing can take forever if the trace below is long.
 In this case, it is advised to uncomment the module below to deserialize the
 trace from a generated binary file.

\*
\*---- MODULE Sb31Obj_TETrace ----
\*EXTENDS IOUtils, TLC, Sb31Obj
\*
\*trace == IODeserialize("Sb31Obj_TTrace_1790413605.bin", TRUE)
\*
\*=============================================================================
\*

---- MODULE Sb31Obj_TETrace ----
EXTENDS TLC, Sb31Obj

trace == 
    <<
    ([hist |-> <<>>,file |-> <<>>,finalHash |-> <<"zero">>,totalLen |-> 60,nblocks |-> 1,nexp |-> 0]),
    ([hist |-> <<"Export">>,file |-> [blocks |-> <<[next |-> <<"zero">>, n |-> 1]>>, hdrTotal |-> 456, hdrBlocks |-> 1, firstHash |-> <<"h", 1, 1, <<"zero">>>>, block0Len |-> 456],finalHash |-> <<"h", 1, 1, <<"zero">>>>,totalLen |-> 456,nblocks |-> 1,nexp |-> 1]),
    ([hist |-> <<"Export", "Export">>,file |-> [blocks |-> <<[next |-> <<"h", 1, 1, <<"zero">>>>, n |-> 1]>>, hdrTotal |-> 852, hdrBlocks |-> 1, firstHash |-> <<"h", 2, 1, <<"h", 1, 1, <<"zero">>>>>>, block0Len |-> 456],finalHash |-> <<"h", 2, 1, <<"h", 1, 1, <<"zero">>>>>>,totalLen |-> 852,nblocks |-> 1,nexp |-> 2])
    >>
----


=============================================================================

---- CONFIG Sb31Obj_TTrace_1790413605 ----
CONSTANTS
    HdrLen = 60
    HashLen = 32
    CertLen = 300
    SigLen = 64
    MaxBlocks = 3
    MaxExports = 3
    MaxOps = 5
    ResetOnExport = FALSE

INVARIANT
    _inv

CHECK_DEADLOCK
    \* CHECK_DEADLOCK off because of PROPERTY or INVARIANT above.
    FALSE

INIT
    _init

NEXT
    _next

CONSTANT
    _TETrace <- _trace

ALIAS
    _expression
=============================================================================
\* Generated on Sat Sep 26 09:06:46 UTC 2026