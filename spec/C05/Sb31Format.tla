----------------------------- MODULE Sb31Format -----------------------------
(* Constants and pure operators of the SB 3.1 format shared by the loader automaton (Sb31Rom), the documented    *)
(* construction (Sb31Build) and the case generator (Sb31Gen).  No variables.                                    *)
(* Words that may have bit 31 set are pairs of 16-bit limbs <<hi, lo>> (TLC integers are 32 bit).                *)
EXTENDS Naturals, Sequences, FiniteSets, TLC
HDR == 60
CHUNK == 256
Z == <<0, 0>>
Pad16(n) == ((n + 15) \div 16) * 16
LenW(n) == <<n \div 65536, n % 65536>>
KeyBits(hl) == IF hl = 32 THEN 128 ELSE 256
DescField(d) == [i \in 1..16 |-> IF i <= Len(d) THEN d[i] ELSE 0]

\* Value classes of a public key (root-of-trust keys, image signing key).  The numbers of a key - coordinates X and Y - are
\* written and hashed at the FIXED width of the curve (32 / 48 bytes) in every documented construction: root key record,
\* root key hash (table entry, root-of-trust hash), ISK certificate.  About one key in 128 has a coordinate whose most
\* significant byte is zero; such a key is as good as any other.  Lz(c) = <<leading byte of X is zero, of Y is zero>>.
KeyClasses == {"full", "lzx", "lzy", "lzxy"}
ShortClasses == KeyClasses \ {"full"}
Lz(c) == <<c \in {"lzx", "lzxy"}, c \in {"lzy", "lzxy"}>>

\* What the caller SUPPLIES next to what it REQUESTS.  The builder's interfaces take the material of an encrypted container (part-common
\* key, access rights of the key derivation key) and the material of an image signing certificate (ISK public key, constraints, user
\* data, the root key's signature provider) as OPTIONAL arguments NEXT TO the request itself (encrypted / plain, ISK / no ISK).  Every
\* argument is legal on its own, so every combination of request and supply is part of the domain, with one exception: what is requested
\* must be supplied (an encrypted container needs key and rights, an ISK container needs the certificate material).  Material that is
\* supplied but NOT requested changes nothing: a plain container is readable WITHOUT any key (the loader of a plain container has none),
\* a container without ISK is signed by the root key and its certificate block ends with the root key record.
\*   given = [pck |-> 0 (none) | 128 | 256, rights |-> -1 (none) | 0..3, isk |-> material of an ISK certificate supplied]
NoRights == 0 - 1
GivenPcks == {0, 128, 256}
GivenRights == NoRights..3
Requested(enc, pck, rights, isk) == [pck |-> IF enc THEN pck ELSE 0, rights |-> IF enc THEN rights ELSE NoRights, isk |-> isk]
Givens(enc, pck, rights, isk) == {[pck |-> p, rights |-> r, isk |-> i] : p \in IF enc THEN {pck} ELSE GivenPcks,
                                                                         r \in IF enc THEN {rights} ELSE GivenRights,
                                                                         i \in IF isk THEN {TRUE} ELSE BOOLEAN}
KeyMaterial(g) == g.pck # 0 /\ g.rights # NoRights          \* everything a block key is derived from is at hand (the timestamp always is)

\* Command = tag, w1, w2, cmd [, 4 more words] [, data padded to 16] [, 64 reserved bytes]
\* (which commands carry the extra words / the reserved tail is frozen-from-source, see harness assumptions)
DataCmds == {2, 5, 6, 7, 9, 10}
HasX(t) == t \in {1, 2, 7, 8, 9, 12}
TailLen(t) == IF t = 9 THEN 64 ELSE 0
DataLenOf(t, w2) == CASE t \in {2, 6, 7, 9, 10} -> w2[1] * 65536 + w2[2]
                      [] t = 5                  -> 4 * (w2[1] * 65536 + w2[2])        \* fuse words
                      [] OTHER                  -> 0
Size(t, dl) == 16 + (IF HasX(t) THEN 16 ELSE 0) + Pad16(dl) + TailLen(t)
\* abstract command [t, a, n, x1, x2, x3, dlen, dsha]  ->  its words on the wire
WireW1(c) == CASE c.t = 10 -> <<c.x1[2], c.a[2]>>          \* key blob: 16-bit offset, 16-bit wrapping key id
               [] c.t = 11 -> c.x1                           \* configure memory: memory id, then address
               [] c.t = 14 -> Z
               [] OTHER    -> c.a
WireW2(c) == CASE c.t \in {2, 6, 7, 9, 10} -> LenW(c.dlen)
               [] c.t = 5                  -> LenW(c.dlen \div 4)
               [] c.t = 11                 -> c.a
               [] c.t = 13                 -> c.x1           \* version check: value, counter id
               [] c.t \in {3, 4, 14}       -> Z
               [] OTHER                    -> c.n            \* erase, copy, fill: declared length
WireX(c) == CASE c.t \in {1, 2, 7, 9, 12} -> <<c.x1, Z, Z, Z>>          \* memory id (fill: pattern), reserved words zero
              [] c.t = 8                  -> <<c.x1, c.x2, c.x3, Z>>      \* copy: destination, memory id from / to
              [] OTHER                    -> <<Z, Z, Z, Z>>
=============================================================================
