------------------------------ MODULE Sb31Rom ------------------------------
(* R-spec of C05: the acceptance automaton of the SB 3.1 loader (boot ROM side), independent of how SPSDK       *)
(* builds a container.  One action per loader step; every action takes the event `e` an executor logged while   *)
(* walking a real file (numbers it read, crypto facts it evaluated with an independent trusted base).  The      *)
(* automaton RECOMPUTES every offset, length and range from what it has seen before and demands the facts.       *)
(*                                                                                                              *)
(*   file  =  header(60) || H(block 1) || certificate block v2.1 || signature  ||  block 1 .. block n            *)
(*            \_________________________ block 0, `totalLen` bytes ___________/                                  *)
(*   block i = number(4) || H(block i+1)  (zero in the last one) || AES-CBC(zero IV, key_i, 256-byte chunk i)    *)
(*   key_i   = CMAC-KDF(KDK, i),  KDK = CMAC-KDF(PCK, timestamp)      (NIST SP 800-108 counter mode, see KdfOk)  *)
(*   chunks  = section header(16) || commands, zero padded to 256                                               *)
(*                                                                                                              *)
(* `inp` is what the ROM is provisioned with and what the builder was asked for: root-of-trust set, encryption   *)
(* mode, access rights, and the header fields and command list supplied to the builder.  The decoded content is  *)
(* compared with it command by command (clauses marked "= input").                                              *)
(* The root-of-trust set is given by its size, the key used and the VALUE CLASS of the key at every position      *)
(* (inp.rk, inp.ik: Sb31Format!KeyClasses - keys with leading zero bytes in a coordinate are part of the domain). *)
(* inp.given (Sb31Format!Givens) records what the caller SUPPLIED next to what it requested: part-common key and  *)
(* access rights although the container is requested plain, ISK certificate material although no ISK is           *)
(* requested.  NO action of the automaton reads inp.given: the loader of a plain container holds no key            *)
(* (VerifyBlock0 goes straight to the chain, Block takes the 256 bytes of every block as they are, Section / Cmd   *)
(* must find the section header and the commands in them), the loader of a container without ISK expects the       *)
(* certificate block to end with the root key record.  Supplied-but-not-requested material is a dimension of the   *)
(* CASE SPACE (Sb31Gen, Sb31CfgGen, Sb31RomMC), not of the acceptance condition.                                   *)
(* Words that may have bit 31 set are pairs of 16-bit limbs <<hi, lo>> (TLC integers are 32 bit).                *)
EXTENDS Sb31Format

VARIABLES st,        \* control state of the loader
          inp,       \* provisioning + builder input (constant during a run)
          h,         \* header fields the loader uses to locate things
          ts,        \* timestamp limbs read from the header (KDF label)
          b0Len,     \* length of block 0 = position of data block 1
          rkrEnd, certEnd, rootLen, signerLen,
          covTo,     \* every byte below covTo is authenticated (signature, or hash chain)
          blk, secLen, cur, ncmd
rvars == <<st, inp, h, ts, b0Len, rkrEnd, certEnd, rootLen, signerLen, covTo, blk, secLen, cur, ncmd>>

NoHeader == [blockCount |-> 0, blockSize |-> 0, hashLen |-> 0, totalLen |-> 0, certOff |-> 0, fileLen |-> 0]
Waived(c) == \E i \in 1..Len(inp.waive) : inp.waive[i] = c
\* "= input" clauses compare decoded content with what the builder was asked for.  They are switched off only for
\* TAMPERED files, where the question is whether the loader's own checks (signature, chain) notice the change.
In(p) == Waived("Input") \/ p

RInit(i) == /\ st = "Header" /\ inp = i /\ h = NoHeader /\ ts = <<0, 0, 0, 0>> /\ b0Len = 0 /\ rkrEnd = 0 /\ certEnd = 0
            /\ rootLen = 0 /\ signerLen = 0 /\ covTo = 0 /\ blk = 0 /\ secLen = 0 /\ cur = 0 /\ ncmd = 0

\* ------------------------------------------------------------ header
ParseHeader(e) ==
  /\ st = "Header"
  /\ e.magicOk /\ e.major = 3 /\ e.minor = 1
  /\ e.blockSize \in {4 + 32 + CHUNK, 4 + 48 + CHUNK}                \* number || next hash || one chunk
  /\ e.certOff = HDR + (e.blockSize - 4 - CHUNK)                       \* header || H(block 1) || certificate block
  /\ e.blockCount >= 1 /\ e.fileLen >= HDR
  /\ h' = [blockCount |-> e.blockCount, blockSize |-> e.blockSize, hashLen |-> e.blockSize - 4 - CHUNK,
           totalLen |-> e.totalLen, certOff |-> e.certOff, fileLen |-> e.fileLen]
  /\ st' = "HeaderFields"
  /\ UNCHANGED <<inp, ts, b0Len, rkrEnd, certEnd, rootLen, signerLen, covTo, blk, secLen, cur, ncmd>>

\* the informative header fields are the ones supplied                                        (= input)
HeaderFields(e) ==
  /\ st = "HeaderFields"
  /\ e.imageType \in {6, 7}
  /\ In(/\ e.imageType = (IF inp.nxp THEN 7 ELSE 6)
        /\ e.flags = inp.flags /\ e.fw = inp.fw /\ e.ts = inp.ts
        /\ e.desc = DescField(inp.desc))                               \* 16 bytes, truncated / zero padded
  /\ ts' = e.ts /\ st' = "Layout"
  /\ UNCHANGED <<inp, h, b0Len, rkrEnd, certEnd, rootLen, signerLen, covTo, blk, secLen, cur, ncmd>>

\* total length and block count / size describe the bytes that are there: nothing lies behind the last block
Layout(e) ==
  /\ st = "Layout" /\ e.fileLen = h.fileLen
  /\ h.blockCount <= h.fileLen \div h.blockSize
  /\ LET ok == h.totalLen <= h.fileLen /\ h.fileLen - h.totalLen = h.blockCount * h.blockSize IN
       /\ e.ok = ok
       /\ (ok \/ Waived("Layout"))
       /\ b0Len' = IF ok THEN h.totalLen ELSE h.fileLen - h.blockCount * h.blockSize
  /\ st' = "CertHeader"
  /\ UNCHANGED <<inp, h, ts, rkrEnd, certEnd, rootLen, signerLen, covTo, blk, secLen, cur, ncmd>>

\* ------------------------------------------------------------ certificate block v2.1
CertHeader(e) ==
  /\ st = "CertHeader" /\ e.at = h.certOff /\ e.magicOk /\ e.major = 2 /\ e.minor = 1
  /\ st' = "Rkr"
  /\ UNCHANGED <<inp, h, ts, b0Len, rkrEnd, certEnd, rootLen, signerLen, covTo, blk, secLen, cur, ncmd>>

\* flags || table of root key hashes (only if more than one) || the root public key used
RootKeyRecord(e) ==
  /\ st = "Rkr" /\ e.at = h.certOff + 12
  /\ e.nKeys \in 1..4 /\ e.used < e.nKeys /\ e.ctype \in {1, 2}
  /\ e.curveLen = (IF e.ctype = 1 THEN 32 ELSE 48)
  /\ e.tableLen = (IF e.nKeys > 1 THEN e.nKeys * e.curveLen ELSE 0)
  /\ e.keyAt = e.at + 4 + e.tableLen /\ e.end = e.keyAt + 2 * e.curveLen
  /\ e.keyInTable                                  \* H(root key) is entry `used` of the table
  /\ e.rotkthOk                                    \* H(table) (one key: H(key)) is the provisioned root-of-trust hash
  /\ In(e.nKeys = inp.nkeys /\ e.used = inp.used /\ e.curveLen = inp.curve /\ e.ca = ~inp.isk)      \* = input
  \* the record carries the supplied key with both coordinates at the full width of the curve: a leading zero byte of X / Y
  \* is on the wire (and under the hash - keyInTable / rotkthOk are evaluated over these 2 * curveLen bytes)      (= input)
  /\ In(e.keyLz = Lz(inp.rk[inp.used + 1]))
  /\ rkrEnd' = e.end /\ rootLen' = 2 * e.curveLen /\ signerLen' = 2 * e.curveLen
  /\ certEnd' = e.end
  /\ st' = IF e.ca THEN "CertEnd" ELSE "Isk"
  /\ UNCHANGED <<inp, h, ts, b0Len, covTo, blk, secLen, cur, ncmd>>

\* sigOffset, constraints, flags || ISK public key || user data || signature by the root key over
\* root key record || everything of the ISK certificate before its signature
IskCert(e) ==
  /\ st = "Isk" /\ e.at = rkrEnd
  /\ e.iskType \in {1, 2} /\ e.iskLen = (IF e.iskType = 1 THEN 32 ELSE 48)
  /\ e.userDataLen >= 0 /\ e.userDataLen < 65536 /\ e.sigOff = 12 + 2 * e.iskLen + e.userDataLen
  /\ e.hasUserData = (e.userDataLen > 0)
  /\ e.signedFrom = h.certOff + 12 /\ e.signedTo = e.at + e.sigOff
  /\ e.sigLen = rootLen /\ e.ok
  /\ e.end = e.signedTo + e.sigLen
  /\ In(e.iskLen = inp.iskCurve /\ e.userDataLen = inp.udLen /\ e.udSha = inp.udSha /\ e.constraints = inp.constraints)   \* = input
  /\ In(e.iskLz = Lz(inp.ik))                                          \* the ISK at full width, as supplied      (= input)
  /\ certEnd' = e.end /\ signerLen' = 2 * e.iskLen
  /\ st' = "CertEnd"
  /\ UNCHANGED <<inp, h, ts, b0Len, rkrEnd, rootLen, covTo, blk, secLen, cur, ncmd>>

CertBlockEnd(e) ==
  /\ st = "CertEnd" /\ e.end = certEnd /\ e.sizeField = certEnd - h.certOff
  /\ st' = "Block0"
  /\ UNCHANGED <<inp, h, ts, b0Len, rkrEnd, certEnd, rootLen, signerLen, covTo, blk, secLen, cur, ncmd>>

\* ONE signature (image signing key, or root key when there is no ISK) over everything before it - which
\* includes H(block 1), the anchor of the hash chain; block 0 ends with the signature
VerifyBlock0(e) ==
  /\ st = "Block0" /\ e.frm = 0 /\ e.to = certEnd /\ e.sigAt = certEnd
  /\ e.sigLen = signerLen /\ e.digestLen = signerLen \div 2 /\ e.ok
  /\ e.end = e.sigAt + e.sigLen /\ b0Len = e.end
  /\ covTo' = e.end /\ blk' = 1
  /\ st' = IF inp.enc THEN "Kdk" ELSE "Chain"
  /\ UNCHANGED <<inp, h, ts, b0Len, rkrEnd, certEnd, rootLen, signerLen, secLen, cur, ncmd>>

\* ------------------------------------------------------------ keys
\* Documented KDF: K(i) = AES-CMAC(key, label || context || L || i), i = 1 .. keyBits/128 (big-endian 32-bit counter)
\*   label   = derivation constant, 12 bytes little endian            (here: six 16-bit limbs, most significant first)
\*   context = 8 zero bytes, access rights << 6, mode (01 = key derivation key, 10h = block key), 00, key option (20h/21h)
\*   L       = length of the derived key in bits, 32 bit big endian; it follows the HASH type: 128 with SHA-256, 256 with SHA-384
KdfOk(f, const, mode) ==
  /\ f.const = const /\ f.rightsByte = inp.rights * 64 /\ f.modeByte = mode
  /\ f.keyBits = KeyBits(h.hashLen) /\ f.opt = (IF KeyBits(h.hashLen) = 128 THEN 32 ELSE 33)
  /\ f.iters = KeyBits(h.hashLen) \div 128

DeriveKdk(e) ==
  /\ st = "Kdk" /\ e.pckBits = inp.pckBits /\ e.pckBits \in {128, 256}
  /\ KdfOk(e, <<0, 0>> \o ts, 1)                                       \* constant = the header's timestamp
  /\ st' = "Chain"
  /\ UNCHANGED <<inp, h, ts, b0Len, rkrEnd, certEnd, rootLen, signerLen, covTo, blk, secLen, cur, ncmd>>

\* ------------------------------------------------------------ hash chain
Block(e) ==
  /\ st = "Chain" /\ blk <= h.blockCount
  /\ e.i = blk /\ e.at = covTo /\ e.at = b0Len + (blk - 1) * h.blockSize
  /\ e.num = blk                                                       \* numbered from 1
  /\ e.hashOk                                                          \* H(whole block) = hash carried by the predecessor
  /\ e.last = (blk = h.blockCount) /\ (e.last => e.nextZero)           \* the chain ends with the zero hash
  /\ e.enc = inp.enc                                                   \* the REQUEST decides; a plain block is read without any key
  /\ e.cipherAt = e.at + 4 + h.hashLen /\ e.cipherLen = CHUNK
  /\ (inp.enc => KdfOk(e.kdf, <<0, 0, 0, 0>> \o LenW(blk), 16) /\ e.ivZero)    \* constant = block number
  /\ covTo' = e.at + h.blockSize /\ blk' = blk + 1
  /\ st' = IF blk = h.blockCount THEN "Section" ELSE "Chain"
  /\ UNCHANGED <<inp, h, ts, b0Len, rkrEnd, certEnd, rootLen, signerLen, secLen, cur, ncmd>>

\* ------------------------------------------------------------ decrypted stream
Section(e) ==
  /\ st = "Section" /\ e.uid = 1 /\ e.type = 1
  /\ e.streamLen = CHUNK * h.blockCount
  /\ e.len <= e.streamLen - 16 /\ e.streamLen - 16 - e.len < CHUNK     \* the section ends in the last block
  /\ secLen' = e.len /\ cur' = 16 /\ st' = "Cmd"
  /\ UNCHANGED <<inp, h, ts, b0Len, rkrEnd, certEnd, rootLen, signerLen, covTo, blk, ncmd>>

Cmd(e) ==
  /\ st = "Cmd" /\ cur < 16 + secLen
  /\ e.i = ncmd + 1 /\ e.at = cur /\ e.tagOk /\ e.cmd \in 1..14
  /\ (e.cmd \in DataCmds => e.w2[1] \in 0..4095 /\ e.w2[2] \in 0..65535)
  /\ e.hasX = HasX(e.cmd) /\ e.dataLen = DataLenOf(e.cmd, e.w2) /\ e.tail = TailLen(e.cmd)
  /\ e.size = Size(e.cmd, e.dataLen) /\ cur + e.size <= 16 + secLen
  /\ In(/\ e.i <= Len(inp.cmds)                                        \* decodes to the command supplied   (= input)
        /\ LET c == inp.cmds[e.i] IN
             /\ e.cmd = c.t /\ e.w1 = WireW1(c) /\ e.w2 = WireW2(c) /\ e.x = WireX(c)
             /\ e.dataLen = c.dlen /\ e.dsha = c.dsha)
  /\ cur' = cur + e.size /\ ncmd' = ncmd + 1
  /\ UNCHANGED <<st, inp, h, ts, b0Len, rkrEnd, certEnd, rootLen, signerLen, covTo, blk, secLen>>

\* all commands consumed, all commands supplied were found, and the authenticated prefix is the whole file
Accept(e) ==
  /\ st = "Cmd" /\ cur = 16 + secLen /\ e.end = cur
  /\ In(ncmd = Len(inp.cmds)) /\ e.nCmds = ncmd
  /\ covTo = h.fileLen /\ e.covEnd = covTo
  /\ st' = "Accepted"
  /\ UNCHANGED <<inp, h, ts, b0Len, rkrEnd, certEnd, rootLen, signerLen, covTo, blk, secLen, cur, ncmd>>

Step(e) == CASE e.ev = "ParseHeader"   -> ParseHeader(e)
             [] e.ev = "HeaderFields"  -> HeaderFields(e)
             [] e.ev = "Layout"        -> Layout(e)
             [] e.ev = "CertHeader"    -> CertHeader(e)
             [] e.ev = "RootKeyRecord" -> RootKeyRecord(e)
             [] e.ev = "IskCert"       -> IskCert(e)
             [] e.ev = "CertBlockEnd"  -> CertBlockEnd(e)
             [] e.ev = "VerifyBlock0"  -> VerifyBlock0(e)
             [] e.ev = "DeriveKdk"     -> DeriveKdk(e)
             [] e.ev = "Block"         -> Block(e)
             [] e.ev = "Section"       -> Section(e)
             [] e.ev = "Cmd"           -> Cmd(e)
             [] e.ev = "Accept"        -> Accept(e)
             [] OTHER                  -> FALSE
=============================================================================
