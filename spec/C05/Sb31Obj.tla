------------------------------- MODULE Sb31Obj -------------------------------
(* I-spec of the history part of C05: ONE SecureBinary31 object that is exported repeatedly, with commands added in   *)
(* between.  Object state: the header's total length and the running hash of the command container survive between  *)
(* exports.  ResetOnExport = FALSE models the update rule as built (total length is ADDED to, the running hash is      *)
(* never reset), TRUE the intended one.  Hashes are symbolic: Hsh(e, i, next) is the hash of block i of export e that  *)
(* carries `next`.  RomAccepts is the chain / layout part of the loader automaton Sb31Rom on the symbolic file.        *)
(* MC  : EveryExportValid holds for the intended rule; for the as-built rule TLC finds Export ; Export (a PREDICTION   *)
(*       that the harness replays on the real object - only the R-spec's verdict on real bytes counts).                *)
(* GEN : with GEN = 1 every history that ends with Export is printed once for replay.                                  *)
EXTENDS Naturals, Sequences, TLC, Json, IOUtils
CONSTANTS HdrLen, HashLen, CertLen, SigLen, MaxBlocks, MaxExports, MaxOps,
          ResetOnExport      \* FALSE = as built, TRUE = intended
VARIABLES nblocks, totalLen, finalHash, file, nexp, hist
vars == <<nblocks, totalLen, finalHash, file, nexp, hist>>
Gen == IOEnv.GEN = "1"
Zero == <<"zero">>
Hsh(e, i, next) == <<"h", e, i, next>>
Init == nblocks = 1 /\ totalLen = HdrLen /\ finalHash = Zero /\ file = <<>> /\ nexp = 0 /\ hist = <<>>
\* blocks are processed last-to-first, each embedding the running hash, which becomes the hash of the block just made
RECURSIVE Chain(_, _, _)
Chain(e, i, carried) == IF i = 0 THEN <<>> ELSE Chain(e, i - 1, Hsh(e, i, carried)) \o <<[n |-> i, next |-> carried]>>
RECURSIVE Top(_, _, _)
Top(e, i, carried) == IF i = 0 THEN carried ELSE Top(e, i - 1, Hsh(e, i, carried))
Export ==
  /\ nexp < MaxExports /\ Len(hist) < MaxOps /\ nexp' = nexp + 1
  /\ LET start  == IF ResetOnExport THEN Zero ELSE finalHash
         blocks == Chain(nexp + 1, nblocks, start)
         top    == Top(nexp + 1, nblocks, start)
         tl     == (IF ResetOnExport THEN HdrLen ELSE totalLen) + HashLen + CertLen + SigLen
     IN /\ finalHash' = top /\ totalLen' = tl
        /\ file' = [hdrTotal |-> tl, hdrBlocks |-> nblocks, firstHash |-> top, blocks |-> blocks,
                    block0Len |-> HdrLen + HashLen + CertLen + SigLen]
  /\ hist' = Append(hist, "Export")
  /\ (Gen => PrintT(ToJson(hist')))
  /\ UNCHANGED nblocks
\* adding a command may or may not need another block
AddCommand == /\ Len(hist) < MaxOps - 1 /\ nexp < MaxExports /\ (IF hist = <<>> THEN TRUE ELSE hist[Len(hist)] # "Add")
              /\ \E d \in {0, 1} : nblocks + d <= MaxBlocks /\ nblocks' = nblocks + d
              /\ hist' = Append(hist, "Add") /\ UNCHANGED <<totalLen, finalHash, file, nexp>>
Next == Export \/ AddCommand
Spec == Init /\ [][Next]_vars
\* the loader on the last exported file (clauses Layout, Block of Sb31Rom)
RomAccepts(f) == /\ f.hdrTotal = f.block0Len                              \* total length describes block 0
                 /\ Len(f.blocks) = f.hdrBlocks
                 /\ \A i \in 1..Len(f.blocks) : f.blocks[i].n = i
                 /\ f.firstHash = Hsh(nexp, 1, f.blocks[1].next)          \* header carries H(block 1)
                 /\ \A i \in 1..Len(f.blocks) - 1 : f.blocks[i].next = Hsh(nexp, i + 1, f.blocks[i + 1].next)
                 /\ f.blocks[Len(f.blocks)].next = Zero                   \* the chain ends with the zero hash
EveryExportValid == file # <<>> => RomAccepts(file)
=============================================================================
