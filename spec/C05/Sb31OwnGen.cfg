CONSTANTS MaxLen = 4
 Holds = "snapshot"
 EmitOn = TRUE
INIT Init
NEXT Next
INVARIANT ExportCarriesGiven
INVARIANT HandedIsContentThen
CHECK_DEADLOCK FALSE
