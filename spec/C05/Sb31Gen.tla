------------------------------- MODULE Sb31Gen -------------------------------
(* GEN form of C05: TLC enumerates (GEN_MODE = tour) or simulates (GEN_MODE = sim) ABSTRACT cases                    *)
(*   [curve, nkeys, used, isk, ud, pck, rights, enc, nxp, rk : Seq(KeyClasses), ik : KeyClasses, cmds : Seq([t, dl]), *)
(*    given : [pck, rights, isk], dsc]                                                                                *)
(* enc / isk are what the caller REQUESTS, given (Sb31Format!Givens) what it SUPPLIES: the harness hands the           *)
(* constructors a part-common key of given.pck bits (0: none), access rights given.rights (-1: none) and the material   *)
(* of an ISK certificate iff given.isk - whether requested or not (tour G: every combination of request and supply).    *)
(* dsc = the optional description: "none" (argument left out), "empty", "text" (1 .. 20 characters), "any" (the harness   *)
(* draws one of the three from VERIF_SEED).                                                                              *)
(* rk[i] = value class of the root key at position i of the root-of-trust set, ik = value class of the image signing  *)
(* key (Sb31Format!KeyClasses: full width / leading zero byte in X / in Y / in both); the harness takes a key of that  *)
(* class from its pool.                                                                                              *)
(* which the harness concretises (addresses, data bytes, timestamp ... from VERIF_SEED), builds through the real     *)
(* classes and exports.  The tours are computed with the format operators of the R-spec (Size): data lengths are     *)
(* chosen so that the command stream ends at every 16-byte offset of the 256-byte chunk, in block 1 .. MaxBlocks,    *)
(* with every padding length of the last data word.                                                                  *)
EXTENDS Sb31Format, Json, IOUtils
VARIABLES case, done
Mode == IOEnv.GEN_MODE
Full == atoi(IOEnv.GEN_FULL) = 1
MaxBlocks == IF Full THEN 5 ELSE 3
MaxCmds == atoi(IOEnv.GEN_MAXCMDS)

Types == 1..14
AllFull(n) == [i \in 1..n |-> "full"] \o <<>>
Cfg(cv, nk, us, ik, ud, pck, rt, en, nx) ==
  [curve |-> cv, nkeys |-> nk, used |-> us, isk |-> ik, ud |-> ud, pck |-> pck, rights |-> rt, enc |-> en, nxp |-> nx,
   rk |-> AllFull(nk), ik |-> "full", cmds |-> <<>>, given |-> Requested(en, pck, rt, ik), dsc |-> "any"]
Supplied(cfg, g) == [cfg EXCEPT !.given = g]
Described(cfg, d) == [cfg EXCEPT !.dsc = d]
Dscs == {"none", "empty", "text"}
GivensOf(cfg) == Givens(cfg.enc, cfg.pck, cfg.rights, cfg.isk)
Keyed(cfg, rk, ik) == [cfg EXCEPT !.rk = rk, !.ik = IF cfg.isk THEN ik ELSE "full"]
With(cfg, cmds) == [cfg EXCEPT !.cmds = cmds]
AC(t, dl) == [t |-> t, dl |-> dl]

\* ---- tour A: every configuration (root set x used key x ISK / user data x PCK x rights x plain / encrypted x NXP container)
RootSets == {<<n, u>> : n \in 1..4, u \in 0..3} \cap {p \in (1..4) \X (0..3) : p[2] < p[1]}
IskModes == {<<FALSE, 0>>, <<TRUE, 0>>, <<TRUE, 4>>, <<TRUE, 96>>}
EncModes == {<<FALSE, 128, 0>>} \cup {<<TRUE, p, r>> : p \in {128, 256}, r \in 0..3}
AllCfgs == {Cfg(cv, rs[1], rs[2], ik[1], ik[2], en[2], en[3], en[1], nx)
            : cv \in {32, 48}, rs \in RootSets, ik \in IskModes, en \in EncModes, nx \in {FALSE, TRUE}}
TourA == {With(c, <<AC(1, 0), AC(2, 300), AC(14, 0)>>) : c \in IF Full THEN AllCfgs ELSE {x \in AllCfgs : ~x.nxp \/ (x.nkeys = 3 /\ x.rights = 2)}}

\* ---- tour R: the VALUE CLASSES of the keys - every root set x used key, with a key of every short class at every position
\*      (the used key / another member of the set) and all positions at once, x no ISK / ISK of every class
\*      (thorough: every vector of classes over the set)
OneShort(n, p, c) == [i \in 1..n |-> IF i = p THEN c ELSE "full"] \o <<>>
KeyVecs(n) == IF Full THEN {v \o <<>> : v \in [1..n -> KeyClasses]}
              ELSE {AllFull(n)} \cup {OneShort(n, p, c) : p \in 1..n, c \in ShortClasses} \cup {[i \in 1..n |-> c] \o <<>> : c \in ShortClasses}
IskKeys == {<<FALSE, 0, "full">>} \cup {<<TRUE, IF c \in {"full", "lzy"} THEN 4 ELSE 0, c>> : c \in KeyClasses}
TourR == UNION {{With(Keyed(Cfg(cv, rs[1], rs[2], ik[1], ik[2], IF cv = 32 THEN 128 ELSE 256, rs[2], TRUE, FALSE), rk, ik[3]),
                      <<AC(1, 0), AC(2, 300), AC(14, 0)>>)
                 : cv \in {32, 48}, ik \in IskKeys, rk \in KeyVecs(rs[1])} : rs \in RootSets}
\* lemma of the tour: on every curve a key of every short class is the used root key, is an unused member of the set, is the
\* only root key, is the image signing key; with and without ISK
KeyLemma == \A cv \in {32, 48}, c \in ShortClasses, ik \in BOOLEAN :
              /\ \E x \in TourR : x.curve = cv /\ x.isk = ik /\ x.nkeys > 1 /\ x.rk[x.used + 1] = c
              /\ \E x \in TourR : x.curve = cv /\ x.isk = ik /\ x.nkeys > 1 /\ x.rk[x.used + 1] = "full" /\ \E i \in 1..x.nkeys : x.rk[i] = c
              /\ \E x \in TourR : x.curve = cv /\ x.isk = ik /\ x.nkeys = 1 /\ x.rk[1] = c
              /\ \E x \in TourR : x.curve = cv /\ x.isk /\ x.ik = c /\ x.rk = AllFull(x.nkeys)
              /\ \A n \in 1..4, p \in 1..4 : p <= n => \E x \in TourR : x.curve = cv /\ x.nkeys = n /\ x.rk[p] = c
ASSUME KeyLemma

\* ---- tour G: what is SUPPLIED x what is REQUESTED - plain / encrypted (every key size and access right) x no ISK / ISK / ISK with user
\*      data x both curves, each with EVERY supply the request admits: a plain container with no / a 128-bit / a 256-bit part-common key
\*      x no / every access right, a container without ISK with / without the material of an ISK certificate; x the optional description
\*      left out / empty / given
GBase == {x \in AllCfgs : x.nkeys = 2 /\ x.used = 1 /\ ~x.nxp /\ x.ud \in {0, 4}}
TourG == UNION {{With(Described(Supplied(c, g), d), <<AC(1, 0), AC(2, 300), AC(14, 0)>>) : g \in GivensOf(c), d \in Dscs} : c \in GBase}
GivenLemma == \A cv \in {32, 48} :
                /\ \A ik \in BOOLEAN, p \in GivenPcks, r \in GivenRights, d \in Dscs :
                     \E x \in TourG : x.curve = cv /\ ~x.enc /\ x.isk = ik /\ x.given.pck = p /\ x.given.rights = r /\ x.given.isk /\ x.dsc = d
                /\ \A en \in BOOLEAN, p \in GivenPcks, r \in GivenRights, d \in Dscs :
                     (en => p # 0 /\ r # NoRights)
                     => \E x \in TourG : x.curve = cv /\ x.enc = en /\ ~x.isk /\ ~x.given.isk /\ x.given.pck = p /\ x.given.rights = r /\ x.dsc = d
                /\ \A x \in TourG : x.enc => x.given.pck = x.pck /\ x.given.rights = x.rights      \* what is requested is supplied
                /\ \A x \in TourG : x.isk => x.given.isk
ASSUME GivenLemma

\* ---- a small configuration menu for the command tours
FewCfgs == {Cfg(32, 1, 0, FALSE, 0, 128, 0, TRUE, FALSE), Cfg(48, 4, 2, TRUE, 4, 256, 3, TRUE, FALSE),
            Cfg(32, 2, 1, TRUE, 0, 256, 1, TRUE, TRUE), Cfg(48, 1, 0, FALSE, 0, 128, 2, FALSE, FALSE)}
TwoCfgs == {Cfg(32, 4, 3, TRUE, 0, 128, 2, TRUE, FALSE), Cfg(48, 2, 0, FALSE, 0, 256, 3, TRUE, FALSE)}

\* ---- tour B: the stream (16 + commands) ends at offset 16*r of block b; the data command's last word is padded by q bytes
Fixed(t) == Size(t, 0)                          \* size of a data command without its data
Unit(t) == IF t = 5 THEN 4 ELSE 1               \* fuse data comes in words
Pads == IF Full THEN 0..15 ELSE {0, 1, 15}
Targets(t) == {p \in {CHUNK * (b - 1) + 16 * r - 16 - Fixed(t) : b \in 1..MaxBlocks, r \in 1..16} : p > 0}
DLens(t) == {p - q : p \in Targets(t), q \in {x \in Pads : x % Unit(t) = 0}}
BCfgs == IF Full THEN FewCfgs ELSE {c \in FewCfgs : c.nkeys # 2 /\ c.enc}
TourB == UNION {{With(c, <<AC(t, dl)>>) : c \in BCfgs, dl \in DLens(t)} : t \in DataCmds}
\* the same with a command in front, so that the data command itself straddles block boundaries at other offsets
TourB2 == {With(c, <<AC(3, 0), AC(t, dl), AC(14, 0)>>) : c \in TwoCfgs, t \in DataCmds, dl \in {0, 4, 12, 16, 176, 192, 196, 208, 224, 240, 256, 432, 448, 464}}

\* ---- tour C: every command type alone (with a data length menu) and every ordered pair of command types
Lens == IF Full THEN 0..530 ELSE {0, 1, 4, 15, 16, 17, 100, 255, 256, 257, 512}
TourC1 == UNION {{With(c, <<AC(t, dl)>>) : c \in TwoCfgs, dl \in {x \in Lens : t \in DataCmds \/ x = 0}} : t \in Types}
TourC2 == {With(c, <<AC(t, 20), AC(u, 8)>>) : c \in TwoCfgs, t \in Types, u \in Types}
TourD == {c \in FewCfgs : TRUE}                 \* no command at all
\* large payloads: many blocks
TourE == {With(c, <<AC(2, dl), AC(t, 36)>>) : c \in TwoCfgs, t \in {7, 9}, dl \in IF Full THEN {4096, 20000, 65536, 70001} ELSE {4096, 70001}}
Tour == TourA \cup TourR \cup TourG \cup TourB \cup TourB2 \cup TourC1 \cup TourC2 \cup TourD \cup TourE

\* lemma of the tour (checked as an invariant): every 16-byte stream end x block 1..MaxBlocks is reached by tour B
RECURSIVE SLen(_, _)
SLen(cmds, k) == IF k = 0 THEN 16 ELSE SLen(cmds, k - 1) + Size(cmds[k].t, IF cmds[k].t = 5 THEN cmds[k].dl - (cmds[k].dl % 4) ELSE cmds[k].dl)
StreamLen(cmds) == SLen(cmds, Len(cmds))
Ends == {<<(StreamLen(c.cmds) - 1) \div CHUNK + 1, StreamLen(c.cmds) % CHUNK>> : c \in TourB}
TourLemma == \A b \in 1..MaxBlocks : \A r \in 0..15 : (b = 1 /\ r \in {0, 1, 2}) \/ \E e \in Ends : e[1] = b /\ e[2] = 16 * r
ASSUME TourLemma

\* ---- simulation: random configuration, random command list over all 14 types with a data length menu
SimLens == {0, 1, 3, 4, 16, 33, 100, 208, 240, 255, 256, 257, 300, 511, 512, 700, 1024}
Grow == /\ ~done /\ Mode = "sim" /\ Len(case.cmds) < MaxCmds
        /\ \E t \in Types : \E dl \in SimLens : (t \in DataCmds \/ dl = 0) /\ case' = With(case, Append(case.cmds, AC(t, dl)))
        /\ UNCHANGED done
\* simulation: the key classes of the root set and of the ISK are drawn before the first command
Keys == /\ ~done /\ Mode = "sim" /\ Len(case.cmds) = 0 /\ case.rk = AllFull(case.nkeys) /\ case.ik = "full"
        /\ \E v \in [1..case.nkeys -> KeyClasses] : \E c \in KeyClasses : case' = Keyed(case, v \o <<>>, c)
        /\ UNCHANGED done
\* simulation: what is supplied next to the request is drawn before the first command (a disjunct of its own: the simulator draws a
\* disjunct first, so a fair share of the simulated cases carries material that is not requested)
Give == /\ ~done /\ Mode = "sim" /\ Len(case.cmds) = 0 /\ case.given = Requested(case.enc, case.pck, case.rights, case.isk)
        /\ \E g \in GivensOf(case) : g # case.given /\ case' = Supplied(case, g)
        /\ UNCHANGED done
Finish == /\ ~done /\ (Mode = "tour" \/ Len(case.cmds) >= 1)
          /\ done' = TRUE /\ PrintT(ToJson(case)) /\ UNCHANGED case
GInit == done = FALSE /\ case \in (IF Mode = "tour" THEN Tour ELSE AllCfgs)
GNext == Keys \/ Give \/ Grow \/ Finish
=============================================================================
