CONSTANTS
 HdrLen = 60
 HashLen = 32
 CertLen = 300
 SigLen = 64
 MaxBlocks = 3
 MaxExports = 3
 MaxOps = 5
 ResetOnExport = FALSE
SPECIFICATION Spec
INVARIANT EveryExportValid
CHECK_DEADLOCK FALSE
