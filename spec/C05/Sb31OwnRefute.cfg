CONSTANTS MaxLen = 4
 Holds = "alias"
 EmitOn = FALSE
INIT Init
NEXT Next
INVARIANT ExportCarriesGiven
CHECK_DEADLOCK FALSE
